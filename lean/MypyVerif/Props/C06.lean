import MypyVerif.Proofs.Ownership
import MypyVerif.Gen.C06Sample
/-!
# C06 — compiled code is memory safe: balanced reference counts, no undefined reads

`checkFunc_sound`: if the verifier accepts the (flattened) final IR of a function then **every** execution of the
ownership semantics from an allowed initial state — any path, any length, any number of loop iterations, every
error edge — is safe: no micro-op is stuck (no count goes negative, no non-`x` decref / steal / use touches NULL,
an uninitialised local or a dangling pointer, no owned reference is overwritten) and every `Return` leaves nothing
owned behind.  Proof: the checked block-entry annotation is an invariant of `ReachVia` (induction on the path).

The statement "every function mypyc produces is accepted" is false of the current tree (finding F14 and the
temp-register-across-`await` crash): the witnesses are refuted below, the real ones regenerated on every run in
`Gen/C06Sample.lean` (`sample_rejected_unsafe`).
-/
namespace Own

/-! ## the invariant along every path -/

theorem checkAnn_inv {f : FuncIR} {ann : Ann} (h : checkAnn f ann = true) :
    ∀ {path : List Lbl} {l : Lbl} {s : CState}, ReachVia f path l s → Inv ann l s := by
  unfold checkAnn at h
  simp only [Bool.and_eq_true] at h
  obtain ⟨hentry, hblocks⟩ := h
  obtain ⟨hlen, hok⟩ := checkBlocks_sound hblocks
  intro path l s hr
  induction hr with
  | entry hI =>
    unfold checkEntry at hentry
    simp only [Bool.and_eq_true] at hentry
    obtain ⟨b, hb, hG⟩ := flowsTo_sound hentry.2 (Gamma_init hentry.1 hI)
    exact ⟨b, hb, hG⟩
  | @step path l s s' s'' b ss ss' es e _ hb hrun hs' hterm he hrun' hs'' ih =>
    obtain ⟨a, ha, hG⟩ := ih
    have ha' : ann.toList[l]? = some (some a) := by
      have hlt : l < ann.size := by
        by_cases hlt : l < ann.size
        · exact hlt
        · have : ann.getD l none = none := by
            simp [Array.getD_eq_getD_getElem?, Array.getElem?_eq_none (Nat.le_of_not_lt hlt)]
          rw [this] at ha; cases ha
      have : ann.getD l none = ann[l] := by
        simp [Array.getD_eq_getD_getElem?, Array.getElem?_eq_getElem hlt]
      rw [this] at ha
      simp [Array.getElem?_toList, Array.getElem?_eq_getElem hlt, ha]
    have hb' : f.blocks.toList[l]? = some b := by simpa [Array.getElem?_toList] using hb
    obtain ⟨a', hra, hct⟩ := hok l a b ha' hb'
    obtain ⟨ss0, hrun0, hall0⟩ := aRun_sound b.ops hra hG
    rw [hrun] at hrun0
    simp only [Option.some.injEq] at hrun0
    subst hrun0
    have hG' := hall0 s' hs'
    rw [hterm] at hct
    unfold checkTerm at hct
    have hce := List.all_eq_true.mp hct e he
    obtain ⟨_, ss1, hrun1, hall1⟩ := checkEdge_sound hce hG'
    rw [hrun'] at hrun1
    simp only [Option.some.injEq] at hrun1
    subst hrun1
    exact hall1 s'' hs''

theorem Inv_blockSafe {f : FuncIR} {ann : Ann} (h : checkAnn f ann = true) {l : Lbl} {s : CState}
    (hinv : Inv ann l s) : BlockSafe f l s := by
  unfold checkAnn at h
  simp only [Bool.and_eq_true] at h
  obtain ⟨_, hblocks⟩ := h
  obtain ⟨hlen, hok⟩ := checkBlocks_sound hblocks
  obtain ⟨a, ha, hG⟩ := hinv
  have hlt : l < ann.size := by
    by_cases hlt : l < ann.size
    · exact hlt
    · have : ann.getD l none = none := by
        simp [Array.getD_eq_getD_getElem?, Array.getElem?_eq_none (Nat.le_of_not_lt hlt)]
      rw [this] at ha; cases ha
  have ha' : ann.toList[l]? = some (some a) := by
    have : ann.getD l none = ann[l] := by
      simp [Array.getD_eq_getD_getElem?, Array.getElem?_eq_getElem hlt]
    rw [this] at ha
    simp [Array.getElem?_toList, Array.getElem?_eq_getElem hlt, ha]
  have hlb : l < f.blocks.size := by
    have h1 : ann.toList.length = ann.size := Array.length_toList
    have h2 : f.blocks.toList.length = f.blocks.size := Array.length_toList
    rw [h1, h2] at hlen
    rw [← hlen]; exact hlt
  have hb' : f.blocks.toList[l]? = some f.blocks[l] := by
    simp [Array.getElem?_toList, Array.getElem?_eq_getElem hlb]
  obtain ⟨a', hra, hct⟩ := hok l a f.blocks[l] ha' hb'
  obtain ⟨ss, hrun, hall⟩ := aRun_sound _ hra hG
  refine ⟨f.blocks[l], Array.getElem?_eq_getElem hlb, ss, hrun, ?_⟩
  intro s' hs'
  have hG' := hall s' hs'
  cases hterm : f.blocks[l].term with
  | unreachable => trivial
  | ret v =>
    rw [hterm] at hct
    exact aRet_sound hct hG'
  | br es =>
    rw [hterm] at hct
    intro e he
    have hce := List.all_eq_true.mp hct e he
    obtain ⟨ht, ss1, hrun1, _⟩ := checkEdge_sound hce hG'
    exact ⟨ht, ss1, hrun1⟩

/-- A consistent annotation certifies safety on every path. -/
theorem checkAnn_sound {f : FuncIR} {ann : Ann} (h : checkAnn f ann = true) : Safe f :=
  fun _ _ _ hr => Inv_blockSafe h (checkAnn_inv h hr)

/-- **C06, main theorem.**  If `checkFunc` accepts `f`, then on every path from the entry — any length, any number
    of loop iterations, every exceptional edge — every block entered is safe in the concrete ownership semantics. -/
theorem checkFunc_sound (f : FuncIR) (h : checkFunc f = true) : Safe f :=
  checkAnn_sound (ann := infer f) h

/-! ## what "safe" says, spelled out per micro-op -/

theorem bindAll_each {α β : Type} {g : α → Option (List β)} :
    ∀ {xs : List α} {zs : List β}, bindAll g xs = some zs → ∀ x ∈ xs, ∃ r, g x = some r := by
  intro xs
  induction xs with
  | nil => intro zs _ x hx; cases hx
  | cons y rest ih =>
    intro zs h x hx
    unfold bindAll at h
    cases hy : g y with
    | none => simp [hy] at h
    | some ry =>
      cases hr : bindAll g rest with
      | none => simp [hy, hr] at h
      | some rr =>
        cases hx with
        | head => exact ⟨ry, hy⟩
        | tail _ hx' => exact ih hr x hx'

theorem runOps_append {xs ys : List MicroOp} :
    ∀ {s : CState} {zs : List CState}, runOps (xs ++ ys) s = some zs →
      ∃ ss, runOps xs s = some ss ∧ ∀ s' ∈ ss, ∃ zs', runOps ys s' = some zs' := by
  induction xs with
  | nil =>
    intro s zs h
    exact ⟨[s], rfl, fun s' hs' => by
      have : s' = s := by simpa using hs'
      subst this; exact ⟨zs, by simpa using h⟩⟩
  | cons op rest ih =>
    intro s zs h
    simp only [List.cons_append] at h
    unfold runOps at h
    cases hstep : stepOp op s with
    | none => simp [hstep] at h
    | some ss1 =>
      simp only [hstep] at h
      -- every successor runs `rest ++ ys`
      have hall : ∀ x ∈ ss1, ∃ ys', runOps rest x = some ys' ∧
          ∀ y ∈ ys', ∃ zs', runOps ys y = some zs' := by
        intro x hx
        have : ∃ r, runOps (rest ++ ys) x = some r := bindAll_each h x hx
        obtain ⟨r, hr⟩ := this
        obtain ⟨ss2, h2, h3⟩ := ih hr
        exact ⟨ss2, h2, h3⟩
      obtain ⟨ws, hw, hP⟩ := bindAll_all (f := runOps rest)
        (P := fun y => ∃ zs', runOps ys y = some zs') hall
      refine ⟨ws, ?_, hP⟩
      unfold runOps
      simp [hstep, hw]

/-- On every path of an accepted function, whenever control stands in front of a micro-op of a block, that
    micro-op is not stuck. -/
theorem micro_op_not_stuck {f : FuncIR} (h : checkFunc f = true)
    {path : List Lbl} {l : Lbl} {s s' : CState} {b : Block} {pre post : List MicroOp} {op : MicroOp} {ss : List CState}
    (hr : ReachVia f path l s) (hb : f.blocks[l]? = some b) (hops : b.ops = pre ++ op :: post)
    (hpre : runOps pre s = some ss) (hs' : s' ∈ ss) : ∃ next, stepOp op s' = some next := by
  obtain ⟨b', hb', zs, hrun, _⟩ := checkFunc_sound f h path l s hr
  rw [hb] at hb'
  simp only [Option.some.injEq] at hb'
  subst hb'
  rw [hops] at hrun
  obtain ⟨ss0, h0, hall⟩ := runOps_append hrun
  rw [hpre] at h0
  simp only [Option.some.injEq] at h0
  subst h0
  obtain ⟨zs', hz⟩ := hall s' hs'
  unfold runOps at hz
  cases hstep : stepOp op s' with
  | none => simp [hstep] at hz
  | some next => exact ⟨next, rfl⟩

theorem stepOp_use_some {v : Var} {s : CState} {next : List CState} (h : stepOp (.use v) s = some next) :
    (s v).usable = true := by
  simp only [stepOp, stepUnary, MicroOp.var, stepVal] at h
  by_cases hu : (s v).usable = true
  · exact hu
  · simp [hu] at h

theorem stepOp_decref_some {v : Var} {s : CState} {next : List CState} (h : stepOp (.decref v false) s = some next) :
    s v = .imm ∨ ∃ n k, s v = .obj (n + 1) k := by
  simp only [stepOp, stepUnary, MicroOp.var, stepVal] at h
  cases hv : s v with
  | undef => simp [hv] at h
  | null => simp [hv] at h
  | imm => exact Or.inl rfl
  | obj n k =>
    cases n with
    | zero => simp [hv] at h
    | succ m => exact Or.inr ⟨m, k, rfl⟩

theorem stepOp_steal_some {v : Var} {s : CState} {next : List CState} (h : stepOp (.steal v) s = some next) :
    s v = .imm ∨ ∃ n k, s v = .obj (n + 1) k := by
  simp only [stepOp, stepUnary, MicroOp.var, stepVal] at h
  cases hv : s v with
  | undef => simp [hv, stepSteal] at h
  | null => simp [hv, stepSteal] at h
  | imm => exact Or.inl rfl
  | obj n k =>
    cases n with
    | zero => simp [hv, stepSteal] at h
    | succ m => exact Or.inr ⟨m, k, rfl⟩

/-- **No undefined reads.**  On every path of an accepted function, a value that the C code dereferences
    (`use v`) is, at that point, a live object or an immediate — never an uninitialised local, never the error value
    (so a possibly-undefined register is read only behind its `IS_ERROR` check), never a dangling pointer. -/
theorem definedness_sound {f : FuncIR} (h : checkFunc f = true)
    {path : List Lbl} {l : Lbl} {s s' : CState} {b : Block} {pre post : List MicroOp} {v : Var} {ss : List CState}
    (hr : ReachVia f path l s) (hb : f.blocks[l]? = some b) (hops : b.ops = pre ++ MicroOp.use v :: post)
    (hpre : runOps pre s = some ss) (hs' : s' ∈ ss) : (s' v).usable = true := by
  obtain ⟨next, hn⟩ := micro_op_not_stuck h hr hb hops hpre hs'
  exact stepOp_use_some hn

/-- **No count goes negative.**  A non-`x` `DecRef v` is only executed when the frame owns a reference through `v`
    (or `v` is a short int). -/
theorem decref_owned {f : FuncIR} (h : checkFunc f = true)
    {path : List Lbl} {l : Lbl} {s s' : CState} {b : Block} {pre post : List MicroOp} {v : Var} {ss : List CState}
    (hr : ReachVia f path l s) (hb : f.blocks[l]? = some b) (hops : b.ops = pre ++ MicroOp.decref v false :: post)
    (hpre : runOps pre s = some ss) (hs' : s' ∈ ss) : s' v = .imm ∨ ∃ n k, s' v = .obj (n + 1) k := by
  obtain ⟨next, hn⟩ := micro_op_not_stuck h hr hb hops hpre hs'
  exact stepOp_decref_some hn

/-- **Balanced exits.**  On every path of an accepted function, a `Return` hands exactly its operand's reference to
    the caller and no variable still owns a reference afterwards. -/
theorem return_balanced {f : FuncIR} (h : checkFunc f = true)
    {path : List Lbl} {l : Lbl} {s s' : CState} {b : Block} {v : Option Var} {ss : List CState}
    (hr : ReachVia f path l s) (hb : f.blocks[l]? = some b) (hterm : b.term = .ret v)
    (hrun : runOps b.ops s = some ss) (hs' : s' ∈ ss) : ∃ s'', retStep v s' = some s'' ∧ ExitOK s'' := by
  obtain ⟨b', hb', zs, hrun', hall⟩ := checkFunc_sound f h path l s hr
  rw [hb] at hb'
  simp only [Option.some.injEq] at hb'
  subst hb'
  rw [hrun] at hrun'
  simp only [Option.some.injEq] at hrun'
  subst hrun'
  have := hall s' hs'
  rw [hterm] at this
  exact this

/-! ## refuting safety by replaying a path -/

theorem termUnsafe_sound {f : FuncIR} {s : CState} {t : Term} (h : termUnsafe f s t = true) : ¬ TermSafe f s t := by
  intro hs
  cases t with
  | unreachable => simp [termUnsafe] at h
  | ret v =>
    obtain ⟨s', hr, hex⟩ := hs
    simp only [termUnsafe, hr] at h
    obtain ⟨x, _, hx⟩ := List.any_eq_true.mp h
    rw [hex x] at hx
    cases hx
  | br es =>
    simp only [termUnsafe] at h
    obtain ⟨e, he, hbad⟩ := List.any_eq_true.mp h
    obtain ⟨ht, ss, hrun⟩ := hs e he
    simp [ht, hrun] at hbad

theorem blockUnsafe_sound {f : FuncIR} {l : Lbl} {s : CState} (h : blockUnsafe f l s = true) : ¬ BlockSafe f l s := by
  intro ⟨b, hb, ss, hrun, hall⟩
  simp only [blockUnsafe, hb, hrun] at h
  obtain ⟨s', hs', hbad⟩ := List.any_eq_true.mp h
  exact termUnsafe_sound hbad (hall s' hs')

theorem replayFrom_sound {f : FuncIR} : ∀ (w : List Choice) {path : List Lbl} {l : Lbl} {s : CState},
    ReachVia f path l s → replayFrom f w l s = true → ¬ Safe f := by
  intro w
  induction w with
  | nil =>
    intro path l s hr h hsafe
    exact blockUnsafe_sound h (hsafe path l s hr)
  | cons c rest ih =>
    intro path l s hr h
    unfold replayFrom at h
    cases hb : f.blocks[l]? with
    | none => simp [hb] at h
    | some b =>
      simp only [hb] at h
      cases hrun : runOps b.ops s with
      | none => simp [hrun] at h
      | some ss =>
        simp only [hrun] at h
        cases hs' : ss[c.afterOps]? with
        | none => simp [hs'] at h
        | some s' =>
          cases hterm : b.term with
          | unreachable => simp [hs', hterm] at h
          | ret v => simp [hs', hterm] at h
          | br es =>
            simp only [hs', hterm] at h
            cases he : es[c.edge]? with
            | none => simp [he] at h
            | some e =>
              simp only [he] at h
              cases hrun' : runOps e.ops s' with
              | none => simp [hrun'] at h
              | some ss' =>
                simp only [hrun'] at h
                cases hs'' : ss'[c.afterEdge]? with
                | none => simp [hs''] at h
                | some s'' =>
                  simp only [hs''] at h
                  exact ih (ReachVia.step hr hb hrun (List.mem_of_getElem? hs') hterm
                    (List.mem_of_getElem? he) hrun' (List.mem_of_getElem? hs'')) h

theorem initStateWith_ok (f : FuncIR) (nulls : List Var) : InitOK f (initStateWith f nulls) := by
  intro v
  unfold initStateWith initVals
  cases argKindOf f.args v with
  | none => simp
  | some k =>
    cases k with
    | borrowed => simp
    | optional =>
      by_cases h : nulls.contains v = true
      · simp only [h, if_true]; simp
      · simp only [h]; simp

/-- A replayable witness refutes safety (`nulls`: optional arguments the caller left out). -/
theorem replay_refutes_with {f : FuncIR} {nulls : List Var} {w : List Choice}
    (h : replayFrom f w 0 (initStateWith f nulls) = true) : ¬ Safe f :=
  replayFrom_sound w (ReachVia.entry (initStateWith_ok f nulls)) h

theorem replay_refutes {f : FuncIR} {w : List Choice} (h : replayFrom f w 0 (initState0 f) = true) : ¬ Safe f :=
  replay_refutes_with (nulls := []) h

/-! ## non-vacuity: concrete functions -/

/-- `def f(x): y = g(x); return y` with the error branch — what mypyc emits for a call -/
def exCall : FuncIR :=
  { nvars := 3, args := [(0, .borrowed)],
    blocks := #[
      ⟨[.use 0, .define 1 .maybe], .br [⟨[.assumeNull 1], 2⟩, ⟨[.assumeOk 1], 1⟩]⟩,
      ⟨[], .ret (some 1)⟩,
      ⟨[.define 2 .null], .ret (some 2)⟩] }

example : checkFunc exCall = true := by decide
example : Safe exCall := checkFunc_sound _ (by decide)

/-- the hypotheses of `definedness_sound` / `decref_owned` / `return_balanced` are satisfiable: the first micro-op of
    `exCall` reads its argument, which is therefore a live object in every allowed initial state -/
example (s : CState) (hI : InitOK exCall s) : (s 0).usable = true :=
  definedness_sound (f := exCall) (by decide) (ReachVia.entry hI) (b := ⟨[.use 0, .define 1 .maybe],
      .br [⟨[.assumeNull 1], 2⟩, ⟨[.assumeOk 1], 1⟩]⟩) (pre := []) (post := [.define 1 .maybe]) (ss := [s])
    rfl rfl rfl (List.mem_singleton.mpr rfl)

/-- a loop: `while …: t = new(); use t; dec_ref t` -/
def exLoop : FuncIR :=
  { nvars := 2, args := [(0, .optional)],
    blocks := #[
      ⟨[.useMaybe 0], .br [⟨[], 1⟩]⟩,
      ⟨[.define 1 .owned, .use 1, .incref 1, .decref 1 false, .decref 1 false], .br [⟨[], 1⟩, ⟨[], 2⟩]⟩,
      ⟨[], .ret none⟩] }

example : checkFunc exLoop = true := by decide
example : Safe exLoop := checkFunc_sound _ (by decide)

/-- the same loop with the `DecRef` dropped: the second iteration overwrites an owned reference -/
def exLoopLeak : FuncIR :=
  { nvars := 2, args := [(0, .optional)],
    blocks := #[
      ⟨[.useMaybe 0], .br [⟨[], 1⟩]⟩,
      ⟨[.define 1 .owned, .use 1], .br [⟨[], 1⟩, ⟨[], 2⟩]⟩,
      ⟨[], .ret none⟩] }

example : checkFunc exLoopLeak = false := by decide
theorem not_safe_exLoopLeak : ¬ Safe exLoopLeak :=
  replay_refutes (w := [⟨0, 0, 0⟩, ⟨0, 0, 0⟩]) (by decide)

/-- use after the last owned reference was released (what forwarding a value past its `DecRef` produces) -/
def exUseAfterFree : FuncIR :=
  { nvars := 1, args := [],
    blocks := #[⟨[.define 0 .owned, .decref 0 false, .use 0], .ret none⟩] }

example : checkFunc exUseAfterFree = false := by decide
theorem not_safe_exUseAfterFree : ¬ Safe exUseAfterFree := replay_refutes (w := []) (by decide)

/-- decrementing a borrowed argument (what `after_branch_decrefs` without the borrowed check produces) -/
def exDecBorrowed : FuncIR :=
  { nvars := 1, args := [(0, .borrowed)],
    blocks := #[⟨[.use 0, .decref 0 false], .ret none⟩] }

example : checkFunc exDecBorrowed = false := by decide
theorem not_safe_exDecBorrowed : ¬ Safe exDecBorrowed := replay_refutes (w := []) (by decide)

/-! ### borrow safety and the `GetAttr` side condition -/

/-- `r0 = borrow a.total; r1 = replace_total(a, …); r2 = r0 + r1` — what a borrowed read of an augmented-assignment
    target across an arbitrary right operand looks like: the call may rebind `a.total` (`clobber 1`), after which the
    borrowed value is only a dangling pointer.  Variables: 0 a, 1 r0, 2 r1, 3 r2. -/
def exBorrowAcrossCall : FuncIR :=
  { nvars := 4, args := [(0, .borrowed)],
    blocks := #[
      ⟨[.use 0, .define 1 .borrowed, .use 0, .clobber 1, .define 2 .maybe], .br [⟨[.assumeNull 2], 2⟩, ⟨[.assumeOk 2], 1⟩]⟩,
      ⟨[.use 1, .use 2, .define 3 .owned, .decref 2 false], .ret (some 3)⟩,
      ⟨[], .ret none⟩] }

example : checkFunc exBorrowAcrossCall = false := by decide
theorem not_safe_exBorrowAcrossCall : ¬ Safe exBorrowAcrossCall :=
  replay_refutes (w := [⟨0, 1, 0⟩]) (by decide)

/-- the same with an owned read of the target (what mypyc emits when the right operand is not borrow friendly) -/
def exOwnedAcrossCall : FuncIR :=
  { nvars := 4, args := [(0, .borrowed)],
    blocks := #[
      ⟨[.use 0, .define 1 .owned, .use 0, .define 2 .maybe], .br [⟨[.assumeNull 2], 2⟩, ⟨[.assumeOk 2], 1⟩]⟩,
      ⟨[.use 1, .use 2, .define 3 .owned, .decref 1 false, .decref 2 false], .ret (some 3)⟩,
      ⟨[.decref 1 false], .ret none⟩] }

example : checkFunc exOwnedAcrossCall = true := by decide

/-- a `GetAttr` without error branch on an attribute that the ClassIR does not guarantee to be set (deletable, or not
    always initialised): the translator emits `define … maybe`, and handing the value to a call is then stuck -/
def exGetAttrNoGuarantee : FuncIR :=
  { nvars := 3, args := [(0, .borrowed)],
    blocks := #[⟨[.use 0, .define 1 .maybe, .use 1, .define 2 .owned, .decref 1 false], .ret (some 2)⟩] }

example : checkFunc exGetAttrNoGuarantee = false := by decide
theorem not_safe_exGetAttrNoGuarantee : ¬ Safe exGetAttrNoGuarantee := replay_refutes (w := []) (by decide)

/-! ## the two defects of the current tree, as transcribed from today's final IR -/

/-- **F14** — `close()` of every generated generator class (mypyc/irbuild/generator.py `add_close_to_generator_class`):
    `r2 = CPyObject_GetAttr(builtins, 'GeneratorExit'); if is_error(r2) goto L3` and the handler `L3`, which is
    also entered after `throw` failed with `r2` live, builds `(r2, r9)` from it and dec_refs it.
    Variables: 0 self, 1 builtins (r0), 2 'GeneratorExit' (r1), 3 r2, 4 r6 (exc info), 5 r9, 6 r10, 7 r5. -/
def f14Close : FuncIR :=
  { nvars := 8, args := [(0, .borrowed)],
    blocks := #[
      ⟨[.define 1 .borrowed, .define 2 .borrowed, .use 1, .use 2, .define 3 .maybe],
        .br [⟨[.assumeNull 3], 2⟩, ⟨[.assumeOk 3], 1⟩]⟩,
      ⟨[.use 3, .use 0, .define 7 .maybe], .br [⟨[.assumeNull 7], 2⟩, ⟨[.assumeOk 7], 4⟩]⟩,
      ⟨[.define 4 .owned, .define 5 .maybe], .br [⟨[.assumeNull 5], 5⟩, ⟨[.assumeOk 5], 3⟩]⟩,
      ⟨[.steal 3, .steal 5, .define 6 .owned, .steal 6, .use 4, .decref 4 false], .ret none⟩,
      ⟨[.decref 3 false, .decref 7 false], .ret none⟩,
      ⟨[.decref 3 false, .decref 4 false], .ret none⟩] }

example : checkFunc f14Close = false := by decide

/-- the path `L0 —(GetAttr failed)→ L2 —(second GetAttr fine)→ L3` steals the NULL `r2` -/
theorem not_safe_f14Close : ¬ Safe f14Close :=
  replay_refutes (w := [⟨1, 0, 0⟩, ⟨0, 1, 0⟩]) (by decide)

/-- the same function with the handler entered only with `r2` live is accepted: the defect is exactly that edge -/
def f14CloseFixed : FuncIR :=
  { nvars := 8, args := [(0, .borrowed)],
    blocks := #[
      ⟨[.define 1 .borrowed, .define 2 .borrowed, .use 1, .use 2, .define 3 .maybe],
        .br [⟨[.assumeNull 3], 6⟩, ⟨[.assumeOk 3], 1⟩]⟩,
      ⟨[.use 3, .use 0, .define 7 .maybe], .br [⟨[.assumeNull 7], 2⟩, ⟨[.assumeOk 7], 4⟩]⟩,
      ⟨[.define 4 .owned, .define 5 .maybe], .br [⟨[.assumeNull 5], 5⟩, ⟨[.assumeOk 5], 3⟩]⟩,
      ⟨[.steal 3, .steal 5, .define 6 .owned, .steal 6, .use 4, .decref 4 false], .ret none⟩,
      ⟨[.decref 3 false, .decref 7 false], .ret none⟩,
      ⟨[.decref 3 false, .decref 4 false], .ret none⟩,
      ⟨[], .ret none⟩] }

example : checkFunc f14CloseFixed = true := by decide

/-- **temp register across `await`** — `return await a + await b` (operands of static type `Any`): the result of
    the first `await` lives in a Register; Registers are not spilled (`mypyc/transform/spill.py`: "no Registers at
    all"), the generator helper re-initialises it to the error value on entry (uninit pass) and, after resuming at
    the second `await`, passes it to `PyNumber_Add`.  Variables: 0 self, 1 the temp register, 2 second operand. -/
def awaitTemp : FuncIR :=
  { nvars := 4, args := [(0, .borrowed)],
    blocks := #[
      ⟨[.define 3 .null, .move 1 3, .use 0], .br [⟨[], 1⟩, ⟨[], 2⟩]⟩,
      -- first entry: evaluate the first await, keep it in register 1, yield
      ⟨[.decref 1 true, .define 1 .owned, .define 2 .borrowed, .incref 2], .ret (some 2)⟩,
      -- resumed after the second await: register 1 was re-initialised at L0
      ⟨[.define 2 .owned, .use 1, .use 2, .decref 1 true, .decref 2 false], .ret none⟩] }

example : checkFunc awaitTemp = false := by decide
theorem not_safe_awaitTemp : ¬ Safe awaitTemp :=
  replay_refutes (w := [⟨0, 1, 0⟩]) (by decide)

/-! ## the regenerated sample of real final IR (`translate/c06_micro.py` → `Gen/C06Sample.lean`) -/

/-- every sampled function of the mypyc test corpus that the verifier accepts is safe on every path
    (the verifier is evaluated by the kernel here, not by the compiled driver) -/
theorem sample_accepted_safe : ∀ f ∈ C06Sample.accepted, Safe f := by
  intro f hf
  apply checkFunc_sound
  revert f hf
  decide

/-- the full statement fails on the current tree: every function listed in `C06Sample.rejected` (today: the F14
    `close()` and the `await`-temp helper of two fixed programs, with the witness path found by the harness) has
    an execution that is unsafe -/
theorem sample_rejected_unsafe : ∀ p ∈ C06Sample.rejected, ¬ Safe p.1 := by
  intro p hp
  apply replay_refutes (w := p.2)
  revert p hp
  decide

end Own
