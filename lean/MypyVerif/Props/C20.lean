import MypyVerif.Proofs.Driver
import MypyVerif.Gen.DriverCaps
/-!
# C20 — any input produces diagnostics, never an internal failure (the *mechanism* part)

Property theorems only (helpers are in Proofs/Driver.lean).  What is proved is the termination / exit-funnel
mechanism of the driver for *every* behaviour of the analyser and the checker (oracles): every modelled
fix-point loop leaves within the cap read from the source, every clean exit has status 0, 1 or 2, the only
ways into a bad terminal state are an unexpected exception, a cap that fires, or a deferral in the final
iteration, and the trace-acceptance predicate used by the harness accepts exactly the clean runs of the model.
The universal clause "no input makes the real analyser raise or a real oracle stall" is **not** a theorem: it
is searched by mutation and trace validation (harness/c20/run.py).  `fold_cost_unbounded` is finding F6.
-/
namespace Driver

/-- the caps / cap tests found in the checked tree satisfy what the termination argument needs -/
theorem caps_wf : Gen.caps.WF := by decide

/-- the caps are small enough for "leaves within the cap" to mean "leaves in reasonable time" -/
theorem caps_effective :
    Gen.caps.maxIterations ≤ 200 ∧ Gen.caps.defaultLastPass ≤ 16 ∧ Gen.caps.fgLastPass ≤ 16 ∧
    Gen.caps.maxIter ≤ 100000 := by decide

/-- the exits and the `while unfinished_modules` loop of the checked tree have the transcribed shape -/
theorem exits_recognised : Gen.exitsRecognised = true ∧ Gen.sccLoopRecognised = true := by decide

/-- **Every modelled loop leaves within its cap, for any behaviour of the per-iteration oracle.**
    (1) `process_top_levels`, (2) `process_top_level_function`: never out of fuel, the counter stays ≤ the
    value at which the cap test fires, and below it unless the test fired;
    (3) `while unfinished_modules` of `process_stale_scc`: left after ≤ `last_pass + 1` rounds, no checker goes
    beyond `last_pass`, ≤ `last_pass + 1` `check_second_pass` calls per module;
    (4) `propagate_changes_using_dependencies`; (5) `reprocess_nodes`' `while more`. -/
theorem loops_terminate (c : Caps) (h : c.WF) :
    (∃ L, c.topOp.limit c.maxIterations = some L ∧ ∀ oracle : Nat → Bool → SweepOut,
      (semLoop c.topOp c.maxIterations false oracle L 0 false).exit ≠ .fuelOut ∧
      (semLoop c.topOp c.maxIterations false oracle L 0 false).iterations ≤ L ∧
      ((semLoop c.topOp c.maxIterations false oracle L 0 false).exit ≠ .capHit →
        (semLoop c.topOp c.maxIterations false oracle L 0 false).iterations < L)) ∧
    (∃ L, c.funcOp.limit c.maxIterations = some L ∧ ∀ oracle : Nat → Bool → SweepOut,
      (semLoop c.funcOp c.maxIterations true oracle L 0 false).exit ≠ .fuelOut ∧
      (semLoop c.funcOp c.maxIterations true oracle L 0 false).iterations ≤ L ∧
      ((semLoop c.funcOp c.maxIterations true oracle L 0 false).exit ≠ .capHit →
        (semLoop c.funcOp c.maxIterations true oracle L 0 false).iterations < L)) ∧
    (∀ mods : List (Nat → Bool),
      (runPasses c mods).done = true ∧ (runPasses c mods).sweeps ≤ c.defaultLastPass + 1 ∧
      ∀ m ∈ (runPasses c mods).mods, m.chk.passNum ≤ c.defaultLastPass ∧ m.calls ≤ c.defaultLastPass + 1) ∧
    (∃ L, c.fgOp.limit c.maxIter = some L ∧ ∀ pending : Nat → Bool,
      (fgLoop c.fgOp c.maxIter pending L 0).exit ≠ .fuelOut ∧ (fgLoop c.fgOp c.maxIter pending L 0).iterations ≤ L) ∧
    (∀ wants : Nat → Bool,
      (reprocessLoop c.deferGuarded c.fgLastPass wants (c.fgLastPass + 1) reprocessStart 0).1 = true ∧
      (reprocessLoop c.deferGuarded c.fgLastPass wants (c.fgLastPass + 1) reprocessStart 0).2.1 ≤ c.fgLastPass + 1 ∧
      (reprocessLoop c.deferGuarded c.fgLastPass wants (c.fgLastPass + 1) reprocessStart 0).2.2.passNum ≤ c.fgLastPass) := by
  obtain ⟨h1, h2, h3, h4, h5⟩ := h
  refine ⟨?_, ?_, ?_, ?_, ?_⟩
  · cases hl : c.topOp.limit c.maxIterations with
    | none => simp [hl] at h1
    | some L =>
      refine ⟨L, rfl, fun oracle => ?_⟩
      have := semLoop_spec c.topOp c.maxIterations L false oracle hl L 0 false (by omega) (CapOp.limit_fires hl).2
      exact ⟨this.1, this.2.1, this.2.2.1⟩
  · cases hl : c.funcOp.limit c.maxIterations with
    | none => simp [hl] at h2
    | some L =>
      refine ⟨L, rfl, fun oracle => ?_⟩
      have := semLoop_spec c.funcOp c.maxIterations L true oracle hl L 0 false (by omega) (CapOp.limit_fires hl).2
      exact ⟨this.1, this.2.1, this.2.2.1⟩
  · intro mods
    unfold runPasses
    rw [h4]
    have hstart : ∀ m ∈ mods.map (Mod.start true c.defaultLastPass),
        m.Inv c.defaultLastPass ∧ m.mu c.defaultLastPass ≤ c.defaultLastPass + 1 := by
      intro m hm
      rw [List.mem_map] at hm
      obtain ⟨w, _, rfl⟩ := hm
      exact Mod.start_inv c.defaultLastPass w
    have hs := sccLoop_spec c.defaultLastPass (c.defaultLastPass + 1) _ 0 hstart
    refine ⟨hs.1, by simpa using hs.2.1, fun m hm => ?_⟩
    have := hs.2.2 m hm
    have a := this.2.1
    have b := this.2.2.2.1
    exact ⟨a, by omega⟩
  · cases hl : c.fgOp.limit c.maxIter with
    | none => simp [hl] at h3
    | some L =>
      refine ⟨L, rfl, fun pending => ?_⟩
      have := fgLoop_spec c.fgOp c.maxIter L pending hl L 0 (by omega) (CapOp.limit_fires hl).2
      exact ⟨this.1, this.2.1⟩
  · intro wants
    rw [h4]
    have := reprocessLoop_spec c.fgLastPass wants (c.fgLastPass + 1) reprocessStart 0
      (by intro _; exact h5) (Nat.zero_le _) (by simp [reprocessStart])
    simpa [reprocessStart] using this

/-- the hypotheses of `loops_terminate` are satisfiable by the checked tree, and its conclusion is about
    oracles that really iterate: this one defers (with progress) 5 times and then converges -/
example : (semLoop Gen.caps.topOp Gen.caps.maxIterations false (fun it _ => ⟨decide (it < 6), true⟩)
    (fuelOf Gen.caps.topOp Gen.caps.maxIterations) 0 false) = ⟨.converged, 6⟩ := by decide
/-- an oracle that always defers and always reports progress is stopped by the cap -/
example : (semLoop Gen.caps.topOp Gen.caps.maxIterations false (fun _ _ => ⟨true, true⟩)
    (fuelOf Gen.caps.topOp Gen.caps.maxIterations) 0 false).exit = .capHit := by decide
/-- one that stalls is forced through the final iteration; deferring there is the assertion failure -/
example : (semLoop Gen.caps.funcOp Gen.caps.maxIterations true (fun _ _ => ⟨true, false⟩)
    (fuelOf Gen.caps.funcOp Gen.caps.maxIterations) 0 false) = ⟨.deferInFinal, 2⟩ := by decide
/-- a module that wants to defer in every pass is cut off by `last_pass` -/
example : (runPasses Gen.caps [fun _ => true, fun _ => false]).sweeps = Gen.caps.defaultLastPass + 1 := by decide

/-- without a recognised cap test there is no bound: the uncapped loop follows an always-deferring oracle as
    long as the fuel lasts (the hypothesis `WF` of `loops_terminate` is necessary) -/
theorem uncapped_loop_diverges (cap : Nat) (sticky : Bool) :
    ∀ fuel it, (semLoop .none cap sticky (fun _ _ => ⟨true, true⟩) fuel it false).exit = .fuelOut := by
  intro fuel
  induction fuel with
  | zero => intro it; rfl
  | succ fuel ih =>
    intro it
    unfold semLoop
    cases sticky <;> simp [CapOp.fires, nextFinal, ih]

/-- … and a defer site without the `pass_num < last_pass` test makes `while unfinished_modules` endless -/
theorem unguarded_defer_diverges (lastPass fuel : Nat) :
    (sccLoop false lastPass fuel [Mod.start false lastPass (fun _ => true)] 0).done = false := by
  have := sccLoop_unguarded_diverges lastPass fuel 0 0 0
  simpa [Mod.start, firstPass, deferAllowed] using this

/-- "final iteration forcing": an oracle that honours `SemanticAnalyzer.defer`'s contract never trips the
    assertion, and once told the iteration is final it converges at once (unless the cap fires) -/
theorem final_iteration_forces (op : CapOp) (cap : Nat) (sticky : Bool) (oracle : Nat → Bool → SweepOut)
    (hc : RespectsFinal oracle) :
    (∀ fuel it final, (semLoop op cap sticky oracle fuel it final).exit ≠ .deferInFinal) ∧
    (∀ fuel it, (semLoop op cap sticky oracle (fuel + 1) it true).exit = .converged ∨
      (semLoop op cap sticky oracle (fuel + 1) it true).exit = .capHit) :=
  ⟨semLoop_no_deferInFinal op cap sticky oracle hc, semLoop_final_converges op cap sticky oracle hc⟩

example : RespectsFinal (fun it final => ⟨!final && decide (it < 4), false⟩) := by
  intro it; simp

/-! ## the exit funnel -/

/-- **every terminal state of a batch run — bad or not — has status 0, 1 or 2** -/
theorem status_in_range (c : Caps) (env : Env) :
    (runBatch c env).1.status = 0 ∨ (runBatch c env).1.status = 1 ∨ (runBatch c env).1.status = 2 := by
  have key : (runBatch c env).1.status ≤ 2 := by
    rcases runBatch_cases c env with ⟨_, h⟩ | ⟨_, _, h⟩ | ⟨_, _, _, h⟩ | ⟨_, _, _, h⟩
    · rw [h]; exact Nat.le_refl 2
    · rw [h]; exact Nat.le_refl 2
    · rw [h]; exact exitCode_le _ _ _
    · rw [h]
      rcases batchEnd_cases env (runSccs c env.sccs) with ⟨_, h'⟩ | ⟨_, h'⟩ | ⟨b, _, h'⟩
      · rw [h']; exact exitCode_le _ _ _
      · rw [h']; exact exitCode_le _ _ _
      · rw [h']; exact Nat.le_refl 2
  omega

/-- a clean exit comes through exactly one of two doors: the usage error (`sys.exit(2)`) or the status
    computation at the end of `main` (`2 if blockers else 1` when some message is not a note, else 0) -/
theorem status_funnel (c : Caps) (env : Env) (h : (runBatch c env).1.bad = none) :
    (env.usageError = true ∧ (runBatch c env).1.status = 2) ∨
    (env.usageError = false ∧ ∃ blockers, (runBatch c env).1.status = exitCode env.nMessages env.nNotes blockers) := by
  rcases runBatch_cases c env with ⟨hu, hr⟩ | ⟨_, _, hr⟩ | ⟨hu, _, _, hr⟩ | ⟨hu, _, _, hr⟩
  · left; rw [hr]; exact ⟨hu, rfl⟩
  · rw [hr] at h; simp at h
  · right; rw [hr]; exact ⟨hu, true, rfl⟩
  · right
    rw [hr] at h ⊢
    rcases batchEnd_cases env (runSccs c env.sccs) with ⟨_, h'⟩ | ⟨_, h'⟩ | ⟨b, _, h'⟩
    · rw [h']; exact ⟨hu, false, rfl⟩
    · rw [h']; exact ⟨hu, true, rfl⟩
    · rw [h'] at h; simp at h

/-- **no run of the model hangs**: whatever the oracles do, a tree whose caps are well-formed leaves every loop -/
theorem no_model_run_hangs (c : Caps) (h : c.WF) (env : Env) : (runBatch c env).1.bad ≠ some .hang := by
  rcases runBatch_cases c env with ⟨_, hr⟩ | ⟨_, _, hr⟩ | ⟨_, _, _, hr⟩ | ⟨_, _, _, hr⟩
  · rw [hr]; simp
  · rw [hr]; simp
  · rw [hr]; simp
  · rw [hr]
    rcases batchEnd_cases env (runSccs c env.sccs) with ⟨_, h'⟩ | ⟨_, h'⟩ | ⟨b, hb, h'⟩
    · rw [h']; simp
    · rw [h']; simp
    · rw [h']
      intro he
      have hbh : b = .hang := by simpa using he
      subst hbh
      exact (runSccs_spec c h env.sccs).1 hb

/-- the only ways into a bad terminal state: an unexpected exception, a cap test that fires, or a deferral in
    the final iteration.  A run without exceptions whose semantic-analysis oracles converge is clean — the
    checker's pass loops cannot contribute a bad state. -/
theorem quiet_run_clean (c : Caps) (h : c.WF) (env : Env) (he : env.raisesEarly = false)
    (hq : ∀ e ∈ env.sccs, e.raises = false ∧
      (semLoop c.topOp c.maxIterations false e.top (fuelOf c.topOp c.maxIterations) 0 false).exit = .converged ∧
      ∀ f ∈ e.funcs, (semLoop c.funcOp c.maxIterations true f (fuelOf c.funcOp c.maxIterations) 0 false).exit = .converged) :
    (runBatch c env).1.bad = none := by
  have hfuncs : ∀ fs : List (Nat → Bool → SweepOut),
      (∀ f ∈ fs, (semLoop c.funcOp c.maxIterations true f (fuelOf c.funcOp c.maxIterations) 0 false).exit = .converged) →
      (runFuncs c fs).1 = none := by
    intro fs
    induction fs with
    | nil => intro _; rfl
    | cons f fs ih =>
      intro hf
      unfold runFuncs funcsStep
      rw [hf f (by simp)]
      simp only [semBad]
      exact ih (fun g hg => hf g (by simp [hg]))
  have hscc : ∀ es : List SccEnv, (∀ e ∈ es, e.raises = false ∧
      (semLoop c.topOp c.maxIterations false e.top (fuelOf c.topOp c.maxIterations) 0 false).exit = .converged ∧
      ∀ f ∈ e.funcs, (semLoop c.funcOp c.maxIterations true f (fuelOf c.funcOp c.maxIterations) 0 false).exit = .converged) →
      ∀ b, (runSccs c es).1 ≠ .bad b := by
    intro es
    induction es with
    | nil => intro _ b; simp [runSccs]
    | cons e es ih =>
      intro hall b
      obtain ⟨hr, ht, hf⟩ := hall e (by simp)
      have hrest := ih (fun e' he' => hall e' (by simp [he']))
      have hp := (runPasses_spec c h e.mods).1
      unfold runSccs sccsStep runScc
      simp only [hr, Bool.false_eq_true, if_false]
      unfold sccTop
      rw [ht]
      simp only [semBad]
      unfold sccFuncs
      rw [hfuncs e.funcs hf]
      simp only []
      cases e.blocker with
      | true => simp
      | false =>
        simp only [Bool.false_eq_true, if_false, sccPasses, hp, if_true]
        exact hrest b
  rcases runBatch_cases c env with ⟨_, hr⟩ | ⟨_, he', _⟩ | ⟨_, _, _, hr⟩ | ⟨_, _, _, hr⟩
  · rw [hr]
  · rw [he] at he'; simp at he'
  · rw [hr]
  · rw [hr]
    rcases batchEnd_cases env (runSccs c env.sccs) with ⟨_, h'⟩ | ⟨_, h'⟩ | ⟨b, hb, _⟩
    · rw [h']
    · rw [h']
    · exact absurd hb (hscc env.sccs hq b)

/-- one daemon request never hangs either (it may crash: `RuntimeError` at `MAX_ITER`, or an exception) -/
theorem daemon_request_terminates (c : Caps) (h : c.WF) (e : DaemonEnv) : daemonCheck c e ≠ some .hang := by
  have hrep : ∀ ws : List (Nat → Bool), runReprocess c ws = true := by
    intro ws
    induction ws with
    | nil => rfl
    | cons w ws ih =>
      unfold runReprocess
      rw [h.2.2.2.1, ih]
      have := reprocessLoop_spec c.fgLastPass w (c.fgLastPass + 1) reprocessStart 0
        (by intro _; exact h.2.2.2.2) (Nat.zero_le _) (by simp [reprocessStart])
      simp [this.1]
  have hscc := (runScc_spec c h { e.changed with mods := [] }).1
  unfold daemonCheck
  split
  · simp
  · split
    · rename_i b hb
      intro hx
      have : b = .hang := by simpa using hx
      subst this
      exact hscc hb
    · cases hl : c.fgOp.limit c.maxIter with
      | none => have := h.2.2.1; simp [hl] at this
      | some L =>
        have := (fgLoop_spec c.fgOp c.maxIter L e.pending hl L 0 (by omega) (CapOp.limit_fires hl).2).1
        rw [fuelOf_eq hl]
        split
        · simp
        · rename_i hf; exact absurd hf this
        · simp [hrep]

/-! ## trace acceptance (what harness/c20 decides with `Driver/C20.lean`) -/

/-- what acceptance guarantees about an observed run -/
theorem accepts_sound (c : Caps) (o : Obs) (h : accepts c o = true) :
    (o.status = some 0 ∨ o.status = some 1 ∨ o.status = some 2) ∧ o.internalError = false ∧
    o.traceback = false ∧ o.hangReported = false ∧ o.passNum ≤ c.defaultLastPass ∧
    o.sweeps ≤ c.defaultLastPass + 1 ∧ o.fgPassNum ≤ c.fgLastPass ∧
    (o.viaMain = true → o.status = some (exitCode o.nMessages o.nNotes o.blockers)) := by
  simp only [accepts, Bool.and_eq_true, Bool.or_eq_true, beq_iff_eq, Bool.not_eq_true', decide_eq_true_eq] at h
  obtain ⟨⟨⟨⟨⟨⟨⟨⟨⟨⟨⟨⟨hs, hi⟩, ht⟩, hh⟩, _⟩, _⟩, hp⟩, _⟩, hsw⟩, _⟩, hfp⟩, _⟩, hv⟩ := h
  refine ⟨?_, hi, ht, hh, hp, hsw, hfp, ?_⟩
  · rcases hs with (h0 | h1) | h2
    · left; exact h0
    · right; left; exact h1
    · right; right; exact h2
  · intro hvm
    rcases hv with hv | hv
    · rw [hvm] at hv; simp at hv
    · exact hv

/-- **the acceptance predicate is not stricter than the model**: every clean run of the model — for any
    oracles — is observed as a trace that is accepted -/
theorem clean_run_accepted (c : Caps) (h : c.WF) (env : Env) (hb : (runBatch c env).1.bad = none) :
    accepts c (observe c env) = true := by
  have hst := status_in_range c env
  have hfg : withinLimit c.fgOp c.maxIter 0 = true := withinLimit_zero h.2.2.1
  have hw : (runBatch c env).2.Within c ∧
      (env.usageError = false → (runBatch c env).1.status =
        exitCode env.nMessages env.nNotes (env.loadBlocker || decide ((runSccs c env.sccs).1 = .blocked))) := by
    rcases runBatch_cases c env with ⟨hu, hr⟩ | ⟨_, _, hr⟩ | ⟨_, _, hl, hr⟩ | ⟨_, _, hl, hr⟩
    · rw [hr]; exact ⟨Counters.within_zero h, fun hx => by rw [hu] at hx; simp at hx⟩
    · rw [hr] at hb; simp at hb
    · rw [hr]; exact ⟨Counters.within_zero h, fun _ => by simp [hl]⟩
    · rw [hr] at hb ⊢
      have hs := (runSccs_spec c h env.sccs).2
      rcases batchEnd_cases env (runSccs c env.sccs) with ⟨ho, h'⟩ | ⟨ho, h'⟩ | ⟨b, _, h'⟩
      · rw [h']; exact ⟨hs (by intro b; rw [ho]; simp), fun _ => by simp [hl, ho]⟩
      · rw [h']; exact ⟨hs (by intro b; rw [ho]; simp), fun _ => by simp [hl, ho]⟩
      · rw [h'] at hb; simp at hb
  obtain ⟨⟨w1, w2, w3, w4, w5⟩, hcode⟩ := hw
  simp only [accepts, observe, hb, Bool.and_eq_true, Bool.or_eq_true, beq_iff_eq, Bool.not_eq_true',
    decide_eq_true_eq]
  refine ⟨⟨⟨⟨⟨⟨⟨⟨⟨⟨⟨⟨?_, ?_⟩, ?_⟩, ?_⟩, w1⟩, w2⟩, w3⟩, w4⟩, w5⟩, hfg⟩, ?_⟩, ?_⟩, ?_⟩
  · rcases hst with h0 | h1 | h2
    · left; left; simp [h0]
    · left; right; simp [h1]
    · right; simp [h2]
  · simp
  · first | rfl | trivial
  · first | rfl | trivial | simp
  · first | trivial | simp
  · first | trivial | simp
  · by_cases hu : env.usageError = true
    · left; simp [hu]
    · right
      simp only [Bool.not_eq_true] at hu
      simp [hcode hu]

/-- … and every bad run of the model is rejected -/
theorem bad_run_rejected (c : Caps) (env : Env) (b : Bad) (hb : (runBatch c env).1.bad = some b) :
    accepts c (observe c env) = false := by
  cases b <;> simp [accepts, observe, hb]

/-- a clean, non-trivial run: two SCCs, the first needs 3 top-level sweeps and defers a function once, the
    second has a module that is deferred through every pass; one error message → status 1 -/
example : runBatch Gen.caps
    { usageError := false, raisesEarly := false, loadBlocker := false,
      sccs := [ { top := fun it _ => ⟨decide (it < 3), true⟩, funcs := [fun it _ => ⟨decide (it < 2), true⟩],
                  mods := [fun _ => false], raises := false, blocker := false },
                { top := fun _ _ => ⟨false, true⟩, funcs := [], mods := [fun _ => true], raises := false,
                  blocker := false } ],
      nMessages := 2, nNotes := 1 } = (⟨1, none⟩, ⟨3, 2, 2, 3, 3⟩) := by decide
/-- a bad one: the analyser raises in the second SCC -/
example : (runBatch Gen.caps
    { usageError := false, raisesEarly := false, loadBlocker := false,
      sccs := [ { top := fun _ _ => ⟨false, true⟩, funcs := [], mods := [], raises := false, blocker := false },
                { top := fun _ _ => ⟨false, true⟩, funcs := [], mods := [], raises := true, blocker := false } ],
      nMessages := 0, nNotes := 0 }).1 = ⟨2, some .internalError⟩ := by decide

/-! ## constant folding (finding F6) -/

/-- **F6**: the folder as found computes every power it meets, and the size of what it computes is not
    bounded by any linear function of the size of the source expression: for every `c` there is an
    expression whose value needs more than `c · size` bits.  (Witness shape: `2 ** 2 ** n`; the reported
    input is `10 ** 10 ** 10`.) -/
theorem fold_cost_unbounded :
    ∀ c : Nat, ∃ e : CExpr, e.fold none = some e.eval ∧ 2 ^ (c * e.size) ≤ e.eval := by
  intro c
  obtain ⟨m, hm⟩ : ∃ m, m = 2 * c + 7 := ⟨_, rfl⟩
  refine ⟨.pow (.lit 2) (.pow (.lit 2) (.lit (2 * m))), fold_unguarded _, ?_⟩
  show 2 ^ (c * (digits 2 2 + (digits 2 2 + digits (2 * m) (2 * m) + 2) + 2)) ≤ 2 ^ (2 ^ (2 * m))
  apply Nat.pow_le_pow_right (by omega)
  have hd : digits (2 * m) (2 * m) ≤ 2 * m + 1 := digits_le _ _
  have h2 : digits 2 2 = 1 := by decide
  rw [h2]
  have hlt : m < 2 ^ m := Nat.lt_two_pow_self
  have hpow : 2 ^ (2 * m) = 2 ^ m * 2 ^ m := by rw [Nat.two_mul, Nat.pow_add]
  rw [hpow]
  have hmm : m * m ≤ 2 ^ m * 2 ^ m := Nat.mul_le_mul (Nat.le_of_lt hlt) (Nat.le_of_lt hlt)
  have hc : c * (1 + (1 + digits (2 * m) (2 * m) + 2) + 2) ≤ c * (2 * m + 7) :=
    Nat.mul_le_mul_left c (by omega)
  have e2 : m * m = 2 * (c * m) + 7 * m := by
    have h0 : m * m = (2 * c + 7) * m := congrArg (· * m) hm
    rw [h0, Nat.add_mul, Nat.mul_assoc]
  have e1 : c * (2 * m + 7) = 2 * (c * m) + 7 * c := by
    rw [Nat.mul_add, Nat.mul_left_comm, Nat.mul_comm c 7]
  omega

/-- the reported input: `10 ** 10 ** 10` (8 source characters) is folded to a number of more than 10^10 bits -/
theorem fold_witness (n : Nat) (hn : n = 10) :
    (CExpr.pow (.lit 10) (.pow (.lit 10) (.lit 10))).size = 10 ∧
    (CExpr.pow (.lit n) (.pow (.lit n) (.lit n))).fold none = some (n ^ n ^ n) ∧ 2 ^ (n ^ n) ≤ n ^ n ^ n := by
  refine ⟨by decide, fold_unguarded _, ?_⟩
  exact Nat.pow_le_pow_left (by omega) _

/-- with the proposed guard (`a.bit_length() * b ≤ t`, else "not folded") every value the folder *computes*
    has at most `t` bits — whatever the expression -/
theorem fold_guarded_bounded (t : Nat) (a b : CExpr) (v : Nat)
    (h : (CExpr.pow a b).fold (some t) = some v) : v ≤ 2 ^ t := by
  simp only [CExpr.fold] at h
  cases ha : a.fold (some t) with
  | none => simp [ha] at h
  | some x =>
    cases hb : b.fold (some t) with
    | none => simp [ha, hb] at h
    | some y =>
      simp only [ha, hb, foldPow] at h
      split at h
      · rename_i hle
        have hv : v = x ^ y := by simpa using h.symm
        rw [hv]
        exact Nat.le_trans (pow_le_two_pow_bits x y) (Nat.pow_le_pow_right (by omega) hle)
      · simp at h

/-- the guard refuses the witness (for the proposed threshold) and still folds ordinary constants -/
example : (CExpr.pow (.lit 10) (.pow (.lit 10) (.lit 10))).fold (some 65536) = none := by decide
example : (CExpr.pow (.lit 2) (.lit 100)).fold (some 65536) = some (2 ^ 100) := by decide

end Driver
