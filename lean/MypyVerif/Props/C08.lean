import MypyVerif.Proofs.TypesMeet
/-!
# C08 — the type lattice obeys its laws (for the modelled fragment)

Property theorems only (helpers are in Proofs/Types*.lean).  Quantifiers: every class table `H` that passes the
executable check `Hier.ok` (the driver evaluates it on the table exported from the real `TypeInfo`s on every run)
and all well-formed terms `Ty.wf H` of the fragment — unbounded depth and width.
-/
namespace Types

/-- A small class table used for the non-vacuity examples and the refutation witnesses:
    0 object, 1 tuple[T_co], 2 function, 3 type, 4 A, 5 B(A), 6 Co[T_co], 7 Cn[T_contra], 8 Inv[T]. -/
def demoH : Hier where
  classes := [0, 1, 2, 3, 4, 5, 6, 7, 8]
  generic c := c == 1 || c == 6 || c == 7 || c == 8
  sup c d :=
    if c == d then (if c == 1 || c == 6 || c == 7 || c == 8 then some .param else if c ≤ 8 then some .na else none)
    else if d == 0 && c ≤ 8 then some .na
    else if c == 5 && d == 4 then some .na
    else none
  variance c := if c == 1 || c == 6 then .co else if c == 7 then .contra else .inv
  bases c := if c == 0 then [] else if c == 5 then [4] else [0]
  mroLen c := if c == 0 then 1 else if c == 5 then 3 else 2
  tupleLike c := c == 1
  objectC := 0
  tupleC := 1
  functionC := 2
  typeC := 3

example : demoH.ok = true := by decide

/-- **sub_refl**: subtyping is reflexive (every term, no hypotheses). -/
theorem sub_refl (H : Hier) (t : Ty) : isSubtype H t t = true := S_refl H false t

/-- proper subtyping is reflexive too. -/
theorem psub_refl (H : Hier) (t : Ty) : isProperSubtype H t t = true := S_refl H true t

example : isSubtype demoH (.union [.gen 6 (.inst 5), .none]) (.union [.gen 6 (.inst 5), .none]) = true := by decide

/-- **proper_imp_sub**: a proper subtype is a subtype (every pair of terms, no hypotheses). -/
theorem proper_imp_sub (H : Hier) (l r : Ty) (h : isProperSubtype H l r = true) : isSubtype H l r = true :=
  proper_imp_S H _ l r (Nat.le_refl _) h

example : isProperSubtype demoH (.gen 6 (.inst 5)) (.union [.gen 6 (.inst 4), .none]) = true := by decide
/-- the converse fails: `Type[A] <: Callable[[], A]` is accepted by `is_subtype` only -/
example : isSubtype demoH (.typeType (.inst 4)) (.callable [] (.inst 4)) = true
    ∧ isProperSubtype demoH (.typeType (.inst 4)) (.callable [] (.inst 4)) = false := by decide

/-- **psub_trans**: proper subtyping is transitive on the whole fragment. -/
theorem psub_trans (H : Hier) (hok : H.ok = true) (a b c : Ty)
    (wa : a.wf H = true) (wb : b.wf H = true) (wc : c.wf H = true)
    (h1 : isProperSubtype H a b = true) (h2 : isProperSubtype H b c = true) :
    isProperSubtype H a c = true := by
  have := trans_all (H.ok_sound hok) _ true true a b c (Nat.le_refl _) ⟨Or.inl rfl, Or.inl rfl⟩ wa wb wc h1 h2
  simpa [isProperSubtype_eq] using this

/-- **not_sub_trans** (finding F-C08a): the full statement of transitivity is false of the transcribed rules (and of the code):
    `Type[A] <: Callable[[], A] <: builtins.function` but not `Type[A] <: builtins.function`. -/
theorem not_sub_trans : ∃ (H : Hier) (a b c : Ty), H.ok = true ∧ a.wf H = true ∧ b.wf H = true ∧ c.wf H = true ∧
    isSubtype H a b = true ∧ isSubtype H b c = true ∧ isSubtype H a c = false :=
  ⟨demoH, .typeType (.inst 4), .callable [] (.inst 4), .inst 2, by decide⟩

/-- **sub_trans_partial**: subtyping is transitive whenever `builtins.function` — the fallback of callables,
    not denotable in source — does not occur in the two outer types (`Ty.noFunc`, a decidable predicate;
    nothing is required of the middle type). -/
theorem sub_trans_partial (H : Hier) (hok : H.ok = true) (a b c : Ty)
    (wa : a.wf H = true) (wb : b.wf H = true) (wc : c.wf H = true)
    (na : a.noFunc H = true) (nc : c.noFunc H = true)
    (h1 : isSubtype H a b = true) (h2 : isSubtype H b c = true) : isSubtype H a c = true := by
  have := trans_all (H.ok_sound hok) _ false false a b c (Nat.le_refl _) ⟨Or.inr nc, Or.inr na⟩ wa wb wc h1 h2
  simpa [isSubtype_eq] using this

/-- non-vacuity: a chain through a covariant generic, a union and a contravariant callable parameter -/
example : let a := Ty.callable [.union [.inst 4, .none]] (.gen 6 (.inst 5))
          let b := Ty.callable [.inst 4] (.gen 6 (.inst 4))
          let c := Ty.union [.callable [.inst 5] (.gen 6 (.inst 4)), .none]
          a.wf demoH = true ∧ b.wf demoH = true ∧ c.wf demoH = true
          ∧ a.noFunc demoH = true ∧ c.noFunc demoH = true
          ∧ isSubtype demoH a b = true ∧ isSubtype demoH b c = true ∧ a ≠ b ∧ b ≠ c := by decide

/-- **simplify_equiv**: `make_simplified_union(items)` is equivalent (mutual subtyping) to the plain union of
    the items — any non-empty list of well-formed items. -/
theorem simplify_equiv (H : Hier) (hok : H.ok = true) (items : List Ty)
    (hw : ∀ t ∈ items, t.wf H = true) (hne : items ≠ []) :
    isSubtype H (simplifyUnion H items) (.union items) = true ∧
    isSubtype H (.union items) (simplifyUnion H items) = true :=
  simplify_equiv_S (H.ok_sound hok) items (wfL_iff.2 hw) (flattenL_ne_nil (wfL_iff.2 hw) hne)

/-- the literal fast path of `_remove_redundant_union_items` keeps a redundant literal:
    `[Literal[1], int, Literal[2]]` simplifies to `Literal[1] | int | Literal[2]` — still equivalent -/
example : simplifyUnion demoH [.lit 4 2, .inst 4, .lit 4 4] = .union [.lit 4 2, .inst 4, .lit 4 4]
    ∧ simplifyUnion demoH [.inst 5, .none, .inst 4, .never] = .union [.none, .inst 4] := by decide

/-- **simplify_perm**: permuting the items gives an equivalent result. -/
theorem simplify_perm (H : Hier) (hok : H.ok = true) (items items' : List Ty)
    (hw : ∀ t ∈ items, t.wf H = true) (hp : items.Perm items') :
    isSubtype H (simplifyUnion H items) (simplifyUnion H items') = true ∧
    isSubtype H (simplifyUnion H items') (simplifyUnion H items) = true := by
  have hw' : ∀ t ∈ items', t.wf H = true := fun t ht => hw t (hp.mem_iff.2 ht)
  exact ⟨simplify_perm_S (H.ok_sound hok) items items' (wfL_iff.2 hw) (wfL_iff.2 hw') (fun t => hp.mem_iff),
         simplify_perm_S (H.ok_sound hok) items' items (wfL_iff.2 hw') (wfL_iff.2 hw) (fun t => hp.mem_iff.symm)⟩

/-- the results really differ syntactically between orders (so the statement is about equivalence) -/
example : simplifyUnion demoH [.inst 4, .lit 4 2, .gen 6 (.inst 5)] ≠ simplifyUnion demoH [.gen 6 (.inst 5), .lit 4 2, .inst 4] := by
  decide

/-! ### join and meet

`Ty.noFunc`: `builtins.function` does not occur; `Ty.latOk`: the argument of every invariant or contravariant
generic instance is free of `Type[...]`.  Both are decidable predicates; both are needed (see the `not_…`
theorems).  The statements cover both argument orders: they hold for every ordered pair. -/

/-- `join_types` and `meet_types` stay inside the well-formed fragment. -/
theorem join_meet_wf (H : Hier) (hok : H.ok = true) (s t : Ty)
    (ws : s.wf H = true) (wt : t.wf H = true) (ns : s.noFunc H = true) (nt : t.noFunc H = true)
    (ls : s.latOk H = true) (lt : t.latOk H = true) :
    (join H s t).wf H = true ∧ (meet H s t).wf H = true := by
  have := jm_good (H.ok_sound hok) _ s t (Nat.le_refl _) (Hyp.of ws ns ls) (Hyp.of wt nt lt)
  exact ⟨this.1.wf, this.2.wf⟩

/-- **join_upper_partial**: the join is a supertype of both operands. -/
theorem join_upper_partial (H : Hier) (hok : H.ok = true) (s t : Ty)
    (ws : s.wf H = true) (wt : t.wf H = true) (ns : s.noFunc H = true) (nt : t.noFunc H = true)
    (ls : s.latOk H = true) (lt : t.latOk H = true) :
    isSubtype H s (join H s t) = true ∧ isSubtype H t (join H s t) = true := by
  have := (jm_good (H.ok_sound hok) _ s t (Nat.le_refl _) (Hyp.of ws ns ls) (Hyp.of wt nt lt)).1
  exact ⟨this.left, this.right⟩

/-- the join of equivalent operands is equivalent to them (what the invariant/contravariant branch of
    `join_instances` and `combine_similar_callables` rely on). -/
theorem join_of_equivalent (H : Hier) (hok : H.ok = true) (s t : Ty)
    (ws : s.wf H = true) (wt : t.wf H = true) (ns : s.noFunc H = true) (nt : t.noFunc H = true)
    (ls : s.latOk H = true) (lt : t.latOk H = true)
    (h1 : isSubtype H s t = true) (h2 : isSubtype H t s = true) :
    isSubtype H (join H s t) s = true ∧ isSubtype H (join H s t) t = true :=
  (jm_good (H.ok_sound hok) _ s t (Nat.le_refl _) (Hyp.of ws ns ls) (Hyp.of wt nt lt)).1.equiv h1 h2

/-- **meet_lower_partial**: the meet is a subtype of both operands. -/
theorem meet_lower_partial (H : Hier) (hok : H.ok = true) (s t : Ty)
    (ws : s.wf H = true) (wt : t.wf H = true) (ns : s.noFunc H = true) (nt : t.noFunc H = true)
    (ls : s.latOk H = true) (lt : t.latOk H = true) :
    isSubtype H (meet H s t) s = true ∧ isSubtype H (meet H s t) t = true := by
  have := (jm_good (H.ok_sound hok) _ s t (Nat.le_refl _) (Hyp.of ws ns ls) (Hyp.of wt nt lt)).2
  exact ⟨this.left, this.right⟩

/-- non-vacuity: a join through the diamond-free hierarchy, a callable join (meet of parameters, join of
    returns), tuples of different length (fallback), and a meet of unions -/
example :
    join demoH (.gen 6 (.inst 5)) (.union [.gen 6 (.inst 4), .none]) = .union [.gen 6 (.inst 4), .none]
    ∧ join demoH (.callable [.inst 4] (.inst 5)) (.callable [.inst 5] (.inst 4)) = .callable [.inst 5] (.inst 4)
    ∧ join demoH (.tuple [.inst 5]) (.tuple [.inst 4, .inst 5]) = .gen 1 (.inst 4)
    ∧ meet demoH (.union [.inst 4, .none]) (.union [.inst 5, .gen 6 (.inst 4)]) = .inst 5 := by decide

/-- **not_meet_lower** (finding F-C08b): without `latOk` the statement is false of the transcribed rules (and of
    the code): for contravariant `Cn`, `meet(Cn[Callable[[], A]], Cn[Type[A]]) = Cn[Never]`, a subtype of neither. -/
theorem not_meet_lower : ∃ (H : Hier) (s t : Ty), H.ok = true ∧ s.wf H = true ∧ t.wf H = true ∧
    s.noFunc H = true ∧ t.noFunc H = true ∧
    isSubtype H (meet H s t) s = false ∧ isSubtype H (meet H s t) t = false :=
  ⟨demoH, .gen 7 (.callable [] (.inst 4)), .gen 7 (.typeType (.inst 4)), by decide⟩

/-- **not_join_upper** (finding F-C08b, derived): the same cell breaks the join of callables whose parameters meet there:
    `join(Callable[[Cn[Callable[[], A]]], A], Callable[[Cn[Type[A]]], A])` has parameter `Cn[Never]`. -/
theorem not_join_upper : ∃ (H : Hier) (s t : Ty), H.ok = true ∧ s.wf H = true ∧ t.wf H = true ∧
    s.noFunc H = true ∧ t.noFunc H = true ∧ isSubtype H s (join H s t) = false :=
  ⟨demoH, .callable [.gen 7 (.callable [] (.inst 4))] (.inst 4), .callable [.gen 7 (.typeType (.inst 4))] (.inst 4),
   by decide⟩

end Types
