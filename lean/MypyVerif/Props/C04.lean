import MypyVerif.Proofs.Store
import MypyVerif.Proofs.Build
/-!
# C04 — a killed run or a failed cache write never makes later runs wrong

Per module, the physical cache entry goes through the store operations of `Store.updateOps`.  A kill keeps
a prefix of them (file store: every successful write is durable at once; sqlite: the state at the last
commit — also a prefix state); a failed operation takes no effect and steers the control flow as in the
code.  `Safe` says: whatever the next run would trust pairs a meta record with the meta_ex record of the
*same* analysis (and with the data record that meta was written after), i.e. the trusted entry is a true
trace of one analysis — which is `Build.Valid`, the hypothesis under which C02's `warm_eq_cold_step` gives
"next run = cold run".
-/
namespace Store

/-- **update_crash_safe** (repaired protocol): for every entry state, every analysis `t` newer than it,
    every subset of failing operations and every crash point, what is left behind is `Safe`. -/
theorem update_crash_safe (p : Phys) (changed : Bool) (t : Nat) (f : Fails)
    (hs : Safe p) (hb : Below p t) :
    ∀ q ∈ crashStates p (updateOps true changed t p.data f), Safe q ∧ Below q (t + 1) := by
  have hb' : Below p (t + 1) := below_mono p t (t + 1) (by omega) hb
  intro q hq
  unfold updateOps dataOps at hq
  cases changed
  · -- interface unchanged: the data record stays
    cases hd : p.data with
    | none => simp [hd, crashStates] at hq; subst hq; exact ⟨hs, hb'⟩
    | some dt =>
      simp only [hd, Bool.false_eq_true, if_false, List.nil_append] at hq
      have : dt ≤ t := by have := hb.1 dt hd; omega
      exact tail_safe p t dt f this hs hb' q hq
  · cases hfd : f.data
    · simp only [hfd, if_true, Bool.false_eq_true, if_false, List.cons_append, List.nil_append] at hq
      rw [crashStates_cons] at hq
      rcases hq with rfl | hq
      · exact ⟨hs, hb'⟩
      · exact tail_safe _ t t f (by omega) (safe_wData p t hb) (below_wData p t hb') q hq
    · simp [hfd, crashStates] at hq; subst hq; exact ⟨hs, hb'⟩

/-- **update_data_tie** (`crash_safe_data_meta`): whatever is left behind, a meta record that the next run
    would accept (its `data_mtime` matches the data record) describes the interface that data record holds.
    `changed = false` is only ever computed against a trusted old entry whose interface equals the new one
    (`old_interface_hash == interface_hash`), which is hypothesis `hch`. -/
theorem update_data_tie (iface : Nat → Nat) (p : Phys) (changed : Bool) (t : Nat) (f : Fails)
    (hb : Below p t) (hd : DataOk iface p)
    (hch : changed = false → ∀ dt, p.data = some dt →
        ∃ t0, p.metaR = some (t0, dt) ∧ iface t0 = iface t) :
    ∀ q ∈ crashStates p (updateOps true changed t p.data f), DataOk iface q := by
  intro q hq
  unfold updateOps dataOps at hq
  cases changed
  · cases hdat : p.data with
    | none => simp [hdat, crashStates] at hq; subst hq; exact hd
    | some dt =>
      simp only [hdat, Bool.false_eq_true, if_false, List.nil_append] at hq
      obtain ⟨t0, hm, hi⟩ := hch rfl dt hdat
      have h : p.data = some dt → iface dt = iface t := fun h => by rw [hd t0 dt hm h, hi]
      exact (tail_dataOk iface p t dt f hd h q hq).1
  · cases hfd : f.data
    · simp only [hfd, if_true, Bool.false_eq_true, if_false, List.cons_append, List.nil_append] at hq
      rw [crashStates_cons] at hq
      rcases hq with rfl | hq
      · exact hd
      · exact (tail_dataOk iface _ t t f (dataOk_wData iface p t hb) (fun _ => rfl) q hq).1
    · simp [hfd, crashStates] at hq; subst hq; exact hd

/-- a kill keeps some prefix of the effective operations -/
def afterPrefix (p : Phys) (ops : List Op) (k : Nat) : Phys := (ops.take k).foldl apply p

theorem afterPrefix_mem (ops : List Op) : ∀ (p : Phys) (k : Nat), afterPrefix p ops k ∈ crashStates p ops := by
  induction ops with
  | nil => intro p k; simp [afterPrefix, crashStates]
  | cons o os ih =>
    intro p k
    cases k with
    | zero => simp [afterPrefix, crashStates]
    | succ k =>
      have := ih (apply p o) k
      simp only [afterPrefix, List.take_succ_cons, List.foldl_cons] at this ⊢
      simp [crashStates, this]

/-- one (possibly killed, possibly partly failing) run's effect on the entry -/
structure RunStep where
  changed : Bool
  fails : Fails
  killedAfter : Nat        -- number of effective operations that became durable (≥ length: run completed)

def runSteps (new : Bool) : Phys → Nat → List RunStep → Phys
  | p, _, [] => p
  | p, t, s :: ss => runSteps new (afterPrefix p (updateOps new s.changed t p.data s.fails) s.killedAfter) (t + 1) ss

/-- **crash_safe_history**: from the empty entry, after ANY finite sequence of runs — each killed at any
    point and with any subset of its store operations failing — the entry is `Safe`: the next run either does
    not trust it or replays the records of one single analysis. -/
theorem crash_safe_history (steps : List RunStep) : ∀ (p : Phys) (t : Nat), Safe p → Below p t →
    Safe (runSteps true p t steps) := by
  induction steps with
  | nil => intro p t hs _; exact hs
  | cons s ss ih =>
    intro p t hs hb
    have h := update_crash_safe p s.changed t s.fails hs hb _
      (afterPrefix_mem (updateOps true s.changed t p.data s.fails) p s.killedAfter)
    exact ih _ (t + 1) h.1 h.2

def empty : Phys := { data := none, metaR := none, metaEx := none }
theorem empty_safe : Safe empty ∧ Below empty 0 := by
  refine ⟨?_, ?_, ?_, ?_⟩
  · intro _ _ _ h; cases h
  · intro _ h; cases h
  · intro _ _ h; cases h
  · intro _ h; cases h

/-- what a trusted entry replays is the meta and the meta_ex of the same analysis -/
theorem trusted_replays_one_analysis (p : Phys) (hs : Safe p) (t t' : Nat)
    (h : replayed p = some (t, t')) : t' = t := by
  unfold replayed at h
  cases hm : p.metaR with
  | none => simp [hm] at h
  | some m =>
    cases hd : p.data with
    | none => simp [hm, hd] at h
    | some d =>
      cases he : p.metaEx with
      | none => simp [hm, hd, he] at h
      | some e =>
        simp only [hm, hd, he] at h
        split at h
        · rename_i heq
          simp at h heq
          obtain ⟨rfl, rfl⟩ := h
          exact hs m.1 m.2 e (by rw [hm]) (by rw [hd, heq]) he
        · cases h

/-! ### The protocol before the repair (finding F2) is not crash safe -/

/-- entry written by analysis 0; analysis 1 re-analyses the module with an unchanged interface -/
def e0 : Phys := { data := some 0, metaR := some (0, 0), metaEx := some 0 }
def noFail : Fails := { data := false, rm := false, metaR := false, metaEx := false }

/-- **not_crash_safe_old_order**: with the old order (`write meta; write meta_ex`) a kill between the two
    writes leaves the new meta next to the old meta_ex, trusted. -/
theorem not_crash_safe_old_order :
    Safe e0 ∧ Below e0 1 ∧ ∃ q ∈ crashStates e0 (updateOps false false 1 e0.data noFail),
      trusted q = true ∧ ¬ Safe q := by
  refine ⟨by decide, ⟨by decide, fun a b h => by simp [e0] at h; omega, by decide⟩, ⟨{ data := some 0, metaR := some (1, 0), metaEx := some 0 }, by decide, by decide, by decide⟩⟩

/-- **not_failed_write_safe_old_order**: in the old protocol a single failed meta_ex write (the run carries
    on and finishes) also leaves a trusted, incoherent entry — for either store. -/
theorem not_failed_write_safe_old_order :
    let q := (updateOps false false 1 e0.data { noFail with metaEx := true }).foldl apply e0
    trusted q = true ∧ ¬ Safe q := by
  decide

-- non-vacuity: the repaired protocol on the same entry, every crash point, every single failure
example : ∀ q ∈ crashStates e0 (updateOps true false 1 e0.data noFail), Safe q := by decide
example : ∀ q ∈ crashStates e0 (updateOps true true 1 e0.data { noFail with metaEx := true }), Safe q := by decide
example : replayed ((updateOps true true 1 e0.data noFail).foldl apply e0) = some (1, 1) := by decide

/-! ### Many modules, any interleaving (parallel workers, sharded store) -/

abbrev StoreSt := Nat → Phys

def applyG (s : StoreSt) (mo : Nat × Op) : StoreSt := fun m => if m = mo.1 then apply (s m) mo.2 else s m

def proj (m : Nat) (ops : List (Nat × Op)) : List Op :=
  ops.filterMap fun mo => if mo.1 = m then some mo.2 else none

/-- operations on other modules do not touch a module's entry: the entry of `m` after any global trace is
    the entry after the projection of the trace on `m` -/
theorem interleaving_proj (ops : List (Nat × Op)) : ∀ (s : StoreSt) (m : Nat),
    (ops.foldl applyG s) m = (proj m ops).foldl apply (s m) := by
  induction ops with
  | nil => intro s m; rfl
  | cons mo os ih =>
    intro s m
    simp only [List.foldl_cons, proj, List.filterMap_cons]
    rw [ih]
    by_cases h : mo.1 = m
    · simp only [h, if_true, List.foldl_cons]
      congr 1
      simp [applyG, h]
    · simp only [h, if_false]
      congr 1
      simp [applyG, Ne.symm h]

/-- **crash_safe_interleaved**: whatever the interleaving of the workers' store operations and wherever the
    build is killed, if — per module — the operations that reached the store form a prefix of that module's
    update sequence, every entry is `Safe`. -/
theorem crash_safe_interleaved (s : StoreSt) (t : Nat) (ops : List (Nat × Op))
    (hs : ∀ m, Safe (s m) ∧ Below (s m) t)
    (hp : ∀ m, ∃ (changed : Bool) (f : Fails) (k : Nat),
        proj m ops = (updateOps true changed t (s m).data f).take k) :
    ∀ m, Safe ((ops.foldl applyG s) m) := by
  intro m
  obtain ⟨changed, f, k, hk⟩ := hp m
  rw [interleaving_proj, hk]
  exact (update_crash_safe (s m) changed t f (hs m).1 (hs m).2 _
    (afterPrefix_mem (updateOps true changed t (s m).data f) (s m) k)).1

end Store
