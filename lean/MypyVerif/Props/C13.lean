import MypyVerif.Proofs.Errors
import MypyVerif.Proofs.ErrorsDisplay
import MypyVerif.Gen.ErrorCodes
import MypyVerif.Gen.ExitRule
/-!
# C13 — error suppression is exact and the exit status tells the truth

Property theorems only (helpers: Proofs/Errors.lean; models: Model/ErrPos, Model/Errors, Model/ExitStatus;
the error-code table: Gen/ErrorCodes, regenerated from mypy/errorcodes.py on every run).

Quantifiers: every environment of code constants, every configuration, every sink state, every finite
stream of events (`set_file`, `set_file_ignored_lines`, …, `report`, `add_error_info`,
`generate_unused_ignore_errors`, …), every line / tag list / code added.

The sink has three history-dependent mechanisms (only_once messages, the many-errors limit, the only_once
error-code-link notes).  `Quiet` (decidable, on the start state and the stream) switches them off:
`NoOnlyOnceCollision` ∧ `BelowManyErrorsThreshold` (threshold < 0, the default) ∧ no code links.  Under
`Quiet` the sink is *stateless* (`sink_stateless`), and adding an ignore / disabling a code changes what is
stored by exactly the stated rule (`ignore_exact`, `disable_code_exact`); without it the statement is false
(`not_ignore_exact_only_once`).  The exit-status clause is false as stated (`not_exit_status_truth`, F5).
-/

/-! ## positions (also used by C14) -/
namespace ErrPos

/-- **`report_end_ge_start`**: for every call of `Errors.report`, the stored `end_line ≥ line` -/
theorem report_end_ge_start (line : Int) (column endLine endColumn : Option Int) :
    (clamp line column endLine endColumn).line ≤ (clamp line column endLine endColumn).endLine :=
  Errors.clamp_line_le line column endLine endColumn

/-- **`report_same_line_end_col`**: … and when the span is on one line, `end_column > column` -/
theorem report_same_line_end_col (line : Int) (column endLine endColumn : Option Int) :
    (clamp line column endLine endColumn).endLine = (clamp line column endLine endColumn).line →
    (clamp line column endLine endColumn).column < (clamp line column endLine endColumn).endColumn :=
  Errors.clamp_col_lt line column endLine endColumn

-- the clamp really changes bad arguments (end before start, end column before column, unknown column)
example : clamp 3 (some 4) (some 2) (some 1) = ⟨3, 4, 3, 5⟩ := by decide
example : clamp 3 none none none = ⟨3, -1, 3, 0⟩ := by decide
example : clamp 3 (some 4) (some 5) (some 1) = ⟨3, 4, 5, 1⟩ := by decide

end ErrPos

namespace Errors

/-- every ErrorInfo built by `Errors.report` has a valid span -/
theorem report_position_valid (env : Env) (cfg : Cfg) (a : ReportArgs) :
    (mkInfo env cfg a).line ≤ (mkInfo env cfg a).endLine ∧
    ((mkInfo env cfg a).endLine = (mkInfo env cfg a).line → (mkInfo env cfg a).column < (mkInfo env cfg a).endColumn) :=
  ⟨clamp_line_le a.line a.column a.endLine a.endColumn, clamp_col_lt a.line a.column a.endLine a.endColumn⟩

/-- every tuple `file_messages` ever returns has `end_line ≥ line` and, on one line, `end_column > column`
    (or both columns unknown: the sink's own unused-ignore errors) — for every stream whose directly added
    infos (`add_error_info(info)`) have valid spans -/
theorem reported_positions_valid (env : Env) (evs : List Ev) (hev : ∀ e ∈ evs, posEv e) (path : FileId)
    (t : Tuple) (ht : t ∈ fileMessages (run env St.init evs).dyn path) :
    t.line ≤ t.endLine ∧ (t.endLine = t.line → t.column < t.endColumn ∨ (t.column = -1 ∧ t.endColumn = -1)) := by
  obtain ⟨i, hi, _, rfl⟩ := fileMessages_sub _ path t ht
  have hall := run_pos env evs St.init (fun p hp => by cases hp) hev
  exact hall (path, i) hi

/-! ## blockers -/

/-- **`blockers_never_ignored`**: whatever the `# type: ignore` maps, the disabled codes and the
    `ignore_errors` files say, a blocking error (not only_once) is stored, its file is marked as having
    blockers, and no ignore is marked used -/
theorem blockers_never_ignored (env : Env) (cfg : Cfg) (d : Dyn) (i : Info) (file : Option FileId)
    (hb : i.blocker = true) (ho : i.onlyOnce = false) :
    (addErrorInfo env cfg d i file).used = d.used ∧
    (file.getD cfg.file) ∈ (addErrorInfo env cfg d i file).hasBlockers ∧
    ((file.getD cfg.file, i) ∈ (addErrorInfo env cfg d i file).infos ∨
     (file.getD cfg.file, { i with hidden := true }) ∈ (addErrorInfo env cfg d i file).infos) :=
  addErrorInfo_blocker env cfg d i file hb ho

/-- … and with the many-errors limit off it is displayed: `file_messages` contains a tuple with its line,
    severity and text -/
theorem blocker_is_shown (env : Env) (cfg : Cfg) (d : Dyn) (i : Info) (file : Option FileId)
    (hb : i.blocker = true) (ho : i.onlyOnce = false) (hq : QuietOpts cfg.opts) (hh : i.hidden = false)
    (hp : i.parent = none) :
    ∃ t ∈ fileMessages (addErrorInfo env cfg d i file) (file.getD cfg.file),
      t.line = i.line ∧ t.sev = i.sev ∧ t.msg = i.msg := by
  have hst : ignoreStage env cfg (file.getD cfg.file) i = .pass := by simp [ignoreStage, hb]
  have hmem : (file.getD cfg.file, i) ∈ (addErrorInfo env cfg d i file).infos := by
    simp only [addErrorInfo, hst, applyOutcome]
    rw [storeStage_not_once env cfg d _ i ho, afterOnlyOnce_quiet _ _ _ _ _ hq]
    exact (addNote_le env _ _ _).2.1 _ (by simp [rawAdd])
  exact fileMessages_shows _ _ i hmem hh hp

-- an ignore on the line, a disabled code and an ignore_errors file together do not stop a blocker
example :
    let cfg : Cfg := { Cfg.init with file := 1, ignoredLines := [(1, [(3, [])])], ignoredFiles := [1],
                                     opts := { Cfg.init.opts with disabled := [0] } }
    let i : Info := { uid := 1, importCtx := 0, line := 3, column := 0, endLine := 3, endColumn := 1, sev := .error,
                      msg := .user 1 0, code := some ⟨0, none, true, true⟩, blocker := true, onlyOnce := false,
                      span := [3], priority := 0, hidden := false, parent := none }
    (fileMessages (addErrorInfo Gen.env cfg Dyn.init i none) 1).length = 1 ∧
    (fileMessages (addErrorInfo Gen.env cfg Dyn.init { i with blocker := false } none) 1).length = 0 := by decide

/-! ## the sink is stateless under `Quiet` -/

/-- under `Quiet`, configuration, used-ignore log, stored infos and blocker files of the sink are those of the
    history-free fold `liteRun`: every report is decided by the configuration and the report alone -/
theorem sink_stateless (env : Env) (s : St) (evs : List Ev) (h : Quiet s evs) :
    ((run env s evs).cfg, (run env s evs).dyn.lite) = liteRun env s.cfg s.dyn.lite evs :=
  run_lite env evs s h

/-! ## `# type: ignore` is exact -/

/-- **`ignore_exact`**.  Take any stream `evs` (satisfying `Quiet`) and the same stream for the program with
    `# type: ignore[C]` added on line `L` of file `f` (a line that has no ignore yet).  Then what the sink holds
    at the end — stored infos, used-ignore log, blocker files — is `deltaRun`, i.e. the *original* run with this
    rule applied at each submitted info `i` (`deltaAdd`):
    * if `newlyFirst` — `i` is for file `f`, not a blocker, and scanning its origin span in order reaches `L`,
      where the new tag list matches (bare / the code / its parent code), before any line that ignored it
      already — then `i` is not stored and `(f, L, code)` is logged as used (nothing at all if the code is disabled);
    * otherwise `i` is treated exactly as before (stored or not, same used mark), and if it is stored on line
      `L`, has a code and `C` is not bare, the note `Error code … not covered by "type: ignore[C]"` follows it;
    * `generate_unused_ignore_errors` / `generate_ignore_without_code_errors` are the same functions of the
      (new) map and the (new) used log — see `unused_iff`.  -/
theorem ignore_exact (env : Env) (f : FileId) (L : Int) (C : List CodeName) (s : St) (evs : List Ev)
    (hq : Quiet s evs) (hc : FreshCfg f L s.cfg) (hev : ∀ e ∈ evs, freshEv f L e) :
    (run env { cfg := s.cfg.ext f L C, dyn := s.dyn } (evs.map (addIgnoreEv f L C))).cfg
        = (run env s evs).cfg.ext f L C ∧
    (run env { cfg := s.cfg.ext f L C, dyn := s.dyn } (evs.map (addIgnoreEv f L C))).dyn.lite
        = deltaRun env f L C s.cfg s.dyn.lite evs := by
  have h1 := run_lite env _ _ (quiet_addIgnore f L C s evs hq)
  have h2 := liteRun_ext env f L C evs s.cfg s.dyn.lite hc hev
  have h3 := run_lite env evs s hq
  simp only at h1
  rw [h2] at h1
  have hcfg : (run env s evs).cfg = cfgRun s.cfg evs := by
    have := congrArg Prod.fst h3
    simp only at this
    rw [this, liteRun_cfg]
  constructor
  · rw [hcfg]; exact congrArg Prod.fst h1
  · exact congrArg Prod.snd h1

/-- **only matching errors are removed**: a report whose fate changes is for that file, is not a blocker,
    has `L` in its origin span, and its code is disabled or matches the tags: bare ignore, the code itself, or
    the code it is a sub-code of -/
theorem ignore_removes_only_matching (c : Cfg) (f : FileId) (L : Int) (C : List CodeName) (file : FileId) (i : Info)
    (h : newlyFirst c f L C file i = true) :
    file = f ∧ i.blocker = false ∧ L ∈ i.span ∧
    (codeDisabled c.opts i.code = true ∨ C = [] ∨
      ∃ k, i.code = some k ∧ isEnabled c.opts k = true ∧ (k.name ∈ C ∨ ∃ p, k.subOf = some p ∧ p ∈ C)) := by
  unfold newlyFirst at h
  simp only [Bool.and_eq_true, decide_eq_true_eq, Bool.not_eq_true'] at h
  obtain ⟨⟨hf, hb⟩, hm⟩ := h
  cases hl : lookup f c.ignoredLines with
  | none => rw [hl] at hm; cases hm
  | some ign =>
    rw [hl] at hm
    obtain ⟨hhit, hL⟩ := firstNew_spec _ _ _ _ hm
    refine ⟨hf, hb, hL, ?_⟩
    unfold hitNew at hhit
    simp only [hb, Bool.not_false, Bool.true_and, Bool.or_eq_true] at hhit
    rcases hhit with hd | hm2
    · exact Or.inl hd
    · cases C with
      | nil => exact Or.inr (Or.inl rfl)
      | cons x xs =>
        right; right
        simp only [lineMatches, codeMatches] at hm2
        cases hcode : i.code with
        | none => simp [hcode] at hm2
        | some k =>
          simp only [hcode, Bool.and_eq_true, Bool.or_eq_true, decide_eq_true_eq] at hm2
          refine ⟨k, rfl, hm2.1, ?_⟩
          rcases hm2.2 with h1 | h2
          · exact Or.inl h1
          · right
            cases hs : k.subOf with
            | none => simp [subIn, hs] at h2
            | some p => exact ⟨p, rfl, by simpa [subIn, hs] using h2⟩

/-- **nothing else changes**: a report that does not have `L` in its origin span and is not on line `L` (or is
    for another file, or is a blocker that is not on line `L`) is treated exactly as without the new ignore -/
theorem ignore_other_reports_unchanged (env : Env) (f : FileId) (L : Int) (C : List CodeName) (c : Cfg) (l : Lite)
    (i : Info) (g : Option FileId) (h : g.getD c.file ≠ f ∨ (L ∉ i.span ∧ i.line ≠ L)) :
    deltaAdd env f L C c l i g = liteAdd env c l i g := by
  unfold deltaAdd liteAdd
  have hn : newlyFirst c f L C (g.getD c.file) i = false := by
    cases hh : newlyFirst c f L C (g.getD c.file) i with
    | false => rfl
    | true =>
      obtain ⟨h1, _, h3, _⟩ := ignore_removes_only_matching c f L C _ i hh
      rcases h with h | h
      · exact absurd h1 h
      · exact absurd h3 h.1
  have he : extraNote env c f L C (g.getD c.file) i = [] := by
    unfold extraNote
    rcases h with h | h
    · simp [h]
    · simp [h.2]
  rw [hn, he]
  simp

-- non-vacuity of `ignore_exact`, all three effects at once: e1 (arg-type, line 3) is removed by the new
-- `# type: ignore[arg-type]` on line 3, e2 (misc, line 3) stays and gets the "not covered" note, e3 (line 5) is untouched
def exStream : List Ev :=
  [ .setFile 1 { enabled := [], disabled := [], showLinks := false, manyThreshold := -1 },
    .setIgnored 1 [] false, .setSkipped 1 [],
    .report { uid := 1, line := 3, column := some 0, msgId := 10, code := some ⟨2, none, true, false⟩, blocker := false,
              sev := .error, onlyOnce := false, span := [3], offset := 0, endLine := none, endColumn := none, parent := none },
    .report { uid := 2, line := 3, column := some 4, msgId := 11, code := some ⟨29, none, true, false⟩, blocker := false,
              sev := .error, onlyOnce := false, span := [3], offset := 0, endLine := none, endColumn := none, parent := none },
    .report { uid := 3, line := 5, column := some 0, msgId := 12, code := some ⟨2, none, true, false⟩, blocker := false,
              sev := .error, onlyOnce := false, span := [5], offset := 0, endLine := none, endColumn := none, parent := none },
    .genUnused 1 false ]

example : Quiet St.init exStream ∧ FreshCfg 1 3 St.init.cfg ∧ (∀ e ∈ exStream, freshEv 1 3 e) := by
  refine ⟨by decide, ?_, by decide⟩
  intro ign h; cases h
example : (fileMessages (run Gen.env St.init exStream).dyn 1).map (fun t => (t.line, t.msg)) =
    [(3, .user 10 0), (3, .user 11 0), (5, .user 12 0)] := by decide
example : (fileMessages (run Gen.env St.init (exStream.map (addIgnoreEv 1 3 [2]))).dyn 1).map (fun t => (t.line, t.msg)) =
    [(3, .user 11 0), (3, .notCovered 29 [2]), (5, .user 12 0)] := by decide

/-- the hypothesis is needed (F13): with an only_once collision the sink is not stateless (the second copy of
    the note is dropped because of the first), and ignoring the error that carried the first copy makes the
    note appear at the later error — a diagnostic on another line (7) changes although line 3 was annotated -/
theorem not_ignore_exact_only_once :
    ∃ (f : FileId) (L : Int) (C : List CodeName) (evs : List Ev),
      ¬ Quiet St.init evs ∧ FreshCfg f L St.init.cfg ∧ (∀ e ∈ evs, freshEv f L e) ∧
      (run Gen.env St.init evs).dyn.lite ≠ (liteRun Gen.env St.init.cfg Dyn.init.lite evs).2 ∧
      (fileMessages (run Gen.env St.init evs).dyn f).filter (fun t => t.line = 7) ≠
      (fileMessages (run Gen.env St.init (evs.map (addIgnoreEv f L C))).dyn f).filter (fun t => t.line = 7) := by
  refine ⟨1, 3, [],
    [ .setFile 1 { enabled := [], disabled := [], showLinks := false, manyThreshold := -1 },
      .setIgnored 1 [] false, .setSkipped 1 [],
      .report { uid := 1, line := 3, column := some 0, msgId := 10, code := some ⟨21, some 20, true, true⟩, blocker := false,
                sev := .error, onlyOnce := false, span := [3], offset := 0, endLine := none, endColumn := none, parent := none },
      .report { uid := 2, line := 3, column := some 0, msgId := 99, code := some ⟨21, some 20, true, true⟩, blocker := false,
                sev := .note, onlyOnce := true, span := [3], offset := 0, endLine := none, endColumn := none, parent := none },
      .report { uid := 3, line := 7, column := some 0, msgId := 11, code := some ⟨21, some 20, true, true⟩, blocker := false,
                sev := .error, onlyOnce := false, span := [7], offset := 0, endLine := none, endColumn := none, parent := none },
      .report { uid := 4, line := 7, column := some 0, msgId := 99, code := some ⟨21, some 20, true, true⟩, blocker := false,
                sev := .note, onlyOnce := true, span := [7], offset := 0, endLine := none, endColumn := none, parent := none } ],
    by decide, ?_, by decide, by decide, by decide⟩
  intro ign h; cases h

/-- adding an ignore can make *another* ignore unused (the error is attributed to the first matching line of
    its origin span): here the error spans lines 4–5 and was suppressed by the ignore on line 5; with an ignore
    added on line 4 the one on line 5 suppresses nothing and is reported — consistent with `unused_iff`, but a
    diagnostic on another line changes -/
theorem ignore_can_unuse_another_ignore :
    ∃ evs : List Ev, Quiet St.init evs ∧
      fileMessages (run Gen.env St.init evs).dyn 1 = [] ∧
      (fileMessages (run Gen.env St.init (evs.map (addIgnoreEv 1 4 []))).dyn 1).map (fun t => (t.line, t.msg))
        = [(5, .unusedIgnore [] [])] := by
  refine ⟨[ .setFile 1 { enabled := [], disabled := [], showLinks := false, manyThreshold := -1 },
      .setIgnored 1 [(5, [])] false, .setSkipped 1 [],
      .report { uid := 1, line := 4, column := some 0, msgId := 10, code := some ⟨2, none, true, false⟩, blocker := false,
                sev := .error, onlyOnce := false, span := [4, 5], offset := 0, endLine := some 5, endColumn := none, parent := none },
      .genUnused 1 false ], by decide, by decide, by decide⟩

/-- (found by the search on `functools.partial(fn3, 2)()`, check-functools.test) the same text reported twice
    on a line with different codes: `remove_duplicates` shows only the first.  Ignoring *that* code suppresses the
    first, and the twin — which the ignore does not match — is displayed instead: the error does not go away,
    it changes its code.  All hypotheses of `ignore_exact` hold here; the stored infos obey the delta rule, the
    *display* does not shrink by the deletion because the deletion is not key-closed
    (`displayed_deletion_needs_key_closed`). -/
theorem ignore_can_unhide_duplicate :
    ∃ evs : List Ev, Quiet St.init evs ∧
      (fileMessages (run Gen.env St.init evs).dyn 1).map (fun t => (t.line, t.msg, t.code)) = [(16, .user 10 0, some 2)] ∧
      (fileMessages (run Gen.env St.init (evs.map (addIgnoreEv 1 16 [2]))).dyn 1).map (fun t => (t.line, t.msg, t.code))
        = [(16, .user 10 0, some 29), (16, .notCovered 29 [2], none)] := by
  refine ⟨[ .setFile 1 { enabled := [], disabled := [], showLinks := false, manyThreshold := -1 },
      .setIgnored 1 [] false, .setSkipped 1 [],
      .report { uid := 1, line := 16, column := some 12, msgId := 10, code := some ⟨2, none, true, false⟩, blocker := false,
                sev := .error, onlyOnce := false, span := [16], offset := 0, endLine := none, endColumn := none, parent := none },
      .report { uid := 2, line := 16, column := some 12, msgId := 10, code := some ⟨29, none, true, false⟩, blocker := false,
                sev := .error, onlyOnce := false, span := [16], offset := 0, endLine := none, endColumn := none, parent := none } ],
    by decide, by decide, by decide⟩

/-- (found by the search, check-class-namedtuple.test:testNewNamedTupleOverloading) why `Quiet` excludes
    error-code links: the link note has priority 20 and is ordered *within the run of neighbours that share position
    and code*; the code-less "not covered" notes that a non-matching ignore inserts split that run, so the link
    note ends up before the error's last note instead of after it — surviving messages change their order -/
theorem not_covered_note_reorders_link_note :
    ∃ evs : List Ev, ¬ Quiet St.init evs ∧
      (fileMessages (run Gen.env St.init evs).dyn 1).map (fun t => t.msg)
        = [.user 10 0, .user 11 0, .user 12 0, .seeLink 8] ∧
      (fileMessages (run Gen.env St.init (evs.map (addIgnoreEv 1 14 [29]))).dyn 1).map (fun t => t.msg)
        = [.user 10 0, .notCovered 8 [29], .user 11 0, .seeLink 8, .user 12 0] := by
  refine ⟨[ .setFile 1 { enabled := [], disabled := [], showLinks := true, manyThreshold := -1 },
      .setIgnored 1 [] false, .setSkipped 1 [],
      .report { uid := 1, line := 14, column := some 0, msgId := 10, code := some ⟨8, none, true, true⟩, blocker := false,
                sev := .error, onlyOnce := false, span := [14], offset := 0, endLine := none, endColumn := none, parent := none },
      .report { uid := 2, line := 14, column := some 0, msgId := 11, code := some ⟨8, none, true, true⟩, blocker := false,
                sev := .note, onlyOnce := false, span := [14], offset := 0, endLine := none, endColumn := none, parent := none },
      .report { uid := 3, line := 14, column := some 0, msgId := 12, code := some ⟨8, none, true, true⟩, blocker := false,
                sev := .note, onlyOnce := false, span := [14], offset := 0, endLine := none, endColumn := none, parent := none } ],
    by decide, by decide, by decide⟩

/-! ## from what is stored to what is displayed -/

/-- **output level**.  `ignore_exact` / `disable_code_exact` speak about what the sink stores; `file_messages`
    then sorts and removes duplicates.  If the visible infos stored for a file shrink by a deletion `p` that is
    key-closed (infos that show the same severity and text on the same line are deleted together) and
    parent-closed (a kept attached note keeps its parent), and those infos share one import context and carry no
    priorities (no code-link notes), then what `file_messages` displays shrinks by exactly that deletion:
    nothing else appears, disappears or changes its place. -/
theorem displayed_deletion_exact (d d' : Dyn) (path : FileId) (p : Info → Bool)
    (hdel : (fileInfos d' path).filter (fun i => !i.hidden) = ((fileInfos d path).filter (fun i => !i.hidden)).filter p)
    (hctx : ∀ a ∈ fileInfos d path, ∀ b ∈ fileInfos d path, a.importCtx = b.importCtx)
    (hprio : ∀ a ∈ fileInfos d path, a.priority = 0)
    (hK : ∀ x ∈ fileInfos d path, ∀ y ∈ fileInfos d path, x.parent = none → y.parent = none → dkey x = dkey y → p x = p y)
    (hP : ∀ x ∈ fileInfos d path, p x = true → ∀ u, x.parent = some u → ∀ y ∈ fileInfos d path, y.uid = u → p y = true) :
    fileMessages d' path = ((displayed d path).filter p).map render := by
  have hsub : ∀ a, a ∈ (fileInfos d path).filter (fun i => !i.hidden) → a ∈ fileInfos d path :=
    fun a ha => (List.mem_filter.1 ha).1
  rw [fileMessages_eq_displayed]
  unfold displayed
  rw [hdel, displayed_filter _ p (fun a ha b hb => hctx a (hsub a ha) b (hsub b hb)) (fun a ha => hprio a (hsub a ha))
    (fun x hx y hy => hK x (hsub x hx) y (hsub y hy)) (fun x hx hpx u hu y hy => hP x (hsub x hx) hpx u hu y (hsub y hy))]

-- non-vacuity: e1 + attached note on line 3 (reported after e2, so sorting matters), e2 twice on line 5
-- (de-duplication matters); deleting line 3 satisfies the hypotheses and leaves exactly e2
example :
    let mk : Nat → Int → Sev → Nat → Option Nat → Info := fun uid line sev m par =>
      { uid := uid, importCtx := 0, line := line, column := 0, endLine := line, endColumn := 1, sev := sev,
        msg := .user m 0, code := none, blocker := false, onlyOnce := false, span := [line], priority := 0,
        hidden := false, parent := par }
    let l := [mk 2 5 .error 11 none, mk 1 3 .error 10 none, mk 3 3 .note 12 (some 1), mk 4 5 .error 11 none]
    let p : Info → Bool := fun i => i.line != 3
    (removeDuplicates (sortMessages l)).map (·.uid) = [1, 3, 2] ∧
    (removeDuplicates (sortMessages (l.filter p))).map (·.uid) = [2] ∧
    (∀ x ∈ l, ∀ y ∈ l, x.parent = none → y.parent = none → dkey x = dkey y → p x = p y) ∧
    (∀ x ∈ l, p x = true → ∀ u, x.parent = some u → ∀ y ∈ l, y.uid = u → p y = true) := by decide

/-- the key-closedness hypothesis is needed: two infos that display identically on a line but only one of which
    is deleted (different origin spans) — the survivor, which used to be hidden as a duplicate, now shows up with
    its own column -/
theorem displayed_deletion_needs_key_closed :
    ∃ (l : List Info) (p : Info → Bool),
      (removeDuplicates (sortMessages (l.filter p))) ≠ (removeDuplicates (sortMessages l)).filter p := by
  refine ⟨[{ uid := 1, importCtx := 0, line := 3, column := 0, endLine := 3, endColumn := 1, sev := .error, msg := .user 10 0,
             code := none, blocker := false, onlyOnce := false, span := [3, 4], priority := 0, hidden := false, parent := none },
           { uid := 2, importCtx := 0, line := 3, column := 7, endLine := 3, endColumn := 8, sev := .error, msg := .user 10 0,
             code := none, blocker := false, onlyOnce := false, span := [3], priority := 0, hidden := false, parent := none }],
          (fun i => i.uid != 1), by decide⟩

/-! ## disabling a code is exact -/

/-- what "carrying code `k`" means for the sink: the code itself, or a sub-code of `k` that is not enabled
    explicitly — `is_error_code_enabled` after `k` joins `disabled_error_codes` -/
theorem disabled_iff_carries (o : Opts) (k : CodeName) (code : Code) :
    isEnabled (o.dis k) code = (isEnabled o code && !carries o k code) :=
  isEnabled_dis o k code

/-- **`disable_code_exact`**.  Take any stream (satisfying `Quiet`, non-blocking infos coded — `Errors.report`
    guarantees it) and the same stream with code `k` added to `disabled_error_codes` of every options object.
    Then what the sink holds at the end is `disRun`: the original run in which every non-blocking report that
    carries `k` (`carrierDropped`) is dropped *without marking any ignore used*, and every other report,
    every note and every generated unused-ignore error is computed exactly as before. -/
theorem disable_code_exact (env : Env) (k : CodeName) (s : St) (evs : List Ev)
    (hq : Quiet s evs) (hcoded : ∀ e ∈ evs, codedEv e) :
    (run env { cfg := s.cfg.dis k, dyn := s.dyn } (evs.map (addDisabledEv k))).dyn.lite
      = disRun env k s.cfg s.dyn.lite evs := by
  have hq' : Quiet { cfg := s.cfg.dis k, dyn := s.dyn } (evs.map (addDisabledEv k)) := by
    obtain ⟨h1, h2, h3⟩ := hq
    refine ⟨⟨h1.1, h1.2⟩, ?_, ?_⟩
    · intro e he
      obtain ⟨e0, he0, rfl⟩ := List.mem_map.1 he
      have := h2 e0 he0
      cases e0 with
      | setFile f o => exact ⟨this.1, this.2⟩
      | _ => trivial
    · have : (evs.map (addDisabledEv k)).flatMap onceMsg = evs.flatMap onceMsg := by
        rw [List.flatMap_map]
        congr 1
        funext e
        cases e <;> rfl
      rw [this]; exact h3
  have h1 := run_lite env _ _ hq'
  rw [liteRun_dis env k evs s.cfg s.dyn.lite hcoded] at h1
  exact congrArg Prod.snd h1

/-- a dropped carrier really carries the code (and is not a blocker) -/
theorem disable_removes_only_carriers (c : Cfg) (k : CodeName) (file : FileId) (i : Info)
    (h : carrierDropped c k file i = true) :
    i.blocker = false ∧ ∃ code, i.code = some code ∧
      (code.name = k ∨ (code.subOf = some k ∧ code.name ∉ c.opts.enabled)) := by
  unfold carrierDropped at h
  simp only [Bool.and_eq_true, Bool.not_eq_true'] at h
  obtain ⟨⟨⟨hb, _⟩, _⟩, hc⟩ := h
  refine ⟨hb, ?_⟩
  cases hcode : i.code with
  | none => simp [hcode] at hc
  | some code =>
    refine ⟨code, rfl, ?_⟩
    simp only [hcode, carries, Bool.or_eq_true, decide_eq_true_eq, Bool.and_eq_true, Bool.not_eq_true',
      decide_eq_false_iff_not] at hc
    exact hc

-- non-vacuity: disabling `import` (20) removes the import-not-found (21, sub-code of 20) error, keeps the
-- arg-type one; and the ignore that used to suppress an import-not-found error is now reported unused
example :
    let evs : List Ev :=
      [ .setFile 1 { enabled := [], disabled := [], showLinks := false, manyThreshold := -1 },
        .setIgnored 1 [(9, [])] false, .setSkipped 1 [],
        .report { uid := 1, line := 3, column := some 0, msgId := 10, code := some ⟨21, some 20, true, true⟩, blocker := false,
                  sev := .error, onlyOnce := false, span := [3], offset := 0, endLine := none, endColumn := none, parent := none },
        .report { uid := 2, line := 4, column := some 0, msgId := 11, code := some ⟨2, none, true, false⟩, blocker := false,
                  sev := .error, onlyOnce := false, span := [4], offset := 0, endLine := none, endColumn := none, parent := none },
        .report { uid := 3, line := 9, column := some 0, msgId := 12, code := some ⟨21, some 20, true, true⟩, blocker := false,
                  sev := .error, onlyOnce := false, span := [9], offset := 0, endLine := none, endColumn := none, parent := none },
        .genUnused 1 false ]
    (fileMessages (run Gen.env St.init evs).dyn 1).map (fun t => (t.line, t.msg)) = [(3, .user 10 0), (4, .user 11 0)] ∧
    (fileMessages (run Gen.env St.init (evs.map (addDisabledEv 20))).dyn 1).map (fun t => (t.line, t.msg))
      = [(4, .user 11 0), (9, .unusedIgnore [] [])] ∧
    Quiet St.init evs ∧ (∀ e ∈ evs, codedEv e) := by decide

/-! ## unused ignores -/

/-- **`unused_iff`**: `generate_unused_ignore_errors` reports the entry `(line, codes)` of a file's ignore map
    (line not skipped, `unused-ignore` not among the tags) exactly when the ignore suppressed nothing (bare) or
    some listed code suppressed nothing; `used` is `used_ignored_lines[file][line]` -/
theorem unused_iff (env : Env) (skipped : List Int) (used : List CodeName) (line : Int) (codes : List CodeName)
    (hs : line ∉ skipped) (hu : env.unusedIgnore.name ∉ codes) :
    (unusedMsg env skipped used line codes).isSome = true ↔
      (codes = [] ∧ used = []) ∨ (∃ c ∈ codes, c ∉ used) :=
  unusedMsg_isSome_iff env skipped used line codes hs hu

/-- … and under `Quiet` the used log is precisely the list of suppressions: one `(file, line, code)` for every
    submitted info that `ignoreStage` decided to ignore at that line (`marksOf`), nothing else -/
theorem used_log_is_marks (env : Env) (s : St) (evs : List Ev) (h : Quiet s evs) :
    (run env s evs).dyn.used = s.dyn.used ++ marksOf env s.cfg evs := by
  have h1 := congrArg Prod.snd (run_lite env evs s h)
  have h2 := liteRun_used env evs s.cfg s.dyn.lite
  simp only at h1
  rw [← h1] at h2
  exact h2

/-- the errors `generate_unused_ignore_errors` appends are exactly one per reported entry, in dict order -/
theorem unused_errors_are (env : Env) (cfg : Cfg) (d : Dyn) (file : FileId) (h : file ∉ cfg.ignoredFiles) :
    (genUnused env cfg d file false).lite.infos =
      d.infos ++ (unusedNews env cfg d.used file).map (fun n => (file, n)) := by
  have := (genUnused_lite env cfg d file false).1
  rw [this]
  simp [h, liteAddAll, Dyn.lite]

example : unusedMsg Gen.env [] [] 3 [] = some (.unusedIgnore [] []) := by decide
example : unusedMsg Gen.env [] [2] 3 [] = none := by decide
example : unusedMsg Gen.env [] [2] 3 [2, 29] = some (.unusedIgnore [29] []) := by decide
-- the narrower-code hint: `ignore[import]` used only through its sub-code import-not-found (21)
example : unusedMsg Gen.env [] [21] 3 [20] = some (.unusedIgnore [] [(20, [21])]) := by decide

/-- `generate_ignore_without_code_errors` reports the entry `(line, codes)` exactly when the ignore is bare and —
    if unused ignores are warned about — it suppressed something (otherwise the unused-ignore error stands alone) -/
theorem ignore_without_code_iff (skipped : List Int) (used : List CodeName) (warnUnused : Bool) (line : Int)
    (codes : List CodeName) (hs : line ∉ skipped) :
    (noCodeMsg skipped used warnUnused line codes).isSome = true ↔ codes = [] ∧ (warnUnused = true → used ≠ []) := by
  unfold noCodeMsg
  simp only [hs, if_false]
  cases codes with
  | cons c cs => simp
  | nil =>
    cases warnUnused <;> cases used <;> simp
example : noCodeMsg [] [2, 29, 2] true 3 [] = some (.ignoreWithoutCode [2, 29]) := by decide
example : noCodeMsg [] [] true 3 [] = none := by decide

/-! ## the regenerated error-code table -/

/-- sub-codes are one level deep in mypy/errorcodes.py (so `is_ignored_error` / `is_error_code_enabled`, which
    look one level up, see the whole hierarchy) -/
def subcodesDepthOne (objs : List Code) : Bool :=
  objs.all fun c => match c.subOf with
    | some p => objs.all fun q => q.name != p || q.subOf.isNone
    | none => true

/-- `sub_code_map` (used for the "use narrower" hint) agrees with the `sub_code_of` fields, both ways -/
def subCodeMapSound (objs : List Code) (m : List (CodeName × List CodeName)) : Bool :=
  (objs.all fun c => match c.subOf with
    | some p => decide (c.name ∈ (lookup p m).getD [])
    | none => true) &&
  (m.all fun e => e.2.all fun n => objs.any fun c => c.name == n && c.subOf == some e.1)

set_option maxRecDepth 20000 in
theorem gen_subcodes_depth_one : subcodesDepthOne Gen.objects = true := by decide

set_option maxRecDepth 20000 in
theorem gen_subCodeMap_sound : subCodeMapSound Gen.objects Gen.env.subCodeMap = true := by decide

/-- the sink's own codes are not import codes (they never switch on the many-errors filter), `unused-ignore`
    and `ignore-without-code` are opt-in, `misc` is on by default and has no parent -/
theorem gen_env_wf :
    Gen.env.unusedIgnore.name ∉ Gen.env.importCodes ∧ Gen.env.ignoreWithoutCode.name ∉ Gen.env.importCodes ∧
    Gen.env.unusedIgnore.defaultEnabled = false ∧ Gen.env.ignoreWithoutCode.defaultEnabled = false ∧
    Gen.env.misc.defaultEnabled = true ∧ Gen.env.misc.subOf = none := by decide

-- the checks are not vacuous: a two-level hierarchy is rejected
example : subcodesDepthOne [⟨1, some 2, true, true⟩, ⟨2, some 3, true, true⟩, ⟨3, none, true, true⟩] = false := by decide
example : subCodeMapSound [⟨1, some 2, true, true⟩, ⟨2, none, true, true⟩] [] = false := by decide

end Errors

/-! ## exit status -/
namespace ExitStatus
open Errors (Sev)

/-- the translator recognised `util.count_stats` and `main`'s status computation as ones the model transcribes
    (fails — a broken proof obligation — when either function was changed to something else) -/
theorem gen_exit_rule_known : Gen.exitRule ≠ .unknown ∧ Gen.mainStatusRecognised = true := by decide

/-- **`exit_status_truth_partial`** (rule `substring`, the tree as found): if no error-severity line contains
    `": note:"` in its text, and a blocking error (if any) was displayed, the status `main` computes is the
    truth: 2 iff blockers, else 1 iff some error-severity message, else 0 -/
theorem exit_status_truth_partial (ls : List Line) (blockers : Bool)
    (hclean : ∀ l ∈ ls, l.sev = .error → isInfix noteMarker (format l) = false)
    (hshown : blockers = true → ∃ l ∈ ls, l.sev = .error) :
    exitCode .substring (ls.map format) blockers = truth ls blockers := by
  refine exit_of_classifier .substring ls blockers (fun l hl => ?_) hshown
  constructor
  · intro h
    cases hs : l.sev with
    | note => rfl
    | error => rw [show isNoteLine .substring (format l) = isInfix noteMarker (format l) from rfl, hclean l hl hs] at h; cases h
  · intro hs; exact format_note_has_marker l hs

/-- **`exit_status_truth`** for rule `firstMarker` (after the F5 fix): whatever the message texts say — the only
    hypothesis left is about the *location* part of each line (`file:line` does not itself spell a marker) -/
theorem exit_status_truth_first_marker (ls : List Line) (blockers : Bool)
    (hloc : ∀ l ∈ ls, CleanLoc l)
    (hshown : blockers = true → ∃ l ∈ ls, l.sev = .error) :
    exitCode .firstMarker (ls.map format) blockers = truth ls blockers := by
  refine exit_of_classifier .firstMarker ls blockers (fun l hl => ?_) hshown
  have hf := firstMarker_format l (hloc l hl)
  show (firstMarker (format l) == some Sev.note) = true ↔ l.sev = .note
  rw [hf]
  cases l.sev <;> simp

/-- the status is always 0, 1 or 2 -/
theorem exit_status_range (r : Rule) (messages : List (List Char)) (blockers : Bool) : exitCode r messages blockers ≤ 2 := by
  unfold exitCode
  split
  · cases blockers <;> simp
  · simp

set_option maxRecDepth 20000 in
/-- **`not_exit_status_truth`** (F5): the exit-status clause is false of rule `substring`.  The program
    `x: Literal[": note:"] = 1` produces one error-severity message whose text contains `": note:"`;
    `count_stats` counts it as a note, `n_notes == len(messages)`, and mypy exits 0 with an error printed.
    Under rule `firstMarker` the same line gives status 1. -/
theorem not_exit_status_truth :
    ∃ (ls : List Line) (blockers : Bool), (∃ l ∈ ls, l.sev = .error) ∧ (∀ l ∈ ls, CleanLoc l) ∧
      exitCode .substring (ls.map format) blockers = 0 ∧ truth ls blockers = 1 ∧
      exitCode .firstMarker (ls.map format) blockers = 1 := by
  refine ⟨[{ srcloc := "main.py:1".toList, sev := .error,
             message := "Incompatible types in assignment (expression has type \"int\", variable has type \"Literal[': note:']\")".toList,
             codeSuffix := "  [assignment]".toList }], false, ⟨_, List.mem_singleton.2 rfl, rfl⟩, by decide, by decide, by decide, by decide⟩

-- the theorems are not vacuous: an ordinary error + note, with and without blockers, under both rules
example :
    let ls : List Line := [⟨"a.py:1".toList, .error, "Name \"x\" is not defined".toList, "  [name-defined]".toList⟩,
                           ⟨"a.py:1".toList, .note, "hint".toList, []⟩]
    (∀ l ∈ ls, l.sev = .error → isInfix noteMarker (format l) = false) ∧ (∀ l ∈ ls, CleanLoc l) ∧
    exitCode .substring (ls.map format) false = 1 ∧ exitCode .substring (ls.map format) true = 2 ∧
    exitCode .firstMarker (ls.map format) false = 1 ∧ exitCode .firstMarker ([ls[1]].map format) false = 0 := by decide
-- the location hypothesis of the firstMarker theorem matters: a file called `a: note:b.py`
example : ¬ CleanLoc ⟨"a: note:b.py:1".toList, .error, "x".toList, []⟩ := by decide

end ExitStatus
