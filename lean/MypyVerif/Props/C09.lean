import MypyVerif.Gen.OptReads
import MypyVerif.Proofs.Build
/-!
# C09 — changing options between runs never yields stale results

* `table_ok` — the obligation over the table REGENERATED from /repo on every run: every option that is read
  in a module running before results are cached is in `OPTIONS_AFFECTING_CACHE`, or partitions the cache
  directory, or carries a reviewed exemption (`OptPolicy.exempt`).
* `key_covers` — abstract, once and for all: if the table is ok, two option valuations that agree on the key
  options (and on the partition options and the exempt ones) agree on every option the analysis reads.
* `options_sound` — hence `Build.KeyCovers` holds for worlds whose `sem`/`key` are the projections of a
  valuation, which is the hypothesis under which C02's `warm_eq_cold_partial` gives warm(B) = cold(B).
-/
namespace OptGen
open OptPolicy

/-- generated obligation (finite table, decided by evaluation in the kernel) -/
theorem table_ok : tableOk table = true := by decide +kernel

end OptGen

namespace OptPolicy

abbrev Valuation := String → Nat

/-- option names the analysis may depend on -/
def semNames (t : List OptRow) : List String := (t.filter readPre).map (·.name)
/-- option names whose values a cache entry is compared on / partitioned by / exempt from -/
def guardNames (t : List OptRow) : List String :=
  (t.filter (fun r => r.inKey || partitionOpts.contains r.name || isExempt r.name)).map (·.name)

/-- **key_covers**: with an ok table, agreement on the guarded options implies agreement on every option
    that is read before results are cached. -/
theorem key_covers (t : List OptRow) (h : tableOk t = true) (a b : Valuation)
    (hg : ∀ n ∈ guardNames t, a n = b n) : ∀ n ∈ semNames t, a n = b n := by
  intro n hn
  apply hg
  simp only [semNames, guardNames, List.mem_map, List.mem_filter] at hn ⊢
  obtain ⟨r, ⟨hr, hpre⟩, rfl⟩ := hn
  refine ⟨r, ⟨hr, ?_⟩, rfl⟩
  have := List.all_eq_true.mp h r hr
  unfold rowOk at this
  simp only [Bool.or_eq_true, Bool.not_eq_true'] at this
  rcases this with ((hnp | hk) | hp) | he
  · rw [hpre] at hnp; cases hnp
  · simp [hk]
  · rw [hp]; simp
  · simp [he]

/-- a run's options in the build model: `sem` encodes the values of the semantic options, `key` those of the
    guarded options, by any injective encoding of value lists -/
def mkOpts (enc : List Nat → Nat) (t : List OptRow) (v : Valuation) : Build.Opts :=
  { sem := enc ((semNames t).map v), key := enc ((guardNames t).map v) }

theorem map_eq_of_agree (ns : List String) (a b : Valuation) (h : ∀ n ∈ ns, a n = b n) : ns.map a = ns.map b := by
  induction ns with
  | nil => rfl
  | cons n ns ih =>
    simp only [List.map_cons]
    rw [h n (by simp), ih (fun m hm => h m (by simp [hm]))]

theorem agree_of_map_eq (ns : List String) (a b : Valuation) (h : ns.map a = ns.map b) : ∀ n ∈ ns, a n = b n := by
  induction ns with
  | nil => intro n hn; cases hn
  | cons m ns ih =>
    simp only [List.map_cons, List.cons.injEq] at h
    intro n hn
    simp only [List.mem_cons] at hn
    rcases hn with rfl | hn
    · exact h.1
    · exact ih h.2 n hn

/-- **options_sound**: for worlds whose options come from valuations through `mkOpts`, the hypothesis
    `KeyCovers` of `Build.warm_eq_cold_partial` holds — for the regenerated table, by `table_ok`. -/
theorem options_sound (enc : List Nat → Nat) (henc : ∀ x y, enc x = enc y → x = y)
    (t : List OptRow) (h : tableOk t = true) (U : List Build.World)
    (hU : ∀ w ∈ U, ∃ v : Valuation, w.opts = mkOpts enc t v) : Build.KeyCovers U := by
  intro w hw w' hw' hkey
  obtain ⟨v, hv⟩ := hU w hw
  obtain ⟨v', hv'⟩ := hU w' hw'
  rw [hv, hv'] at hkey ⊢
  simp only [mkOpts] at hkey ⊢
  have h1 := agree_of_map_eq _ v v' (henc _ _ hkey)
  rw [map_eq_of_agree _ v v' (key_covers t h v v' h1)]

theorem options_sound_generated (enc : List Nat → Nat) (henc : ∀ x y, enc x = enc y → x = y)
    (U : List Build.World) (hU : ∀ w ∈ U, ∃ v : Valuation, w.opts = mkOpts enc OptGen.table v) :
    Build.KeyCovers U :=
  options_sound enc henc OptGen.table OptGen.table_ok U hU

-- non-vacuity: a two-row table in which a semantic option is missing from the key is rejected, and with it
-- in the key accepted
example : tableOk [{ name := "x", inKey := false, readIn := ["checker"] }] = false := by decide
example : tableOk [{ name := "x", inKey := true, readIn := ["checker"] },
                   { name := "y", inKey := false, readIn := ["main"] }] = true := by decide
example : "strict_bytes" ∈ semNames OptGen.table := by decide +kernel

end OptPolicy
