import MypyVerif.Proofs.Ipc
import MypyVerif.Model.Serve
/-!
# C16 — the IPC channel delivers intact messages; the daemon survives client faults

Property theorems only (helpers are in Proofs/Ipc.lean).  Quantifiers: every list of messages, every
segmentation of the byte stream into non-empty chunks, every finite sequence of client behaviours.
-/
namespace Ipc

/-- A message as `write_bytes` can frame it and `read_bytes` can return it: non-empty (an empty frame is
    indistinguishable from "connection closed" for `read_bytes`) and shorter than 2^32 (`!L`). -/
def OkMsg (m : List Byte) : Prop := m ≠ [] ∧ m.length < 4294967296

def NonEmptyChunks (cs : List (List Byte)) : Prop := ∀ c ∈ cs, c ≠ []
instance (m : List Byte) : Decidable (OkMsg m) := by unfold OkMsg; infer_instance
instance (cs : List (List Byte)) : Decidable (NonEmptyChunks cs) := by unfold NonEmptyChunks; infer_instance

/-- One `read_bytes` call: if the unread stream (buffer ++ pending chunks) starts with the frame of `m`,
    the call returns exactly `m`, forgets the remembered size, and leaves exactly the rest unread —
    wherever the chunk boundaries fall. -/
theorem readBytes_frame (chunks : List (List Byte)) : ∀ (s : St) (m rest : List Byte),
    Consistent s → NonEmptyChunks chunks → OkMsg m →
    s.buffer ++ chunks.flatten = frame m ++ rest →
    ∃ s' cs', readBytes s chunks = (s', cs', some m) ∧ s'.messageSize = none ∧
      NonEmptyChunks cs' ∧ s'.buffer ++ cs'.flatten = rest := by
  induction chunks with
  | nil =>
    intro s m rest hc _ hm hs
    simp at hs
    have hlen : s.buffer.length = 4 + m.length + rest.length := by
      rw [hs]; simp [frame_length]
    have h4 : 4 ≤ s.buffer.length := by omega
    have ht : s.buffer.take 4 = encodeLen m.length :=
      take4_of_stream s.buffer [] m rest (by simpa using hs) h4
    have hd : decodeLen (s.buffer.take 4) = m.length := by rw [ht]; exact decode_encode _ hm.2
    simp only [readBytes]
    cases hf : frameFromBuffer s with
    | mk s' r =>
      cases r with
      | none =>
        have := (ffb_none s hc s' hf).2.2
        omega
      | some b =>
        obtain ⟨_, _, hb, hs'⟩ := ffb_some s hc s' b hf
        rw [hd] at hb hs'
        refine ⟨s', [], ?_, ?_, ?_, ?_⟩
        · simp only
          rw [hb, hs, take_body]
        · rw [hs']
        · intro c hc'; cases hc'
        · rw [hs', hs]; simp [drop_frame]
  | cons c cs ih =>
    intro s m rest hc hne hm hs
    simp only [readBytes]
    cases hf : frameFromBuffer s with
    | mk s' r =>
      cases r with
      | some b =>
        obtain ⟨h4, hle, hb, hs'⟩ := ffb_some s hc s' b hf
        have ht : s.buffer.take 4 = encodeLen m.length :=
          take4_of_stream s.buffer _ m rest hs h4
        have hd : decodeLen (s.buffer.take 4) = m.length := by rw [ht]; exact decode_encode _ hm.2
        rw [hd] at hb hs' hle
        -- the buffer alone already contains the whole frame
        have hpre : s.buffer.take (4 + m.length) = frame m := by
          have h1 : (s.buffer ++ (c :: cs).flatten).take (4 + m.length) = s.buffer.take (4 + m.length) :=
            List.take_append_of_le_length (by omega)
          have h2 : (frame m ++ rest).take (4 + m.length) = frame m := by
            rw [List.take_append_of_le_length (by simp [frame_length])]
            exact List.take_of_length_le (by simp [frame_length])
          rw [← h1, hs, h2]
        have hbuf : s.buffer = frame m ++ s.buffer.drop (4 + m.length) := by
          conv => lhs; rw [← List.take_append_drop (4 + m.length) s.buffer]
          rw [hpre]
        refine ⟨s', c :: cs, ?_, ?_, hne, ?_⟩
        · simp only
          rw [hb]
          conv => lhs; rw [hbuf]
          rw [take_body]
        · rw [hs']
        · rw [hs']
          simp only
          have : s.buffer ++ (c :: cs).flatten
              = frame m ++ (s.buffer.drop (4 + m.length) ++ (c :: cs).flatten) := by
            conv => lhs; rw [hbuf]
            simp [List.append_assoc]
          rw [this] at hs
          exact List.append_cancel_left hs
      | none =>
        obtain ⟨hbeq, hc', _⟩ := ffb_none s hc s' hf
        have hcne : c ≠ [] := hne c (by simp)
        have hce : c.isEmpty = false := by
          cases c with
          | nil => exact absurd rfl hcne
          | cons _ _ => rfl
        simp only [hce]
        have hne' : NonEmptyChunks cs := fun x hx => hne x (by simp [hx])
        have := ih { s' with buffer := s'.buffer ++ c } m rest (consistent_append s' hc' c) hne' hm
          (by simp only; rw [hbeq]; simpa [List.append_assoc] using hs)
        simpa using this

/-- **frames_intact** (full statement).  For every list of well-formed messages and *every* segmentation
    of the concatenated frames into non-empty chunks, `n = msgs.length` successive `read_bytes` calls on
    a fresh connection return exactly the messages, in order; afterwards nothing is left unread and no
    stale size is remembered. -/
theorem frames_intact (msgs : List (List Byte)) : ∀ (s : St) (chunks : List (List Byte)),
    Consistent s → s.messageSize = none → NonEmptyChunks chunks → (∀ m ∈ msgs, OkMsg m) →
    s.buffer ++ chunks.flatten = (msgs.map frame).flatten →
    ∃ s' cs', readN msgs.length s chunks = (msgs.map some, s', cs') ∧
      s'.messageSize = none ∧ s'.buffer ++ cs'.flatten = [] := by
  induction msgs with
  | nil =>
    intro s chunks _ hms _ _ hs
    exact ⟨s, chunks, rfl, hms, by simpa using hs⟩
  | cons m ms ih =>
    intro s chunks hc _ hne hok hs
    obtain ⟨s1, cs1, hr, hms1, hne1, hrest⟩ :=
      readBytes_frame chunks s m (ms.map frame).flatten hc hne (hok m (by simp)) (by simpa using hs)
    have hc1 : Consistent s1 := by intro k hk; rw [hms1] at hk; cases hk
    obtain ⟨s2, cs2, hr2, hms2, hend⟩ :=
      ih s1 cs1 hc1 hms1 hne1 (fun x hx => hok x (by simp [hx])) hrest
    refine ⟨s2, cs2, ?_, hms2, hend⟩
    simp [readN, hr, hr2]

/-- corollary for a fresh connection -/
theorem frames_intact_fresh (msgs : List (List Byte)) (chunks : List (List Byte))
    (hne : NonEmptyChunks chunks) (hok : ∀ m ∈ msgs, OkMsg m)
    (hs : chunks.flatten = (msgs.map frame).flatten) :
    (readN msgs.length St.init chunks).1 = msgs.map some := by
  obtain ⟨s', cs', h, _, _⟩ := frames_intact msgs St.init chunks
    (by intro k hk; cases hk) rfl hne hok (by simpa [St.init] using hs)
  rw [h]

/-- after the peer closes in the middle of a frame, `read_bytes` reports "no data" (never a torn frame) -/
theorem truncated_frame_no_message (s : St) (hc : Consistent s)
    (h : s.buffer.length < 4 ∨ s.buffer.length < decodeLen (s.buffer.take 4) + 4) :
    (readBytes s []).2.2 = none := by
  simp only [readBytes]
  cases hf : frameFromBuffer s with
  | mk s' r =>
    cases r with
    | none => rfl
    | some b =>
      obtain ⟨h4, hle, _, _⟩ := ffb_some s hc s' b hf
      omega

-- non-vacuity: a concrete two-message stream cut at awkward places satisfies the hypotheses
example : NonEmptyChunks [[0,0],[0,2,7],[8,0,0,0],[1,9]] ∧ (∀ m ∈ [[7,8],[9]], OkMsg m) ∧
    [[0,0],[0,2,7],[8,0,0,0],[1,9]].flatten = ([[7,8],[9]].map frame).flatten := by
  refine ⟨by decide, by decide, by decide⟩
example : (readN 2 St.init [[0,0],[0,2,7],[8,0,0,0],[1,9]]).1 = [some [7,8], some [9]] := by decide

end Ipc

namespace Serve
open Ipc
variable (P : Params)

/-- the part of the daemon state later requests can observe -/
def Daemon.obs (d : Daemon) : Bool × Bool × Nat := (d.alive, d.statusFile, d.app)

/-- a connection is served from an empty buffer: nothing an earlier client left behind is visible -/
theorem serve_ignores_old_buffer (d : Daemon) (x : St) (c : Conn) :
    (serve P { d with ipc := x } c).2 = (serve P d c).2 ∧
    (serve P { d with ipc := x } c).1.obs = (serve P d c).1.obs := by
  cases d with
  | mk alive sf ipc app =>
    cases alive <;> simp [serve, Daemon.obs]

/-- a connection that is not a good request (and neither `stop` nor a crashing request) changes nothing
    observable and produces no result -/
theorem serve_fault_noop (d : Daemon) (c : Conn) (hd : d.alive = true)
    (hg : c.isGood P = false) (hb : c.Benign P) :
    (serve P d c).1.obs = d.obs ∧ results [(serve P d c).2] = [] := by
  unfold Conn.isGood Conn.req at hg
  unfold Conn.Benign Conn.req at hb
  unfold serve
  simp only [hd, Daemon.obs]
  generalize hrb : readBytes St.init c.chunks = rb at *
  obtain ⟨s', cs', r⟩ := rb
  simp only at hg hb ⊢
  cases hq : received P r with
  | none => simp [results]
  | some q => cases q <;> simp_all [results]

theorem serve_good (d : Daemon) (c : Conn) (hd : d.alive = true) (hg : c.isGood P = true) :
    ∃ cmd, c.req P = some (.good cmd) ∧
      (serve P d c).1.obs = (true, d.statusFile, (P.handle d.app cmd).1) ∧
      results [(serve P d c).2] = [(P.handle d.app cmd).2] := by
  unfold Conn.isGood at hg
  unfold Conn.req at hg ⊢
  unfold serve
  simp only [hd, Daemon.obs]
  generalize hrb : readBytes St.init c.chunks = rb at *
  obtain ⟨s', cs', r⟩ := rb
  simp only at hg ⊢
  cases hq : received P r with
  | none => simp [hq] at hg
  | some q => cases q <;> simp_all [results]

/-- `serveAll` only depends on the observable part of the daemon state -/
theorem serveAll_obs (cs : List Conn) : ∀ (d e : Daemon), d.obs = e.obs →
    (serveAll P d cs).2 = (serveAll P e cs).2 ∧ (serveAll P d cs).1.obs = (serveAll P e cs).1.obs := by
  induction cs with
  | nil => intro d e h; simp [serveAll, h]
  | cons c cs ih =>
    intro d e h
    have hde : d = { e with ipc := d.ipc } := by
      cases d; cases e; simp [Daemon.obs] at h; simp [h]
    have h1 := serve_ignores_old_buffer P e d.ipc c
    rw [← hde] at h1
    have h2 := ih (serve P d c).1 (serve P e c).1 h1.2
    simp only [serveAll]
    exact ⟨by rw [h1.1, h2.1], h2.2⟩

/-- **serve_survives** (full statement, for the loop as it is after the `fix:` commits).  For every
    finite sequence of client connections — closing before/during/after sending, garbage, non-JSON,
    non-dict, missing/ill-typed/unknown command, ill-fitting arguments, hanging up before the reply —
    that contains no `stop` and no request whose own handler raises: the daemon is still serving, the
    status file is untouched, and the results of the well-formed requests, as well as the state later
    requests will see, are exactly those obtained when the faulty connections never happen. -/
theorem serve_survives (conns : List Conn) : ∀ (d : Daemon), d.alive = true →
    (∀ c ∈ conns, c.Benign P) →
    (serveAll P d conns).1.alive = true ∧
    (serveAll P d conns).1.statusFile = d.statusFile ∧
    results (serveAll P d conns).2 = results (serveAll P d (conns.filter (Conn.isGood P))).2 ∧
    (serveAll P d conns).1.app = (serveAll P d (conns.filter (Conn.isGood P))).1.app := by
  induction conns with
  | nil => intro d hd _; simp [serveAll, hd]
  | cons c cs ih =>
    intro d hd h
    have hb : c.Benign P := h c (by simp)
    have hrest : ∀ x ∈ cs, x.Benign P := fun x hx => h x (by simp [hx])
    cases hg : c.isGood P with
    | true =>
      obtain ⟨cmd, _, hobs, hres⟩ := serve_good P d c hd hg
      have ha : (serve P d c).1.alive = true := by
        have := congrArg Prod.fst hobs; simpa [Daemon.obs] using this
      have hsf : (serve P d c).1.statusFile = d.statusFile := by
        have := congrArg (fun x => x.2.1) hobs; simpa [Daemon.obs] using this
      obtain ⟨i1, i2, i3, i4⟩ := ih (serve P d c).1 ha hrest
      simp only [serveAll, List.filter, hg]
      refine ⟨i1, by rw [i2, hsf], ?_, i4⟩
      simp only [results, List.filterMap_cons] at i3 ⊢
      rw [i3]
    | false =>
      obtain ⟨hobs, hres⟩ := serve_fault_noop P d c hd hg hb
      have ha : (serve P d c).1.alive = true := by
        have := congrArg Prod.fst hobs; simpa [Daemon.obs, hd] using this
      have hsf : (serve P d c).1.statusFile = d.statusFile := by
        have := congrArg (fun x => x.2.1) hobs; simpa [Daemon.obs] using this
      obtain ⟨i1, i2, i3, i4⟩ := ih (serve P d c).1 ha hrest
      obtain ⟨e1, e2⟩ := serveAll_obs P (cs.filter (Conn.isGood P)) (serve P d c).1 d hobs
      have e3 : (serveAll P (serve P d c).1 (cs.filter (Conn.isGood P))).1.app
          = (serveAll P d (cs.filter (Conn.isGood P))).1.app := by
        have := congrArg (fun x => x.2.2) e2; simpa [Daemon.obs] using this
      simp only [serveAll, List.filter, hg]
      refine ⟨i1, by rw [i2, hsf], ?_, by rw [i4, e3]⟩
      have : results ((serve P d c).2 :: (serveAll P (serve P d c).1 cs).2)
          = results [(serve P d c).2] ++ results (serveAll P (serve P d c).1 cs).2 := by
        show results ([(serve P d c).2] ++ (serveAll P (serve P d c).1 cs).2) = _
        simp only [results, List.filterMap_append]
      rw [this, hres, i3, e1]; rfl

/-- Every way the loop ends (a `stop` request, a handler that raises) leaves no status file behind. -/
theorem exit_removes_status (d : Daemon) (c : Conn) (hd : d.alive = true)
    (hx : (serve P d c).1.alive = false) : (serve P d c).1.statusFile = false := by
  unfold serve at hx ⊢
  simp only [hd] at hx ⊢
  generalize readBytes St.init c.chunks = rb at *
  obtain ⟨s', cs', r⟩ := rb
  simp only at hx ⊢
  cases hq : received P r with
  | none => simp [hq, hd] at hx
  | some q => cases q <;> simp_all

/-- Once the daemon has exited it stays exited and the status file stays absent. -/
theorem dead_stays_dead (d : Daemon) (hd : d.alive = false) (cs : List Conn) :
    (serveAll P d cs).1 = d ∧ results (serveAll P d cs).2 = [] := by
  induction cs with
  | nil => simp [serveAll, results]
  | cons c cs ih =>
    have : serve P d c = (d, none) := by simp [serve, hd]
    simp [serveAll, this, ih.1]
    simpa [results] using ih.2

instance (c : Conn) : Decidable (c.Benign P) := by
  unfold Conn.Benign; split <;> infer_instance

-- non-vacuity: a closing client, a garbage frame, a good request; with a toy classifier
def demoP : Params := { classify := fun b => if b = [1] then .good 7 else if b = [2] then .stop else .badJson,
                        handle := fun a c => (a + c, a * 10 + c) }
def demoD : Daemon := { alive := true, statusFile := true, ipc := St.init, app := 1 }
example : (∀ c ∈ [⟨[[0,0]], false⟩, ⟨[[0,0,0,1,9]], false⟩, (⟨[[0,0,0],[1,1]], true⟩ : Conn)], c.Benign demoP) := by
  decide
example : results (serveAll demoP demoD [⟨[[0,0]], false⟩, ⟨[[0,0,0,1,9]], false⟩, ⟨[[0,0,0],[1,1]], true⟩]).2 = [17] := by
  decide

end Serve
