import MypyVerif.Proofs.Reach
namespace Reach
end Reach
