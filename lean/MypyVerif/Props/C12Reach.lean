import MypyVerif.Proofs.Reach
import MypyVerif.Gen.ReachTables
/-!
# C12 (version / platform tests) — what mypy decides statically is the run-time value on the target

Property theorems only (helpers are in Proofs/Reach.lean).  Quantifiers: every target (major, minor), every
micro / releaselevel / serial of the running interpreter (`EnvFor`), every platform string, every operand
form and literal of the grammar in Model/Reach.lean (any index, any slice bounds, any literal length),
both operand orders, every condition built with not / and / or.

The full statement `version_test_exact` is **false** (finding F4): `not_version_test_exact`.  The excluded
predicate `f4Shape` is exact — inside it mypy's answer is always the wrong one (`f4_always_wrong`).
-/
namespace Reach

/-! ## the model's finite tables are the ones in the source (regenerated on every check) -/

/-- Every entry of the tables that translate/reach_tables.py reads from, or tabulates by running,
    mypy/reachability.py (`inverted_truth_mapping`, `reverse_op`, the 25 + 25 operand pairs of the `or` / `and`
    branches, `fixed_comparison` per ordering, the special names) is what the model computes. -/
theorem tables_match_source :
    Gen.missing = [] ∧ Gen.leavesOk = true ∧
    (Gen.invertPairs.length = 5 ∧ Gen.invertPairs.all (fun p => invert p.1 == p.2) = true) ∧
    (Gen.reverseKeys = 6 ∧ Gen.reversePairs.length = 6 ∧ Gen.reversePairs.all (fun p => reverseOp p.1 == p.2) = true) ∧
    (Gen.orEntries.length = 25 ∧ Gen.orEntries.all (fun e => orTable e.1 e.2.1 == e.2.2) = true) ∧
    (Gen.andEntries.length = 25 ∧ Gen.andEntries.all (fun e => andTable e.1 e.2.1 == e.2.2) = true) ∧
    (Gen.fixedEntries.length = 18 ∧ Gen.fixedEntries.all (fun e => ofBool (opHolds e.1 e.2.1) == e.2.2) = true) ∧
    Gen.nameEntries.all (fun e =>
      nameValue e.1 { major := 3, minor := 12, platform := "linux", alwaysTrue := ["ATN"], alwaysFalse := ["AFN"] } == e.2) = true := by
  decide

set_option maxRecDepth 8192 in
/-- `Gen.openSliceFix` (does the tree's consider_sys_version_info have the open-ended-slice rule?) is the right
    switch: on the regenerated probe grid around that rule (open-ended and closed slices and the two indices × 6 operators ×
    equal / unequal literal × both operand orders — the reversed spellings exercise `reverse_op` — target 3.12) the model variant it selects returns what the real
    function returned. -/
theorem open_slice_rule_matches_source :
    Gen.openSliceProbes.length = 192 ∧ Gen.openSliceProbes.all (fun e =>
      versionValue { major := 3, minor := 12, platform := "linux", alwaysTrue := [], alwaysFalse := [],
                     openSliceFix := Gen.openSliceFix } e.1 e.2.1 e.2.2.1 == e.2.2.2) = true := by
  decide

/-! ## sys.version_info tests -/

/-- **version_test_exact** — for consider_sys_version_info *with* the open-ended-slice rule
    (harness/c12/proposed_fix_F4.diff, `Options.openSliceFix = true`): every comparison it decides has exactly
    the decided value when it is evaluated on the target; no shape is excluded. -/
theorem version_test_exact (o : Options) (env : Env) (henv : EnvFor o env)
    (l : Operand) (op : Op) (r : Operand)
    (hdec : considerSysVersionInfoFix l op r o.major o.minor ≠ .unknown) :
    eval env (.cmp l op r) = some (considerSysVersionInfoFix l op r o.major o.minor == .alwaysTrue) := by
  obtain ⟨⟨mc, lv, se, hvi⟩, _⟩ := henv
  exact version_cmp_exact_fixed env o.major o.minor mc se lv hvi l op r _ rfl hdec

/-- The same for **the tree being checked** (`Gen.openSliceFix` says which rule it has, `tables_match_source`
    ties that flag to the source): exact, with the F4 shape excluded only while the tree lacks the rule. -/
theorem version_test_exact_source (o : Options) (env : Env) (henv : EnvFor o env)
    (hsrc : o.openSliceFix = Gen.openSliceFix) (l : Operand) (op : Op) (r : Operand)
    (hdec : versionValue o l op r ≠ .unknown)
    (hshape : Gen.openSliceFix = false → f4Shape l op r o.major o.minor = false) :
    eval env (.cmp l op r) = some (versionValue o l op r == .alwaysTrue) := by
  obtain ⟨⟨mc, lv, se, hvi⟩, _⟩ := henv
  unfold versionValue at hdec ⊢
  cases hfix : o.openSliceFix with
  | true =>
    simp only [hfix, if_true] at hdec ⊢
    exact version_cmp_exact_fixed env o.major o.minor mc se lv hvi l op r _ rfl hdec
  | false =>
    simp only [hfix, Bool.false_eq_true, if_false] at hdec ⊢
    exact version_cmp_exact env o.major o.minor mc se lv hvi l op r _ rfl hdec (hshape (hsrc ▸ hfix))

/-- **version_test_exact_partial** — for consider_sys_version_info *without* that rule (the code before the fix):
    a single comparison it decides, and that is not of the F4 shape, has exactly the decided value when it is
    evaluated on the target. -/
theorem version_test_exact_partial (o : Options) (env : Env) (henv : EnvFor o env)
    (l : Operand) (op : Op) (r : Operand)
    (hdec : considerSysVersionInfo l op r o.major o.minor ≠ .unknown)
    (hshape : f4Shape l op r o.major o.minor = false) :
    eval env (.cmp l op r) = some (considerSysVersionInfo l op r o.major o.minor == .alwaysTrue) := by
  obtain ⟨⟨mc, lv, se, hvi⟩, _⟩ := henv
  exact version_cmp_exact env o.major o.minor mc se lv hvi l op r _ rfl hdec hshape

/-- The excluded shape is exactly the failing set: there mypy's answer is the opposite of the run-time value,
    for every target and every micro version. -/
theorem f4_always_wrong (o : Options) (env : Env) (henv : EnvFor o env)
    (l : Operand) (op : Op) (r : Operand)
    (hdec : considerSysVersionInfo l op r o.major o.minor ≠ .unknown)
    (hshape : f4Shape l op r o.major o.minor = true) :
    eval env (.cmp l op r) = some (!(considerSysVersionInfo l op r o.major o.minor == .alwaysTrue)) := by
  obtain ⟨⟨mc, lv, se, hvi⟩, _⟩ := henv
  exact version_cmp_f4_wrong env o.major o.minor mc se lv hvi l op r _ rfl hdec hshape

def target312 : Options := { major := 3, minor := 12, platform := "linux", alwaysTrue := [], alwaysFalse := [] }
def run312 : Env :=
  { versionInfo := versionTuple 3 12 0 "final" 0, platform := "linux",
    names := fun n => if n = "TYPE_CHECKING" then some false else none, opq := fun _ => none }

theorem envFor312 : EnvFor target312 run312 := ⟨⟨0, "final", 0, rfl⟩, rfl⟩

/-- **not_version_test_exact** (F4; the rule without the fix): `sys.version_info > (3, 12)` for target 3.12 is
    ALWAYS_FALSE for mypy and True on Python 3.12.0. -/
theorem not_version_test_exact :
    ¬ (∀ (o : Options) (env : Env) (l : Operand) (op : Op) (r : Operand), EnvFor o env →
        considerSysVersionInfo l op r o.major o.minor ≠ .unknown →
        eval env (.cmp l op r) = some (considerSysVersionInfo l op r o.major o.minor == .alwaysTrue)) := by
  intro h
  have := h target312 run312 .versionInfo .gt (.tuple [.int 3, .int 12]) envFor312 (by decide)
  revert this
  decide

-- the other three operators, the mirrored spelling, and an open-ended slice that is not the whole tuple
example : considerSysVersionInfo .versionInfo .eq (.tuple [.int 3, .int 12]) 3 12 = .alwaysTrue ∧
    eval run312 (.cmp .versionInfo .eq (.tuple [.int 3, .int 12])) = some false := by decide
example : considerSysVersionInfo .versionInfo .ne (.tuple [.int 3, .int 12]) 3 12 = .alwaysFalse ∧
    eval run312 (.cmp .versionInfo .ne (.tuple [.int 3, .int 12])) = some true := by decide
example : considerSysVersionInfo .versionInfo .le (.tuple [.int 3, .int 12]) 3 12 = .alwaysTrue ∧
    eval run312 (.cmp .versionInfo .le (.tuple [.int 3, .int 12])) = some false := by decide
example : considerSysVersionInfo (.tuple [.int 3, .int 12]) .lt .versionInfo 3 12 = .alwaysFalse ∧
    eval run312 (.cmp (.tuple [.int 3, .int 12]) .lt .versionInfo) = some true := by decide
example : considerSysVersionInfo (.slice (some (.int 1)) none none) .eq (.tuple [.int 12]) 3 12 = .alwaysTrue ∧
    eval run312 (.cmp (.slice (some (.int 1)) none none) .eq (.tuple [.int 12])) = some false := by decide
-- with the rule the same tests come out right (and the ordinary ones are unchanged)
example : considerSysVersionInfoFix .versionInfo .gt (.tuple [.int 3, .int 12]) 3 12 = .alwaysTrue ∧
    considerSysVersionInfoFix .versionInfo .eq (.tuple [.int 3, .int 12]) 3 12 = .alwaysFalse ∧
    considerSysVersionInfoFix (.slice (some (.int 1)) none none) .ne (.tuple [.int 12]) 3 12 = .alwaysTrue ∧
    considerSysVersionInfoFix (.tuple [.int 3, .int 12]) .ge .versionInfo 3 12 = .alwaysFalse ∧
    considerSysVersionInfoFix .versionInfo .ge (.tuple [.int 3, .int 12]) 3 12 = .alwaysTrue ∧
    considerSysVersionInfoFix .versionInfo .lt (.tuple [.int 3, .int 12]) 3 12 = .alwaysFalse ∧
    considerSysVersionInfoFix (.slice none (some (.int 2)) none) .eq (.tuple [.int 3, .int 12]) 3 12 = .alwaysTrue ∧
    considerSysVersionInfoFix .versionInfo .eq (.tuple [.int 3]) 3 12 = .unknown := by decide
-- non-vacuity of the partial theorem: ordinary tests are decided and are outside the excluded shape
example : considerSysVersionInfo .versionInfo .ge (.tuple [.int 3, .int 12]) 3 12 = .alwaysTrue ∧
    f4Shape .versionInfo .ge (.tuple [.int 3, .int 12]) 3 12 = false := by decide
example : considerSysVersionInfo .versionInfo .lt (.tuple [.int 3, .int 12]) 3 12 = .alwaysFalse ∧
    f4Shape .versionInfo .lt (.tuple [.int 3, .int 12]) 3 12 = false := by decide
example : considerSysVersionInfo (.slice none (some (.int 2)) none) .eq (.tuple [.int 3, .int 12]) 3 12 = .alwaysTrue ∧
    f4Shape (.slice none (some (.int 2)) none) .eq (.tuple [.int 3, .int 12]) 3 12 = false := by decide
example : considerSysVersionInfo (.lit (.int 3)) .le (.index (.int 0)) 3 12 = .alwaysTrue ∧
    f4Shape (.lit (.int 3)) .le (.index (.int 0)) 3 12 = false := by decide
example : considerSysVersionInfo .versionInfo .gt (.tuple [.int 3, .int 11]) 3 12 = .alwaysTrue ∧
    f4Shape .versionInfo .gt (.tuple [.int 3, .int 11]) 3 12 = false := by decide

/-! ## sys.platform tests -/

/-- **platform_test_exact.**  A `sys.platform == / != '…'` or `sys.platform.startswith('…')` test that
    consider_sys_platform decides has the decided value on that platform.  (Written with a keyword
    argument the call is decided too, but raises at run time: then there is no value to disagree with.) -/
theorem platform_test_exact (o : Options) (env : Env) (henv : EnvFor o env) (c : Cond)
    (hdec : considerSysPlatform c o.platform ≠ .unknown) :
    (isCallKw c = false → eval env c = some (considerSysPlatform c o.platform == .alwaysTrue)) ∧
    (∀ b, eval env c = some b → b = (considerSysPlatform c o.platform == .alwaysTrue)) :=
  platform_exact env o.platform henv.2 c _ rfl hdec

example : considerSysPlatform (.cmp .platform .eq (.str "linux")) "linux" = .alwaysTrue ∧
    considerSysPlatform (.cmp .platform .ne (.str "win32")) "linux" = .alwaysTrue ∧
    considerSysPlatform (.call .platform "startswith" (.str "win")) "linux" = .alwaysFalse ∧
    considerSysPlatform (.cmp (.str "linux") .eq .platform) "linux" = .unknown := by decide

/-! ## infer_condition_value: not / and / or -/

/-- **Mypy-time soundness** (all five truth values, every table entry): a decided condition without an
    F4-shaped comparison has the decided value when evaluated the way mypy sees the world. -/
theorem infer_sound_mypy (o : Options) (env : Env) (henv : EnvFor o env) (hn : NamesOK o env) (c : Cond)
    (hshape : noF4 o c = true) (hdec : infer o c ≠ .unknown) :
    ∀ b, eval (mtEnv env) c = some b → b = (infer o c).mt :=
  (infer_sound o env henv hn c hshape hdec).1

/-- **Run-time soundness, partial**: the same for the run-time value, provided no `and` / `or` node of the
    condition uses one of the table entries listed in `badOr` / `badAnd`. -/
theorem infer_sound_runtime_partial (o : Options) (env : Env) (henv : EnvFor o env) (hn : NamesOK o env)
    (c : Cond) (hshape : noF4 o c = true) (hpairs : noBadPair o c = true) (hdec : infer o c ≠ .unknown) :
    ∀ b, eval env c = some b → b = (infer o c).rt :=
  (infer_sound o env henv hn c hshape hdec).2 hpairs

/-- **Run-time soundness for version / platform conditions** (the scope of C12): a condition that does not
    mention MYPY / TYPE_CHECKING never hits a bad table entry, so its decided value is its run-time value. -/
theorem infer_sound_runtime_version (o : Options) (env : Env) (henv : EnvFor o env) (hn : NamesOK o env)
    (c : Cond) (hshape : noF4 o c = true) (hpure : noMypyNames c = true) (hdec : infer o c ≠ .unknown) :
    ∀ b, eval env c = some b → b = (infer o c).rt :=
  (infer_sound o env henv hn c hshape hdec).2 (noBad_of_pure o c hpure)

theorem namesOK312 : NamesOK target312 run312 := by
  intro n b hb _
  simp only [run312] at hb
  split at hb
  · next h => subst h; injection hb with hb; subst hb; decide
  · cases hb

/-- **not_tables_runtime_sound** (new finding): `sys.version_info < (3,) or not TYPE_CHECKING` is ALWAYS_FALSE
    for infer_condition_value ("false under mypy and at run time") and True at run time: the `or` table maps
    (ALWAYS_FALSE, MYPY_FALSE) to ALWAYS_FALSE where the value is MYPY_FALSE. -/
theorem not_tables_runtime_sound :
    ¬ (∀ (o : Options) (env : Env) (c : Cond), EnvFor o env → NamesOK o env → noF4 o c = true →
        infer o c ≠ .unknown → ∀ b, eval env c = some b → b = (infer o c).rt) := by
  intro h
  have := h target312 run312
    (.or (.cmp .versionInfo .lt (.tuple [.int 3])) (.not (.name "TYPE_CHECKING")))
    envFor312 namesOK312 (by decide) (by decide) true (by decide)
  revert this
  decide

/-- The excluded table entries are exact: each of them is wrong for some evaluation that respects the
    operands' own claims; every other entry is right (`orTable_rt`, `andTable_rt` in Proofs). -/
theorem bad_entries_exact (ta tb : TV) :
    (badOr ta tb = true → ∃ va vb v, (ta ≠ .unknown → va = ta.rt) ∧ Claim TV.rt tb vb ∧
      orVal va vb = some v ∧ orTable ta tb ≠ .unknown ∧ v ≠ (orTable ta tb).rt) ∧
    (badAnd ta tb = true → ∃ va vb v, (ta ≠ .unknown → va = ta.rt) ∧ Claim TV.rt tb vb ∧
      andVal va vb = some v ∧ andTable ta tb ≠ .unknown ∧ v ≠ (andTable ta tb).rt) :=
  ⟨badOr_exact ta tb, badAnd_exact ta tb⟩

-- non-vacuity: a mixed condition satisfies every hypothesis and is decided
example :
    let c := Cond.and (.or (.cmp .versionInfo .ge (.tuple [.int 3, .int 8])) (.opaque 0))
                      (.not (.cmp .platform .eq (.str "win32")))
    noF4 target312 c = true ∧ noBadPair target312 c = true ∧ noMypyNames c = true ∧
      infer target312 c = .alwaysTrue := by decide
example : infer target312 (.and (.cmp .platform .eq (.str "linux")) (.not (.name "TYPE_CHECKING"))) = .mypyFalse ∧
    noBadPair target312 (.and (.cmp .platform .eq (.str "linux")) (.not (.name "TYPE_CHECKING"))) = true := by decide

end Reach
