import MypyVerif.Proofs.Sched
/-!
# C07 — parallel checking gives the sequential result under every schedule

Quantifiers: every SCC graph (topologically numbered), every processing function `F` that is local to an
SCC's dependencies, every number of workers, every batching, every assignment of batches to workers and
every order of worker replies — i.e. every trace the coordinator model accepts.
-/
namespace Sched

variable (g : Graph) (F : Nat → Env → Val)

/-- **parallel_eq_sequential**: in every state reachable under any schedule, every SCC whose interface phase
    is complete carries exactly the value a sequential dependencies-first run computes (`R`). -/
theorem parallel_eq_sequential (ha : Acyclic g) (hl : DepLocal g F) (trace : List Event) (st : St)
    (h : run g F St.init trace = some st) : ∀ s v, st.res s = some v → v = R F s :=
  (run_inv g F ha hl trace St.init st (inv_init F) h).1

/-- two schedules never disagree on a value -/
theorem schedules_agree (ha : Acyclic g) (hl : DepLocal g F) (t1 t2 : List Event) (s1 s2 : St)
    (h1 : run g F St.init t1 = some s1) (h2 : run g F St.init t2 = some s2)
    (s : Nat) (v1 v2 : Val) (e1 : s1.res s = some v1) (e2 : s2.res s = some v2) : v1 = v2 := by
  rw [parallel_eq_sequential g F ha hl t1 s1 h1 s v1 e1, parallel_eq_sequential g F ha hl t2 s2 h2 s v2 e2]

/-- **submit_after_deps**: a batch is only ever sent when every dependency of every SCC in it has completed
    its interface phase, and the receiving worker is idle -/
theorem submit_after_deps (st st' : St) (batch : List Nat) (w : Nat)
    (h : step g F st (.submit batch w) = some st') :
    (∀ s ∈ batch, ∀ d ∈ g.deps s, (st.res d).isSome = true) ∧ w ∉ st.busy ∧ (∀ s ∈ batch, s ∉ st.started) := by
  simp only [step] at h
  split at h
  · rename_i hc
    simp only [Bool.and_eq_true, List.all_eq_true, Bool.not_eq_true', List.contains_eq_mem,
      decide_eq_false_iff_not, decide_eq_true_eq] at hc
    refine ⟨fun s hs d hd => ((ready_spec g st s).mp (hc.1.1.2 s hs)).2.1 d hd, ?_, fun s hs => ?_⟩
    · simpa using hc.2
    · exact ((ready_spec g st s).mp (hc.1.1.2 s hs)).2.2
  · cases h

/-- **once**: no SCC is started (walked or submitted) twice, under any schedule -/
theorem once (trace : List Event) : ∀ (st st' : St), st.started.Nodup →
    run g F st trace = some st' → st'.started.Nodup := by
  induction trace with
  | nil => intro st st' hn h; simp only [run] at h; injection h with h; subst h; exact hn
  | cons e es ih =>
    intro st st' hn h
    simp only [run] at h
    cases hs : step g F st e with
    | none => simp [hs] at h
    | some st1 =>
      simp only [hs] at h
      refine ih st1 st' ?_ h
      cases e with
      | fresh s =>
        simp only [step] at hs
        split at hs
        · rename_i hr
          injection hs with hs; subst hs
          exact List.nodup_cons.mpr ⟨((ready_spec g st s).mp hr).2.2, hn⟩
        · cases hs
      | submit batch w =>
        simp only [step] at hs
        split at hs
        · rename_i hc
          injection hs with hs; subst hs
          simp only [Bool.and_eq_true, List.all_eq_true, Bool.not_eq_true', List.contains_eq_mem,
            decide_eq_false_iff_not, decide_eq_true_eq] at hc
          refine List.nodup_append.mpr ⟨hc.1.2, hn, ?_⟩
          intro a ha b hb hab
          subst hab
          exact ((ready_spec g st a).mp (hc.1.1.2 a ha)).2.2 hb
        · cases hs
      | ifaceDone w =>
        simp only [step] at hs
        split at hs
        · injection hs with hs; subst hs; exact hn
        · cases hs
      | implDone w =>
        simp only [step] at hs
        split at hs
        · injection hs with hs; subst hs; exact hn
        · cases hs

/-- **terminates**: under every schedule the coordinator performs at most `4 · (number of SCCs)` events —
    no accepted trace is longer; in particular there is no infinite execution. -/
theorem terminates (trace : List Event) (st : St) (h : run g F St.init trace = some st) :
    trace.length ≤ 4 * g.size := by
  have := run_measure g F trace St.init st h
  have h0 : measure g St.init = 4 * g.size := by
    have hf : ∀ l : List Nat, l.filter (fun _ => true) = l := by
      intro l; induction l with
      | nil => rfl
      | cons a l ih => simp [List.filter_cons, ih]
    simp [measure, unstarted, unstartedL, St.init, hf]
  omega

/-- a busy worker always has its next reply enabled: interface-done while its batch is in flight,
    implementation-done afterwards (no worker is ever stuck) -/
theorem worker_never_stuck (st : St) (w : Nat) (hw : w ∈ st.busy) :
    (step g F st (.ifaceDone w)).isSome = true ∨ (step g F st (.implDone w)).isSome = true := by
  cases hf : st.inflight.find? (fun p => p.1 == w) with
  | some p => left; obtain ⟨a, b⟩ := p; simp [step, hf]
  | none =>
    right
    have : st.inflight.any (fun p => p.1 == w) = false := by
      rw [List.find?_eq_none] at hf
      simp only [List.any_eq_false]
      intro x hx; exact hf x hx
    simp [step, hw, this]

/-- one step of the argument: with the bookkeeping invariant, the least unfinished SCC is either in flight
    (its worker's interface reply is enabled) or ready (it can be walked / submitted) -/
theorem no_deadlock_step (ha : Acyclic g) (st : St)
    (hinv : ∀ s ∈ st.started, (st.res s).isSome = true ∨ ∃ p ∈ st.inflight, ∃ v, (s, v) ∈ p.2)
    (s : Nat) (hs : s < g.size) (hnone : st.res s = none)
    (hmin : ∀ d, d < s → (st.res d).isSome = true) :
    ∃ e, (step g F st e).isSome = true := by
  by_cases hst : s ∈ st.started
  · rcases hinv s hst with h | ⟨p, hp, v, _⟩
    · simp [hnone] at h
    · refine ⟨.ifaceDone p.1, ?_⟩
      cases hf : st.inflight.find? (fun q => q.1 == p.1) with
      | some q => obtain ⟨a, b⟩ := q; simp [step, hf]
      | none =>
        rw [List.find?_eq_none] at hf
        exact absurd (by simp) (hf p hp)
  · refine ⟨.fresh s, ?_⟩
    have : ready g st s = true :=
      (ready_spec g st s).mpr ⟨hs, fun d hd => hmin d (ha s d hd), hst⟩
    simp [step, this]

/-- **no_deadlock**: in every state reachable under any schedule, as long as some SCC is unfinished some
    event is enabled.  Together with `terminates` (at most 4·size events): every maximal execution is
    finite and ends with all SCCs finished. -/
theorem no_deadlock (ha : Acyclic g) (trace : List Event) (st : St)
    (h : run g F St.init trace = some st) (s : Nat) (hs : s < g.size) (hnone : st.res s = none) :
    ∃ e, (step g F st e).isSome = true := by
  have hb := (run_book g F trace St.init st book_init h).1
  -- the least unfinished SCC
  have hex : ∃ m, m < g.size ∧ st.res m = none ∧ ∀ d, d < m → (st.res d).isSome = true := by
    induction s using Nat.strongRecOn with
    | _ s ih =>
      by_cases hall : ∀ d, d < s → (st.res d).isSome = true
      · exact ⟨s, hs, hnone, hall⟩
      · have : ∃ d, d < s ∧ st.res d = none := by
          apply Classical.byContradiction
          intro hcon
          apply hall
          intro d hd
          cases hv : st.res d with
          | some v => rfl
          | none => exact absurd ⟨d, hd, hv⟩ hcon
        obtain ⟨d, hd, hdn⟩ := this
        exact ih d hd (by omega) hdn
  obtain ⟨m, hm, hmn, hmin⟩ := hex
  exact no_deadlock_step g F ha st hb m hm hmn hmin

-- non-vacuity: a diamond 0 ← 1, 0 ← 2, {1,2} ← 3 processed by two workers in an interleaved schedule
def gD : Graph := { size := 4, deps := fun s => if s = 1 then [0] else if s = 2 then [0] else if s = 3 then [1, 2] else [] }
def FD : Nat → Env → Val := fun s e => s + ((gD.deps s).map (fun d => (e d).getD 0)).foldl (· + ·) 0
def traceD : List Event :=
  [.fresh 0, .submit [2] 1, .submit [1] 0, .ifaceDone 0, .ifaceDone 1, .implDone 1, .submit [3] 1, .implDone 0, .ifaceDone 1]
example : ((run gD FD St.init traceD).map (fun st => (st.res 3, st.started))) = some (some 6, [3, 1, 2, 0]) := by decide
example : Acyclic gD := by
  intro s d hd
  unfold gD at hd
  simp only at hd
  split at hd
  · simp at hd; omega
  · split at hd
    · simp at hd; omega
    · split at hd
      · simp at hd; omega
      · cases hd
-- a schedule that submits SCC 3 before SCC 2 has reported its interface is rejected
example : run gD FD St.init [.fresh 0, .submit [1] 0, .ifaceDone 0, .submit [3] 1] = none := by decide

end Sched
