import MypyVerif.Proofs.Sched
/-!
# C07 — parallel checking gives the sequential result under every schedule

Quantifiers: every SCC graph (topologically numbered), every processing function `F` that is local to an
SCC's dependencies, every number of workers, every batching, every assignment of batches to workers and
every order of worker replies — i.e. every trace the coordinator model accepts.
-/
namespace Sched

variable (g : Graph) (F : Nat → Env → Val)

/-- **parallel_eq_sequential**: in every state reachable under any schedule, every SCC whose interface phase
    is complete carries exactly the value a sequential dependencies-first run computes (`R`). -/
theorem parallel_eq_sequential (ha : Acyclic g) (hl : DepLocal g F) (trace : List Event) (st : St)
    (h : run g F St.init trace = some st) : ∀ s v, st.res s = some v → v = R F s :=
  (run_inv g F ha hl trace St.init st (inv_init F) h).1

/-- two schedules never disagree on a value -/
theorem schedules_agree (ha : Acyclic g) (hl : DepLocal g F) (t1 t2 : List Event) (s1 s2 : St)
    (h1 : run g F St.init t1 = some s1) (h2 : run g F St.init t2 = some s2)
    (s : Nat) (v1 v2 : Val) (e1 : s1.res s = some v1) (e2 : s2.res s = some v2) : v1 = v2 := by
  rw [parallel_eq_sequential g F ha hl t1 s1 h1 s v1 e1, parallel_eq_sequential g F ha hl t2 s2 h2 s v2 e2]

/-- **submit_after_deps**: a batch is only ever sent when every dependency of every SCC in it has completed
    its interface phase, and the receiving worker is idle -/
theorem submit_after_deps (st st' : St) (batch : List Nat) (w : Nat)
    (h : step g F st (.submit batch w) = some st') :
    (∀ s ∈ batch, ∀ d ∈ g.deps s, (st.res d).isSome = true) ∧ w ∉ st.busy ∧ (∀ s ∈ batch, s ∉ st.started) := by
  simp only [step] at h
  split at h
  · rename_i hc
    simp only [Bool.and_eq_true, List.all_eq_true, ready, Bool.not_eq_true', List.contains_eq_mem,
      decide_eq_false_iff_not, decide_eq_true_eq] at hc
    refine ⟨fun s hs d hd => (hc.1.1.2 s hs).1 d hd, ?_, fun s hs => ?_⟩
    · simpa using hc.2
    · simpa using (hc.1.1.2 s hs).2
  · cases h

/-- **once**: no SCC is started (walked or submitted) twice, under any schedule -/
theorem once (trace : List Event) : ∀ (st st' : St), st.started.Nodup →
    run g F st trace = some st' → st'.started.Nodup := by
  induction trace with
  | nil => intro st st' hn h; simp only [run] at h; injection h with h; subst h; exact hn
  | cons e es ih =>
    intro st st' hn h
    simp only [run] at h
    cases hs : step g F st e with
    | none => simp [hs] at h
    | some st1 =>
      simp only [hs] at h
      refine ih st1 st' ?_ h
      cases e with
      | fresh s =>
        simp only [step] at hs
        split at hs
        · rename_i hr
          injection hs with hs; subst hs
          simp only [ready, Bool.and_eq_true, Bool.not_eq_true', List.contains_eq_mem, decide_eq_false_iff_not] at hr
          exact List.nodup_cons.mpr ⟨hr.2, hn⟩
        · cases hs
      | submit batch w =>
        simp only [step] at hs
        split at hs
        · rename_i hc
          injection hs with hs; subst hs
          simp only [Bool.and_eq_true, List.all_eq_true, ready, Bool.not_eq_true', List.contains_eq_mem,
            decide_eq_false_iff_not, decide_eq_true_eq] at hc
          refine List.nodup_append.mpr ⟨hc.1.2, hn, ?_⟩
          intro a ha b hb hab
          subst hab
          exact (hc.1.1.2 a ha).2 hb
        · cases hs
      | ifaceDone w =>
        simp only [step] at hs
        split at hs
        · injection hs with hs; subst hs; exact hn
        · cases hs
      | implDone w =>
        simp only [step] at hs
        split at hs
        · injection hs with hs; subst hs; exact hn
        · cases hs

-- non-vacuity: a diamond 0 ← 1, 0 ← 2, {1,2} ← 3 processed by two workers in an interleaved schedule
def gD : Graph := { deps := fun s => if s = 1 then [0] else if s = 2 then [0] else if s = 3 then [1, 2] else [] }
def FD : Nat → Env → Val := fun s e => s + ((gD.deps s).map (fun d => (e d).getD 0)).foldl (· + ·) 0
def traceD : List Event :=
  [.fresh 0, .submit [2] 1, .submit [1] 0, .ifaceDone 0, .ifaceDone 1, .implDone 1, .submit [3] 1, .implDone 0, .ifaceDone 1]
example : ((run gD FD St.init traceD).map (fun st => (st.res 3, st.started))) = some (some 6, [3, 1, 2, 0]) := by decide
example : Acyclic gD := by
  intro s d hd
  unfold gD at hd
  simp only at hd
  split at hd
  · simp at hd; omega
  · split at hd
    · simp at hd; omega
    · split at hd
      · simp at hd; omega
      · cases hd
-- a schedule that submits SCC 3 before SCC 2 has reported its interface is rejected
example : run gD FD St.init [.fresh 0, .submit [1] 0, .ifaceDone 0, .submit [3] 1] = none := by decide

end Sched
