import MypyVerif.Proofs.LangSoundS
/-!
# C01 — accepted programs do not go wrong (MiniPy fragment, stages 1–5)

`soundness`: for every well-formed program `P` that the algorithmic checker `tc` (the transcription of mypy's
rules on the fragment, `Model/LangTc.lean`) accepts with probe type map `tm`, for **every** fuel, every consistent
initial heap and every argument vector inhabiting the declared parameter types, the interpreter
(`Model/Lang.lean`, CPython's behaviour on the fragment) never ends in `TypeError` / `AttributeError` (nor in the
model's `stuck`), every probe value it logged — also on runs that time out or raise `UnboundLocalError` — is a
member of the type `tc` recorded for that probe, and a returned value is a member of the declared return type.
Since `tc` records no type for code it skips as unreachable, "every logged probe has a recorded type" is also the
third clause of the property (no execution of code treated as unreachable) for every block that starts with a probe.

The full-strength statement (all programs mypy accepts) is **false** of the current mypy; the ways it
fails inside this fragment are kept visible as theorems with concrete witnesses:
* `not_soundness_F19`, `not_soundness_F18` — without `WF` (declared-but-unassigned attribute; covariant
  redeclaration of a mutable attribute) `tc` accepts and evaluation ends in AttributeError / TypeError;
* `hole_union_setattr`, `hole_loop_cap`, `hole_union_isinstance_mi`, `hole_masked_assignment`, `hole_finally_jump`,
  `hole_bool_signature` — the rules where `tc` deliberately
  answers `hole k` instead of mypy's "accept" (assignment to an attribute through a union receiver; the 4-pass
  cap of `accept_loop`; isinstance on a union dropping an item that shares a subclass with the tested class; a
  narrowing captured at a jump masking an assignment; a jump through an assigning `finally`; an unchecked
  `__bool__` signature):
  well-formed witnesses on which evaluation ends in TypeError / AttributeError.
-/
namespace Lang

/-- **C01 on the fragment.** -/
theorem soundness (P : Prog) (tm : Recs) (hwf : WF P) (htc : tc P = .ok tm)
    (n f : Nat) (fd : FuncDef) (hf : P.funcs[f]? = some fd)
    (h0 : Heap) (hh : HeapOK P h0) (args : List Val) (ha : ArgsOK P h0 args fd.params) :
    let out := evalCall n P fd args { heap := h0, log := [] }
    out.1 ≠ .error .typeError ∧ out.1 ≠ .error .attrError ∧ out.1 ≠ .error .stuck ∧
    (∀ k v, (k, v) ∈ out.2.log → ∃ T, (k, T) ∈ tm ∧ hasTy P out.2.heap v T) ∧
    (∀ v, out.1 = .ok v → hasTy P out.2.heap v fd.ret) := by
  intro out
  have t := typed_of_tc hwf htc
  have hs := (evalOK t n).stmt
  have hcall : Sat P tm { heap := h0, log := [] } (evalCall n P fd args) (fun st' v => hasTy P st'.heap v fd.ret) := by
    unfold evalCall
    rw [if_pos (ArgsOK_length ha)]
    exact callBody_ok hs (self := none) (t.func f fd hf) (by simpa [selfTys] using ha)
  have hinv : Inv P tm { heap := h0, log := [] } := ⟨hh, fun k v h => by simp at h⟩
  have hpost := hcall hinv
  show out.1 ≠ _ ∧ _
  generalize hout : evalCall n P fd args { heap := h0, log := [] } = o at hpost
  have : out = o := hout
  rw [this]
  obtain ⟨res, st'⟩ := o
  cases res with
  | ok v =>
    obtain ⟨hi, _, hv⟩ := hpost
    refine ⟨by simp, by simp, by simp, hi.2, ?_⟩
    intro v' hv'; cases hv'; exact hv
  | error e =>
    obtain ⟨hi, _, hb⟩ := hpost
    refine ⟨?_, ?_, ?_, hi.2, by intro v hv; cases hv⟩ <;> (intro hc; cases hc; exact hb)

theorem keys_unique {tm : Recs} (hu : (tm.map (·.1)).Nodup) {k : Nat} {T T' : Ty} (hT : (k, T) ∈ tm) (hT' : (k, T') ∈ tm) :
    T' = T := by
  induction tm with
  | nil => simp at hT
  | cons p r ih =>
    simp only [List.map_cons, List.nodup_cons] at hu
    simp only [List.mem_cons] at hT hT'
    rcases hT with rfl | hT <;> rcases hT' with h' | hT'
    · cases h'; rfl
    · exact absurd (List.mem_map.mpr ⟨(k, T'), hT', rfl⟩) hu.1
    · subst h'; exact absurd (List.mem_map.mpr ⟨(k, T), hT, rfl⟩) hu.1
    · exact ih hu.2 hT hT'

/-- with distinct probe ids (what the generator emits) the recorded type of a probe is unique, so the logged
    value is a member of *the* type recorded for it -/
theorem soundness_probe (P : Prog) (tm : Recs) (hwf : WF P) (htc : tc P = .ok tm)
    (hu : (tm.map (·.1)).Nodup)
    (n f : Nat) (fd : FuncDef) (hf : P.funcs[f]? = some fd)
    (h0 : Heap) (hh : HeapOK P h0) (args : List Val) (ha : ArgsOK P h0 args fd.params)
    (k : Nat) (v : Val) (T : Ty)
    (hlog : (k, v) ∈ (evalCall n P fd args { heap := h0, log := [] }).2.log) (hT : (k, T) ∈ tm) :
    hasTy P (evalCall n P fd args { heap := h0, log := [] }).2.heap v T := by
  obtain ⟨_, _, _, hl, _⟩ := soundness P tm hwf htc n f fd hf h0 hh args ha
  obtain ⟨T', hT', hv⟩ := hl k v hlog
  have : T' = T := keys_unique hu hT hT'
  rw [← this]; exact hv

/-! ## Non-vacuity: an accepted, well-formed program with narrowing, a loop and dynamic dispatch

```python
class K0:
    a0: Optional[K0]
    def __init__(self, p0: Optional[K0]) -> None: self.a0 = p0
    def m0(self) -> int: return 1
class K1(K0):
    def __init__(self, p0: Optional[K0]) -> None: self.a0 = p0
    def m0(self) -> int: return 2
def f0(p0: Optional[K0], p1: int) -> int:      # sum over the chain, at most p1 steps (f1: see below)
    v0: int = 0
    v1: int = 0
    while (p0 is not None) and not (v1 == p1):
        probe(1, p0)                           # K0
        v0 = v0 + p0.m0()
        p0 = p0.a0
        v1 = v1 + 1
    probe(2, p0)                               # K0 | None
    if isinstance(p0, K1):
        probe(3, p0)                           # K1
    return v0
```
-/
def exProg : Prog :=
  let m (k : Int) : FuncDef := { params := [], locals := [], ret := [.int], body := .ret (.intLit k) }
  { classes := [
      { bases := [], mro := [0], attrs := [(0, [.cls 0, .none])],
        init := { params := [[.cls 0, .none]], assigns := [(0, .var 0)] }, methods := [(0, m 1)] },
      { bases := [0], mro := [1, 0], attrs := [],
        init := { params := [[.cls 0, .none]], assigns := [(0, .var 0)] }, methods := [(0, m 2)] }],
    funcs := [
      { params := [[.cls 0, .none], [.int]], locals := [[.int], [.int]], ret := [.int],
        body :=
          .seq (.decl 2 (.intLit 0)) <|
          .seq (.decl 3 (.intLit 0)) <|
          .seq (.while (.and (.isNone 0 true) (.not (.eq (.var 3) (.var 1))))
                 (.seq (.expr (.probe 1 (.var 0))) <|
                  .seq (.assign 2 (.add (.var 2) (.callM (.var 0) 0 []))) <|
                  .seq (.assign 0 (.attr (.var 0) 0)) <|
                  .assign 3 (.add (.var 3) (.intLit 1)))) <|
          .seq (.expr (.probe 2 (.var 0))) <|
          .seq (.ite (.isinst 0 1) (.expr (.probe 3 (.var 0))) .pass) <|
          .ret (.var 2) },
      -- def f1(p0: Optional[K0], p1: int) -> int:
      --     v0: int = 0
      --     if not p0: return 0 - 1
      --     probe(4, p0)                           # K0
      --     while v0 < p1:
      --         v0 = v0 + 1
      --         if p0 is None: break
      --         if isinstance(p0, K1): continue
      --         p0 = p0.a0
      --     probe(5, p0)                           # K0 | None
      --     return v0 - 1
      { params := [[.cls 0, .none], [.int]], locals := [[.int]], ret := [.int],
        body :=
          .seq (.decl 2 (.intLit 0)) <|
          .seq (.ite (.not (.var 0)) (.ret (.sub (.intLit 0) (.intLit 1))) .pass) <|
          .seq (.expr (.probe 4 (.var 0))) <|
          .seq (.while (.lt (.var 2) (.var 1))
                 (.seq (.assign 2 (.add (.var 2) (.intLit 1))) <|
                  .seq (.ite (.isNone 0 false) .brk .pass) <|
                  .seq (.ite (.isinst 0 1) .cont .pass) <|
                  .assign 0 (.attr (.var 0) 0))) <|
          .seq (.expr (.probe 5 (.var 0))) <|
          .ret (.sub (.var 2) (.intLit 1)) }] }

example : WF exProg := by decide
example : tc exProg = .ok [(1, [.cls 0]), (2, [.cls 0, .none]), (3, [.cls 1]), (4, [.cls 0]), (5, [.cls 0, .none])] := by decide
/-- and it runs: `f0(K1(K0(None)), 5)` visits a K1 then a K0 (dynamic dispatch: 2 + 1) -/
example : (evalCall 60 exProg (exProg.funcs[0]!) [.ref 1, .int 5]
    { heap := [{ cls := 0, fields := [(0, .none)] }, { cls := 1, fields := [(0, .ref 0)] }], log := [] }).1 = .ok (.int 3) := by
  decide

/-- `f1(K0(K1(None)), 5)`: second iteration sees a K1 and `continue`s until the bound: 5 iterations -/
example : (evalCall 80 exProg (exProg.funcs[1]!) [.ref 1, .int 5]
    { heap := [{ cls := 1, fields := [(0, .none)] }, { cls := 0, fields := [(0, .ref 0)] }], log := [] }).1 = .ok (.int 4) := by
  decide

/-! ## The full statement is false of mypy's rules: witnesses -/

/-- F19: `class K0: a0: int` with an `__init__` that never assigns it; `def f0() -> int: return K0().a0` -/
def progF19 : Prog :=
  { classes := [{ bases := [], mro := [0], attrs := [(0, [.int])], init := { params := [], assigns := [] }, methods := [] }],
    funcs := [{ params := [], locals := [], ret := [.int], body := .ret (.attr (.new 0 []) 0) }] }

theorem not_soundness_F19 :
    tc progF19 = .ok [] ∧ ¬ WF progF19 ∧
    (evalCall 10 progF19 (progF19.funcs[0]!) [] { heap := [], log := [] }).1 = .error .attrError := by
  decide

/-- F18: `K0.a0: object`, `K1(K0).a0: int`; `f0(p0: K0): p0.a0 = "s"`; `f1(): v0 = K1(1); f0(v0); return v0.a0 + 1` -/
def progF18 : Prog :=
  { classes := [
      { bases := [], mro := [0], attrs := [(0, [.object])], init := { params := [[.object]], assigns := [(0, .var 0)] }, methods := [] },
      { bases := [0], mro := [1, 0], attrs := [(0, [.int])], init := { params := [[.int]], assigns := [(0, .var 0)] }, methods := [] }],
    funcs := [
      { params := [[.cls 0]], locals := [], ret := [.none], body := .setAttr (.var 0) 0 (.strLit [115]) },
      { params := [], locals := [[.cls 1]], ret := [.int],
        body := .seq (.decl 0 (.new 1 [.intLit 1])) <| .seq (.expr (.callF 0 [.var 0])) <|
                .ret (.add (.attr (.var 0) 0) (.intLit 1)) }] }

theorem not_soundness_F18 :
    tc progF18 = .ok [] ∧ ¬ WF progF18 ∧
    (evalCall 20 progF18 (progF18.funcs[1]!) [] { heap := [], log := [] }).1 = .error .typeError := by
  decide

/-- assignment through a union receiver: `K0.a0: int`, `K1.a0: str`, `f0(p0: Union[K0, K1]): p0.a0 = "s"`,
    `f1(): v0 = K0(1); f0(v0); return v0.a0 + 1` — mypy checks `"s"` against `int | str` -/
def progUnionSet : Prog :=
  { classes := [
      { bases := [], mro := [0], attrs := [(0, [.int])], init := { params := [[.int]], assigns := [(0, .var 0)] }, methods := [] },
      { bases := [], mro := [1], attrs := [(0, [.str])], init := { params := [[.str]], assigns := [(0, .var 0)] }, methods := [] }],
    funcs := [
      { params := [[.cls 0, .cls 1]], locals := [], ret := [.none], body := .setAttr (.var 0) 0 (.strLit [115]) },
      { params := [], locals := [[.cls 0]], ret := [.int],
        body := .seq (.decl 0 (.new 0 [.intLit 1])) <| .seq (.expr (.callF 0 [.var 0])) <|
                .ret (.add (.attr (.var 0) 0) (.intLit 1)) }] }

theorem hole_union_setattr :
    WF progUnionSet ∧ tc progUnionSet = .error (.hole 1) ∧
    (evalCall 20 progUnionSet (progUnionSet.funcs[1]!) [] { heap := [], log := [] }).1 = .error .typeError := by
  decide

/-- the 4-pass cap of `accept_loop`: a chain K5 <: K4 <: … <: K0 walked one step per iteration; in the fourth
    (last) pass the local is `K2`, so the `K1` and `else` branches are skipped as unreachable, yet they run in
    iterations 5 and 6:
```python
def f0(p0: int) -> None:
    v0: K0 = K5()
    v0 = K5()
    v1: int = 0
    while not (v1 == p0):
        v1 = v1 + 1
        if isinstance(v0, K5): v0 = K4()
        elif isinstance(v0, K4): v0 = K3()
        elif isinstance(v0, K3): v0 = K2()
        elif isinstance(v0, K2): v0 = K1()
        elif isinstance(v0, K1): v0 = K0()
        else: probe(1, 1 + "s")
```
-/
def progLoopCap : Prog :=
  let cls (b : List Nat) (mro : List Nat) : ClassDef :=
    { bases := b, mro := mro, attrs := [], init := { params := [], assigns := [] }, methods := [] }
  { classes := [cls [] [0], cls [0] [1, 0], cls [1] [2, 1, 0], cls [2] [3, 2, 1, 0],
                cls [3] [4, 3, 2, 1, 0], cls [4] [5, 4, 3, 2, 1, 0]],
    funcs := [
      { params := [[.int]], locals := [[.cls 0], [.int]], ret := [.none],
        body :=
          .seq (.decl 1 (.new 5 [])) <| .seq (.assign 1 (.new 5 [])) <| .seq (.decl 2 (.intLit 0)) <|
          .while (.not (.eq (.var 2) (.var 0)))
            (.seq (.assign 2 (.add (.var 2) (.intLit 1))) <|
             .ite (.isinst 1 5) (.assign 1 (.new 4 [])) <|
             .ite (.isinst 1 4) (.assign 1 (.new 3 [])) <|
             .ite (.isinst 1 3) (.assign 1 (.new 2 [])) <|
             .ite (.isinst 1 2) (.assign 1 (.new 1 [])) <|
             .ite (.isinst 1 1) (.assign 1 (.new 0 [])) <|
             .expr (.probe 1 (.add (.intLit 1) (.strLit [115])))) }] }

theorem hole_loop_cap :
    WF progLoopCap ∧ tc progLoopCap = .error (.hole 2) ∧
    (evalCall 100 progLoopCap (progLoopCap.funcs[0]!) [.int 7] { heap := [], log := [] }).1 = .error .typeError := by
  decide

/-- isinstance on a union with multiple inheritance in the program: `class K0`, `class K1`, `class K2(K1)` with
    `m0`, `class K3(K0, K1)`; `def f0(p0: Union[K0, K2]) -> int: if isinstance(p0, K1): return p0.m0() …` —
    mypy narrows `p0` to `K2` (the item `K0` "does not overlap" `K1`), `f0(K3())` raises AttributeError -/
def progMI : Prog :=
  let cls (b : List Nat) (mro : List Nat) (ms : List (Nat × FuncDef)) : ClassDef :=
    { bases := b, mro := mro, attrs := [], init := { params := [], assigns := [] }, methods := ms }
  { classes := [cls [] [0] [], cls [] [1] [],
                cls [1] [2, 1] [(0, { params := [], locals := [], ret := [.int], body := .ret (.intLit 1) })],
                cls [0, 1] [3, 0, 1] []],
    funcs := [
      { params := [[.cls 0, .cls 2]], locals := [], ret := [.int],
        body := .seq (.ite (.isinst 0 1) (.ret (.callM (.var 0) 0 [])) .pass) (.ret (.intLit 0)) },
      { params := [], locals := [], ret := [.int], body := .ret (.callF 0 [.new 3 []]) }] }

theorem hole_union_isinstance_mi :
    WF progMI ∧ tc progMI = .error (.hole 3) ∧
    (evalCall 20 progMI (progMI.funcs[1]!) [] { heap := [], log := [] }).1 = .error .attrError := by
  decide

/-- `update_from_options` skips a key when no option is flagged `from_assignment`; the snapshot taken at `break`
    merges the frames with `dict.update`, so the isinstance narrowing (not an assignment) overrides the earlier
    assignment of the same local and the merge after the loop keeps the stale enclosing type `None`:
```python
def f0(p0: int) -> K0:
    if 0 < p0: return K1()
    return K0()
def f1(p0: Optional[K0], p1: int) -> int:
    v0: int = 0
    if isinstance(p0, K0): return 0
    else:
        while v0 < p1:
            v0 = v0 + 1
            p0 = f0(v0)
            if isinstance(p0, K1): break
            return 5
        if p0 is not None: return 1 + "s"      # mypy: p0 is None here, block unreachable
    return 2
```
-/
def progMaskedAssign : Prog :=
  let cls (b : List Nat) (mro : List Nat) : ClassDef :=
    { bases := b, mro := mro, attrs := [], init := { params := [], assigns := [] }, methods := [] }
  { classes := [cls [] [0], cls [0] [1, 0]],
    funcs := [
      { params := [[.int]], locals := [], ret := [.cls 0],
        body := .seq (.ite (.lt (.intLit 0) (.var 0)) (.ret (.new 1 [])) .pass) (.ret (.new 0 [])) },
      { params := [[.cls 0, .none], [.int]], locals := [[.int]], ret := [.int],
        body :=
          .seq (.decl 2 (.intLit 0)) <|
          .seq (.ite (.isinst 0 0) (.ret (.intLit 0))
                 (.seq (.while (.lt (.var 2) (.var 1))
                         (.seq (.assign 2 (.add (.var 2) (.intLit 1))) <|
                          .seq (.assign 0 (.callF 0 [.var 2])) <|
                          .seq (.ite (.isinst 0 1) .brk .pass) <|
                          .ret (.intLit 5)))
                       (.ite (.isNone 0 true) (.ret (.add (.intLit 1) (.strLit [115]))) .pass))) <|
          .ret (.intLit 2) }] }

theorem hole_masked_assignment :
    WF progMaskedAssign ∧ tc progMaskedAssign = .error (.hole 4) ∧
    (evalCall 40 progMaskedAssign (progMaskedAssign.funcs[1]!) [.none, .int 3] { heap := [], log := [] }).1 = .error .typeError := by
  decide

/-- a `break` that passes through a `finally` clause assigning a local: the state after the loop is the one recorded
    at the `break`
```python
def f0(p0: int) -> int:
    v0: Optional[int] = 0
    v0 = 0
    while 0 < p0:
        try:
            v0 = 1
            break
        except (ValueError,): return 0
        finally:
            v0 = None
    return v0 + 1          # mypy: v0 is int
```
-/
def progFinallyJump : Prog :=
  { classes := [],
    funcs := [
      { params := [[.int]], locals := [[.int, .none]], ret := [.int],
        body :=
          .seq (.decl 1 (.intLit 0)) <|
          .seq (.assign 1 (.intLit 0)) <|
          .seq (.while (.lt (.intLit 0) (.var 0))
                 (.tryS (.seq (.assign 1 (.intLit 1)) .brk) [0] (.ret (.intLit 0)) .pass (.assign 1 .noneLit) true)) <|
          .ret (.add (.var 1) (.intLit 1)) }] }

theorem hole_finally_jump :
    WF progFinallyJump ∧ tc progFinallyJump = .error (.hole 6) ∧
    (evalCall 40 progFinallyJump (progFinallyJump.funcs[0]!) [.int 1] { heap := [], log := [] }).1 = .error .typeError := by
  decide

/-- mypy does not check the signature of `__bool__`; CPython insists on a bool result
```python
class K0:
    def __bool__(self) -> int: return 2
def f0(p0: K0) -> int:
    if p0: return 1
    return 0
```
-/
def progBoolSig : Prog :=
  { classes := [{ bases := [], mro := [0], attrs := [], init := { params := [], assigns := [] },
                  methods := [(boolMeth, { params := [], locals := [], ret := [.int], body := .ret (.intLit 2) })] }],
    funcs := [{ params := [[.cls 0]], locals := [], ret := [.int],
                body := .seq (.ite (.var 0) (.ret (.intLit 1)) .pass) (.ret (.intLit 0)) }] }

theorem hole_bool_signature :
    WF progBoolSig ∧ tc progBoolSig = .error (.hole 7) ∧
    (evalCall 40 progBoolSig (progBoolSig.funcs[0]!) [.ref 0] { heap := [{ cls := 0, fields := [] }], log := [] }).1
      = .error .typeError := by
  decide

/-- a user-defined `__bool__` inside the theorem: the truth of an instance is what its method returns, so the
    false branch of `if x:` keeps the class (`x: K0 | None` stays `K0 | None` there), the true branch loses None
```python
class K0:
    a0: int
    def __init__(self, p0: int) -> None: self.a0 = p0
    def __bool__(self) -> bool: return 0 < self.a0
def f0(p0: Optional[K0]) -> int:
    if p0:
        probe(1, p0)                 # K0
        return p0.a0
    probe(2, p0)                     # K0 | None
    return 0
```
-/
def progBool : Prog :=
  { classes := [{ bases := [], mro := [0], attrs := [(0, [.int])], init := { params := [[.int]], assigns := [(0, .var 0)] },
                  methods := [(boolMeth, { params := [], locals := [], ret := [.bool],
                                           body := .ret (.lt (.intLit 0) (.attr (.var 0) 0)) })] }],
    funcs := [{ params := [[.cls 0, .none]], locals := [], ret := [.int],
                body := .seq (.ite (.var 0) (.seq (.expr (.probe 1 (.var 0))) (.ret (.attr (.var 0) 0))) .pass) <|
                        .seq (.expr (.probe 2 (.var 0))) (.ret (.intLit 0)) }] }

example : WF progBool ∧ tc progBool = .ok [(1, [.cls 0]), (2, [.cls 0, .none])] := by decide
example : evalCall 40 progBool (progBool.funcs[0]!) [.ref 0] { heap := [{ cls := 0, fields := [(0, .int 0)] }], log := [] }
    = (.ok (.int 0), { heap := [{ cls := 0, fields := [(0, .int 0)] }], log := [(2, .ref 0)] }) := by decide
example : (evalCall 40 progBool (progBool.funcs[0]!) [.ref 0] { heap := [{ cls := 0, fields := [(0, .int 4)] }], log := [] }).1
    = .ok (.int 4) := by decide

/-- exceptions inside the theorem: an assignment in a *nested* try is visible in the outer handler
```python
def f0(p0: int) -> int:
    v0: Optional[int] = 0
    v0 = 0
    try:
        try:
            v0 = None
            if p0 < 1: raise ValueError()
            v0 = 5
        except (IndexError,):
            v0 = 0 - 1
    except (ValueError,):
        probe(6, v0)                 # int | None
        return 0
    finally:
        probe(7, p0)                 # checked twice: both records are in the map
    probe(8, v0)                     # int
    return v0
```
-/
def progTry : Prog :=
  { classes := [],
    funcs := [
      { params := [[.int]], locals := [[.int, .none]], ret := [.int],
        body :=
          .seq (.decl 1 (.intLit 0)) <|
          .seq (.assign 1 (.intLit 0)) <|
          .seq (.tryS
                 (.tryS (.seq (.assign 1 .noneLit) <|
                         .seq (.ite (.lt (.var 0) (.intLit 1)) (.raise 0) .pass) <|
                         .assign 1 (.intLit 5))
                        [1] (.assign 1 (.sub (.intLit 0) (.intLit 1))) .pass .pass false)
                 [0] (.seq (.expr (.probe 6 (.var 1))) (.ret (.intLit 0))) .pass
                 (.expr (.probe 7 (.var 0))) true) <|
          .seq (.expr (.probe 8 (.var 1))) <|
          .ret (.var 1) }] }

example : WF progTry ∧ tc progTry = .ok [(6, [.int, .none]), (7, [.int]), (7, [.int]), (8, [.int])] := by decide
example : evalCall 40 progTry (progTry.funcs[0]!) [.int 0] { heap := [], log := [] }
    = (.ok (.int 0), { heap := [], log := [(7, .int 0), (6, .none)] }) := by decide
example : (evalCall 40 progTry (progTry.funcs[0]!) [.int 3] { heap := [], log := [] }).1 = .ok (.int 5) := by decide

/-- multiple inheritance inside the theorem: a diamond `K0; K1(K0); K2(K0); K3(K1, K2)` with `m0` overridden in
    K1 and K2 (compatible signatures); a `K2`-typed parameter holding a `K3` dispatches to `K1.m0` (MRO 3,1,2,0) -/
def progDiamond : Prog :=
  let m (k : Int) : FuncDef := { params := [[.int]], locals := [], ret := [.int], body := .ret (.add (.var 1) (.intLit k)) }
  let cls (b : List Nat) (mro : List Nat) (ms : List (Nat × FuncDef)) : ClassDef :=
    { bases := b, mro := mro, attrs := [], init := { params := [], assigns := [] }, methods := ms }
  { classes := [cls [] [0] [(0, m 0)], cls [0] [1, 0] [(0, m 10)], cls [0] [2, 0] [(0, m 20)], cls [1, 2] [3, 1, 2, 0] []],
    funcs := [{ params := [[.cls 2]], locals := [], ret := [.int],
                body := .seq (.expr (.probe 1 (.var 0))) (.ret (.callM (.var 0) 0 [.intLit 1])) }] }

example : WF progDiamond ∧ tc progDiamond = .ok [(1, [.cls 2])] := by decide
example : (evalCall 20 progDiamond (progDiamond.funcs[0]!) [.ref 0] { heap := [{ cls := 3, fields := [] }], log := [] }).1
    = .ok (.int 11) := by decide

end Lang
