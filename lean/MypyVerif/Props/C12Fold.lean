import MypyVerif.Proofs.Fold
/-!
# C12 (constant folding) — a statically folded value is the value CPython computes

Quantifiers: every operator, every `int` (unbounded), `bool`, `str`, `bytes` operand, every expression
tree over them (any depth), both folders (`ext = false`: mypy/constant_fold.py, `ext = true`:
mypyc/irbuild/constant_fold.py).  Floats are opaque (`Res.float`).

* `fold_sound`        binary operators: a folded result is CPython's result (value and type)
* `fold_exact`        binary operators: the folder returns the value `v` ⇔ CPython evaluates to `v`
* `fold_float_iff`    the folder returns a float ⇔ the operator is `/` and CPython does not raise
* `fold_unary_exact_status` / `not_fold_unary_exact` / `fold_unary_partial`   the full unary statement holds
                      iff the folder under check does not return the `bool` operand for `+` (F25; generated constant)
* `foldExpr_sound_partial` / `not_foldExpr_sound` the same for whole expression trees
* `py_*`              the integer operations used as CPython's semantics satisfy the language reference's
                      defining properties (so the model of CPython is CPython's definition, not ours)
-/
namespace Fold

/-- `%` with a `str`/`bytes` left operand is printf-style formatting: not modelled -/
def IsFormat (op : Op) (a : Val) : Prop :=
  op = .mod ∧ ((∃ s, a = .str s) ∨ (∃ s, a = .bytes s))

/-- mypy's `ConstantValue` has no `bytes`; mypyc's has -/
def InDomain (ext : Bool) (a b : Val) : Prop :=
  ext = false → a.isBytes = false ∧ b.isBytes = false

/-- a sequence repetition has a count that fits `ssize_t` (otherwise the real folder itself raises
    `OverflowError`, finding F24, and so does CPython) -/
def RepeatInRange (op : Op) (a b : Val) : Prop :=
  ∀ n, repeatCount op a b = some n → inSsize n = true

instance (op : Op) (a b : Val) : Decidable (RepeatInRange op a b) := by
  unfold RepeatInRange
  cases h : repeatCount op a b with
  | none => exact isTrue (by intro n hn; cases hn)
  | some k =>
    exact if hk : inSsize k = true then isTrue (by intro n hn; injection hn with hn; subst hn; exact hk)
      else isFalse (fun hall => hk (hall k rfl))

/-! ## the property theorems -/

/-- **fold_sound**: whatever either folder returns for a binary operator is what CPython computes
    (same value, same type; `float` for true division).  No hypothesis. -/
theorem fold_sound (ext : Bool) (op : Op) (a b : Val) (r : Res) (hr : RepeatInRange op a b) :
    foldBin ext op a b = some r → pyBin op a b = .ok r := by
  intro h
  unfold foldBin at h
  split at h
  · -- mypyc's bytes branch
    cases op <;> cases a <;> cases b <;> simp [Val.asInt] at h <;>
      simp [RepeatInRange, repeatCount, Val.asInt] at hr <;>
      first
        | (subst h; simp [pyBin, Val.asInt, seqMul, hr])
        | (simp [pyBin, Val.asInt, h])
  · unfold foldBinOp at h
    cases ha : a.asInt with
    | some x =>
      cases hb : b.asInt with
      | some y =>
        simp only [ha, hb] at h
        simp only [pyBin, ha, hb]
        exact foldBinInt_sound op _ x y r h
      | none =>
        simp only [ha, hb] at h
        cases op <;> cases a <;> cases b <;> simp [Val.asInt] at ha hb h <;>
          simp [RepeatInRange, repeatCount, Val.asInt] at hr <;>
          (subst h; simp [pyBin, Val.asInt, seqMul, hr])
    | none =>
      simp only [ha] at h
      cases op <;> cases a <;> cases b <;> simp [Val.asInt] at ha h <;>
        simp [RepeatInRange, repeatCount, Val.asInt] at hr <;>
        first
          | (subst h; simp [pyBin, Val.asInt, seqMul, hr])
          | (simp [pyBin, Val.asInt, h])

/-- completeness on modelled values: if CPython evaluates `a op b` to an int/bool/str/bytes value, the
    folder (given operands of its domain) returns exactly that value -/
theorem fold_complete (ext : Bool) (op : Op) (a b : Val) (v : Val) (hd : InDomain ext a b) :
    pyBin op a b = .ok (.val v) → foldBin ext op a b = some (.val v) := by
  intro h
  cases ext with
  | false =>
    have hd' := hd rfl
    simp only [foldBin, Bool.false_and]
    unfold foldBinOp
    cases ha : a.asInt with
    | some x =>
      cases hb : b.asInt with
      | some y =>
        simp only [pyBin, ha, hb] at h
        exact foldBinInt_complete op _ x y v h
      | none =>
        cases op <;> cases a <;> cases b <;> simp [Val.asInt, Val.isBytes] at ha hb hd' <;>
          simp [pyBin, Val.asInt, seqMul] at h ⊢ <;> first | exact h | exact ite_ok h
    | none =>
      cases op <;> cases a <;> cases b <;> simp [Val.asInt, Val.isBytes] at ha hd' <;>
        simp [pyBin, Val.asInt, seqMul] at h ⊢ <;> first | exact h | exact ite_ok h
  | true =>
    unfold foldBin
    cases ha : a.asInt with
    | some x =>
      cases hb : b.asInt with
      | some y =>
        have h1 : a.isBytes = false := by cases a <;> simp [Val.asInt] at ha <;> rfl
        have h2 : b.isBytes = false := by cases b <;> simp [Val.asInt] at hb <;> rfl
        simp only [h1, h2, Bool.or_self, Bool.and_false]
        simp only [pyBin, ha, hb] at h
        simp only [foldBinOp, ha, hb]
        exact foldBinInt_complete op _ x y v h
      | none =>
        cases op <;> cases a <;> cases b <;> simp [Val.asInt] at ha hb <;>
          simp [pyBin, Val.asInt, Val.isBytes, foldBinOp, seqMul] at h ⊢ <;> first | exact h | exact ite_ok h
    | none =>
      cases op <;> cases a <;> cases b <;> simp [Val.asInt] at ha <;>
        simp [pyBin, Val.asInt, Val.isBytes, foldBinOp, seqMul] at h ⊢ <;> first | exact h | exact ite_ok h

/-- **fold_exact**: for every operator and all operands of the folder's domain, the folder returns the
    int/bool/str/bytes value `v` if and only if CPython evaluates `a op b` without raising and the value
    is `v`.  (`%` on a `str`/`bytes` left operand — formatting — is outside the model of CPython.) -/
theorem fold_exact (ext : Bool) (op : Op) (a b : Val) (v : Val)
    (hd : InDomain ext a b) (_hf : ¬ IsFormat op a) (hr : RepeatInRange op a b) :
    foldBin ext op a b = some (.val v) ↔ pyBin op a b = .ok (.val v) :=
  ⟨fold_sound ext op a b (.val v) hr, fold_complete ext op a b v hd⟩

/-- a float result is produced exactly for true division of ints by a non-zero int -/
theorem fold_float_iff (ext : Bool) (op : Op) (a b : Val) :
    foldBin ext op a b = some .float ↔ (pyBin op a b = .ok .float ∧ op = .truediv) := by
  constructor
  · intro h
    have hop : op = .truediv := by
      unfold foldBin at h
      split at h
      · cases op <;> cases a <;> cases b <;> simp [Val.asInt] at h
      · unfold foldBinOp at h
        cases ha : a.asInt with
        | some x =>
          cases hb : b.asInt with
          | some y =>
            simp only [ha, hb] at h
            cases op <;> simp [foldBinInt] at h <;> first | rfl | (cases hbb : bothBool a b with
              | none => simp [hbb] at h
              | some p => cases p; simp [hbb] at h)
          | none =>
            simp only [ha, hb] at h
            cases op <;> cases a <;> cases b <;> simp [Val.asInt] at ha hb h
        | none =>
          simp only [ha] at h
          cases op <;> cases a <;> cases b <;> simp [Val.asInt] at ha h
    subst hop
    refine ⟨fold_sound ext .truediv a b .float ?_ h, rfl⟩
    intro n hn
    cases a <;> cases b <;> simp [repeatCount] at hn
  · rintro ⟨h, rfl⟩
    cases ha : a.asInt with
    | some x =>
      cases hb : b.asInt with
      | some y =>
        have h1 : a.isBytes = false := by cases a <;> simp [Val.asInt] at ha <;> rfl
        have h2 : b.isBytes = false := by cases b <;> simp [Val.asInt] at hb <;> rfl
        simp only [pyBin, ha, hb, pyBinInt] at h
        simp only [foldBin, h1, h2, Bool.or_self, Bool.and_false, foldBinOp, ha, hb, foldBinInt]
        split at h
        · cases h
        · rename_i hne; simp [hne]
      | none =>
        cases a <;> cases b <;> simp [Val.asInt] at ha hb <;> simp [pyBin, Val.asInt] at h
    | none =>
      cases a <;> cases b <;> simp [Val.asInt] at ha <;> simp [pyBin, Val.asInt] at h

/-- the full statement "the folder returns `r` ⇔ CPython evaluates to `r`" fails only in the harmless
    direction: CPython evaluates `2 ** -1` (to a float), the folder declines -/
theorem not_fold_exact_all :
    ¬ (∀ (ext : Bool) (op : Op) (a b : Val) (r : Res), InDomain ext a b →
        (foldBin ext op a b = some r ↔ pyBin op a b = .ok r)) := by
  intro h
  have := (h false .pow (.int 2) (.int (-1)) .float (by intro _; exact ⟨rfl, rfl⟩)).2 (by decide)
  exact absurd this (by decide)

/-! ## unary operators -/

/-- the full unary statement: whatever the folder returns is what CPython computes -/
def UnaryExact : Prop :=
  ∀ (ext : Bool) (op : UOp) (v : Val) (r : Res), foldUn ext op v = some r → pyUnary op v = .ok r

/-- **fold_unary_exact_status** — the full unary statement holds exactly when the folder under check
    (generated constant `Cfg.unaryPlusOnBoolKeepsBool`, translate/c12fold.py) does *not* return the bool
    operand for `+`.  In the code as found `constant_fold_unary_op("+", True)` returns `True`, CPython's
    `+True` is the `int` 1 (mypy then rejects `X: Final = +True` as an incompatible assignment): F25. -/
theorem fold_unary_exact_status : UnaryExact ↔ Cfg.unaryPlusOnBoolKeepsBool = false := by
  constructor
  · intro h
    cases hc : Cfg.unaryPlusOnBoolKeepsBool with
    | false => rfl
    | true =>
      have := h false .pos (.bool true) (.val (.bool true)) (by simp [foldUn, foldUnary, Val.isBytes, hc])
      exact absurd this (by decide)
  · intro hc ext op v r h
    unfold foldUn at h
    cases ext <;> cases op <;> cases v <;>
      simp [foldUnary, pyUnary, Val.asInt, Val.isBytes, hc] at h ⊢ <;> first | exact h | (subst h; rfl)

/-- `not_fold_unary_exact` for the code as found -/
theorem not_fold_unary_exact (h : Cfg.unaryPlusOnBoolKeepsBool = true) : ¬ UnaryExact := by
  intro hu
  rw [fold_unary_exact_status, h] at hu
  cases hu

def PlusOnBool (op : UOp) (v : Val) : Prop := op = .pos ∧ ∃ b, v = .bool b

instance (op : UOp) (v : Val) : Decidable (PlusOnBool op v) := by
  unfold PlusOnBool
  cases v with
  | bool b => exact if h : op = .pos then isTrue ⟨h, b, rfl⟩ else isFalse (fun ⟨h', _⟩ => h h')
  | int i => exact isFalse (by rintro ⟨_, b, hb⟩; cases hb)
  | str s => exact isFalse (by rintro ⟨_, b, hb⟩; cases hb)
  | bytes s => exact isFalse (by rintro ⟨_, b, hb⟩; cases hb)

/-- **fold_unary_partial**: except for `+` applied to a `bool`, the unary folder returns `r` if and only
    if CPython evaluates to `r` (it folds every `int`/`bool` operand and nothing else, as CPython raises
    `TypeError` on `str`/`bytes`). -/
theorem fold_unary_partial (ext : Bool) (op : UOp) (v : Val) (r : Res) (hx : ¬ PlusOnBool op v) :
    foldUn ext op v = some r ↔ pyUnary op v = .ok r := by
  unfold foldUn
  cases ext <;> cases op <;> cases v <;>
    simp [foldUnary, pyUnary, Val.asInt, Val.isBytes, PlusOnBool] at hx ⊢

/-! ## expression trees -/

/-- no unary `+` is applied to a sub-expression that folds to a `bool` (F23), and no sequence is
    repeated by a folded count outside `ssize_t` (F24) -/
def PlusBoolFree (ext : Bool) : Expr → Prop
  | .lit _ => True
  | .boolName _ => True
  | .ref _ _ => True
  | .bin op l r => PlusBoolFree ext l ∧ PlusBoolFree ext r ∧
      ∀ a b, foldExpr ext l = some (.val a) → foldExpr ext r = some (.val b) → RepeatInRange op a b
  | .un op e => PlusBoolFree ext e ∧ ∀ a, foldExpr ext e = some (.val a) → ¬ PlusOnBool op a

theorem foldUn_sound_partial (ext : Bool) (op : UOp) (v : Val) (r : Res) (hx : ¬ PlusOnBool op v) :
    foldUn ext op v = some r → pyUnary op v = .ok r :=
  (fold_unary_partial ext op v r hx).1

/-- **foldExpr_sound_partial**: for every expression tree (any depth) without `+bool`, whatever
    `constant_fold_expr` returns is what CPython computes for the expression. -/
theorem foldExpr_sound_partial (ext : Bool) (e : Expr) : ∀ (r : Res), PlusBoolFree ext e →
    foldExpr ext e = some r → pyEval e = .ok r := by
  induction e with
  | lit v =>
    intro r _ h
    simp only [foldExpr] at h
    split at h
    · cases h
    · injection h with h; subst h; rfl
  | boolName b =>
    intro r _ h
    simp only [foldExpr] at h
    split at h
    · cases h
    · injection h with h; subst h; rfl
  | ref same v =>
    intro r _ h
    simp only [foldExpr] at h
    split at h
    · injection h with h; subst h; rfl
    · cases h
  | bin op l r ihl ihr =>
    intro res hp h
    simp only [foldExpr] at h
    cases hl : foldExpr ext l with
    | none => simp [hl] at h
    | some rl =>
      cases rl with
      | float => simp [hl] at h
      | val a =>
        cases hr : foldExpr ext r with
        | none => simp [hl, hr] at h
        | some rr =>
          cases rr with
          | float => simp [hl, hr] at h
          | val b =>
            simp only [hl, hr] at h
            have e1 := ihl (.val a) hp.1 hl
            have e2 := ihr (.val b) hp.2.1 hr
            simp only [pyEval, e1, e2]
            exact fold_sound ext op a b res (hp.2.2 a b hl hr) h
  | un op e ih =>
    intro res hp h
    simp only [foldExpr] at h
    cases he : foldExpr ext e with
    | none => simp [he] at h
    | some re =>
      cases re with
      | float => simp [he] at h
      | val a =>
        simp only [he] at h
        have e1 := ih (.val a) hp.1 he
        simp only [pyEval, e1]
        exact foldUn_sound_partial ext op a res (hp.2 a he) h

theorem not_foldExpr_sound (hc : Cfg.unaryPlusOnBoolKeepsBool = true) :
    ¬ (∀ (ext : Bool) (e : Expr) (r : Res), foldExpr ext e = some r → pyEval e = .ok r) := by
  intro h
  have := h true (.un .pos (.ref true (.bool true))) (.val (.bool true))
    (by simp [foldExpr, foldUn, foldUnary, Val.isBytes, hc])
  exact absurd this (by decide)

/-! ## the integer operations are Python's (language reference §6.6–6.9) -/

/-- `x == (x // y) * y + (x % y)`; the remainder has the sign of `y` and a smaller magnitude -/
theorem py_floordiv_mod_spec (a b : Int) (_hb : b ≠ 0) :
    Int.fdiv a b * b + Int.fmod a b = a ∧
    (0 < b → 0 ≤ Int.fmod a b ∧ Int.fmod a b < b) ∧ (b < 0 → b < Int.fmod a b ∧ Int.fmod a b ≤ 0) :=
  ⟨fdiv_fmod_eq a b, fun h => fmod_range_pos a h, fun h => fmod_range_neg a h⟩

/-- … and these properties determine `//` and `%` -/
theorem py_floordiv_mod_unique (a b q r : Int) (hb : b ≠ 0) (h : q * b + r = a)
    (hpos : 0 < b → 0 ≤ r ∧ r < b) (hneg : b < 0 → b < r ∧ r ≤ 0) :
    q = Int.fdiv a b ∧ r = Int.fmod a b :=
  fdiv_fmod_unique a b q r hb h hpos hneg

/-- `& | ^ ~` act bit by bit on the infinite two's-complement representation, which determines them -/
theorem py_bitwise_spec (a b : Int) (i : Nat) :
    testBit (land a b) i = (testBit a i && testBit b i) ∧
    testBit (lor a b) i = (testBit a i || testBit b i) ∧
    testBit (lxor a b) i = (testBit a i ^^ testBit b i) ∧
    testBit (bnot a) i = !testBit a i :=
  ⟨testBit_land a b i, testBit_lor a b i, testBit_lxor a b i, testBit_bnot a i⟩

theorem py_bits_determine (a b : Int) (h : ∀ i, testBit a i = testBit b i) : a = b :=
  eq_of_testBit_eq a b h

/-- `x >> n == floor(x / 2**n)` stated without division; `x << n == x * 2**n` is the definition -/
theorem py_rshift_spec (a : Int) (n : Nat) : shr a n * 2 ^ n ≤ a ∧ a < (shr a n + 1) * 2 ^ n :=
  shr_spec a n

/-! ## non-vacuity -/

example : InDomain false (.int (-7)) (.int 2) ∧ ¬ IsFormat .floordiv (.int (-7)) := by
  refine ⟨fun _ => ⟨rfl, rfl⟩, ?_⟩
  rintro ⟨h, _⟩; cases h
example : RepeatInRange .mul (.str [97]) (.int 3) ∧ ¬ RepeatInRange .mul (.int (2 ^ 64)) (.str [97]) := by decide
example : pyBin .mul (.int (-(2 ^ 64))) (.str [97]) = .raises .overflowError := by decide
example : foldBin false .floordiv (.int (-7)) (.int 2) = some (.val (.int (-4))) := by decide
example : foldBin false .mod (.int 7) (.int (-2)) = some (.val (.int (-1))) := by decide
example : foldBin false .floordiv (.int 1) (.int 0) = none ∧
    pyBin .floordiv (.int 1) (.int 0) = .raises .zeroDivision := by decide
example : foldBin false .lshift (.int 1) (.int (-1)) = none ∧
    pyBin .lshift (.int 1) (.int (-1)) = .raises .valueError := by decide
example : foldBin false .band (.int (-6)) (.int 11) = some (.val (.int 10)) := by decide
example : foldBin false .bxor (.bool true) (.bool true) = some (.val (.bool false)) := by decide
example : foldBin true .mul (.bytes [1, 2]) (.int 2) = some (.val (.bytes [1, 2, 1, 2])) := by decide
example : foldBin false .mul (.int (-3)) (.str [97]) = some (.val (.str [])) := by decide
example : ¬ PlusOnBool .neg (.bool true) := by decide
example : PlusBoolFree false (.bin .add (.lit (.int 1)) (.un .neg (.boolName true))) := by
  refine ⟨trivial, ⟨trivial, ?_⟩, ?_⟩
  · intro a _ h; exact absurd h.1 (by decide)
  · intro a b _ _ n hn; simp [repeatCount] at hn
example : foldExpr false (.bin .add (.lit (.int 1)) (.un .neg (.boolName true))) = some (.val (.int 0)) := by
  decide

end Fold
