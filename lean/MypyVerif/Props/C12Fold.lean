import MypyVerif.Proofs.Fold
/-!
# C12 (constant folding) — a statically folded value is the value CPython computes

Quantifiers: every operator, every `int` (unbounded), `bool`, `str`, `bytes` operand, every expression
tree over them (any depth), both folders (`ext = false`: mypy/constant_fold.py, `ext = true`:
mypyc/irbuild/constant_fold.py).  Int true division yields the symbolic oracle value `Res.quot a b`.

* `fold_sound`        binary operators: a folded result is CPython's result (value and type) — unconditional
* `fold_complete` / `fold_exact`   below the size guard (`belowGuard`, decidable, read from the source by the
                      translator) the folder returns the value `v` ⇔ CPython evaluates to `v`
* `fold_declines_above_guard`      above it the folder returns nothing
* `fold_guarded_int_bound` / `fold_guarded_seq_bound`   values built by guarded operators stay within the bound
* `guard_config_complete`          a declared bound guards every size-increasing operator (regenerated constants)
* `fold_truediv_exact` / `fold_quot_operands`   int `/` int: the folder returns CPython's correctly rounded
                      quotient of exactly the two operand integers (an oracle `quot`, realised by the tie)
* `fold_unary_exact_status` / `not_fold_unary_exact` / `fold_unary_partial`   the full unary statement holds
                      iff the folder under check does not return the `bool` operand for `+` (F25; generated constant)
* `foldExpr_sound_partial` / `not_foldExpr_sound` the same for whole expression trees
* `py_*`              the integer operations used as CPython's semantics satisfy the language reference's
                      defining properties (so the model of CPython is CPython's definition, not ours)
-/
namespace Fold

/-- `%` with a `str`/`bytes` left operand is printf-style formatting: not modelled -/
def IsFormat (op : Op) (a : Val) : Prop :=
  op = .mod ∧ ((∃ s, a = .str s) ∨ (∃ s, a = .bytes s))

/-- mypy's `ConstantValue` has no `bytes`; mypyc's has -/
def InDomain (ext : Bool) (a b : Val) : Prop :=
  ext = false → a.isBytes = false ∧ b.isBytes = false

/-! ## the property theorems -/

/-- **fold_sound** (exactness, unconditional): whatever either folder returns for a binary operator is what
    CPython computes (same value, same type; `float` for true division) — with or without the size guards,
    for operands of any size. -/
theorem fold_sound (ext : Bool) (op : Op) (a b : Val) (r : Res) :
    foldBin ext op a b = some r → pyBin op a b = .ok r := by
  intro h
  unfold foldBin at h
  split at h
  · -- mypyc's bytes branch
    cases op <;> cases a <;> cases b <;> simp [Val.asInt] at h <;>
      first
        | (simp [pyBin, Val.asInt]; exact foldRepeat_sound _ _ _ _ _ h)
        | (obtain ⟨_, h⟩ := h; subst h; simp [pyBin, Val.asInt])
  · unfold foldBinOp at h
    cases ha : a.asInt with
    | some x =>
      cases hb : b.asInt with
      | some y =>
        simp only [ha, hb] at h
        simp only [pyBin, ha, hb]
        exact foldBinInt_sound op _ x y r h
      | none =>
        simp only [ha, hb] at h
        cases op <;> cases a <;> cases b <;> simp [Val.asInt] at ha hb h <;>
          (simp [pyBin, Val.asInt]; exact foldRepeat_sound _ _ _ _ _ h)
    | none =>
      simp only [ha] at h
      cases op <;> cases a <;> cases b <;> simp [Val.asInt] at ha h <;>
        first
          | (simp [pyBin, Val.asInt]; exact foldRepeat_sound _ _ _ _ _ h)
          | (obtain ⟨_, h⟩ := h; subst h; simp [pyBin, Val.asInt])

/-- **fold_complete** (below the guard): if no size test of the folder fires (`belowGuard`, a decidable
    predicate on the operands) and CPython evaluates `a op b` to an int/bool/str/bytes value, the folder
    (given operands of its domain) returns exactly that value. -/
theorem fold_complete (ext : Bool) (op : Op) (a b : Val) (v : Val) (hd : InDomain ext a b)
    (hg : belowGuard ext op a b = true) :
    pyBin op a b = .ok (.val v) → foldBin ext op a b = some (.val v) := by
  intro h
  cases ext with
  | false =>
    have hd' := hd rfl
    simp only [foldBin, Bool.false_and]
    unfold foldBinOp
    cases ha : a.asInt with
    | some x =>
      cases hb : b.asInt with
      | some y =>
        simp only [pyBin, ha, hb] at h
        simp only [belowGuard, ha, hb] at hg
        exact foldBinInt_complete op _ x y v hg h
      | none =>
        cases op <;> cases a <;> cases b <;> simp [Val.asInt, Val.isBytes] at ha hb hd' <;>
          simp [pyBin, Val.asInt] at h <;> simp [belowGuard, Val.asInt] at hg <;>
          exact foldRepeat_complete _ _ _ _ _ hg h
    | none =>
      cases op <;> cases a <;> cases b <;> simp [Val.asInt, Val.isBytes] at ha hd' <;>
        simp [pyBin, Val.asInt] at h <;> simp [belowGuard, Val.asInt] at hg <;>
        first
          | exact foldRepeat_complete _ _ _ _ _ hg h
          | (simp [hg]; exact h)
  | true =>
    unfold foldBin
    cases ha : a.asInt with
    | some x =>
      cases hb : b.asInt with
      | some y =>
        have h1 : a.isBytes = false := by cases a <;> simp [Val.asInt] at ha <;> rfl
        have h2 : b.isBytes = false := by cases b <;> simp [Val.asInt] at hb <;> rfl
        simp only [h1, h2, Bool.or_self, Bool.and_false]
        simp only [pyBin, ha, hb] at h
        simp only [belowGuard, ha, hb] at hg
        simp only [foldBinOp, ha, hb]
        exact foldBinInt_complete op _ x y v hg h
      | none =>
        cases op <;> cases a <;> cases b <;> simp [Val.asInt] at ha hb <;>
          simp [pyBin, Val.asInt] at h <;> simp [belowGuard, Val.asInt] at hg <;>
          simp [Val.isBytes, foldBinOp, Val.asInt] <;>
          exact foldRepeat_complete _ _ _ _ _ hg h
    | none =>
      cases op <;> cases a <;> cases b <;> simp [Val.asInt] at ha <;>
        simp [pyBin, Val.asInt] at h <;> simp [belowGuard, Val.asInt] at hg <;>
        simp [Val.isBytes, foldBinOp, Val.asInt] <;>
        first
          | exact foldRepeat_complete _ _ _ _ _ hg h
          | (simp [hg]; exact h)

/-- **fold_declines_above_guard**: the guard is applied exactly — when a size test fires, the folder
    returns nothing (before evaluating the operation). -/
theorem fold_declines_above_guard (ext : Bool) (op : Op) (a b : Val) (hg : belowGuard ext op a b = false) :
    foldBin ext op a b = none := by
  unfold foldBin
  cases ha : a.asInt with
  | some x =>
    cases hb : b.asInt with
    | some y =>
      have h1 : a.isBytes = false := by cases a <;> simp [Val.asInt] at ha <;> rfl
      have h2 : b.isBytes = false := by cases b <;> simp [Val.asInt] at hb <;> rfl
      simp only [belowGuard, ha, hb] at hg
      simp only [h1, h2, Bool.or_self, Bool.and_false, foldBinOp, ha, hb]
      exact foldBinInt_guard op _ x y hg
    | none =>
      cases ext <;> cases op <;> cases a <;> cases b <;> simp [Val.asInt] at ha hb <;>
        simp [belowGuard, Val.asInt] at hg <;>
        simp [Val.isBytes, foldBinOp, Val.asInt] <;>
        exact foldRepeat_guard _ _ _ _ hg
  | none =>
    cases ext <;> cases op <;> cases a <;> cases b <;> simp [Val.asInt] at ha <;>
      simp [belowGuard, Val.asInt] at hg <;>
      simp [Val.isBytes, foldBinOp, Val.asInt] <;>
      first
        | exact foldRepeat_guard _ _ _ _ hg
        | simp [hg]

/-- **fold_exact**: for every operator and all operands of the folder's domain below the guard, the folder
    returns the int/bool/str/bytes value `v` if and only if CPython evaluates `a op b` without raising and
    the value is `v`.  (`%` on a `str`/`bytes` left operand — formatting — is outside the model of CPython.)
    The direction ⇒ is `fold_sound` and needs none of the hypotheses. -/
theorem fold_exact (ext : Bool) (op : Op) (a b : Val) (v : Val)
    (hd : InDomain ext a b) (_hf : ¬ IsFormat op a) (hg : belowGuard ext op a b = true) :
    foldBin ext op a b = some (.val v) ↔ pyBin op a b = .ok (.val v) :=
  ⟨fold_sound ext op a b (.val v), fold_complete ext op a b v hd hg⟩

/-- **fold_guarded_int_bound**: a value produced by a guarded integer operator (`*`, `<<`, `**`) has at most
    `MAX_FOLDED_INT_BITS` bits (at least 1 for `x ** 0`). -/
theorem fold_guarded_int_bound (op : Op) (bb : Option (Bool × Bool)) (l r v : Int)
    (hop : (op = .mul ∧ Cfg.guardIntMul = true) ∨ (op = .lshift ∧ Cfg.guardIntShl = true) ∨
           (op = .pow ∧ Cfg.guardIntPow = true))
    (h : foldBinInt op bb l r = some (.val (.int v))) : bitLength v ≤ max 1 Cfg.maxFoldedIntBits := by
  rcases hop with ⟨rfl, hf⟩ | ⟨rfl, hf⟩ | ⟨rfl, hf⟩ <;> simp only [foldBinInt] at h
  · split at h
    · rename_i hg
      injection h with h; injection h with h; injection h with h; subst h
      simp [intGuardOk, hf] at hg
      have := bitLength_mul l r
      omega
    · cases h
  · split at h
    · rename_i hr
      split at h
      · rename_i hg
        injection h with h; injection h with h; injection h with h; subst h
        simp [intGuardOk, hf] at hg
        have := bitLength_shl l r.toNat
        omega
      · cases h
    · cases h
  · split at h
    · rename_i hr
      split at h
      · rename_i hg
        injection h with h; injection h with h; injection h with h; subst h
        simp [intGuardOk, hf] at hg
        have h1 := bitLength_pow l r.toNat
        have h2 : ((bitLength l * r.toNat : Nat) : Int) = (bitLength l : Int) * r := by
          rw [Int.natCast_mul, Int.toNat_of_nonneg hr]
        omega
      · cases h
    · cases h

/-- **fold_guarded_seq_bound**: a `str` / `bytes` produced by a guarded `+` or `*` has at most
    `MAX_FOLDED_STR_LENGTH` items. -/
theorem fold_guarded_seq_bound (mk : List Nat → Val) (s t : List Nat) (n : Int) (out : List Nat) :
    (catGuardOk true s.length t.length = true → (s ++ t).length ≤ Cfg.maxFoldedStrLength) ∧
    (foldRepeat true mk s n = some (.val (mk out)) → (∀ x y, mk x = mk y → x = y) →
      out.length ≤ Cfg.maxFoldedStrLength) := by
  constructor
  · intro h; simp [catGuardOk] at h; simpa using h
  · intro h hinj
    unfold foldRepeat at h
    split at h
    · rename_i hc
      injection h with h; injection h with h
      have := hinj _ _ h; subst this
      simp only [Bool.and_eq_true, seqGuardOk, Bool.not_true, Bool.false_or, decide_eq_true_eq] at hc
      rw [pyRepeat_length]
      have h1 := hc.1
      by_cases hn : 0 ≤ n
      · have : ((n.toNat * s.length : Nat) : Int) = (s.length : Int) * n := by
          rw [Int.natCast_mul, Int.toNat_of_nonneg hn, Int.mul_comm]
        omega
      · have : n.toNat = 0 := by omega
        simp [this]
    · cases h

/-- **guard_config_complete** (obligation over the regenerated constants): a tree that declares a bound
    guards every size-increasing operator with it — `*`, `<<`, `**` on ints; `+`, `*` (both operand orders)
    on `str`, and on `bytes` in mypyc's folder. -/
theorem guard_config_complete :
    (Cfg.maxFoldedIntBits > 0 → Cfg.guardIntMul = true ∧ Cfg.guardIntShl = true ∧ Cfg.guardIntPow = true) ∧
    (Cfg.maxFoldedStrLength > 0 → Cfg.guardStrAdd = true ∧ Cfg.guardStrMulR = true ∧ Cfg.guardStrMulL = true ∧
      Cfg.guardBytesAdd = true ∧ Cfg.guardBytesMulR = true ∧ Cfg.guardBytesMulL = true) := by
  decide

/-- **fold_truediv_exact** — exactness of int true division *relative to the oracle* `quot`: the folder
    returns "CPython's float quotient of the integers `x` and `y`" if and only if CPython evaluates `a op b`
    to that same quotient (same two integers, one rounding) without raising — i.e. exactly for `/` on two
    int/bool operands with a non-zero divisor and a representable result.  What the float *is* lies outside
    Lean (`Float` cannot express correctly rounded rational division): the harness evaluates the oracle with
    the running interpreter and compares the real folders' floats with it bit for bit on every generated pair. -/
theorem fold_truediv_exact (ext : Bool) (op : Op) (a b : Val) (x y : Int) :
    foldBin ext op a b = some (.quot x y) ↔ pyBin op a b = .ok (.quot x y) := by
  constructor
  · exact fold_sound ext op a b (.quot x y)
  · intro h
    cases ha : a.asInt with
    | some u =>
      cases hb : b.asInt with
      | some w =>
        have h1 : a.isBytes = false := by cases a <;> simp [Val.asInt] at ha <;> rfl
        have h2 : b.isBytes = false := by cases b <;> simp [Val.asInt] at hb <;> rfl
        simp only [pyBin, ha, hb] at h
        simp only [foldBin, h1, h2, Bool.or_self, Bool.and_false, foldBinOp, ha, hb]
        exact foldBinInt_quot op _ u w x y h
      | none =>
        exfalso
        cases op <;> cases a <;> cases b <;> simp [Val.asInt] at ha hb <;> simp [pyBin, Val.asInt] at h <;>
          exact absurd h (seqMul_ne_quot _ _ _ _ _)
    | none =>
      exfalso
      cases op <;> cases a <;> cases b <;> simp [Val.asInt] at ha <;> simp [pyBin, Val.asInt] at h <;>
        exact absurd h (seqMul_ne_quot _ _ _ _ _)

/-- the symbolic quotient is produced by `/` only, on exactly the operands' integer values -/
theorem fold_quot_operands (ext : Bool) (op : Op) (a b : Val) (x y : Int)
    (h : foldBin ext op a b = some (.quot x y)) :
    op = .truediv ∧ a.asInt = some x ∧ b.asInt = some y ∧ y ≠ 0 ∧ divOverflows x y = false := by
  have hp := fold_sound ext op a b _ h
  cases ha : a.asInt with
  | some u =>
    cases hb : b.asInt with
    | some w =>
      simp only [pyBin, ha, hb] at hp
      cases op <;> simp only [pyBinInt] at hp
      case truediv =>
        split at hp
        · cases hp
        · rename_i hne
          split at hp
          · cases hp
          · rename_i ho
            injection hp with hp; injection hp with h1 h2; subst h1; subst h2
            exact ⟨rfl, rfl, rfl, hne, by simpa using ho⟩
      case add | sub | mul => cases hp
      case floordiv | mod => split at hp <;> cases hp
      case band | bor | bxor => split at hp <;> cases hp
      case lshift | rshift => split at hp <;> cases hp
      case pow =>
        split at hp
        · split at hp <;> cases hp
        · cases hp
      case matmul => cases hp
    | none =>
      exfalso
      cases op <;> cases a <;> cases b <;> simp [Val.asInt] at ha hb <;> simp [pyBin, Val.asInt] at hp <;>
        exact absurd hp (seqMul_ne_quot _ _ _ _ _)
  | none =>
    exfalso
    cases op <;> cases a <;> cases b <;> simp [Val.asInt] at ha <;> simp [pyBin, Val.asInt] at hp <;>
      exact absurd hp (seqMul_ne_quot _ _ _ _ _)

/-- the full statement "the folder returns `r` ⇔ CPython evaluates to `r`" fails only in the harmless
    direction: CPython evaluates `2 ** -1` (to a float), the folder declines -/
theorem not_fold_exact_all :
    ¬ (∀ (ext : Bool) (op : Op) (a b : Val) (r : Res), InDomain ext a b →
        (foldBin ext op a b = some r ↔ pyBin op a b = .ok r)) := by
  intro h
  have := (h false .pow (.int 2) (.int (-1)) .float (by intro _; exact ⟨rfl, rfl⟩)).2 (by decide)
  exact absurd this (by decide)

/-! ## unary operators -/

/-- the full unary statement: whatever the folder returns is what CPython computes -/
def UnaryExact : Prop :=
  ∀ (ext : Bool) (op : UOp) (v : Val) (r : Res), foldUn ext op v = some r → pyUnary op v = .ok r

/-- **fold_unary_exact_status** — the full unary statement holds exactly when the folder under check
    (generated constant `Cfg.unaryPlusOnBoolKeepsBool`, translate/c12fold.py) does *not* return the bool
    operand for `+`.  In the code as found `constant_fold_unary_op("+", True)` returns `True`, CPython's
    `+True` is the `int` 1 (mypy then rejects `X: Final = +True` as an incompatible assignment): F25. -/
theorem fold_unary_exact_status : UnaryExact ↔ Cfg.unaryPlusOnBoolKeepsBool = false := by
  constructor
  · intro h
    cases hc : Cfg.unaryPlusOnBoolKeepsBool with
    | false => rfl
    | true =>
      have := h false .pos (.bool true) (.val (.bool true)) (by simp [foldUn, foldUnary, Val.isBytes, hc])
      exact absurd this (by decide)
  · intro hc ext op v r h
    unfold foldUn at h
    cases ext <;> cases op <;> cases v <;>
      simp [foldUnary, pyUnary, Val.asInt, Val.isBytes, hc] at h ⊢ <;> first | exact h | (subst h; rfl)

/-- `not_fold_unary_exact` for the code as found -/
theorem not_fold_unary_exact (h : Cfg.unaryPlusOnBoolKeepsBool = true) : ¬ UnaryExact := by
  intro hu
  rw [fold_unary_exact_status, h] at hu
  cases hu

def PlusOnBool (op : UOp) (v : Val) : Prop := op = .pos ∧ ∃ b, v = .bool b

instance (op : UOp) (v : Val) : Decidable (PlusOnBool op v) := by
  unfold PlusOnBool
  cases v with
  | bool b => exact if h : op = .pos then isTrue ⟨h, b, rfl⟩ else isFalse (fun ⟨h', _⟩ => h h')
  | int i => exact isFalse (by rintro ⟨_, b, hb⟩; cases hb)
  | str s => exact isFalse (by rintro ⟨_, b, hb⟩; cases hb)
  | bytes s => exact isFalse (by rintro ⟨_, b, hb⟩; cases hb)

/-- **fold_unary_partial**: except for `+` applied to a `bool`, the unary folder returns `r` if and only
    if CPython evaluates to `r` (it folds every `int`/`bool` operand and nothing else, as CPython raises
    `TypeError` on `str`/`bytes`). -/
theorem fold_unary_partial (ext : Bool) (op : UOp) (v : Val) (r : Res) (hx : ¬ PlusOnBool op v) :
    foldUn ext op v = some r ↔ pyUnary op v = .ok r := by
  unfold foldUn
  cases ext <;> cases op <;> cases v <;>
    simp [foldUnary, pyUnary, Val.asInt, Val.isBytes, PlusOnBool] at hx ⊢

/-! ## expression trees -/

/-- no unary `+` is applied to a sub-expression that folds to a `bool` (F25) -/
def PlusBoolFree (ext : Bool) : Expr → Prop
  | .lit _ => True
  | .boolName _ => True
  | .ref _ _ => True
  | .bin _ l r => PlusBoolFree ext l ∧ PlusBoolFree ext r
  | .un op e => PlusBoolFree ext e ∧ ∀ a, foldExpr ext e = some (.val a) → ¬ PlusOnBool op a

theorem foldUn_sound_partial (ext : Bool) (op : UOp) (v : Val) (r : Res) (hx : ¬ PlusOnBool op v) :
    foldUn ext op v = some r → pyUnary op v = .ok r :=
  (fold_unary_partial ext op v r hx).1

/-- **foldExpr_sound_partial**: for every expression tree (any depth) without `+bool`, whatever
    `constant_fold_expr` returns is what CPython computes for the expression. -/
theorem foldExpr_sound_partial (ext : Bool) (e : Expr) : ∀ (r : Res), PlusBoolFree ext e →
    foldExpr ext e = some r → pyEval e = .ok r := by
  induction e with
  | lit v =>
    intro r _ h
    simp only [foldExpr] at h
    split at h
    · cases h
    · injection h with h; subst h; rfl
  | boolName b =>
    intro r _ h
    simp only [foldExpr] at h
    split at h
    · cases h
    · injection h with h; subst h; rfl
  | ref same v =>
    intro r _ h
    simp only [foldExpr] at h
    split at h
    · injection h with h; subst h; rfl
    · cases h
  | bin op l r ihl ihr =>
    intro res hp h
    simp only [foldExpr] at h
    cases hl : foldExpr ext l with
    | none => simp [hl] at h
    | some rl =>
      cases rl with
      | float => simp [hl] at h
      | quot _ _ => simp [hl] at h
      | val a =>
        cases hr : foldExpr ext r with
        | none => simp [hl, hr] at h
        | some rr =>
          cases rr with
          | float => simp [hl, hr] at h
          | quot _ _ => simp [hl, hr] at h
          | val b =>
            simp only [hl, hr] at h
            have e1 := ihl (.val a) hp.1 hl
            have e2 := ihr (.val b) hp.2 hr
            simp only [pyEval, e1, e2]
            exact fold_sound ext op a b res h
  | un op e ih =>
    intro res hp h
    simp only [foldExpr] at h
    cases he : foldExpr ext e with
    | none => simp [he] at h
    | some re =>
      cases re with
      | float => simp [he] at h
      | quot _ _ => simp [he] at h
      | val a =>
        simp only [he] at h
        have e1 := ih (.val a) hp.1 he
        simp only [pyEval, e1]
        exact foldUn_sound_partial ext op a res (hp.2 a he) h

theorem not_foldExpr_sound (hc : Cfg.unaryPlusOnBoolKeepsBool = true) :
    ¬ (∀ (ext : Bool) (e : Expr) (r : Res), foldExpr ext e = some r → pyEval e = .ok r) := by
  intro h
  have := h true (.un .pos (.ref true (.bool true))) (.val (.bool true))
    (by simp [foldExpr, foldUn, foldUnary, Val.isBytes, hc])
  exact absurd this (by decide)

/-! ## the integer operations are Python's (language reference §6.6–6.9) -/

/-- `x == (x // y) * y + (x % y)`; the remainder has the sign of `y` and a smaller magnitude -/
theorem py_floordiv_mod_spec (a b : Int) (_hb : b ≠ 0) :
    Int.fdiv a b * b + Int.fmod a b = a ∧
    (0 < b → 0 ≤ Int.fmod a b ∧ Int.fmod a b < b) ∧ (b < 0 → b < Int.fmod a b ∧ Int.fmod a b ≤ 0) :=
  ⟨fdiv_fmod_eq a b, fun h => fmod_range_pos a h, fun h => fmod_range_neg a h⟩

/-- … and these properties determine `//` and `%` -/
theorem py_floordiv_mod_unique (a b q r : Int) (hb : b ≠ 0) (h : q * b + r = a)
    (hpos : 0 < b → 0 ≤ r ∧ r < b) (hneg : b < 0 → b < r ∧ r ≤ 0) :
    q = Int.fdiv a b ∧ r = Int.fmod a b :=
  fdiv_fmod_unique a b q r hb h hpos hneg

/-- `& | ^ ~` act bit by bit on the infinite two's-complement representation, which determines them -/
theorem py_bitwise_spec (a b : Int) (i : Nat) :
    testBit (land a b) i = (testBit a i && testBit b i) ∧
    testBit (lor a b) i = (testBit a i || testBit b i) ∧
    testBit (lxor a b) i = (testBit a i ^^ testBit b i) ∧
    testBit (bnot a) i = !testBit a i :=
  ⟨testBit_land a b i, testBit_lor a b i, testBit_lxor a b i, testBit_bnot a i⟩

theorem py_bits_determine (a b : Int) (h : ∀ i, testBit a i = testBit b i) : a = b :=
  eq_of_testBit_eq a b h

/-- `x >> n == floor(x / 2**n)` stated without division; `x << n == x * 2**n` is the definition -/
theorem py_rshift_spec (a : Int) (n : Nat) : shr a n * 2 ^ n ≤ a ∧ a < (shr a n + 1) * 2 ^ n :=
  shr_spec a n

/-! ## non-vacuity -/

example : InDomain false (.int (-7)) (.int 2) ∧ ¬ IsFormat .floordiv (.int (-7)) := by
  refine ⟨fun _ => ⟨rfl, rfl⟩, ?_⟩
  rintro ⟨h, _⟩; cases h
example : pyBin .mul (.int (-(2 ^ 64))) (.str [97]) = .raises .overflowError ∧
    foldBin false .mul (.int (-(2 ^ 64))) (.str [97]) = none := by decide
/-- both sides of each guard (for a tree that declares the bound 65536; vacuous otherwise):
    `1 << 65535` and `True << 65535` are folded, `1 << 65536` is not; `3 ** 32768` is below the guard,
    `3 ** 32769` above; `2**32767 * 2**32767` below, `2**32768 * 2**32767` above;
    `"ab" * 32768` / `"a" * 65536` below, `"ab" * 32769` / `65537 * "a"` above; `bytes` likewise in mypyc -/
example : Cfg.maxFoldedIntBits = 65536 → Cfg.guardIntShl = true → Cfg.guardIntPow = true → Cfg.guardIntMul = true →
    belowGuard false .lshift (.int 1) (.int 65535) = true ∧ belowGuard false .lshift (.bool true) (.int 65535) = true ∧
    belowGuard false .lshift (.int 1) (.int 65536) = false ∧
    (foldBin false .lshift (.int 1) (.int 65535)).isSome = true ∧ foldBin false .lshift (.int 1) (.int 65536) = none ∧
    belowGuard false .pow (.int 3) (.int 32768) = true ∧ belowGuard false .pow (.int 3) (.int 32769) = false ∧
    foldBin false .pow (.int 3) (.int 32769) = none := by
  decide
set_option exponentiation.threshold 70000 in
example : Cfg.maxFoldedIntBits = 65536 → Cfg.guardIntMul = true →
    belowGuard false .mul (.int (2 ^ 32767)) (.int (2 ^ 32767)) = true ∧
    belowGuard false .mul (.int (2 ^ 32768)) (.int (-(2 ^ 32767))) = false ∧
    foldBin false .mul (.int (2 ^ 32768)) (.int (-(2 ^ 32767))) = none := by
  decide +kernel
example : Cfg.maxFoldedStrLength = 65536 → Cfg.guardStrMulR = true → Cfg.guardStrMulL = true →
    Cfg.guardStrAdd = true → Cfg.guardBytesMulR = true →
    belowGuard false .mul (.str [97, 98]) (.int 32768) = true ∧ belowGuard false .mul (.str [97, 98]) (.int 32769) = false ∧
    belowGuard false .mul (.str [97]) (.int 65536) = true ∧ belowGuard false .mul (.int 65537) (.str [97]) = false ∧
    foldBin false .mul (.int 65537) (.str [97]) = none ∧ (foldBin false .mul (.str [97, 98]) (.int 32768)).isSome = true ∧
    belowGuard true .mul (.bytes [1]) (.int 65537) = false ∧ belowGuard false .mul (.bytes [1]) (.int 65537) = true ∧
    foldBin true .mul (.bytes [1]) (.int 65537) = none := by
  decide
example : foldBin false .truediv (.int 9007199254740993) (.int 3) = some (.quot 9007199254740993 3) ∧
    foldBin true .truediv (.bool true) (.int (-7)) = some (.quot 1 (-7)) ∧
    foldBin false .truediv (.int 1) (.int 0) = none := by decide
set_option exponentiation.threshold 2000 in
example : foldBin false .truediv (.int (10 ^ 400)) (.int 1) = none ∧
    pyBin .truediv (.int (10 ^ 400)) (.int 1) = .raises .overflowError ∧
    foldBin false .truediv (.int (10 ^ 400)) (.int (10 ^ 200)) = some (.quot (10 ^ 400) (10 ^ 200)) := by
  decide +kernel
example : foldBin false .floordiv (.int (-7)) (.int 2) = some (.val (.int (-4))) := by decide
example : foldBin false .mod (.int 7) (.int (-2)) = some (.val (.int (-1))) := by decide
example : foldBin false .floordiv (.int 1) (.int 0) = none ∧
    pyBin .floordiv (.int 1) (.int 0) = .raises .zeroDivision := by decide
example : foldBin false .lshift (.int 1) (.int (-1)) = none ∧
    pyBin .lshift (.int 1) (.int (-1)) = .raises .valueError := by decide
example : foldBin false .band (.int (-6)) (.int 11) = some (.val (.int 10)) := by decide
example : foldBin false .bxor (.bool true) (.bool true) = some (.val (.bool false)) := by decide
example : foldBin true .mul (.bytes [1, 2]) (.int 2) = some (.val (.bytes [1, 2, 1, 2])) := by decide
example : foldBin false .mul (.int (-3)) (.str [97]) = some (.val (.str [])) := by decide
example : ¬ PlusOnBool .neg (.bool true) := by decide
example : PlusBoolFree false (.bin .add (.lit (.int 1)) (.un .neg (.boolName true))) := by
  refine ⟨trivial, trivial, ?_⟩
  intro a _ h; exact absurd h.1 (by decide)
example : foldExpr false (.bin .add (.lit (.int 1)) (.un .neg (.boolName true))) = some (.val (.int 0)) := by
  decide

end Fold
