import MypyVerif.Proofs.Codec
import MypyVerif.Proofs.CodecSkip
import MypyVerif.Gen.Schemas
/-!
# C11 — cache serialisation is faithful in both formats

Property theorems only (helpers: Proofs/Codec.lean; model: Model/Codec.lean; generated schemas:
Gen/Schemas.lean, Gen/CodecConsts.lean — regenerated from /repo on every check).

* byte level: `int_roundtrip` (every `Int` the writer accepts, all four forms), `str_roundtrip`,
  `flags_roundtrip`;
* codec algebra: `dec_enc` for every codec, every well-typed value, every nesting depth;
* determinism: `symbolTable_bytes_perm` (sorted-key maps: bytes invariant under insertion order);
* the schemas extracted from `write`/`read` of every class: `schemas_sub` (reader accepts the writer,
  slot for slot and field name for field name — by `decide` over the regenerated table) and
  `schema_roundtrip` (hence read (write x) = x, across all classes and recursion depths);
* JSON format: `json_keys_agree`, `formats_same_fields`;
* F15: `not_map_order_preserved` / `map_order_preserved_partial` (a map written through `sorted` comes
  back in sorted order — faithful as a mapping, not as an ordered dict: TypedDict items).
-/
namespace Codec
open K

/-! ## bytes -/

/-- **int_roundtrip**: `read_int` inverts `write_int` on every integer the writer does not reject
    (1-, 2-, 4-byte and long forms; all of `Int`). -/
theorem int_roundtrip (v : Int) (rest : Bytes) (h : IntOk v) : decInt (encInt v ++ rest) = some (v, rest) :=
  decInt_encInt v rest h

/-- every integer of fewer than 2^28 bytes is accepted by the writer -/
theorem intOk_of_bytes (v : Int) (h : (natToLE v.natAbs).length < 268430455) : IntOk v := by
  right
  simp only [MAX_FOUR_BYTES_INT]
  split <;> omega

theorem str_roundtrip (s rest : Bytes) (h : StrOk s) : decStr (encStr s ++ rest) = some (s, rest) :=
  decStr_encStr s rest h

theorem flags_roundtrip (bs : List Bool) : unpackFlags bs.length (packFlags bs) = bs := unpack_pack bs

-- non-vacuity and the boundaries between the forms (MIN/MAX of each form, both sides)
example : IntOk 0 ∧ IntOk (-10001) ∧ IntOk 536860912 ∧ IntOk (2 ^ 200) ∧ IntOk (-(2 ^ 64)) := by decide
example : [(-10001 : Int), -10000, -101, -100, -11, -10, 0, 117, 118, 16283, 16284, 536860911, 536860912,
           18446744073709551616, -18446744073709551616].all
    (fun v => decInt (encInt v ++ [7, 8]) == some (v, [7, 8])) = true := by decide
example : ([(-10 : Int), 117, -100, -11, 118, 16283, -10000, -101, 16284, 536860911, -10001, 536860912].map
    fun v => (encInt v).length) = [1, 1, 2, 2, 2, 2, 4, 4, 4, 4, 4, 6] := by decide
example : encInt 300 = [65, 6] ∧ encInt (2 ^ 70) = [15, 56, 0, 0, 0, 0, 0, 0, 0, 0, 64] := by decide
example : decStr (encStr [104, 195, 169] ++ [1]) = some ([104, 195, 169], [1]) := by decide

/-! ## the codec algebra -/

/-- **dec_enc**: for every environment of class bodies, every codec, every value that is well typed for
    it (at nesting depth `fuel`), and every following bytes: decoding the encoding gives the value back
    and leaves exactly the rest. -/
theorem dec_enc (env : Env) (fuel : Nat) (c : C) (v : Val) (rest : Bytes)
    (h : wt env fuel c v = true) : dec env fuel c (enc env fuel c v ++ rest) = some (v, rest) :=
  dec_enc_aux env fuel c v rest h

/-- reader codec `r` narrower than writer codec `w` (`sub r w`), environments related pointwise -/
theorem dec_enc_sub (envW envR : Env) (henv : ∀ n, sub (envR n) (envW n) = true)
    (fuel : Nat) (r w : C) (v : Val) (rest : Bytes) (hs : sub r w = true) (h : wt envR fuel r v = true) :
    dec envR fuel r (enc envW fuel w v ++ rest) = some (v, rest) :=
  sub_rt_aux envW envR henv fuel r w v rest hs h

-- non-vacuity: a recursive "type" (tag 1 = leaf int, tag 2 = list of types), nested three deep
def demoEnv : Env := fun n =>
  if n = "T" then C.table [(1, .pair (.field "x" (.pair (.lit 3) .int)) (.lit 255)),
                           (2, .pair (.field "items" (.list (.ref "T"))) (.lit 255))] else .fail
def demoVal : Val :=
  .variant 2 (.pair (.fld "items" (.cons (.variant 1 (.pair (.fld "x" (.pair .unit (.int 70000))) .unit))
    (.cons (.variant 2 (.pair (.fld "items" .nil) .unit)) .nil))) .unit)
example : wt demoEnv 3 (.ref "T") demoVal = true := by decide
example : dec demoEnv 3 (.ref "T") (enc demoEnv 3 (.ref "T") demoVal ++ [9]) = some (demoVal, [9]) := by decide

/-! ## determinism: sorted-key maps -/

/-- **symbolTable_bytes_perm**: `SymbolTable.write`, `write_type_map`, `write_json` iterate `sorted`
    keys, so two maps with the same entries inserted in different orders serialise to the same bytes
    (hence equal interface hashes). -/
theorem symbolTable_bytes_perm (env : Env) (fuel : Nat) (c : C) {m1 m2 : List (Bytes × Val)}
    (hp : m1.Perm m2) (hd : KeysNodup m1) : encMap env fuel c m1 = encMap env fuel c m2 := by
  unfold encMap
  rw [sortKV_perm hp hd]

/-- **enc_deterministic**: the bytes are a function of the value (no hidden state) -/
theorem enc_deterministic (env : Env) (fuel : Nat) (c : C) (v1 v2 : Val) (h : v1 = v2) :
    enc env fuel c v1 = enc env fuel c v2 := by rw [h]

/-- the maps and sets of a module interface whose iteration order is not part of the interface -/
def mustBeSorted : List (String × String) :=
  [("SymbolTable", ""), ("write_type_map", ""), ("write_json", ""), ("write_json_value", ""),
   ("TypeInfo", "slots"), ("TypedDictType", "required_keys"), ("TypedDictType", "readonly_keys"),
   ("ExtraAttrs", "immutable"), ("MypyFile", "future_import_flags")]

/-- (generated obligation) every one of them is written by iterating `sorted(…)` — which is what ties
    `encMap` (and `symbolTable_bytes_perm`) to `SymbolTable.write`, `write_type_map`, `write_json` … -/
theorem interface_maps_sorted :
    (mustBeSorted.all fun (w, f) => Gen.iterOrder.contains (w, f, "sorted")) = true := by decide

instance (m : List (Bytes × Val)) : Decidable (KeysNodup m) := by unfold KeysNodup; infer_instance
example : KeysNodup [([122], .int 1), ([97], .int 2), ([97, 98], .int 3)] ∧
    encMap (fun _ => .fail) 1 .int [([122], .int 1), ([97], .int 2), ([97, 98], .int 3)] =
    encMap (fun _ => .fail) 1 .int [([97, 98], .int 3), ([122], .int 1), ([97], .int 2)] := by decide

/-- what a reader gets back from a map written through `sorted`: the entries in sorted key order -/
theorem map_roundtrip (env : Env) (fuel : Nat) (c : C) (m : List (Bytes × Val)) (rest : Bytes)
    (h : wt env fuel (C.dictOf c) (kvVal (sortKV m)) = true) :
    decMap env fuel c (encMap env fuel c m ++ rest) = some (kvVal (sortKV m), rest) :=
  dec_enc env fuel (C.dictOf c) _ rest h

/-- **map_order_preserved** is false (F15): the order of the entries — which a Python dict remembers and
    `TypedDictType.items` exposes — is lost when the keys were not inserted in sorted order. -/
theorem not_map_order_preserved :
    ¬ ∀ (m : List (Bytes × Val)), KeysNodup m → wt (fun _ => .fail) 1 (C.dictOf .int) (kvVal m) = true →
      decMap (fun _ => .fail) 1 .int (encMap (fun _ => .fail) 1 .int m) = some (kvVal m, []) := by
  intro h
  -- class TD(TypedDict): zeta: …; alpha: …
  have := h [([122, 101, 116, 97], .int 0), ([97, 108, 112, 104, 97], .int 1)] (by decide) (by decide)
  revert this
  decide

/-- … and holds exactly for maps whose insertion order is the sorted order -/
theorem map_order_preserved_partial (env : Env) (fuel : Nat) (c : C) (m : List (Bytes × Val)) (rest : Bytes)
    (hs : sortKV m = m) (h : wt env fuel (C.dictOf c) (kvVal m) = true) :
    decMap env fuel c (encMap env fuel c m ++ rest) = some (kvVal m, rest) := by
  have := map_roundtrip env fuel c m rest (by rw [hs]; exact h)
  rw [hs] at this
  exact this

example : sortKV [([97], .int 2), ([122], .int 1)] = [([97], .int 2), ([122], .int 1)] := by decide

/-! ## the schemas extracted from the code -/

def envW : Env := envOfW Gen.schemas
def envR : Env := envOfR Gen.schemas

/-- **schemas_sub** (generated obligation): for every class of nodes.py / types.py / cache.py with a
    `write`/`read` pair, the codec extracted from `read` accepts — slot for slot, tag for tag, and under
    the same field name — what the codec extracted from `write` emits. -/
theorem schemas_sub : (Gen.schemas.all fun e => sub e.2.2 e.2.1) = true := by decide

/-- the flags packed by `write_flags` are unpacked by `read_flags` into the same attributes, bit by bit -/
theorem flag_names_agree : Gen.writeFlags = Gen.readFlags := by decide

/-- **schema_roundtrip**: with the extracted write codecs as writer and the extracted read codecs as
    reader, every class body — at every nesting depth, through every reference to other classes —
    satisfies read (write x) = x on all serialised fields (values carry their field names). -/
theorem schema_roundtrip (fuel : Nat) (cls : String) (v : Val) (rest : Bytes)
    (h : wt envR fuel (envR cls) v = true) :
    dec envR fuel (envR cls) (enc envW fuel (envW cls) v ++ rest) = some (v, rest) :=
  dec_enc_sub envW envR (env_sub Gen.schemas schemas_sub) fuel _ _ v rest
    (env_sub Gen.schemas schemas_sub cls) h

/-- nothing was dropped silently: every class with a write/read pair is extracted, hand-modelled or listed -/
theorem extraction_total : Gen.uncovered = [] ∧ Gen.handModelled = [] ∧ 30 ≤ Gen.extracted.length := by decide

/-! ## lazily deserialised symbols: `extract_symbol` -/

/-- **extract_enc**: for every environment whose entries are classified by `κ` and accepted by `skipOK`
    (`kindOK`), the C skipper (`_skip_class`, model `extractSymbol`) applied to the bytes of a class body
    followed by anything returns exactly the class body and leaves exactly the rest — for every value,
    every nesting depth, given fuel at least the number of bytes. -/
theorem extract_enc (env : Env) (κ : String → Kind) (hk : ∀ n, kindOK κ (κ n) (env n) = true)
    (fuel : Nat) (cls : String) (v : Val) (rest : Bytes) (hκ : κ cls = .body)
    (hw : wt env fuel (env cls) v = true) (F : Nat) (hF : (enc env fuel (env cls) v).length ≤ F) :
    extractSymbol F (enc env fuel (env cls) v ++ rest) = some (enc env fuel (env cls) v, rest) :=
  extract_enc_aux env κ hk fuel cls v rest hκ hw F hF

def kindOf : String → Kind := kindOfL Gen.kinds

/-- (generated obligation) every extracted write codec is, in the position the skipper meets it, made of
    tagged objects only: no bare field inside a class body, every dispatch table keyed by tags the C
    skipper knows, every class body closed by END_TAG. -/
theorem schemas_skippable :
    (Gen.schemas.all fun e => kindOK kindOf (kindOf e.1) e.2.1) = true ∧
    (Gen.kinds.all fun k => Gen.schemas.any fun e => e.1 == k.1) = true ∧
    (Gen.lazyClasses.all fun c => kindOf c == .body) = true := by decide

/-- **lazy_extraction_exact**: for every class that `SymbolTableNode.read` keeps as raw bytes
    (`extract_symbol`) — Var, FuncDef, Decorator, OverloadedFuncDef, TypeVarExpr, TypeAlias, ParamSpecExpr,
    TypeVarTupleExpr — and every value of its extracted write codec, the extracted bytes are exactly the
    node: so parsing them later (`read_symbol`) is `schema_roundtrip` again. -/
theorem lazy_extraction_exact (fuel : Nat) (cls : String) (hc : cls ∈ Gen.lazyClasses) (v : Val) (rest : Bytes)
    (hw : wt envW fuel (envW cls) v = true) (F : Nat) (hF : (enc envW fuel (envW cls) v).length ≤ F) :
    extractSymbol F (enc envW fuel (envW cls) v ++ rest) = some (enc envW fuel (envW cls) v, rest) := by
  have hk := kinds_ok Gen.schemas Gen.kinds schemas_skippable.1 schemas_skippable.2.1
  have hκ : kindOf cls = .body := by
    have := List.all_eq_true.mp schemas_skippable.2.2 cls hc
    simpa using this
  exact extract_enc envW kindOf hk fuel cls v rest hκ hw F hF

-- non-vacuity: a body with a tagged str, an optional tagged int, flags and a nested list of such bodies
def demoSkipEnv : Env := fun n =>
  if n = "B" then C.seq [.lit 4, .field "name" .str, .field "n" (C.table [(2, .unit), (3, .int)]), .flags 3,
                         .lit 20, .field "kids" (.list (C.table [(60, .ref "B")])), .lit 255] else .fail
def demoSkipVal : Val :=
  Val.seq [.unit, .fld "name" (.str [104, 105]), .fld "n" (.variant 3 (.int 70000)), .flags [true, false, true],
           .unit, .fld "kids" (.cons (.variant 60 (Val.seq [.unit, .fld "name" (.str []), .fld "n" (.variant 2 .unit),
              .flags [false, false, false], .unit, .fld "kids" .nil, .unit])) .nil), .unit]
example : kindOK (fun n => if n = "B" then .body else .other) .body (demoSkipEnv "B") = true := by decide
example : wt demoSkipEnv 3 (demoSkipEnv "B") demoSkipVal = true := by decide
example : extractSymbol 40 (enc demoSkipEnv 3 (demoSkipEnv "B") demoSkipVal ++ [7, 7]) =
    some (enc demoSkipEnv 3 (demoSkipEnv "B") demoSkipVal, [7, 7]) := by decide
-- a bare field inside a class body is rejected by the obligation
example : kindOK (fun _ => .other) .body (C.seq [.int, .lit 255]) = false := by decide

/-! ## JSON format -/

/-- the keys `deserialize` reads are exactly the keys `serialize` writes, class by class -/
theorem json_keys_agree : Gen.jsonWriteKeys = Gen.jsonReadKeys := by decide

/-- attributes serialised by one format only (reviewed): `Var.is_self`/`is_cls` are set on argument
    variables only, which are never serialised (the round-trip search checks they are never set). -/
def jsonOnly : List (String × String) := [("Var", "is_self"), ("Var", "is_cls")]

def sameFields : Bool :=
  Gen.jsonAttrs.all fun (cls, ja) =>
    match Gen.binAttrs.find? (fun e => e.1 == cls) with
    | none => false
    | some (_, ba) =>
      ja.all (fun a => ba.contains a || jsonOnly.contains (cls, a)) && ba.all (fun a => ja.contains a)

/-- **formats_same_fields**: `write` (binary) and `serialize` (JSON) serialise the same attributes of
    every class, up to the reviewed `jsonOnly` list. -/
theorem formats_same_fields : sameFields = true := by decide

/-! ## tags -/

/-- the tag numbers `#define`d in librt_internal.c (used by `extract_symbol`/`_skip_object`) are the ones
    the Python modules use -/
theorem c_tags_agree : (cTags.all fun (n, v) => pyTags.any fun (_, n', v') => n == n' && v == v') = true := by
  decide

end Codec
