import MypyVerif.Proofs.VTable
/-!
# C05 — mypyc-compiled code behaves like the interpreted source (logic slices)

Property theorems only.  The end-to-end claim of C05 is *searched* (compiled-vs-CPython differential in
`harness/c05/run.py`); what is proved here are the slices of the compiler where the behaviour is decided by a
small table computation:

* (a) vtable dispatch — `compute_vtable` / `specialize_parent_vtable` (`Model/VTable.lean`)
* (b) range loops — `ForRange` (`Model/ForRange.lean`)

Quantifiers: every hierarchy of native classes and traits (any number of classes, any MROs satisfying the
well-formedness `prepare_class_def` guarantees — re-checked on every real ClassIR graph by the harness), every
signature-comparison relation, every class, every static receiver type, every method name.
-/
namespace VTable

/-- **vtable_dispatch_eq_mro_lookup.**  For every well-formed hierarchy, every concrete (non-trait) class
    `c`, every static receiver type `d` in the MRO of `c` (class or trait) and every method `m` visible on
    `d`: the compiled call `recv.m(…)` — `obj->vtable[d.vtable[m]]` for a class-typed receiver,
    `CPy_FindTraitVtable(d, obj->vtable)[d.vtable[m]]` for a trait-typed one — finds an entry, that entry is
    for the name `m`, and what it points to is the method Python's MRO lookup finds on `c` (the FuncIR
    itself, or the glue method of the defining class that wraps it). -/
theorem vtable_dispatch_eq_mro_lookup (same : Sig → Sig → Bool) (H : Hier) (hwf : WF H)
    (c d : Cls) (m : Name) (hc : c < H.length) (hct : (H.rec c).isTrait = false)
    (hd : d ∈ (H.rec c).mro) (hvis : getMethod H d m ≠ none) :
    ∃ e k s, dispatch H (computeAll same H) c d m = some e ∧ e.name = m ∧
      getMethod H c m = some (k, s) ∧ e.target.definer = k := by
  obtain ⟨hlen, hinv⟩ := computeAll_inv same H hwf
  have wc := wfC_of_wfClass H c (hwf c hc)
  have hdle : d ≤ c := wc.le_of_mem hd
  have hdl : d < H.length := Nat.lt_of_le_of_lt hdle hc
  have wd := wfC_of_wfClass H d (hwf d hdl)
  have ic := hinv c (by rw [hlen]; exact hc)
  have id := hinv d (by rw [hlen]; exact hdl)
  -- `m` is visible on `c` as well
  obtain ⟨k', s', hgd⟩ : ∃ k' s', getMethod H d m = some (k', s') := by
    cases hg : getMethod H d m with
    | none => exact absurd hg hvis
    | some p => exact ⟨p.1, p.2, rfl⟩
  obtain ⟨hk'm, hk's⟩ := getMethod_spec H d m k' s' hgd
  have hcm : getMethod H c m ≠ none :=
    lookupIn_some_of_mem H _ m k' (wc.closed d hd k' hk'm) (by rw [hk's]; simp)
  obtain ⟨k, s, hgc⟩ : ∃ k s, getMethod H c m = some (k, s) := by
    cases hg : getMethod H c m with
    | none => exact absurd hg hcm
    | some p => exact ⟨p.1, p.2, rfl⟩
  -- the slot of `m` in `d`'s own vtable
  have hdd : definerOf H d m ≠ none := by simp [definerOf, hgd]
  obtain ⟨i, hi⟩ : ∃ i, ((computeAll same H).vt d).vtable.find m = some i := by
    cases hf : ((computeAll same H).vt d).vtable.find m with
    | none => exact absurd hf (id.cover m hdd)
    | some i => exact ⟨i, rfl⟩
  obtain ⟨e0, he0, hn0⟩ := id.sound m i hi
  simp only at he0
  cases hdt : (H.rec d).isTrait with
  | true =>
    have htv := ic.tv hct d hd hdt
    obtain ⟨g1, g2, _⟩ := id.good e0 (List.mem_of_getElem? he0)
    have he0le : e0.cls ≤ d := wd.le_of_mem g1
    have we0 := wfC_of_wfClass H e0.cls (hwf e0.cls (Nat.lt_of_le_of_lt he0le hdl))
    have ho : getMethod H e0.cls e0.name ≠ none := by
      cases hs : sigOf (H.rec e0.cls).methods e0.name with
      | none => exact absurd hs g2
      | some s0 => rw [getMethod_self we0 e0.name s0 hs]; simp
    obtain ⟨hdef, _⟩ := specializeEntry_definer same H c e0 k s ho (by rw [hn0]; exact hgc)
    refine ⟨specializeEntry same H c e0, k, s, ?_, ?_, hgc, hdef⟩
    · unfold dispatch slotOf dispatchTable
      simp only [hi, hdt, if_true, htv]
      rw [specialize_getElem?, he0]; rfl
    · have := congrArg Prod.snd (specializeEntry_key same H c e0)
      simp only [key] at this
      rw [this]; exact hn0
  | false =>
    obtain ⟨ext, hpre⟩ := prefix_of_mem_mro same H hwf c hc d hd hct hdt
    have hilt : i < ((computeAll same H).vt d).entries.length := by
      rcases Nat.lt_or_ge i ((computeAll same H).vt d).entries.length with h | h
      · exact h
      · rw [List.getElem?_eq_none h] at he0; cases he0
    have hkey : (((computeAll same H).vt c).entries.map key)[i]? = some (key e0) := by
      rw [hpre, List.getElem?_append_left (by simpa using hilt)]
      simp [he0]
    rw [List.getElem?_map] at hkey
    cases hce : ((computeAll same H).vt c).entries[i]? with
    | none => rw [hce] at hkey; cases hkey
    | some e =>
      rw [hce] at hkey
      simp only [Option.map_some, Option.some.injEq] at hkey
      have hname : e.name = m := by
        have := congrArg Prod.snd hkey
        simp only [key] at this
        rw [this]; exact hn0
      obtain ⟨_, _, g3⟩ := ic.good e (List.mem_of_getElem? hce)
      refine ⟨e, k, s, ?_, hname, hgc, ?_⟩
      · unfold dispatch slotOf dispatchTable
        simp only [hi, hdt]
        simpa using hce
      · rw [hname] at g3
        simp only [definerOf, hgc, Option.map_some, Option.some.injEq] at g3
        exact g3.symm

/-- the slot found is `direct` or a glue method *of the class whose body runs* -/
theorem dispatch_target_shape (e : Entry) (k : Cls) (h : e.target.definer = k) :
    e.target = .direct k ∨ ∃ f, e.target = .glue k f := by
  cases ht : e.target with
  | direct d => rw [ht] at h; simp only [Target.definer] at h; subst h; exact Or.inl rfl
  | glue d f => rw [ht] at h; simp only [Target.definer] at h; subst h; exact Or.inr ⟨f, rfl⟩

/-! ### non-vacuity: a hierarchy with a trait chain, a trait implemented by a base class, overrides below

    0 S(trait): m k      1 T(trait, S): m q      2 B(S): k      3 C(B, T)      4 D(C): q m
    names: m = 1, k = 2, q = 3 -/
def demoH : Hier :=
  [ { isTrait := true,  mro := [0],             methods := [(1, 10), (2, 20)] },
    { isTrait := true,  mro := [1, 0],          methods := [(1, 10), (3, 30)] },
    { isTrait := false, mro := [2, 0],          methods := [(2, 20)] },
    { isTrait := false, mro := [3, 2, 1, 0],    methods := [] },
    { isTrait := false, mro := [4, 3, 2, 1, 0], methods := [(3, 31), (1, 10)] } ]

example : WF demoH := by
  intro c hc
  have : c = 0 ∨ c = 1 ∨ c = 2 ∨ c = 3 ∨ c = 4 := by simp [demoH] at hc; omega
  rcases this with h | h | h | h | h <;> subst h <;> decide

-- a `D` object behind a receiver typed `S` (trait), calling `m`: slot 0 of D's S-table, D's own `m`
example : dispatch demoH (computeAll (· == ·) demoH) 4 0 1 = some ⟨0, 1, .direct 4⟩ := by decide
-- a `D` object behind a receiver typed `T`, calling `q` with a changed signature: glue of D
example : dispatch demoH (computeAll (· == ·) demoH) 4 1 3 = some ⟨1, 3, .glue 4 1⟩ := by decide
-- a `C` object behind a receiver typed `B` calling `m`: `T.m` (first in C's MRO), in the slot B inherited from S
example : dispatch demoH (computeAll (· == ·) demoH) 3 2 1 = some ⟨0, 1, .direct 1⟩ := by decide
example : getMethod demoH 3 1 = some (1, 10) := by decide

/-! ### glue completeness is *not* a theorem of the code as it is

`specialize_parent_vtable` subscripts `defining_cls.glue_methods[(entry.cls, entry.name)]`, but
`handle_ext_method` only creates glue for the ancestors of the class that *defines* the method.  When a
concrete class gets a method from its non-trait base and a trait (unrelated to that base) declares the same
name with a different signature, the key is missing: the compiler dies with `KeyError` (compile-time, so
outside C05's premise "mypyc compiles"; the harness confirms the prediction on the real front half). -/

/-- 0 T(trait): m/sig 10     1 B: m/sig 11     2 C(B, T) -/
def glueGapH : Hier :=
  [ { isTrait := true,  mro := [0],       methods := [(1, 10)] },
    { isTrait := false, mro := [1],       methods := [(1, 11)] },
    { isTrait := false, mro := [2, 1, 0], methods := [] } ]

theorem not_glue_complete :
    ¬ (∀ (same : Sig → Sig → Bool) (H : Hier), WF H → ∀ c, c < H.length →
        glueOk same H ((computeAll same H).vt c) = true) := by
  intro h
  have hwf : WF glueGapH := by
    intro c hc
    have : c = 0 ∨ c = 1 ∨ c = 2 := by simp [glueGapH] at hc; omega
    rcases this with h | h | h <;> subst h <;> decide
  have := h (· == ·) glueGapH hwf 2 (by decide)
  revert this
  decide

end VTable
