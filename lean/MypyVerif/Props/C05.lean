import MypyVerif.Proofs.VTable
import MypyVerif.Proofs.ForRange
import MypyVerif.Proofs.ErrEdges
import MypyVerif.Proofs.ForZip
import MypyVerif.Model.TryScope
import MypyVerif.Model.PyBind
/-!
# C05 — mypyc-compiled code behaves like the interpreted source (logic slices)

Property theorems only.  The end-to-end claim of C05 is *searched* (compiled-vs-CPython differential in
`harness/c05/run.py`); what is proved here are the slices of the compiler where the behaviour is decided by a
small table computation:

* (a) vtable dispatch — `compute_vtable` / `specialize_parent_vtable` (`Model/VTable.lean`)
* (b) range loops — `ForRange` (`Model/ForRange.lean`)

Quantifiers: every hierarchy of native classes and traits (any number of classes, any MROs satisfying the
well-formedness `prepare_class_def` guarantees — re-checked on every real ClassIR graph by the harness), every
signature-comparison relation, every class, every static receiver type, every method name.
-/
namespace VTable

/-- **vtable_dispatch_eq_mro_lookup.**  For every well-formed hierarchy, every concrete (non-trait) class
    `c`, every static receiver type `d` in the MRO of `c` (class or trait) and every method `m` visible on
    `d`: the compiled call `recv.m(…)` — `obj->vtable[d.vtable[m]]` for a class-typed receiver,
    `CPy_FindTraitVtable(d, obj->vtable)[d.vtable[m]]` for a trait-typed one — finds an entry, that entry is
    for the name `m`, and what it points to is the method Python's MRO lookup finds on `c` (the FuncIR
    itself, or the glue method of the defining class that wraps it). -/
theorem vtable_dispatch_eq_mro_lookup (same : Sig → Sig → Bool) (H : Hier) (hwf : WF H)
    (c d : Cls) (m : Name) (hc : c < H.length) (hct : (H.rec c).isTrait = false)
    (hd : d ∈ (H.rec c).mro) (hvis : getMethod H d m ≠ none) :
    ∃ e k s, dispatch H (computeAll same H) c d m = some e ∧ e.name = m ∧
      getMethod H c m = some (k, s) ∧ e.target.definer = k := by
  obtain ⟨hlen, hinv⟩ := computeAll_inv same H hwf
  have wc := wfC_of_wfClass H c (hwf c hc)
  have hdle : d ≤ c := wc.le_of_mem hd
  have hdl : d < H.length := Nat.lt_of_le_of_lt hdle hc
  have wd := wfC_of_wfClass H d (hwf d hdl)
  have ic := hinv c (by rw [hlen]; exact hc)
  have id := hinv d (by rw [hlen]; exact hdl)
  -- `m` is visible on `c` as well
  obtain ⟨k', s', hgd⟩ : ∃ k' s', getMethod H d m = some (k', s') := by
    cases hg : getMethod H d m with
    | none => exact absurd hg hvis
    | some p => exact ⟨p.1, p.2, rfl⟩
  obtain ⟨hk'm, hk's⟩ := getMethod_spec H d m k' s' hgd
  have hcm : getMethod H c m ≠ none :=
    lookupIn_some_of_mem H _ m k' (wc.closed d hd k' hk'm) (by rw [hk's]; simp)
  obtain ⟨k, s, hgc⟩ : ∃ k s, getMethod H c m = some (k, s) := by
    cases hg : getMethod H c m with
    | none => exact absurd hg hcm
    | some p => exact ⟨p.1, p.2, rfl⟩
  -- the slot of `m` in `d`'s own vtable
  have hdd : definerOf H d m ≠ none := by simp [definerOf, hgd]
  obtain ⟨i, hi⟩ : ∃ i, ((computeAll same H).vt d).vtable.find m = some i := by
    cases hf : ((computeAll same H).vt d).vtable.find m with
    | none => exact absurd hf (id.cover m hdd)
    | some i => exact ⟨i, rfl⟩
  obtain ⟨e0, he0, hn0⟩ := id.sound m i hi
  simp only at he0
  cases hdt : (H.rec d).isTrait with
  | true =>
    have htv := ic.tv hct d hd hdt
    obtain ⟨g1, g2, _⟩ := id.good e0 (List.mem_of_getElem? he0)
    have he0le : e0.cls ≤ d := wd.le_of_mem g1
    have we0 := wfC_of_wfClass H e0.cls (hwf e0.cls (Nat.lt_of_le_of_lt he0le hdl))
    have ho : getMethod H e0.cls e0.name ≠ none := by
      cases hs : sigOf (H.rec e0.cls).methods e0.name with
      | none => exact absurd hs g2
      | some s0 => rw [getMethod_self we0 e0.name s0 hs]; simp
    obtain ⟨hdef, _⟩ := specializeEntry_definer same H c e0 k s ho (by rw [hn0]; exact hgc)
    refine ⟨specializeEntry same H c e0, k, s, ?_, ?_, hgc, hdef⟩
    · unfold dispatch slotOf dispatchTable
      simp only [hi, hdt, if_true, htv]
      rw [specialize_getElem?, he0]; rfl
    · have := congrArg Prod.snd (specializeEntry_key same H c e0)
      simp only [key] at this
      rw [this]; exact hn0
  | false =>
    obtain ⟨ext, hpre⟩ := prefix_of_mem_mro same H hwf c hc d hd hct hdt
    have hilt : i < ((computeAll same H).vt d).entries.length := by
      rcases Nat.lt_or_ge i ((computeAll same H).vt d).entries.length with h | h
      · exact h
      · rw [List.getElem?_eq_none h] at he0; cases he0
    have hkey : (((computeAll same H).vt c).entries.map key)[i]? = some (key e0) := by
      rw [hpre, List.getElem?_append_left (by simpa using hilt)]
      simp [he0]
    rw [List.getElem?_map] at hkey
    cases hce : ((computeAll same H).vt c).entries[i]? with
    | none => rw [hce] at hkey; cases hkey
    | some e =>
      rw [hce] at hkey
      simp only [Option.map_some, Option.some.injEq] at hkey
      have hname : e.name = m := by
        have := congrArg Prod.snd hkey
        simp only [key] at this
        rw [this]; exact hn0
      obtain ⟨_, _, g3⟩ := ic.good e (List.mem_of_getElem? hce)
      refine ⟨e, k, s, ?_, hname, hgc, ?_⟩
      · unfold dispatch slotOf dispatchTable
        simp only [hi, hdt]
        simpa using hce
      · rw [hname] at g3
        simp only [definerOf, hgc, Option.map_some, Option.some.injEq] at g3
        exact g3.symm

/-- the slot found is `direct` or a glue method *of the class whose body runs* -/
theorem dispatch_target_shape (e : Entry) (k : Cls) (h : e.target.definer = k) :
    e.target = .direct k ∨ ∃ f, e.target = .glue k f := by
  cases ht : e.target with
  | direct d => rw [ht] at h; simp only [Target.definer] at h; subst h; exact Or.inl rfl
  | glue d f => rw [ht] at h; simp only [Target.definer] at h; subst h; exact Or.inr ⟨f, rfl⟩

/-- **isMethodFinal_sound.**  Whenever `is_method_final` answers "final" for a class `c` and a name `m`, every
    class `d` that has `c` in its MRO — every possible runtime class of a receiver typed `c` — resolves `m`
    exactly as `c` does: to the same defining class, or (when `c` has no such method) not at all.  This is what
    licenses the direct C call in `emit_method_call`, `a == b` as identity and Optional truthiness as
    `is not None`.  The hypothesis is that `children` reaches all subclasses (`subclassesComplete`, re-checked on
    every real ClassIR graph). -/
theorem isMethodFinal_sound (H : Hier) (hcomplete : subclassesComplete H = true) (c : Cls) (m : Name)
    (hc : c < H.length) (hfin : isMethodFinal H c m = true) :
    ∀ d, d < H.length → c ∈ (H.rec d).mro → definerOf H d m = definerOf H c m := by
  intro d hd hmem
  by_cases hdc : d = c
  · rw [hdc]
  · have hsub : (subclasses H c).contains d = true := by
      unfold subclassesComplete at hcomplete
      simp only [List.all_eq_true, List.mem_range, Bool.or_eq_true, Bool.not_eq_true', beq_iff_eq] at hcomplete
      rcases hcomplete c hc d hd with (h | h) | h
      · have : (H.rec d).mro.contains c = true := by simpa using hmem
        rw [this] at h; cases h
      · exact absurd h hdc
      · exact h
    have hmem' : d ∈ subclasses H c := by simpa using hsub
    unfold isMethodFinal at hfin
    cases hk : definerOf H c m with
    | some k =>
      rw [hk] at hfin
      simp only [List.all_eq_true, beq_iff_eq] at hfin
      exact hfin d hmem'
    | none =>
      rw [hk] at hfin
      simp only [List.all_eq_true, Option.isNone_iff_eq_none] at hfin
      exact hfin d hmem'

/-- a three-level chain in which only the grand-child defines the method (name 5): it is *not* final for the
    root, although no direct child of the root has it -/
def chainH : Hier :=
  [ { isTrait := false, mro := [0],       methods := [],        children := [1] },
    { isTrait := false, mro := [1, 0],    methods := [],        children := [2] },
    { isTrait := false, mro := [2, 1, 0], methods := [(5, 50)], children := [] } ]

example : subclassesComplete chainH = true ∧ isMethodFinal chainH 0 5 = false ∧ isMethodFinal chainH 2 5 = true
    ∧ (subclasses chainH 0).contains 2 = true := by decide

/-! ### non-vacuity: a hierarchy with a trait chain, a trait implemented by a base class, overrides below

    0 S(trait): m k      1 T(trait, S): m q      2 B(S): k      3 C(B, T)      4 D(C): q m
    names: m = 1, k = 2, q = 3 -/
def demoH : Hier :=
  [ { isTrait := true,  mro := [0],             methods := [(1, 10), (2, 20)] },
    { isTrait := true,  mro := [1, 0],          methods := [(1, 10), (3, 30)] },
    { isTrait := false, mro := [2, 0],          methods := [(2, 20)] },
    { isTrait := false, mro := [3, 2, 1, 0],    methods := [] },
    { isTrait := false, mro := [4, 3, 2, 1, 0], methods := [(3, 31), (1, 10)] } ]

example : WF demoH := by
  intro c hc
  have : c = 0 ∨ c = 1 ∨ c = 2 ∨ c = 3 ∨ c = 4 := by simp [demoH] at hc; omega
  rcases this with h | h | h | h | h <;> subst h <;> decide

-- a `D` object behind a receiver typed `S` (trait), calling `m`: slot 0 of D's S-table, D's own `m`
example : dispatch demoH (computeAll (· == ·) demoH) 4 0 1 = some ⟨0, 1, .direct 4⟩ := by decide
-- a `D` object behind a receiver typed `T`, calling `q` with a changed signature: glue of D
example : dispatch demoH (computeAll (· == ·) demoH) 4 1 3 = some ⟨1, 3, .glue 4 1⟩ := by decide
-- a `C` object behind a receiver typed `B` calling `m`: `T.m` (first in C's MRO), in the slot B inherited from S
example : dispatch demoH (computeAll (· == ·) demoH) 3 2 1 = some ⟨0, 1, .direct 1⟩ := by decide
example : getMethod demoH 3 1 = some (1, 10) := by decide

/-! ### glue completeness is *not* a theorem of the code as it is

`specialize_parent_vtable` subscripts `defining_cls.glue_methods[(entry.cls, entry.name)]`, but
`handle_ext_method` only creates glue for the ancestors of the class that *defines* the method.  When a
concrete class gets a method from its non-trait base and a trait (unrelated to that base) declares the same
name with a different signature, the key is missing: the compiler dies with `KeyError` (compile-time, so
outside C05's premise "mypyc compiles"; the harness confirms the prediction on the real front half). -/

/-- 0 T(trait): m/sig 10     1 B: m/sig 11     2 C(B, T) -/
def glueGapH : Hier :=
  [ { isTrait := true,  mro := [0],       methods := [(1, 10)] },
    { isTrait := false, mro := [1],       methods := [(1, 11)] },
    { isTrait := false, mro := [2, 1, 0], methods := [] } ]

theorem not_glue_complete :
    ¬ (∀ (same : Sig → Sig → Bool) (H : Hier), WF H → ∀ c, c < H.length →
        glueOk same H ((computeAll same H).vt c) = true) := by
  intro h
  have hwf : WF glueGapH := by
    intro c hc
    have : c = 0 ∨ c = 1 ∨ c = 2 := by simp [glueGapH] at hc; omega
    rcases this with h | h | h <;> subst h <;> decide
  have := h (· == ·) glueGapH hwf 2 (by decide)
  revert this
  decide

end VTable

namespace ForRange

/-- **forRange_visits** (partial: hypothesis `NoStepOverflow`).  For every pair of register types of the
    start and end operands, every non-zero literal step and all start / stop values representable in the
    index type: if every addition the loop performs is exact, the loop mypyc emits terminates and the index
    register takes exactly the values of Python's `range(start, stop, step)`, in order.  For the `int` index
    type (`CPyTagged_Add`) the hypothesis is vacuous — see `forRange_visits_int`. -/
theorem forRange_visits_partial (st et : RTy) (step : Int) (hs : step ≠ 0) (hok : StepLitOk st et step = true) :
    ∀ (n : Nat) (start stop : Int) (fuel : Nat),
      rangeLen start stop step = n → n < fuel →
      NoStepOverflow (indexType st et) start stop step →
      loop (emit st et step) stop fuel start = some (pyRange start stop step) := by
  intro n
  induction n with
  | zero =>
    intro start stop fuel hlen hf _
    cases fuel with
    | zero => omega
    | succ fuel =>
      simp only [loop]
      cases hc : (emit st et step).cond start stop with
      | false => simp [pyRange, hlen, rangeFrom]
      | true => have := (cond_iff_len st et start stop step hs).2 hc; omega
  | succ n ih =>
    intro start stop fuel hlen hf hno
    cases fuel with
    | zero => omega
    | succ fuel =>
      simp only [loop]
      cases hc : (emit st et step).cond start stop with
      | false => have := (cond_iff_len st et start stop step hs).1 hc; omega
      | true =>
        have hstep := (cond_iff_len st et start stop step hs).2 hc
        have hun := pyRange_unfold start stop step hstep
        have hfit : (indexType st et).fits (start + step) = true := hno start (by rw [hun]; simp)
        rw [emit_next st et step start hok hfit]
        have hno' : NoStepOverflow (indexType st et) (start + step) stop step := by
          intro v hv; exact hno v (by rw [hun]; simp [hv])
        rw [ih (start + step) stop fuel (by omega) (by omega) hno', hun]
        simp

/-- for the `int` index type `NoStepOverflow` is vacuous (`CPyTagged_Add` is exact); what remains is that the
    step literal is a short int -/
theorem forRange_visits_int (st et : RTy) (hidx : indexType st et = .int) (step : Int) (hs : step ≠ 0)
    (hok : RTy.short.fits step = true)
    (start stop : Int) (fuel : Nat) (hf : rangeLen start stop step < fuel) :
    loop (emit st et step) stop fuel start = some (pyRange start stop step) :=
  forRange_visits_partial st et step hs (by simp [StepLitOk, hidx, RTy.isFixed, hok]) _ start stop fuel rfl hf
    (by intro v _; rw [hidx]; rfl)

/-- … and without that hypothesis it fails too (finding F12b): `for i in range(a, b, 2**62)` on plain `int`s.
    `Integer(self.step)` is emitted as a short-int literal; `2**62` doubled is `2**63`, which `CPyTagged_Add`
    reads as the short int `-2**62`: the loop walks downwards from `a` for ever. -/
theorem not_forRange_visits_bigstep :
    visitN (emit .int .int 4611686018427387904) 9223372036854775808 3 0
      = [0, -4611686018427387904, -9223372036854775808]
    ∧ pyRange 0 9223372036854775808 4611686018427387904 = [0, 4611686018427387904]
    ∧ StepLitOk .int .int 4611686018427387904 = false := by decide

/-- the index type is `int` unless both operands are short ints or the end operand is native -/
example : indexType .int .int = .int ∧ indexType .short .int = .int ∧ indexType .i64 .short = .int := by decide

/-- **not_forRange_visits** (finding F12).  The full statement — without `NoStepOverflow` — is false of
    the code as it is: `for i in range(a, b, 2)` with `a = 2**63-4`, `b = 2**63-1` of type `i64` visits
    `2**63-4, 2**63-2` under CPython; the emitted loop goes on with `-2**63` (wrapping add, signed compare)
    and has not stopped after any number of further rounds we try (here: 3 rounds, `range` has 2 items). -/
theorem not_forRange_visits :
    ¬ (∀ (st et : RTy) (step : Int), step ≠ 0 → ∀ (start stop : Int) (fuel : Nat),
        (indexType st et).fits start = true → (indexType st et).fits stop = true →
        StepLitOk st et step = true → rangeLen start stop step < fuel →
        loop (emit st et step) stop fuel start = some (pyRange start stop step)) := by
  intro h
  have := h .i64 .i64 2 (by decide) 9223372036854775804 9223372036854775807 3 (by decide) (by decide) (by decide) (by decide)
  revert this
  decide

/-- what the i64 loop of F12 visits first -/
example : visitN (emit .i64 .i64 2) 9223372036854775807 3 9223372036854775804
    = [9223372036854775804, 9223372036854775806, -9223372036854775808] := by decide
example : pyRange 9223372036854775804 9223372036854775807 2 = [9223372036854775804, 9223372036854775806] := by decide

/-- the same failure without any native integer type in the source (finding F12s): all three operands are
    `int` literals, so the index is a *short int* and the step is added with a plain machine add:
    `range(2**62-4, 2**62-1, 2**62-2)` is `[2**62-4]`; the emitted loop continues with `-6`. -/
theorem not_forRange_visits_short :
    loop (emit .short .short 4611686018427387902) 4611686018427387903 2 4611686018427387900
      ≠ some (pyRange 4611686018427387900 4611686018427387903 4611686018427387902)
    ∧ visitN (emit .short .short 4611686018427387902) 4611686018427387903 2 4611686018427387900
      = [4611686018427387900, -6]
    ∧ pyRange 4611686018427387900 4611686018427387903 4611686018427387902 = [4611686018427387900] := by
  decide

/-- and for `u8`: `range(250, 255, 3)` is `[250, 253]`; the emitted loop continues with `0` -/
example : visitN (emit .u8 .u8 3) 255 3 250 = [250, 253, 0] ∧ pyRange 250 255 3 = [250, 253] := by decide

/-- the start value is coerced into the index type *before* the first comparison (finding F12c):
    `range(2**70, b)` with `b : i64 = 5` is empty under CPython, the compiled loop raises instead -/
theorem not_coerceStart_total :
    coerceStart (indexType .int .i64) 1180591620717411303424 = none
    ∧ pyRange 1180591620717411303424 5 1 = [] := by decide

/-! non-vacuity of `forRange_visits_partial`: boundary triples that satisfy `NoStepOverflow` -/
example : NoStepOverflow .i64 9223372036854775800 9223372036854775805 2 := by decide
example : loop (emit .i64 .i64 2) 9223372036854775805 4 9223372036854775800
    = some [9223372036854775800, 9223372036854775802, 9223372036854775804] := by decide
example : NoStepOverflow .u8 250 253 2 ∧ ¬ NoStepOverflow .u8 250 255 3 := by decide
example : loop (emit .int .i16 (-7)) (-32760) 5 (-32750) = some [-32750, -32757]
    ∧ NoStepOverflow .i16 (-32750) (-32760) (-7) ∧ ¬ NoStepOverflow .i16 (-32750) (-32768) (-7) := by decide

/-- the user-visible loop variable after a loop that ran at least once is the one Python leaves behind … -/
theorem loopVar_eq_of_nonempty (st et : RTy) (step : Int) (hs : step ≠ 0) (hok : StepLitOk st et step = true)
    (start stop : Int) (fuel : Nat) (hf : rangeLen start stop step < fuel)
    (hno : NoStepOverflow (indexType st et) start stop step) (hne : pyRange start stop step ≠ [])
    (before : Option Int) :
    varAfter (emit st et step) stop fuel start = pyVarAfter start stop step before := by
  unfold varAfter pyVarAfter
  rw [forRange_visits_partial st et step hs hok _ start stop fuel rfl hf hno]
  cases h : pyRange start stop step with
  | nil => exact absurd h hne
  | cons v vs =>
    simp only [Option.map_some, List.getLast?_cons, Option.some.injEq]
    rw [List.getLastD_eq_getLast?, List.getLast?_cons]
    simp

/-- … but not after an empty one (finding C05-N5): `i = -1; for i in range(0): pass` leaves `i = -1` under
    CPython; `ForRange.init` has already stored the start value `0` into it. -/
theorem not_loopVar_preserved :
    varAfter (emit .short .int 1) 0 3 0 = some 0 ∧ pyVarAfter 0 0 1 (some (-1)) = some (-1) := by decide

/-- `pyRange` is CPython's item formula `start + i * step` for `i < len` -/
theorem pyRange_items (start stop step : Int) :
    pyRange start stop step
      = (List.range (rangeLen start stop step)).map (fun (i : Nat) => start + (i : Int) * step) :=
  rangeFrom_eq_map _ start step

end ForRange

namespace ErrEdges

/-- **checkBlock_sound** (slice (d)).  For every basic block the checker accepts and every choice of which
    fallible ops fail: no op ever reads a value that holds an error result, a failure is never left unchecked
    (the outcome is not `bad`), and whenever the block is left through an error exit it is the error label
    of its terminating branch.  (The checker is run on every block of every function the harness exports.) -/
theorem checkBlock_sound (fails : Nat → Bool) : ∀ (ops : List Op) (t : Term) (i : Nat),
    checkOps ops t = true →
    run fails ops t i none ≠ .bad ∧ ∀ l, run fails ops t i none = .err l → errLabel t = some l := by
  intro ops
  induction ops with
  | nil =>
    intro t i _
    simp only [run]
    exact ⟨(runTerm_none t).1, fun l h => absurd h ((runTerm_none t).2 l)⟩
  | cons o rest ih =>
    intro t i h
    simp only [checkOps] at h
    by_cases hk : o.ek = .never
    · simp only [hk, if_true] at h
      simp only [run, hk, ne_eq, not_true_eq_false, decide_false, Bool.false_and, Bool.false_eq_true, if_false]
      exact ih t (i + 1) h
    · simp only [hk, if_false, Bool.and_eq_true] at h
      obtain ⟨h1, h2⟩ := h
      simp only [run]
      by_cases hf : (o.ek ≠ .never && fails i) = true
      · simp only [hf, if_true]
        rw [run_tail_poison fails o.dest rest t (i + 1) h1]
        obtain ⟨l, hl, he⟩ := runTerm_checked o t h2 hk
        rw [hl]
        refine ⟨by simp, ?_⟩
        intro l' hl'
        simp only [Outcome.err.injEq] at hl'
        rw [← hl']; exact he
      · simp only [hf, Bool.false_eq_true, if_false]
        rw [run_tail_clean fails o.dest rest t (i + 1) h1]
        exact ⟨(runTerm_none t).1, fun l h => absurd h ((runTerm_none t).2 l)⟩

/-- a failing checked op really leaves through the error edge -/
theorem failing_op_takes_error_edge (fails : Nat → Bool) (o : Op) (rest : List Op) (t : Term) (i : Nat)
    (h : checkOps (o :: rest) t = true) (hk : o.ek ≠ .never) (hf : fails i = true) :
    ∃ l, run fails (o :: rest) t i none = .err l := by
  simp only [checkOps, hk, if_false, Bool.and_eq_true] at h
  obtain ⟨h1, h2⟩ := h
  obtain ⟨l, hl, _⟩ := runTerm_checked o t h2 hk
  refine ⟨l, ?_⟩
  have : (o.ek ≠ .never && fails i) = true := by simp [hk, hf]
  simp only [run, this, if_true]
  rw [run_tail_poison fails o.dest rest t (i + 1) h1, hl]

-- non-vacuity: `r0 = PyList_New(0) [ERR_MAGIC]; dec_ref r7; if is_error(r0) goto L6 else goto L1` passes,
-- the same block with the branch on another value, or with a use of r0 before the check, does not
example : checkBlock ⟨[⟨some 0, [], .magic, false⟩, ⟨none, [7], .never, true⟩], .branch .isError (some 0) false 6 1⟩ = true := by decide
example : checkBlock ⟨[⟨some 0, [], .magic, false⟩], .branch .isError (some 3) false 6 1⟩ = false := by decide
example : checkBlock ⟨[⟨some 0, [], .magic, false⟩, ⟨some 1, [0], .never, false⟩], .branch .isError (some 0) false 6 1⟩ = false := by decide
example : checkBlock ⟨[⟨some 0, [], .false_, false⟩], .goto 2⟩ = false := by decide
example : run (fun _ => true) [⟨some 0, [], .magic, false⟩] (.goto 2) 0 none = .bad := by decide

end ErrEdges

namespace PyBind
open ArgMap

/-! ## (c) call binding of compiled functions — correspondence only, plus the F21 witness

The wrappers `emitwrapper.py` generates (and the compile-time mapping of native calls) bind a call like
CPython binds the *same signature with the positional-only marker dropped*: `Sig.asCompiled`.  The harness
checks on every run that compiled accept / TypeError is `pyCall s.asCompiled`, and that it equals CPython
(`pyCall s`, and the interpreted twin) outside the shapes below. -/

/-- the signature as compiled code treats it -/
def Sig.asCompiled (s : Sig) : Sig := { s with posonly := [], poskw := s.posonly ++ s.poskw }

/-- **not_compiled_binding_eq_cpython** (finding F21).  `def f(a, /, **kw)`; `f(1, a=2)`: CPython binds
    (`a = 1`, `kw = {'a': 2}`); as compiled code sees the signature, `a` is given by position and by name. -/
theorem not_compiled_binding_eq_cpython :
    ¬ (∀ (s : Sig) (acts : List Actual), s.WF → pyCall s.asCompiled acts = pyCall s acts) := by
  intro h
  have := h { posonly := [1], poskw := [], ndef := 0, varargs := none, kwonly := [], varkw := some 91 }
    [.pos, .named 1] (by decide)
  revert this
  decide

/-- the benign side (F21b): without `**kwargs` CPython rejects the keyword, compiled code accepts it -/
example : pyCall { posonly := [1], poskw := [], ndef := 0, varargs := none, kwonly := [], varkw := none } [.named 1]
      = some (some .posonlyAsKw)
    ∧ pyCall (Sig.asCompiled { posonly := [1], poskw := [], ndef := 0, varargs := none, kwonly := [], varkw := none }) [.named 1]
      = some none := by decide

/-- signatures without positional-only parameters are untouched -/
theorem asCompiled_id (s : Sig) (h : s.posonly = []) : s.asCompiled = s := by
  cases s; simp_all [Sig.asCompiled]

end PyBind

namespace ForZip

/-- **forZip_takes_what_zip_takes.**  For every non-empty list of operands (any number, any lengths): the loop
    `ForZip` emits — exit tests in operand order, the first exhausted operand leaves the loop — executes its body
    `min` times and takes from every operand exactly what CPython's `zip` takes: the shortest length, plus one more
    item from each operand that precedes the first shortest one.  (The items taken from iterator / generator
    operands are observable afterwards; the harness compares them with this closed form on every run.) -/
theorem forZip_takes_what_zip_takes (lens : List Nat) (hne : lens ≠ []) (fuel : Nat) (hf : minLen lens < fuel) :
    run fuel lens = closed lens := run_eq_closed_aux fuel lens hne hf

-- zip(it, ('a', 'b')) with 5 items in `it`: two body executions, *three* items taken from `it`
example : run 9 [5, 2] = (2, [3, 2]) ∧ closed [5, 2] = (2, [3, 2]) := by decide
-- the tuple first: only two items are taken from `it`
example : run 9 [2, 5] = (2, [2, 2]) := by decide
example : run 9 [4, 2, 4] = (2, [3, 2, 2]) ∧ run 9 [0, 3] = (0, [0, 0]) ∧ run 9 [3, 0] = (0, [1, 0]) := by decide

end ForZip

namespace TryScope

/-- **tryLowering_eq_python.**  With the handler scope the lowering establishes (try body only — read off the real
    IR on every run), the emitted try statement behaves like CPython's for every shape (with / without `else`,
    with / without `finally`), every `except` test and every combination of clauses that raise: same clauses run
    in the same order, same exception propagates. -/
theorem tryLowering_eq_python (sh : Shape) (isMatch : Nat → Bool) (f : Fires) :
    irTry bodyOnly sh isMatch f = pyTry sh isMatch f := by
  unfold irTry pyTry bodyOnly
  cases hb : f.body with
  | some e => simp
  | none =>
    cases sh.hasElse with
    | false => simp
    | true => cases f.else_ <;> simp

/-- … and a scope that also covers the `else:` clause does not: an exception raised in `else` that matches the
    statement's own handler is swallowed by it. -/
theorem not_else_in_handler_scope :
    irTry (fun c => c == .body || c == .else_) ⟨true, false⟩ (fun _ => true) ⟨none, none, some 7, none⟩
      = ([.body, .else_, .handler], none)
    ∧ pyTry ⟨true, false⟩ (fun _ => true) ⟨none, none, some 7, none⟩ = ([.body, .else_], some 7) := by decide

end TryScope
