import MypyVerif.Proofs.LayoutSide
import MypyVerif.Proofs.LayoutFS
import MypyVerif.Proofs.LayoutDir
import MypyVerif.Proofs.LayoutPkg
import MypyVerif.Proofs.LayoutSort
import MypyVerif.Proofs.LayoutPerm
import MypyVerif.Gen.LayoutConsts
/-!
# C18 — files and module names map to each other consistently

Property theorems (helpers in Proofs/Layout*.lean).  Quantifiers: every coherent file system (`FS.WF`; finite or
not), every option combination (`namespace_packages`, `explicit_package_bases`, `mypy_path`, working directory),
every list of command-line arguments.
-/
namespace Layout

/-! ## the constant tables of the code (regenerated from `/repo` by translate/c18consts.py on every check)

The two implementations share a handful of tables; the model has one copy of each.  These obligations break when
the code changes a table — in particular when one of the two directory walkers skips a name the other does not. -/

def sameSet (a b : List Name) : Bool := a.all (b.contains ·) && b.all (a.contains ·)

/-- PYTHON_EXTENSIONS is `.pyi` before `.py` (stub preference), and find_sources.PY_EXTENSIONS is derived from it -/
theorem gen_py_extensions :
    Gen.pythonExtensions.map String.toList = [extPyi, extPy] ∧ Gen.pyExtensionsDerived = true := by decide

/-- `find_sources_in_dir` (`mypy DIR`) and `find_modules_recursive` (`mypy -p`) skip the same names, the model's -/
theorem gen_skip_names :
    sameSet (Gen.skipSources.map String.toList) skipList = true ∧
    sameSet (Gen.skipRecursive.map String.toList) skipList = true ∧
    Gen.skipSourcesDot = true ∧ Gen.skipRecursiveDot = true := by decide

theorem gen_init_files : sameSet (Gen.initFiles.map String.toList) [initPy, initPyi] = true := by decide

/-- the suffix the crawl strips is the suffix `find_module` appends -/
theorem gen_stubs_suffix :
    Gen.stubsSuffixCrawl.toList = sStubs ∧ Gen.stubsSuffixFind.map String.toList = [sStubs] := by decide

/-! ## the round trip -/

/-- **Round trip for one crawled file** (all modes).  `f` is a file whose path below its crawled base `B` spells
    the importable module `m`; the search roots contain `B`, are genuine bases, contain no explicit base along
    `m`, are all explicit bases when that option is on, and the F10 cell is excluded (`noBareDir`).  Then
    `find_module(m)` returns a file `g` that `crawl_up` maps to the same module `m` — so either `g` is `f`, or
    `f` and `g` carry the same module name (a duplicate-module error when both are listed). -/
theorem roundtrip_or_claim (fs : FS) (wf : fs.WF) (o : Opts) (roots : List Path) (B : Path) (m : List Name) (f : Path)
    (himp : importable m = true) (hsp : spells B m f = true) (hf : fs.isFile f = true)
    (hc : crawlUp fs o f = .some m B) (hB : B ∈ roots)
    (hgood : ∀ R ∈ roots, crawlUpDir fs o R = .some [] R)
    (hinner : noInnerBase o roots m = true)
    (hexp : rootsExplicit o roots = true)
    (hbare : noBareDir fs o roots B m = true) :
    ∃ g R, findModule fs o.ns roots m = some g ∧ R ∈ roots ∧ fs.isFile g = true ∧
      crawlUp fs o g = .some m R ∧ isPyArg g = true := by
  have hne : m ≠ [] := by
    intro he; subst he; simp [importable] at himp
  obtain ⟨dc, x, rfl⟩ := snoc_of_ne_nil hne
  obtain ⟨hdc, hx, hxi⟩ := importable_snoc himp
  have hsp' := spells_snoc hsp
  have hinn := noInnerBase_snoc hinner
  by_cases hns : o.ns = true
  · have hexp' : o.epb = true → ∀ R ∈ roots, o.isBase R = true := by
      intro he R hR
      simp only [rootsExplicit, he, Bool.not_true, Bool.false_or, List.all_eq_true] at hexp
      exact hexp R hR
    have hbare' : verifyFrom fs (B ++ dc).reverse dc.length = true ∨ ∀ R ∈ roots, nsDir fs true (R ++ dc) x = [] := by
      simp only [noBareDir, hns, Bool.not_true, Bool.false_or, Bool.or_eq_true, List.dropLast_concat,
        List.length_append, List.length_singleton, Nat.add_sub_cancel, getLast?_snoc, Option.getD_some,
        List.all_eq_true, List.isEmpty_iff] at hbare
      exact hbare
    obtain ⟨g, R, h1, h2, h3, h4, h5⟩ := find_claims_ns fs o wf hns hdc hx hxi hsp' hf hc hB hgood hinn hexp' hbare'
    exact ⟨g, R, h1, h2, h3, h4, isPyArg_candidate h5⟩
  · have hns' : o.ns = false := by simpa using hns
    obtain ⟨g, R, h1, h2, h3, h4, h5⟩ := find_claims_nons fs o wf hns' hdc hx hxi hsp' hf hc hB hgood hinn
    exact ⟨g, R, h1, h2, h3, h4, isPyArg_candidate h5⟩

/-- **C18, listing level (`roundtrip_or_duplicate`, provable part).**  For every coherent file system, option
    combination and argument list for which `create_source_list` succeeds: either two listed files with different
    paths share a module id (`load_graph` stops with "Duplicate module named …"), or every listed source in a
    non-excluded cell is found again by `find_module` under its own module name (itself or its sibling stub).
    Global conditions: the configured roots (`mypy_path`, cwd) are genuine bases and, with explicit package
    bases, no source lies outside all bases.  Per-source conditions: `cellOK`. -/
theorem roundtrip_or_duplicate_partial (fs : FS) (wf : fs.WF) (o : Opts) (fuel : Nat) (args : List Path)
    (srcs : List Src) (hcreate : createSourceList fs o fuel args = .ok srcs)
    (hroots : goodRoots fs o = true) (hexp : rootsExplicit o (searchRoots o srcs) = true) :
    hasDuplicate srcs = true ∨ ∀ s ∈ srcs, cellOK fs o srcs s = true → roundTrips fs o srcs s = true := by
  by_cases hd : hasDuplicate srcs = true
  · exact Or.inl hd
  right
  intro s hs hcell
  have hok := createSourceList_ok fs o args srcs hcreate
  unfold cellOK at hcell
  cases hb : s.base with
  | none => rw [hb] at hcell; cases hcell
  | some B =>
    rw [hb] at hcell
    simp only [Bool.and_eq_true] at hcell
    obtain ⟨⟨⟨⟨⟨hfile, himp⟩, hsp⟩, hinner⟩, hbare⟩, hlisted⟩ := hcell
    have hcr : crawlUp fs o s.path = .some s.module B := by
      rcases hok s hs with hc | ⟨hn, _⟩
      · exact crawled_some fs o hc hb
      · rw [hn] at hb; cases hb
    have hB : B ∈ searchRoots o srcs := (mem_searchRoots o).mpr (Or.inr (Or.inr ⟨s, hs, hb⟩))
    obtain ⟨g, R, hfind, _, hgfile, hgcr, hgpy⟩ :=
      roundtrip_or_claim fs wf o (searchRoots o srcs) B s.module s.path himp hsp hfile hcr hB
        (searchRoots_good fs o hok hroots) hinner hexp hbare
    have hfs : findSrc fs o srcs s = some g := by
      unfold findSrc; rw [modId_of_importable himp]; exact hfind
    unfold foundListed at hlisted
    rw [hfs] at hlisted
    simp only [Bool.or_eq_true, decide_eq_true_eq, Bool.not_eq_true', List.any_eq_true] at hlisted
    unfold roundTrips
    rw [hfs]
    rcases hlisted with ((h | h) | h) | ⟨s', hs', hp'⟩
    · simp [h]
    · simp [h]
    · rw [hgfile] at h; cases h
    · by_cases hsame : g = s.path
      · simp [hsame]
      · -- two listed files with the same module id: contradiction with `¬ hasDuplicate`
        exfalso
        apply hd
        unfold hasDuplicate
        rw [List.any_eq_true]
        refine ⟨s, hs, ?_⟩
        rw [List.any_eq_true]
        refine ⟨s', hs', ?_⟩
        have hmod : s'.module = s.module := by
          rcases hok s' hs' with hc' | ⟨_, hnp⟩
          · have := hc'
            unfold Crawled at this
            rw [hp', crawled_of_crawlUp fs o hgcr] at this
            simp only [Except.ok.injEq] at this
            rw [← this]
          · rw [hp', hgpy] at hnp; cases hnp
        have hid : s'.modId = s.modId := by
          rw [modId_of_importable himp, modId_of_importable (by rw [hmod]; exact himp), hmod]
        simp only [Bool.and_eq_true, bne_iff_ne, ne_eq, decide_eq_true_eq]
        exact ⟨fun he => hsame (by rw [← hp', ← he]), hid.symm⟩

/-! ## the first alternative does not depend on the order of the arguments -/

/-- **The duplicate-module stop is order independent.**  For every permutation of the command-line arguments
    `create_source_list` succeeds or fails alike, yields a permutation of the same build sources, and load_graph's
    test on the initial sources (`firstDuplicate`: "Duplicate module named …") fires for the one order exactly
    when it fires for the other — and it fires exactly when two sources share a module id.  (The harness runs the
    real build on contested listings in several orders: an order dependence of the real tool is a correspondence
    break with a concrete replay.) -/
theorem duplicate_order_independent (fs : FS) (o : Opts) (fuel : Nat) (args args' : List Path) (srcs : List Src)
    (hperm : args.Perm args') (hcreate : createSourceList fs o fuel args = .ok srcs) :
    ∃ srcs', createSourceList fs o fuel args' = .ok srcs' ∧ srcs.Perm srcs' ∧
      (firstDuplicate srcs []).isSome = (firstDuplicate srcs' []).isSome ∧
      ((firstDuplicate srcs []).isSome = true ↔ ¬ (srcs.map Src.modId).Nodup) := by
  obtain ⟨srcs', h1, h2⟩ := createSourceList_perm fs o hperm srcs hcreate
  exact ⟨srcs', h1, h2, firstDuplicate_perm h2, firstDuplicate_isSome srcs⟩

/-! ## the full-strength statement is false of the current code: witnesses

`RoundtripOrDuplicate` is the statement of the design (no side conditions).  Each `not_…` theorem below is a
concrete layout on which it fails (no duplicate module, yet some listed file is not found again under its module
name), and the `…_cell` theorem beside it shows which single side condition of `roundtrip_or_duplicate_partial`
the failing source violates.  harness/c18/run.py (`WITNESSES`) replays the same layouts on the real code on every
run. -/

/-- the unconditional statement for one invocation -/
def RoundtripOrDuplicate (fs : FS) (o : Opts) (fuel : Nat) (args : List Path) : Prop :=
  ∀ srcs, createSourceList fs o fuel args = .ok srcs →
    hasDuplicate srcs = true ∨ ∀ s ∈ srcs, roundTrips fs o srcs s = true

/-- decidable refutation: sources are created, no two share a module id, one of them does not round-trip -/
def violates (fs : FS) (o : Opts) (fuel : Nat) (args : List Path) : Bool :=
  match createSourceList fs o fuel args with
  | .ok srcs => !hasDuplicate srcs && srcs.any (fun s => !roundTrips fs o srcs s)
  | .error _ => false

theorem violates_spec {fs : FS} {o : Opts} {fuel : Nat} {args : List Path} (h : violates fs o fuel args = true) :
    ¬ RoundtripOrDuplicate fs o fuel args := by
  intro hr
  unfold violates at h
  cases hc : createSourceList fs o fuel args with
  | error e => rw [hc] at h; cases h
  | ok srcs =>
    rw [hc] at h
    simp only [Bool.and_eq_true, Bool.not_eq_true', List.any_eq_true] at h
    obtain ⟨hnd, s, hs, hnr⟩ := h
    rcases hr srcs hc with hd | hall
    · rw [hnd] at hd; cases hd
    · rw [hall s hs] at hnr; cases hnr

/-- the side conditions of a source, in the order isFile, importable, spells, noInnerBase, noBareDir, foundListed,
    followed by the global goodRoots, rootsExplicit -/
def sideBits (fs : FS) (o : Opts) (fuel : Nat) (args : List Path) (i : Nat) : List Bool :=
  match createSourceList fs o fuel args with
  | .error _ => []
  | .ok srcs =>
    match srcs[i]? with
    | none => []
    | some s =>
      let roots := searchRoots o srcs
      let B := s.base.getD []
      [fs.isFile s.path, importable s.module, s.base.isSome && spells B s.module s.path, noInnerBase o roots s.module,
       noBareDir fs o roots B s.module, foundListed fs o srcs s, goodRoots fs o, rootsExplicit o roots]

def pth (l : List String) : Path := l.map String.toList

/-- F10: `p/q/x.py` beside the bare directory `p/q/x/`, `p/q` a namespace directory: `find_module("p.q.x")` is the
    directory -/
def fsBare : FS := FS.ofEntries [(pth ["w", "r", "p", "__init__.py"], .file), (pth ["w", "r", "p", "q", "x.py"], .file),
  (pth ["w", "r", "p", "q", "x", "y.py"], .file)]
def oBare : Opts := { ns := true, epb := false, mypyPath := [], cwd := pth ["w", "r"] }
def argsBare : List Path := [pth ["w", "r", "p", "__init__.py"], pth ["w", "r", "p", "q", "x.py"], pth ["w", "r", "p", "q", "x", "y.py"]]

theorem not_roundtrip_bare_dir : ¬ RoundtripOrDuplicate fsBare oBare 8 argsBare := violates_spec (by decide)
theorem not_roundtrip_bare_dir_cell :
    sideBits fsBare oBare 8 argsBare 1 = [true, true, true, true, false, true, true, true] := by decide
theorem not_roundtrip_bare_dir_found :
    findModule fsBare true [pth ["w", "r"]] (pth ["p", "q", "x"]) = some (pth ["w", "r", "p", "q", "x"]) ∧
    fsBare.isDir (pth ["w", "r", "p", "q", "x"]) = true := by decide

/-- the statement of the design is false -/
theorem not_roundtrip_or_duplicate :
    ¬ ∀ (fs : FS) (_ : fs.WF) (o : Opts) (fuel : Nat) (args : List Path), RoundtripOrDuplicate fs o fuel args :=
  fun h => not_roundtrip_bare_dir (h fsBare (ofEntries_wf _) oBare 8 argsBare)

/-- F10b: `__init__.py` directly in an explicit package base gets module "" (`__main__`) -/
def fsInitBase : FS := FS.ofEntries [(pth ["w", "r", "__init__.py"], .file), (pth ["w", "r", "a.py"], .file)]
def oInitBase : Opts := { ns := true, epb := true, mypyPath := [], cwd := pth ["w", "r"] }
def argsInitBase : List Path := [pth ["w", "r", "__init__.py"], pth ["w", "r", "a.py"]]

theorem not_roundtrip_init_in_base : ¬ RoundtripOrDuplicate fsInitBase oInitBase 8 argsInitBase := violates_spec (by decide)
theorem not_roundtrip_init_in_base_cell :
    sideBits fsInitBase oInitBase 8 argsInitBase 0 = [true, false, false, true, true, true, true, true] := by decide
theorem not_roundtrip_init_in_base_module :
    crawlUp fsInitBase oInitBase (pth ["w", "r", "__init__.py"]) = .some [] (pth ["w", "r"]) := by decide

/-- an unlisted file of the same name under a root that is searched earlier -/
def fsUnlisted : FS := FS.ofEntries [(pth ["w", "r", "a", "x.py"], .file), (pth ["w", "r", "b", "x.py"], .file),
  (pth ["w", "r", "b", "y.py"], .file)]
def oUnlisted : Opts := { ns := false, epb := false, mypyPath := [], cwd := pth ["w", "r"] }
def argsUnlisted : List Path := [pth ["w", "r", "a", "x.py"], pth ["w", "r", "b", "y.py"]]

theorem not_roundtrip_unlisted : ¬ RoundtripOrDuplicate fsUnlisted oUnlisted 8 argsUnlisted := violates_spec (by decide)
theorem not_roundtrip_unlisted_cell :
    sideBits fsUnlisted oUnlisted 8 argsUnlisted 0 = [true, true, true, true, true, false, true, true] := by decide

/-- a `mypy_path` entry that is itself inside a package -/
def fsRootPkg : FS := FS.ofEntries [(pth ["w", "r", "p", "__init__.py"], .file), (pth ["w", "r", "p", "x.py"], .file),
  (pth ["w", "r", "q", "x.py"], .file), (pth ["w", "o"], .dir)]
def oRootPkg : Opts := { ns := false, epb := false, mypyPath := [pth ["w", "r", "p"]], cwd := pth ["w", "o"] }
def argsRootPkg : List Path := [pth ["w", "r", "p", "__init__.py"], pth ["w", "r", "p", "x.py"], pth ["w", "r", "q", "x.py"]]

theorem not_roundtrip_root_in_package : ¬ RoundtripOrDuplicate fsRootPkg oRootPkg 8 argsRootPkg := violates_spec (by decide)
theorem not_roundtrip_root_in_package_cell :
    sideBits fsRootPkg oRootPkg 8 argsRootPkg 2 = [true, true, true, true, true, true, false, true] := by decide

/-- a file stem with a dot: `a.b.py` is module "a.b", which `find_module` splits into a and b -/
def fsDotted : FS := FS.ofEntries [(pth ["w", "r", "a.b.py"], .file)]
def oPlain : Opts := { ns := true, epb := false, mypyPath := [], cwd := pth ["w", "r"] }

theorem not_roundtrip_dotted_stem : ¬ RoundtripOrDuplicate fsDotted oPlain 8 [pth ["w", "r", "a.b.py"]] := violates_spec (by decide)
theorem not_roundtrip_dotted_stem_cell :
    sideBits fsDotted oPlain 8 [pth ["w", "r", "a.b.py"]] 0 = [true, false, true, true, true, true, true, true] := by decide

/-- a PEP 561 `-stubs` directory in a source root: the crawl strips the suffix, `find_module` only looks for
    `a-stubs` when the root also has an entry with stem `a` -/
def fsStubs : FS := FS.ofEntries [(pth ["w", "r", "a-stubs", "__init__.pyi"], .file)]

theorem not_roundtrip_stubs_dir : ¬ RoundtripOrDuplicate fsStubs oPlain 8 [pth ["w", "r", "a-stubs", "__init__.pyi"]] :=
  violates_spec (by decide)
theorem not_roundtrip_stubs_dir_cell :
    sideBits fsStubs oPlain 8 [pth ["w", "r", "a-stubs", "__init__.pyi"]] 0 = [true, true, false, true, true, true, true, true] := by decide

/-- nested explicit package bases: `r` and `r/a` are both bases; `r/a/a.pyi` is module "a", but so is the package
    `r/a/__init__.py` seen from `r` (which the crawl names "") -/
def fsNested : FS := FS.ofEntries [(pth ["w", "r", "a", "__init__.py"], .file), (pth ["w", "r", "a", "a.pyi"], .file)]
def oNested : Opts := { ns := true, epb := true, mypyPath := [pth ["w", "r"]], cwd := pth ["w", "r", "a"] }
def argsNested : List Path := [pth ["w", "r", "a", "__init__.py"], pth ["w", "r", "a", "a.pyi"]]

theorem not_roundtrip_nested_bases : ¬ RoundtripOrDuplicate fsNested oNested 8 argsNested := violates_spec (by decide)
theorem not_roundtrip_nested_bases_cell :
    sideBits fsNested oNested 8 argsNested 1 = [true, true, true, false, true, true, true, true] := by decide

/-- explicit package bases with a source outside all of them: its base is searched first and holds a file that is
    reached as a namespace near miss under another name -/
def fsOutside : FS := FS.ofEntries [(pth ["w", "r", "p", "x.py"], .file), (pth ["w", "u", "q", "p", "x.py"], .file),
  (pth ["w", "u", "q", "y.py"], .file)]
def oOutside : Opts := { ns := true, epb := true, mypyPath := [], cwd := pth ["w", "r"] }
def argsOutside : List Path := [pth ["w", "r", "p", "x.py"], pth ["w", "u", "q", "y.py"], pth ["w", "u", "q", "p", "x.py"]]

theorem not_roundtrip_outside_bases : ¬ RoundtripOrDuplicate fsOutside oOutside 8 argsOutside := violates_spec (by decide)
theorem not_roundtrip_outside_bases_cell :
    sideBits fsOutside oOutside 8 argsOutside 0 = [true, true, true, true, true, true, true, false] := by decide

/-- an ordinary tree used by the non-vacuity examples -/
def fsGood : FS := FS.ofEntries [(pth ["w", "r", "p", "__init__.py"], .file), (pth ["w", "r", "p", "m.py"], .file),
  (pth ["w", "r", "p", "m.pyi"], .file), (pth ["w", "r", "p", "n", "k.py"], .file), (pth ["w", "s", "q", "__init__.pyi"], .file),
  (pth ["w", "s", "q", "z.py"], .file), (pth ["w", "r", "top.py"], .file)]
def oGood : Opts := { ns := true, epb := false, mypyPath := [pth ["w", "s"]], cwd := pth ["w", "r"] }
def argsGood : List Path := [pth ["w", "r", "p"], pth ["w", "r", "top.py"], pth ["w", "s", "q"]]

/-! ## checking a directory versus listing its files -/

/-- **`dir_eq_files`, soundness half.**  Everything `find_sources_in_dir(d)` lists is a reachable `.py[i]` file below
    `d`, with exactly the module name and base that `crawl_up` gives the file when it is named individually. -/
theorem dir_sound (fs : FS) (wf : fs.WF) (o : Opts) (fuel : Nat) (d : Path) (S : List Src)
    (h : findSourcesInDir fs o fuel d = .ok S) :
    ∀ s ∈ S, crawlSrc fs o s.path = .ok s ∧ ∃ rel, s.path = d ++ rel ∧ walkable fs d rel := by
  intro s hs
  refine ⟨findSourcesInDir_crawled fs o _ _ _ h s hs, ?_⟩
  obtain ⟨rel, hp, hw, _⟩ := findSourcesInDir_sound fs o wf _ _ _ h s hs
  exact ⟨rel, hp, hw⟩

/-- the completeness half, as the design states it (no side condition): every reachable `.py[i]` file below `d`
    is listed, or a listed file carries its module name (stub / package shadowing) -/
def DirEqFiles (fs : FS) (o : Opts) (fuel : Nat) (d : Path) : Prop :=
  ∀ S, findSourcesInDir fs o fuel d = .ok S → ∀ rel m b, walkable fs d rel → rel.length ≤ fuel →
    crawlUp fs o (d ++ rel) = .some m b →
    (∃ s ∈ S, s.path = d ++ rel) ∨ (∃ s ∈ S, s.path ≠ d ++ rel ∧ s.module = m)

/-- **`dir_eq_files`, completeness half (provable part).**  Outside the F10 cell — `dirCellOK`: a sibling directory
    named like the file's stem that contains sources is a clean package — every reachable file is listed or its
    module name is carried by a listed file; so `mypy DIR` and `mypy FILES…` build the same module ↦ file map up to
    order and shadowing, or the latter stops with a duplicate-module error. -/
theorem dir_eq_files_partial (fs : FS) (wf : fs.WF) (o : Opts) (fuel : Nat) (d : Path) (S : List Src)
    (h : findSourcesInDir fs o fuel d = .ok S) (rel : List Name) (m : List Name) (b : Path)
    (hw : walkable fs d rel) (hl : rel.length ≤ fuel) (hcr : crawlUp fs o (d ++ rel) = .some m b)
    (hcell : ∀ D n, d ++ rel = D ++ [n] → dirCellOK fs o fuel D n = true) :
    (∃ s ∈ S, s.path = d ++ rel) ∨ (∃ s ∈ S, s.path ≠ d ++ rel ∧ s.module = m) := by
  apply dir_complete fs o wf fuel fuel (Nat.le_refl _) d rel S m b h hw hl hcr
  intro D n he hy
  have := hcell D n he
  simp only [dirCellOK, Bool.or_eq_true, Bool.not_eq_true'] at this
  rcases this with h1 | h1
  · rw [hy] at h1; cases h1
  · exact h1

/-- F10, the original layout: `b/a.pyi` beside `b/a/c.py` — `mypy b` lists one file, `b/a.pyi` is neither listed
    nor is its module name `a` carried by a listed file -/
def fsF10 : FS := FS.ofEntries [(pth ["w", "b", "a.pyi"], .file), (pth ["w", "b", "a", "c.py"], .file)]
def oF10 : Opts := { ns := true, epb := false, mypyPath := [], cwd := pth ["w"] }

theorem not_dir_eq_files : ¬ DirEqFiles fsF10 oF10 8 (pth ["w", "b"]) := by
  intro h
  have hS : findSourcesInDir fsF10 oF10 8 (pth ["w", "b"]) =
      .ok [{ path := pth ["w", "b", "a", "c.py"], module := [String.toList "c"], base := some (pth ["w", "b", "a"]) }] := by rfl
  have hw : walkable fsF10 (pth ["w", "b"]) [String.toList "a.pyi"] := ⟨by decide, by decide, by decide⟩
  have hc : crawlUp fsF10 oF10 (pth ["w", "b"] ++ [String.toList "a.pyi"]) = .some [String.toList "a"] (pth ["w", "b"]) := by decide
  rcases h _ hS _ _ _ hw (by decide) hc with ⟨s, hs, hp⟩ | ⟨s, hs, _, hm⟩
  · simp only [List.mem_singleton] at hs
    subst hs
    revert hp; decide
  · simp only [List.mem_singleton] at hs
    subst hs
    revert hm; decide

theorem not_dir_eq_files_cell : dirCellOK fsF10 oF10 8 (pth ["w", "b"]) (String.toList "a.pyi") = false := by decide

/-- non-vacuity of `dir_eq_files_partial`: in the ordinary tree every reachable file is in a good cell, and a
    stub-shadowed source (`p/m.py` beside `p/m.pyi`) is an instance of the second alternative -/
example : dirCellOK fsGood oGood 8 (pth ["w", "r", "p"]) (String.toList "m.py") = true ∧
    walkable fsGood (pth ["w", "r"]) [String.toList "p", String.toList "m.py"] ∧
    (match findSourcesInDir fsGood oGood 8 (pth ["w", "r"]) with
     | .ok S => S.all (fun s => s.path != pth ["w", "r", "p", "m.py"]) &&
                S.any (fun s => s.path = pth ["w", "r", "p", "m.pyi"] && s.module = pth ["p", "m"])
     | .error _ => false) = true :=
  ⟨by decide, ⟨by decide, by decide, by decide, by decide, by decide⟩, by decide⟩

/-! ## the two implementations prefer the same file

`find_sources_in_dir` decides by sort order (`keyfunc`) and the `seen` stems which claimant of a stem is listed;
`_find_module` decides by the order of its probes.  Both orders are: directory (package) before module, `.pyi`
before `.py`. -/

/-- **Listing side, stub over source.**  With `D/st.pyi` present and no directory `D/st`, `find_sources_in_dir(D)`
    lists `D/st.pyi` and does not list `D/st.py`. -/
theorem dir_prefers_stub (fs : FS) (wf : fs.WF) (o : Opts) (k : Nat) (D : Path) (st : Name) (S : List Src)
    (hS : findSourcesInDir fs o (k + 1) D = .ok S) (hid : isIdent st = true)
    (hpyi : fs.isFile (D ++ [st ++ extPyi]) = true) (hskip : skipName (st ++ extPyi) = false)
    (hnodir : fs.isDir (D ++ [st]) = false) :
    (∃ s ∈ S, s.path = D ++ [st ++ extPyi]) ∧ ∀ s ∈ S, s.path ≠ D ++ [st ++ extPy] :=
  dir_stub_wins fs o wf hS (isIdent_ne_nil hid) (isIdent_no_dot hid) hpyi hskip hnodir

/-- **Listing side, directory over module.**  When the directory `D/st` yields sources, neither `D/st.pyi` nor
    `D/st.py` is listed (package over module when `D/st` is a regular package; the F10 cell when it is not). -/
theorem dir_prefers_directory (fs : FS) (wf : fs.WF) (o : Opts) (k : Nat) (D : Path) (st : Name) (S : List Src)
    (s0 : Src) (ss : List Src)
    (hS : findSourcesInDir fs o (k + 1) D = .ok S) (hid : isIdent st = true) (hskip : skipName st = false)
    (hdir : fs.isDir (D ++ [st]) = true) (hyield : findSourcesInDir fs o k (D ++ [st]) = .ok (s0 :: ss)) :
    ∀ s ∈ S, s.path ≠ D ++ [st ++ extPyi] ∧ s.path ≠ D ++ [st ++ extPy] :=
  dir_package_wins fs o wf hS (isIdent_ne_nil hid) (isIdent_no_dot hid) hskip hdir hyield

/-- **Lookup side.**  In a candidate directory `_find_module` returns the first existing file in the fixed order
    `x-stubs/__init__.pyi`, `x/__init__.pyi`, `x/__init__.py`, `x.pyi`, `x.py`: package before module, stub before
    source — the same preferences as the listing side. -/
theorem find_prefers (fs : FS) (ns : Bool) (bd : Path) (x : Name) (nlev : Nat) (g : Path) (hx : x ≠ sInit)
    (h : scanDir fs ns bd x nlev = .found g) :
    ∃ pre post, [bd ++ [x ++ sStubs, initPyi], bd ++ [x, initPyi], bd ++ [x, initPy], bd ++ [x ++ extPyi],
        bd ++ [x ++ extPy]] = pre ++ g :: post ∧ ∀ p ∈ pre, fs.isFile p = false :=
  scanDir_found_first fs hx h

/-- non-vacuity: in the ordinary tree `p/m.pyi` shadows `p/m.py` in the listing and in the lookup alike -/
example : (match findSourcesInDir fsGood oGood 8 (pth ["w", "r", "p"]) with
     | .ok S => S.any (fun s => s.path = pth ["w", "r", "p", "m.pyi"]) && S.all (fun s => s.path != pth ["w", "r", "p", "m.py"])
     | .error _ => false) = true ∧
    findModule fsGood true [pth ["w", "r"]] (pth ["p", "m"]) = some (pth ["w", "r", "p", "m.pyi"]) := by decide

/-! ## naming the package with `-p` -/

/-- **`mypy -p PKG` names files as `mypy FILES…` does (provable part).**  Every *file* that
    `find_modules_recursive(PKG)` turns into a build source with an importable module name `m` is given the same
    name `m` by `crawl_up` (so the three invocation styles agree on module ↦ file for it) — when the configured
    roots are genuine bases, no explicit base lies inside a root along `m`, and the top-level package is a regular
    package or the root an explicit base (`topOK`; without it `-p` names files from the working directory while the
    crawl names them from a deeper directory: by design). -/
theorem pkg_names_agree_partial (fs : FS) (wf : fs.WF) (o : Opts) (fuel : Nat) (pkg : List Name) (p : Path) (m : List Name)
    (hmem : (p, m) ∈ findModulesRecursive fs o.ns (packageRoots o) fuel pkg)
    (hfile : fs.isFile p = true) (himp : importable m = true)
    (hroots : goodRoots fs o = true) (hinner : noInnerBase o (packageRoots o) m = true)
    (htop : topOK fs o (packageRoots o) m = true) :
    ∃ R ∈ packageRoots o, crawlUp fs o p = .some m R := by
  have hfind := findModulesRecursive_mem fs fuel pkg (p, m) hmem
  simp only at hfind
  have hne : m ≠ [] := by intro he; subst he; simp [importable] at himp
  obtain ⟨dc, x, rfl⟩ := snoc_of_ne_nil hne
  obtain ⟨hdc, hx, hxi⟩ := importable_snoc himp
  have hsc : searchComps (dc ++ [x]) = dc ++ [x] := by
    apply searchComps_ident
    intro c hc
    rw [List.mem_append] at hc
    rcases hc with hc | hc
    · exact hdc c hc
    · simp only [List.mem_singleton] at hc; subst hc; exact hx
  rw [hsc] at hfind
  have hgood : ∀ R ∈ packageRoots o, crawlUpDir fs o R = .some [] R := by
    intro R hR
    simp only [goodRoots, List.all_eq_true, goodRoot, beq_iff_eq] at hroots
    exact hroots R hR
  apply find_then_crawl fs o wf hdc hx hxi hgood (noInnerBase_snoc hinner) ?_ hfind hfile
  intro R hR hdir c1 hc1
  simp only [topOK, List.all_eq_true, Bool.or_eq_true, decide_eq_true_eq, Bool.not_eq_true'] at htop
  rcases htop R hR with ((h | h) | h) | h
  · exact Or.inl h
  · cases dc with
    | nil => simp at hc1
    | cons a as => simp at h
  · rw [List.dropLast_concat, hdir] at h; cases h
  · right
    cases dc with
    | nil => simp at hc1
    | cons a as =>
      simp only [List.head?_cons, Option.some.injEq] at hc1
      subst hc1
      simpa using h

/-- **No source file is found twice under different module names (provable part).**  `load_graph` stops with
    "Source file found twice under different module names" when an import `m` resolves (through `find_module`) to a
    file that is already in the graph under another name.  For an importable `m` and search roots derived from the
    sources this cannot happen to a listed file: the listed name *is* `m` — under the side conditions of
    `pkg_names_agree_partial` (configured roots are genuine bases, no explicit base inside a root along `m`, top-level
    regular package or explicit base). -/
theorem no_found_twice_partial (fs : FS) (wf : fs.WF) (o : Opts) (fuel : Nat) (args : List Path) (srcs : List Src)
    (hcreate : createSourceList fs o fuel args = .ok srcs) (hroots : goodRoots fs o = true)
    (m : List Name) (g : Path) (s : Src)
    (himp : importable m = true) (hinner : noInnerBase o (searchRoots o srcs) m = true)
    (htop : topOK fs o (searchRoots o srcs) m = true)
    (hfind : findModule fs o.ns (searchRoots o srcs) m = some g) (hfile : fs.isFile g = true)
    (hs : s ∈ srcs) (hpath : s.path = g) : s.module = m ∧ s.modId = m := by
  have hok := createSourceList_ok fs o args srcs hcreate
  have hne : m ≠ [] := by intro he; subst he; simp [importable] at himp
  obtain ⟨dc, x, rfl⟩ := snoc_of_ne_nil hne
  obtain ⟨hdc, hx, hxi⟩ := importable_snoc himp
  have htop' : ∀ R ∈ searchRoots o srcs, fs.isDir (R ++ dc) = true → ∀ c1, dc.head? = some c1 →
      o.isBase R = true ∨ hasInit fs (R ++ [c1]) = true := by
    intro R hR hdir c1 hc1
    simp only [topOK, List.all_eq_true, Bool.or_eq_true, decide_eq_true_eq, Bool.not_eq_true'] at htop
    rcases htop R hR with ((h | h) | h) | h
    · exact Or.inl h
    · cases dc with
      | nil => simp at hc1
      | cons a as => simp at h
    · rw [List.dropLast_concat, hdir] at h; cases h
    · right
      cases dc with
      | nil => simp at hc1
      | cons a as =>
        simp only [List.head?_cons, Option.some.injEq] at hc1
        subst hc1
        simpa using h
  obtain ⟨R, _, hcr⟩ := find_then_crawl fs o wf hdc hx hxi (searchRoots_good fs o hok hroots)
    (noInnerBase_snoc hinner) htop' hfind hfile
  have hmod : s.module = dc ++ [x] := by
    rcases hok s hs with hc | ⟨_, hnp⟩
    · exact module_of_crawled fs o hc (by rw [hpath]; exact hcr)
    · -- a script has no `.py[i]` suffix, but everything `find_module` returns has one
      exfalso
      have hlen : (dc ++ [x]).length - 1 = dc.length := by simp
      simp only [findModule, getLast?_snoc, hlen] at hfind
      have hgpy : isPyArg g = true := by
        rcases findLoop_spec fs _ _ _ hfind with ⟨c, _, hfound⟩ | ⟨_, _, lvl, hmem, _⟩
        · exact isPyArg_candidate (scanDir_found fs hxi hfound).2.1
        · simp only [List.nil_append] at hmem
          obtain ⟨c, _, l', hs', hgl', _⟩ := (mem_missesOf fs).mp hmem
          rcases scanDir_misses fs hs' g hgl' with h | h
          · exact isPyArg_candidate h.1
          · unfold nsDir at h
            split at h
            · next hc =>
              simp only [List.mem_singleton] at h
              subst h
              simp only [Bool.and_eq_true, Bool.not_eq_true'] at hc
              rw [hfile] at hc
              exact absurd hc.2 (by simp)
            · cases h
      rw [hpath, hgpy] at hnp; cases hnp
  refine ⟨hmod, ?_⟩
  have : importable s.module = true := by rw [hmod]; exact himp
  rw [modId_of_importable this, hmod]

/-- the side condition `topOK` is needed: with namespace packages and no `__init__.py`, `b/x.py` is listed as module `x`
    (base `b`), while `import b.x` from a file in the working directory finds the same file as `b.x` — mypy's
    "Source file found twice under different module names" (the documented ambiguity, not a defect) -/
def fsTwice : FS := FS.ofEntries [(pth ["w", "b", "x.py"], .file), (pth ["w", "main.py"], .file)]
def oTwice : Opts := { ns := true, epb := false, mypyPath := [], cwd := pth ["w"] }

theorem not_no_found_twice :
    (match createSourceList fsTwice oTwice 8 [pth ["w", "b", "x.py"], pth ["w", "main.py"]] with
     | .ok srcs =>
        findModule fsTwice true (searchRoots oTwice srcs) (pth ["b", "x"]) == some (pth ["w", "b", "x.py"]) &&
        srcs.any (fun s => s.path = pth ["w", "b", "x.py"] && s.module = pth ["x"]) &&
        importable (pth ["b", "x"]) && goodRoots fsTwice oTwice && noInnerBase oTwice (searchRoots oTwice srcs) (pth ["b", "x"]) &&
        !topOK fsTwice oTwice (searchRoots oTwice srcs) (pth ["b", "x"])
     | .error _ => false) = true := by decide

/-- F10 seen from `-p`: `find_modules_recursive("b")` makes the *directory* `b/a` the source of module `b.a` and never
    lists `b/a.pyi` -/
theorem not_pkg_lists_module_file :
    (findModulesRecursive fsF10 true (packageRoots oF10) 8 (pth ["b"])).map (·.1) =
      [pth ["w", "b"], pth ["w", "b", "a"], pth ["w", "b", "a", "c.py"]] := by decide

/-- non-vacuity of `pkg_names_agree_partial` on the ordinary tree (`-p p` from `w/r`) -/
example : (findModulesRecursive fsGood oGood.ns (packageRoots oGood) 8 (pth ["p"])).all (fun e =>
    fsGood.isFile e.1 && importable e.2 && noInnerBase oGood (packageRoots oGood) e.2 &&
      topOK fsGood oGood (packageRoots oGood) e.2 || fsGood.isDir e.1) = true ∧
    (findModulesRecursive fsGood oGood.ns (packageRoots oGood) 8 (pth ["p"])).length = 4 := by decide

/-! ## non-vacuity: the hypotheses of `roundtrip_or_duplicate_partial` are satisfiable and its second alternative
    is the one that holds on an ordinary package tree (regular package, namespace sub-directory, stub beside a
    source, a second root on `mypy_path`) -/

example : (match createSourceList fsGood oGood 8 argsGood with
    | .ok srcs => srcs.length == 6 && !hasDuplicate srcs && goodRoots fsGood oGood &&
        rootsExplicit oGood (searchRoots oGood srcs) && srcs.all (cellOK fsGood oGood srcs) &&
        srcs.all (roundTrips fsGood oGood srcs)
    | .error _ => false) = true := by decide

example : fsGood.WF := ofEntries_wf _

/-- the first alternative is reachable too: a module and a package of the same name, both listed -/
example : (match createSourceList fsGood oGood 8 [pth ["w", "r", "p", "m.py"], pth ["w", "r", "p", "m.pyi"]] with
    | .ok srcs => hasDuplicate srcs && firstDuplicate srcs [] == some (pth ["p", "m"])
    | .error _ => false) = true := by decide

/-- non-vacuity of `duplicate_order_independent`: `p/m.py p/m.pyi` and `p/m.pyi p/m.py` both stop with the duplicate `p.m` -/
example : (match createSourceList fsGood oGood 8 [pth ["w", "r", "p", "m.py"], pth ["w", "r", "p", "m.pyi"]],
                 createSourceList fsGood oGood 8 [pth ["w", "r", "p", "m.pyi"], pth ["w", "r", "p", "m.py"]] with
    | .ok a, .ok b => firstDuplicate a [] == some (pth ["p", "m"]) && firstDuplicate b [] == some (pth ["p", "m"])
    | _, _ => false) = true := by decide

end Layout
