import MypyVerif.Model.Load
import MypyVerif.Gen.LoadCfg
/-!
# C02 (graph part) — a warm run builds the same set of modules as a cold run

`Model/Build.lean` compares a warm and a cold run over the same processing order.  These theorems are about
`Model/Load.lean` (`load_graph`): the modules reachable from the command-line sources are the same whether
the import lists come from parsing or from usable cache entries — for every file system view, every import
structure and every cache content that was written by earlier runs from the same sources (`Faithful`,
established by `mkMeta_faithful` for whatever was findable at that earlier time).  The statement needs the
suppressed *indirect* dependencies to be skipped (`Cfg.suppFiltered`, regenerated from build.py on every run):
without it the statement is false (`not_warm_graph_eq_cold_unfiltered`, finding F33).
-/
namespace Load

/-- reachability only depends on the successor *sets* -/
theorem reach_mono (s1 s2 : Mod → List Mod) (roots : List Mod)
    (h : ∀ m x, x ∈ s1 m → x ∈ s2 m) (m : Mod) (hr : Reach s1 roots m) : Reach s2 roots m := by
  induction hr with
  | root hm => exact Reach.root hm
  | step _ hn ih => exact Reach.step ih (h _ _ hn)

theorem reach_congr (s1 s2 : Mod → List Mod) (roots : List Mod)
    (h : ∀ m x, x ∈ s1 m ↔ x ∈ s2 m) (m : Mod) : Reach s1 roots m ↔ Reach s2 roots m :=
  ⟨reach_mono s1 s2 roots (fun m x => (h m x).1) m, reach_mono s2 s1 roots (fun m x => (h m x).2) m⟩

/-- every reachable module lies in any set that contains the roots and is closed under successors -/
theorem reach_subset (succ : Mod → List Mod) (roots S : List Mod)
    (hr : ∀ r, r ∈ roots → r ∈ S) (hc : ∀ x, x ∈ S → ∀ y, y ∈ succ x → y ∈ S)
    (m : Mod) (h : Reach succ roots m) : m ∈ S := by
  induction h with
  | root hm => exact hr _ hm
  | step _ hn ih => exact hc _ ih _ hn

/-- the usable cache entries were written from the sources as they are now: the direct entries of the two
    cached lists are exactly the imports of the current source.  (`validate_meta` accepts an entry only when
    the source hash is unchanged, and the import list is a function of the source.) -/
def Faithful (v : View) : Prop :=
  ∀ m c, v.cached m = some c → ∀ x, x ∈ v.imports m ↔ (x ∈ directOf c.deps ∨ x ∈ directOf c.supp)

theorem mem_directOf (l : List Dep) (x : Mod) : x ∈ directOf l ↔ ({ m := x, indirect := false } : Dep) ∈ l := by
  unfold directOf
  constructor
  · intro h
    obtain ⟨d, hd, rfl⟩ := List.mem_map.1 h
    obtain ⟨hd1, hd2⟩ := List.mem_filter.1 hd
    cases d with
    | mk dm di =>
      have : di = false := by simpa using hd2
      subst this
      exact hd1
  · intro h
    exact List.mem_map.2 ⟨_, List.mem_filter.2 ⟨h, by simp⟩, rfl⟩

/-- what a run writes after parsing a module is faithful to that source, whatever was findable then and
    whatever indirect dependencies the type checker added -/
theorem mkMeta_faithful (foundThen : Mod → Bool) (imports indIn indOut : List Mod) (x : Mod) :
    x ∈ imports ↔ (x ∈ directOf (mkMeta foundThen imports indIn indOut).deps
                  ∨ x ∈ directOf (mkMeta foundThen imports indIn indOut).supp) := by
  simp only [mem_directOf, mkMeta, List.mem_append, List.mem_map, List.mem_filter]
  constructor
  · intro h
    by_cases hf : foundThen x = true
    · exact Or.inl (Or.inl ⟨x, ⟨h, hf⟩, rfl⟩)
    · exact Or.inr (Or.inl ⟨x, ⟨h, by simpa using hf⟩, rfl⟩)
  · rintro (h | h)
    · rcases h with ⟨y, ⟨hy, _⟩, he⟩ | ⟨y, _, he⟩
      · cases he; exact hy
      · cases he
    · rcases h with ⟨y, ⟨hy, _⟩, he⟩ | ⟨y, _, he⟩
      · cases he; exact hy
      · cases he

/-- a view whose usable entries were all written by `mkMeta` from the current imports is faithful -/
theorem faithful_of_written (v : View)
    (h : ∀ m c, v.cached m = some c → ∃ ft a b, c = mkMeta ft (v.imports m) a b) : Faithful v := by
  intro m c hc x
  obtain ⟨ft, a, b, rfl⟩ := h m c hc
  exact mkMeta_faithful ft (v.imports m) a b x

theorem mem_suppOf_filtered (l : List Dep) (x : Mod) :
    x ∈ suppOf { suppFiltered := true } l ↔ x ∈ directOf l := by
  unfold suppOf directOf
  simp

theorem directOf_subset_suppOf (cfg : Cfg) (l : List Dep) (x : Mod) (h : x ∈ directOf l) : x ∈ suppOf cfg l := by
  unfold suppOf directOf at *
  obtain ⟨d, hd, rfl⟩ := List.mem_map.1 h
  obtain ⟨hd1, hd2⟩ := List.mem_filter.1 hd
  refine List.mem_map.2 ⟨d, List.mem_filter.2 ⟨hd1, ?_⟩, rfl⟩
  have : d.indirect = false := by simpa using hd2
  simp [this]

/-- with the filter, a module with a usable cache entry is followed exactly like a parsed one -/
theorem succ_warm_iff_cold (v : View) (hf : Faithful v) (m x : Mod) :
    x ∈ succWarm { suppFiltered := true } v m ↔ x ∈ succCold v m := by
  unfold succWarm
  cases hc : v.cached m with
  | none => exact Iff.rfl
  | some c =>
    simp only [succCold, List.mem_filter, List.mem_append, mem_suppOf_filtered]
    rw [hf m c hc x]

/-- **warm_graph_eq_cold.**  For every view (file system, sources, cache) whose usable cache entries are
    faithful and for every set of command-line sources, the warm run builds exactly the modules the cold run
    builds. -/
theorem warm_graph_eq_cold (v : View) (hf : Faithful v) (roots : List Mod) (m : Mod) :
    Reach (succWarm { suppFiltered := true } v) roots m ↔ Reach (succCold v) roots m :=
  reach_congr _ _ roots (succ_warm_iff_cold v hf) m

/-- whatever the configuration, a warm run never builds fewer modules than a cold run -/
theorem cold_subset_warm (cfg : Cfg) (v : View) (hf : Faithful v) (roots : List Mod) (m : Mod)
    (h : Reach (succCold v) roots m) : Reach (succWarm cfg v) roots m := by
  refine reach_mono _ _ roots ?_ m h
  intro m x hx
  unfold succWarm
  cases hc : v.cached m with
  | none => exact hx
  | some c =>
    simp only [succCold, List.mem_filter, List.mem_append] at hx
    simp only [List.mem_filter, List.mem_append]
    refine ⟨?_, hx.2⟩
    rcases hx.1 with ha | hi
    · exact Or.inl ha
    · rcases (hf m c hc x).1 hi with h | h
      · exact Or.inr (Or.inl h)
      · exact Or.inr (Or.inr (directOf_subset_suppOf cfg _ _ h))

/-- the code as it is now has the filter (regenerated from `load_graph` on every run) -/
theorem cfg_filtered : Gen.LoadCfg.cfg.suppFiltered = true := by decide

theorem warm_graph_eq_cold_generated (v : View) (hf : Faithful v) (roots : List Mod) (m : Mod) :
    Reach (succWarm Gen.LoadCfg.cfg v) roots m ↔ Reach (succCold v) roots m := by
  have : Gen.LoadCfg.cfg = { suppFiltered := true } := by
    cases h : Gen.LoadCfg.cfg with
    | mk b => have := cfg_filtered; rw [h] at this; simp at this; subst this; rfl
  rw [this]
  exact warm_graph_eq_cold v hf roots m

/-- the executable worklist only returns reachable modules -/
theorem bfs_sound (succ : Mod → List Mod) (roots : List Mod) :
    ∀ (fuel : Nat) (fr vis : List Mod), (∀ x, x ∈ fr → Reach succ roots x) → (∀ x, x ∈ vis → Reach succ roots x) →
      ∀ x, x ∈ bfs succ fuel fr vis → Reach succ roots x := by
  intro fuel
  induction fuel with
  | zero => intro fr vis _ hv x hx; exact hv x (by simpa [bfs] using hx)
  | succ n ih =>
    intro fr vis hfr hv x hx
    cases fr with
    | nil => exact hv x (by simpa [bfs] using hx)
    | cons m fr =>
      simp only [bfs] at hx
      split at hx
      · exact ih fr vis (fun y hy => hfr y (List.mem_cons_of_mem _ hy)) hv x hx
      · refine ih (fr ++ succ m) (m :: vis) ?_ ?_ x hx
        · intro y hy
          rcases List.mem_append.1 hy with h | h
          · exact hfr y (List.mem_cons_of_mem _ h)
          · exact Reach.step (hfr m (List.mem_cons_self ..)) h
        · intro y hy
          rcases List.mem_cons.1 hy with h | h
          · subst h; exact hfr _ (List.mem_cons_self ..)
          · exact hv y h

/-! ### Without the filter the statement is false — finding F33

Module 0 (the command-line source) imports module 1; module 1 has a usable cache entry that was written when
its type checker had added module 2 as an indirect dependency which later left the build (suppressed,
indirect).  A file for module 2 exists.  Nothing imports module 2. -/

def f33View : View :=
  { found := fun _ => true,
    ancestors := fun _ => [],
    imports := fun m => if m = 0 then [1] else [],
    cached := fun m => if m = 1 then some (mkMeta (fun _ => true) [] [] [2]) else none }

theorem f33_faithful : Faithful f33View :=
  faithful_of_written f33View (by
    intro m c hc
    unfold f33View at hc
    by_cases h : m = 1
    · subst h
      refine ⟨fun _ => true, [], [2], ?_⟩
      simp at hc
      simp [f33View, hc.symm]
    · simp [h] at hc)

theorem not_warm_graph_eq_cold_unfiltered :
    ∃ (v : View) (roots : List Mod) (m : Mod), Faithful v ∧
      Reach (succWarm { suppFiltered := false } v) roots m ∧ ¬ Reach (succCold v) roots m := by
  refine ⟨f33View, [0], 2, f33_faithful, ?_, ?_⟩
  · have h0 : Reach (succWarm { suppFiltered := false } f33View) [0] 0 := Reach.root (by simp)
    have h1 : Reach (succWarm { suppFiltered := false } f33View) [0] 1 := Reach.step h0 (by decide)
    exact Reach.step h1 (by decide)
  · intro h
    have := reach_subset (succCold f33View) [0] [0, 1] (by simp)
      (by
        intro x hx y hy
        simp only [List.mem_cons, List.not_mem_nil, or_false] at hx
        rcases hx with rfl | rfl
        · have : succCold f33View 0 = [1] := by decide
          rw [this] at hy; simp at hy; simp [hy]
        · have : succCold f33View 1 = [] := by decide
          rw [this] at hy; simp at hy) 2 h
    simp at this

/-- non-vacuity: a faithful view with a usable entry, a newly findable suppressed import and an indirect
    dependency; warm and cold build the same three modules -/
def sampleView : View :=
  { found := fun m => m ≠ 9,
    ancestors := fun m => if m = 3 then [4] else [],
    imports := fun m => if m = 0 then [1, 3] else if m = 1 then [2, 9] else [],
    cached := fun m => if m = 1 then some (mkMeta (fun x => x ≠ 2 ∧ x ≠ 9) [2, 9] [7] [8]) else none }

example : bfs (succWarm { suppFiltered := true } sampleView) 50 [0] [] = [4, 2, 3, 1, 0]
    ∧ bfs (succCold sampleView) 50 [0] [] = [4, 2, 3, 1, 0]
    ∧ bfs (succWarm { suppFiltered := false } sampleView) 50 [0] [] = [4, 8, 2, 3, 1, 0] := by decide

end Load
