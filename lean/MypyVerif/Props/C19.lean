import MypyVerif.Proofs.StubSig
import MypyVerif.Proofs.StubImports
import MypyVerif.Proofs.StubDefault
import MypyVerif.Gen.StubCfg
import MypyVerif.Model.StubRet
/-!
# C19 — generated stubs are valid, self-consistent and faithful: the three decision cores

Property theorems only (helpers: Proofs/StubSig.lean, Proofs/StubDefault.lean, Proofs/StubImports.lean).
What is proved here is about the *models* of (a) signature emission, (b) default-value rendering,
(c) import bookkeeping; validity and faithfulness of whole stubs are searched with the real tools
(harness/c19), not proved.

Four decision points exist in two variants — the rule as found and the repaired rule (F-C19-1..4); which one
the checked tree implements is observed by translate/c19cfg.py and generated into `Gen/StubCfg.lean`.  For
every flag BOTH statements are proved, each under the hypothesis that the flag has the corresponding value:

  flag (Gen/StubCfg)       repaired (= true): full statement        as found (= false): refutation + provable part
  slashContiguous          sig_roundtrip, sig_valid                 not_sig_roundtrip, not_sig_valid, sig_*_partial
  notSpaced / bytesQuote   default_is_valid_expr                    not_default_is_valid_expr, default_is_valid_expr_partial
  … / nonFiniteEllipsis    default_closed                           not_default_closed, default_closed_partial

and the `*_status` theorems say exactly for which flag values the full statement holds; `checked_tree_*`
instantiate them at the generated constants, so the obligation is re-checked against what the code does now.
-/
namespace StubSig
open StubDefault

variable (c : DCfg) (sl : Nat → Nat)

/-! ## (a) signature emission -/

/-- **sig_roundtrip** (full statement; holds of the repaired `/` rule).  For every signature Python's grammar
    admits — any parameter kinds, names (`__x` included), annotations, defaults obeying the compiler's rule —
    whose initializers satisfy the hypotheses of (b): Python reads the emitted parameter list back as the
    signature mypy's parser saw, i.e. the same names and has-default flags, and the same kinds up to PEP 484's
    convention that a leading run of positional parameters named `__x` is positional-only (`normalize`). -/
theorem sig_roundtrip (s : PySig) (hd : s.DefaultsOk) (hg : s.GoodDefaults c) :
    parseItems (emitArgs c sl true false s.toMypy) = some s.normalize.summary := by
  rw [emit_contig, PySig.toMypy, prefixOnly_toMypy]
  exact roundtrip_E c sl (fun _ => false) s.normalize (defaultsOk_normalize s hd) (normalize_noElide s)
    (goodDefaults_normalize c s hg)

/-- `normalize` touches kinds only: names and has-default flags are those of the source -/
theorem normalize_names_flags (s : PySig) :
    (s.normalize.summary.map fun x => (x.1, x.2.2)) = s.summary.map fun x => (x.1, x.2.2) := by
  simp only [PySig.summary, PySig.normalize, List.map_append, List.map_map, Function.comp_def, List.append_assoc]
  congr 1
  rw [← List.append_assoc, ← List.map_append, List.take_append_drop]

/-- **sig_valid** (full statement; repaired rule): the emitted parameter list is an instance of Python's
    grammar production, whatever the parameter names. -/
theorem sig_valid (s : PySig) (hd : s.DefaultsOk) : GrammarShape (emitArgs c sl true false s.toMypy) := by
  rw [emit_contig, PySig.toMypy, prefixOnly_toMypy]
  exact valid_E c sl (fun _ => false) s.normalize (defaultsOk_normalize s hd) (normalize_noElide s)

/-- **sig_roundtrip_partial** (either rule): when no parameter outside the `/` prefix is named `__x`, the
    emitted parameter list reads back as exactly the source's names, kinds and has-default flags. -/
theorem sig_roundtrip_partial (contig : Bool) (s : PySig) (hd : s.DefaultsOk) (hne : s.NoElide)
    (hg : s.GoodDefaults c) : parseItems (emitArgs c sl contig false s.toMypy) = some s.summary := by
  cases contig with
  | false => exact roundtrip_E c sl elide s hd hne hg
  | true => rw [sig_roundtrip c sl s hd hg, normalize_of_noElide s hne]

/-- **sig_valid_partial** (either rule) -/
theorem sig_valid_partial (contig : Bool) (s : PySig) (hd : s.DefaultsOk) (hne : s.NoElide) :
    GrammarShape (emitArgs c sl contig false s.toMypy) := by
  cases contig with
  | false => exact valid_E c sl elide s hd hne
  | true => exact sig_valid c sl s hd

/-- **sig_roundtrip_magic** (either rule): for the methods of MAGIC_METHODS_POS_ARGS_ONLY the `pos_only` flags
    are ignored, so the round trip holds whatever the parameter names are — provided the source has no `/`
    (one in the source is dropped by design: mypy elides those names anyway). -/
theorem sig_roundtrip_magic (contig : Bool) (s : PySig) (hpo : s.po = []) (hd : s.DefaultsOk)
    (hg : s.GoodDefaults c) : parseItems (emitArgs c sl contig true s.toMypy) = some s.summary := by
  have h0 : parseItems (emitArgs c sl false true s.toMypy) = some s.summary := by
    rw [emit_magic, PySig.toMypy, toMypy_clearPO elide s hpo]
    exact roundtrip_E c sl (fun _ => false) s hd (by simp [PySig.NoElideE]) hg
  cases contig with
  | false => exact h0
  | true => rw [emit_contig_magic]; exact h0

/-! The rule as found: `make_argument` sets `pos_only` for every parameter named `__x`, whatever its kind and
    position, and `_get_func_args` *counts* the flags to place the `/`. -/

/-- `def k(__x, *, __y): ...`  ⟶  `def k(__x, *, /, __y)` -/
def witnessSyntax : PySig :=
  { po := [], pp := [⟨['_','_','x'], none, none⟩], va := none, kw := [⟨['_','_','y'], none, none⟩], ka := none }

/-- `def k(a, *, __x): ...`  ⟶  `def k(a, /, *, __x)`: `a` silently becomes positional-only -/
def witnessKind : PySig :=
  { po := [], pp := [⟨['a'], none, none⟩], va := none, kw := [⟨['_','_','x'], none, none⟩], ka := none }

theorem witnessSyntax_unparseable :
    parseItems (emitArgs DCfg.asFound (fun _ => 0) false false witnessSyntax.toMypy) = none := by decide

theorem witnessKind_changed :
    parseItems (emitArgs DCfg.asFound (fun _ => 0) false false witnessKind.toMypy) =
      some [(['a'], .posOnly, false), (['_','_','x'], .kwOnly, false)] := by decide

/-- the full statements, as predicates of the rule -/
def SigAlwaysParses (contig : Bool) : Prop :=
  ∀ (c : DCfg) (sl : Nat → Nat) (s : PySig), s.DefaultsOk → s.GoodDefaults c →
    (parseItems (emitArgs c sl contig false s.toMypy)).isSome = true

def SigRoundTrips (contig : Bool) : Prop :=
  ∀ (c : DCfg) (sl : Nat → Nat) (s : PySig), s.DefaultsOk → s.GoodDefaults c →
    parseItems (emitArgs c sl contig false s.toMypy) = some s.normalize.summary

/-- **not_sig_valid** (rule as found): an emitted parameter list that Python rejects. -/
theorem not_sig_valid : ¬ SigAlwaysParses false := by
  intro h
  have := h DCfg.asFound (fun _ => 0) witnessSyntax (by decide) (by decide)
  rw [witnessSyntax_unparseable] at this
  cases this

/-- **not_sig_roundtrip** (rule as found) -/
theorem not_sig_roundtrip : ¬ SigRoundTrips false := by
  intro h
  have := h DCfg.asFound (fun _ => 0) witnessSyntax (by decide) (by decide)
  rw [witnessSyntax_unparseable] at this
  cases this

/-- **sig_valid_status / sig_roundtrip_status**: the full statements hold exactly of the repaired rule. -/
theorem sig_valid_status (contig : Bool) : SigAlwaysParses contig ↔ contig = true := by
  constructor
  · intro h; cases contig with
    | true => rfl
    | false => exact absurd h not_sig_valid
  · intro h; subst h; intro c sl s hd hg; rw [sig_roundtrip c sl s hd hg]; rfl

theorem sig_roundtrip_status (contig : Bool) : SigRoundTrips contig ↔ contig = true := by
  constructor
  · intro h; cases contig with
    | true => rfl
    | false => exact absurd h not_sig_roundtrip
  · intro h; subst h; intro c sl s hd hg; exact sig_roundtrip c sl s hd hg

/-- the obligations for the tree under check (regenerated constant) -/
theorem checked_tree_sig_valid : SigAlwaysParses StubCfg.slashContiguous ↔ StubCfg.slashContiguous = true :=
  sig_valid_status _
theorem checked_tree_sig_roundtrip : SigRoundTrips StubCfg.slashContiguous ↔ StubCfg.slashContiguous = true :=
  sig_roundtrip_status _

-- non-vacuity: a signature using every parameter kind satisfies the hypotheses, and the round trip is concrete
def demoSig : PySig :=
  { po := [⟨['s','e','l','f'], none, none⟩, ⟨['a'], some "int", none⟩],
    pp := [⟨['b'], none, some (.const .none)⟩],
    va := none,
    kw := [⟨['c'], some "str", none⟩, ⟨['d'], none, some (.const .true)⟩],
    ka := some ⟨['k','w'], none⟩ }
example : demoSig.DefaultsOk ∧ demoSig.NoElide ∧ demoSig.GoodDefaults DCfg.asFound := by decide
example : (parseItems (emitArgs DCfg.asFound (fun _ => 0) false false demoSig.toMypy)) = some demoSig.summary :=
  sig_roundtrip_partial _ _ false demoSig (by decide) (by decide) (by decide)
example : (emitArgs DCfg.asFound (fun _ => 0) false false demoSig.toMypy).length = 8 := by decide   -- 6 parameters + `/` + `*`
-- the repaired rule on the two witnesses: valid, and `a` stays positional-or-keyword
example : parseItems (emitArgs DCfg.repaired (fun _ => 0) true false witnessSyntax.toMypy) =
    some [(['_','_','x'], .posOnly, false), (['_','_','y'], .kwOnly, false)] := by decide
example : parseItems (emitArgs DCfg.repaired (fun _ => 0) true false witnessKind.toMypy) = some witnessKind.summary := by
  decide

end StubSig

namespace StubDefault

/-! ## (b) default-value rendering -/

/-- **default_is_valid_expr_partial** (either variant of every rule): when every `not` operator is spaced by
    the tree (or absent) and every bytes literal renders to one well-formed lexeme (`DExpr.good`), the emitted
    default — the rendered literal, or `...` when the code gives up or the text is longer than 200 characters —
    is an expression of Python's grammar. -/
theorem default_is_valid_expr_partial (c : DCfg) (sl : Nat → Nat) (e : DExpr) (hg : e.good c = true) :
    IsExpr (defaultToks c sl e) := by
  unfold defaultToks
  cases h : render c e with
  | none => exact IsExpr.ellipsis
  | some t =>
    simp only
    split
    · exact render_isExpr c e t h hg
    · exact IsExpr.ellipsis

/-- **default_is_valid_expr** (full statement; holds of the repaired `not` and bytes rules): for every
    initializer mypy's parser can produce (`wf`: bytes bodies are bytes-`repr` bodies) the emitted default is an
    expression of Python's grammar. -/
theorem default_is_valid_expr (c : DCfg) (hn : c.notSpaced = true) (hb : c.bytesQuote = true) (sl : Nat → Nat)
    (e : DExpr) (hw : e.wf = true) : IsExpr (defaultToks c sl e) :=
  default_is_valid_expr_partial c sl e (good_of_wf c hn hb e hw)

/-- **infer_type_sound**: when `get_str_type_of_node` names a type for an unannotated parameter's default
    (`x=-1` ↦ `x: int = -1`), that is the run-time type of the literal — for every literal, through any
    nesting of unary operators (`- -1.5` is `float`, `not not True` is `bool`, `-True` and `~1` get no
    annotation). -/
theorem infer_type_sound (e : DExpr) (t : String) (h : inferType e = some t) : typeOf e = some t := by
  unfold inferType at h
  cases e with
  | unary o inner =>
    simp only [maybeUnwrap] at h
    by_cases hm : o.isMath = true
    · simp only [hm, ↓reduceIte] at h
      rcases unwrapMath_shape (.unary o inner) ⟨o, inner, rfl⟩ with hnum | ⟨o', e', hu⟩
      · rw [unwrapMath_sound _ hnum]
        cases hr : unwrapMath (.unary o inner) <;> simp_all [typeOf, isNumAtom]
      · rw [hu] at h; simp at h
    · simp only [hm, Bool.false_eq_true, ↓reduceIte] at h
      by_cases hn : (o == UOp.not) = true
      · simp only [hn, ↓reduceIte] at h
        rcases unwrapNot_shape (.unary o inner) ⟨o, inner, rfl⟩ with hb | ⟨o', e', hu⟩
        · rw [unwrapNot_sound _ hb]
          cases hr : unwrapNot (.unary o inner) with
          | const c => cases c <;> simp_all [isBoolConst]
          | _ => simp_all [isBoolConst]
        · rw [hu] at h; simp at h
      · simp only [hn, Bool.false_eq_true, ↓reduceIte] at h
        simp at h
  | const c => cases c <;> simp_all [maybeUnwrap, typeOf]
  | _ => simp_all [maybeUnwrap, typeOf]

example : inferType (.unary .neg (.unary .pos (.float "1.5" true))) = some "float" ∧
    inferType (.unary .not (.unary .not (.const .true))) = some "bool" ∧
    inferType (.unary .neg (.const .true)) = none ∧ inferType (.unary .inv (.int 1)) = none := by decide

/-- **default_closed_partial** (either variant): under `good`, and when every float literal is finite (or the
    tree does not render the others), the emitted default contains no free name and no mis-lexed text: it is a
    literal display (or `...`) and denotes in the stub what the initializer denotes in the source. -/
theorem default_closed_partial (c : DCfg) (sl : Nat → Nat) (e : DExpr) (hg : e.good c = true)
    (hf : e.finite c = true) : Closed (defaultToks c sl e) = true := by
  unfold defaultToks
  cases h : render c e with
  | none => rfl
  | some t =>
    simp only
    split
    · exact render_closed c e t h hg hf
    · rfl

/-- **default_closed** (full statement; holds of the three repaired rules) -/
theorem default_closed (c : DCfg) (hn : c.notSpaced = true) (hf : c.nonFiniteEllipsis = true)
    (hb : c.bytesQuote = true) (sl : Nat → Nat) (e : DExpr) (hw : e.wf = true) :
    Closed (defaultToks c sl e) = true :=
  default_closed_partial c sl e (good_of_wf c hn hb e hw) (finite_repaired c hf e)

/-- `b'\'"'` (a bytes literal containing both kinds of quote): BytesExpr.value is `\'"` -/
def witnessBytes : DExpr := .bytes ['\\', '\'', '"']
/-- `not 1.5` -/
def witnessNotFloat : DExpr := .unary .not (.float "1.5" true)
/-- `not 1` -/
def witnessNotInt : DExpr := .unary .not (.int 1)
/-- `1e999` -/
def witnessInf : DExpr := .float "inf" false

example : witnessBytes.wf = true ∧ witnessNotFloat.wf = true ∧ witnessNotInt.wf = true ∧ witnessInf.wf = true := by
  decide

/-- the full statements, as predicates of the rules -/
def DefaultAlwaysExpr (c : DCfg) : Prop := ∀ (sl : Nat → Nat) (e : DExpr), e.wf = true → IsExpr (defaultToks c sl e)
def DefaultAlwaysClosed (c : DCfg) : Prop :=
  ∀ (sl : Nat → Nat) (e : DExpr), e.wf = true → Closed (defaultToks c sl e) = true

/-- as found, `b'\'"'` is rendered `b'\\'"'`: not one literal -/
theorem witnessBytes_invalid (c : DCfg) (h : c.bytesQuote = false) : ¬ IsExpr (defaultToks c (fun _ => 0) witnessBytes) := by
  obtain ⟨a, b, d⟩ := c
  simp only at h; subst h
  have e1 : defaultToks ⟨a, b, false⟩ (fun _ => 0) witnessBytes = [.bytes "'\\\\'\"'".toList] := by
    cases a <;> cases b <;> decide
  rw [e1]; exact bad_bytes_not_expr _ (by decide)

/-- as found, `not 1.5` is rendered `not1.5` -/
theorem witnessNotFloat_invalid (c : DCfg) (h : c.notSpaced = false) :
    ¬ IsExpr (defaultToks c (fun _ => 0) witnessNotFloat) := by
  obtain ⟨a, b, d⟩ := c
  simp only at h; subst h
  have e1 : defaultToks ⟨false, b, d⟩ (fun _ => 0) witnessNotFloat = [.raw "not1.5"] := by
    cases b <;> cases d <;> decide
  rw [e1]; exact raw_not_expr _

/-- **not_default_is_valid_expr** (either rule as found) -/
theorem not_default_is_valid_expr (c : DCfg) (h : c.notSpaced = false ∨ c.bytesQuote = false) :
    ¬ DefaultAlwaysExpr c := by
  intro hall
  rcases h with h | h
  · exact witnessNotFloat_invalid c h (hall _ _ (by decide))
  · exact witnessBytes_invalid c h (hall _ _ (by decide))

/-- as found, `not 1` is the free name `not1` and `1e999` the free name `inf` -/
theorem witnessNotInt_free_name (c : DCfg) (h : c.notSpaced = false) :
    defaultToks c (fun _ => 0) witnessNotInt = [.name "not1"] := by
  obtain ⟨a, b, d⟩ := c
  simp only at h; subst h
  cases b <;> cases d <;> decide

theorem witnessInf_free_name (c : DCfg) (h : c.nonFiniteEllipsis = false) :
    defaultToks c (fun _ => 0) witnessInf = [.name "inf"] := by
  obtain ⟨a, b, d⟩ := c
  simp only at h; subst h
  cases a <;> cases d <;> decide

/-- **not_default_closed** (the `not` or the float rule as found) -/
theorem not_default_closed (c : DCfg) (h : c.notSpaced = false ∨ c.nonFiniteEllipsis = false) :
    ¬ DefaultAlwaysClosed c := by
  intro hall
  rcases h with h | h
  · have := hall (fun _ => 0) witnessNotInt (by decide)
    rw [witnessNotInt_free_name c h] at this; revert this; decide
  · have := hall (fun _ => 0) witnessInf (by decide)
    rw [witnessInf_free_name c h] at this; revert this; decide

/-- **default_valid_status / default_closed_status**: the full statements hold exactly of the repaired rules. -/
theorem default_valid_status (c : DCfg) : DefaultAlwaysExpr c ↔ (c.notSpaced = true ∧ c.bytesQuote = true) := by
  constructor
  · intro h
    cases hn : c.notSpaced with
    | false => exact absurd h (not_default_is_valid_expr c (Or.inl hn))
    | true =>
      cases hb : c.bytesQuote with
      | false => exact absurd h (not_default_is_valid_expr c (Or.inr hb))
      | true => exact ⟨rfl, rfl⟩
  · intro ⟨hn, hb⟩ sl e hw; exact default_is_valid_expr c hn hb sl e hw

/-- "the emitted default is always a closed literal expression" holds exactly when all three rules are repaired -/
def DefaultAlwaysLiteral (c : DCfg) : Prop := DefaultAlwaysExpr c ∧ DefaultAlwaysClosed c

theorem default_literal_status (c : DCfg) :
    DefaultAlwaysLiteral c ↔ (c.notSpaced = true ∧ c.nonFiniteEllipsis = true ∧ c.bytesQuote = true) := by
  constructor
  · intro ⟨he, hc⟩
    obtain ⟨hn, hb⟩ := (default_valid_status c).1 he
    cases hf : c.nonFiniteEllipsis with
    | false => exact absurd hc (not_default_closed c (Or.inr hf))
    | true => exact ⟨hn, rfl, hb⟩
  · intro ⟨hn, hf, hb⟩
    exact ⟨fun sl e hw => default_is_valid_expr c hn hb sl e hw, fun sl e hw => default_closed c hn hf hb sl e hw⟩

/-- the obligations for the tree under check (regenerated constants) -/
def current : DCfg := ⟨StubCfg.notSpaced, StubCfg.nonFiniteEllipsis, StubCfg.bytesQuote⟩

theorem checked_tree_default_valid :
    DefaultAlwaysExpr current ↔ (StubCfg.notSpaced = true ∧ StubCfg.bytesQuote = true) :=
  default_valid_status current

theorem checked_tree_default_literal :
    DefaultAlwaysLiteral current ↔
      (StubCfg.notSpaced = true ∧ StubCfg.nonFiniteEllipsis = true ∧ StubCfg.bytesQuote = true) :=
  default_literal_status current

/-! a sufficient syntactic condition for a bytes literal to be rendered well: no backslash, no `'` -/

/-- **plain_bytes_ok**: a bytes literal whose repr body has no backslash and no single quote is rendered
    as one well-formed bytes literal (so `DExpr.good` holds for it). -/
theorem plain_bytes_ok (b : List Char) (h : ∀ c ∈ b, c ≠ '\\' ∧ c ≠ '\'') : lexOk (renderBytes b) = true := by
  have hq : reprQuote b = '\'' := by
    unfold reprQuote
    have : b.contains '\'' = false := by
      simp only [List.contains_eq_mem, decide_eq_false_iff_not]
      intro hm; exact (h _ hm).2 rfl
    simp only [this, Bool.false_and, Bool.false_eq_true, ↓reduceIte]
  unfold renderBytes pyReprStr
  rw [hq, escapeFor_id '\'' b h]
  have hnb : ∀ c ∈ '\'' :: b ++ ['\''], c ≠ '\\' := by
    intro c hc
    simp only [List.cons_append, List.mem_cons, List.mem_append, List.not_mem_nil, or_false] at hc
    rcases hc with rfl | hc | rfl
    · decide
    · exact (h c hc).1
    · decide
  rw [dedouble_id _ hnb]
  simp only [List.cons_append, lexOk, beq_self_eq_true, Bool.true_or, Bool.true_and]
  exact scanLit_plain '\'' b h

-- non-vacuity: a nested literal satisfies the hypotheses; the emitted default is concrete
def demoDefault : DExpr :=
  .tuple (.cons (.int 1) (.cons (.list (.cons (.unary .neg (.float "1.5" true)) (.cons (.bytes ['x', '"']) .nil)))
    (.cons (.dict (.cons (.str 0) (.const .none) .nil)) .nil)))
example : demoDefault.good DCfg.asFound = true ∧ demoDefault.finite DCfg.asFound = true ∧ demoDefault.wf = true := by decide
example : renderText (defaultToks DCfg.asFound (fun _ => 3) demoDefault) = "(1, [-1.5, b'x\"'], {'s0': None})" := by decide
example : renderText (defaultToks DCfg.repaired (fun _ => 3) demoDefault) = "(1, [-1.5, b'x\"'], {'s0': None})" := by decide
example : IsExpr (defaultToks DCfg.asFound (fun _ => 3) demoDefault) := default_is_valid_expr_partial _ _ _ (by decide)
-- the repaired rules on the four witnesses
example : renderText (defaultToks DCfg.repaired (fun _ => 0) witnessNotInt) = "not 1" ∧
    renderText (defaultToks DCfg.repaired (fun _ => 0) witnessNotFloat) = "not 1.5" ∧
    renderText (defaultToks DCfg.repaired (fun _ => 0) witnessInf) = "..." ∧
    renderText (defaultToks DCfg.repaired (fun _ => 0) witnessBytes) = "b'\\'\"'" := by decide

end StubDefault

namespace StubImports

/-! ## (c) import bookkeeping -/

/-- closedness of one tracker state: every required name the tracker knows as imported is bound by the
    emitted import lines -/
theorem imports_closed_state (t : Tracker) (hI : KeysNE t) (r : DName) (hr : r ∈ t.required)
    (hk : hasKey r t.moduleFor = true) : available t.importLines r = true := by
  have hne : r ≠ [] := by
    unfold hasKey at hk
    cases hm : lookup r t.moduleFor with
    | none => rw [hm] at hk; cases hk
    | some v => exact hI _ (lookup_some_mem r v _ hm)
  obtain ⟨l, hl, hb⟩ := lineFor_binds t r hk hne
  simp only [available, Tracker.importLines, List.any_eq_true, List.mem_filterMap, decide_eq_true_eq]
  exact ⟨l, ⟨r, hr, hl⟩, hb⟩

/-- **imports_closed**.  For every sequence of `add_import_from` / `add_import` / `require_name` / `reexport`
    operations, in any order: every name in `required_names` that the tracker has seen in an import
    statement is bound by a line of `import_lines()`. -/
theorem imports_closed (ops : List Op) (r : DName) (hr : r ∈ (runOps ops).required)
    (hk : hasKey r (runOps ops).moduleFor = true) : available (runOps ops).importLines r = true :=
  imports_closed_state _ (runOps_keysNE ops {} (by intro p hp; cases hp)) r hr hk

/-- **imports_closed_request**.  Whenever, at any point of any operation sequence, the annotation printer
    asks for a name `q` (`require_name(q)`): the name recorded for it is a prefix `p` of `q` (its root
    module path), it is still recorded at the end, and — if `p` is known as imported then, or is imported
    by any later operation — the final import lines bind `p`.  (A `p` that is never imported is a name
    the tracker leaves to the stub's own definitions or to builtins.) -/
theorem imports_closed_request (ops1 ops2 : List Op) (q : DName) :
    let p := requireTarget (runOps ops1).direct q
    let t := runOps (ops1 ++ [Op.requireName q] ++ ops2)
    p <+: q ∧ p ∈ t.required ∧
    (hasKey p (runOps ops1).moduleFor = true ∨ hasKey p t.moduleFor = true → available t.importLines p = true) := by
  intro p t
  have hpre : p <+: q := requireTarget_prefix _ q
  have ht : t = runOps ops2 ((runOps ops1).requireName q) := by
    show runOps (ops1 ++ [Op.requireName q] ++ ops2) = _
    rw [runOps_append, runOps_append]; rfl
  have hmem1 : p ∈ ((runOps ops1).requireName q).required := by
    simp only [Tracker.requireName]; exact (mem_addSet _ _ _).2 (Or.inl rfl)
  have hmono := runOps_mono ops2 ((runOps ops1).requireName q)
  have hmem : p ∈ t.required := by rw [ht]; exact hmono.2 p hmem1
  refine ⟨hpre, hmem, ?_⟩
  intro hk
  have hk' : hasKey p t.moduleFor = true := by
    rcases hk with hk | hk
    · rw [ht]; exact hmono.1 p ((requireName_mono _ q).1 p hk)
    · exact hk
  exact imports_closed _ p hmem hk'

-- non-vacuity: a concrete operation sequence mixing all four operations
def i (s : String) : Ident := s.toList
def demoOps : List Op :=
  [ .addImport [i "os", i "path"] none false,
    .addImportFrom (i "typing") [(i "Any", none), (i "List", some (i "L"))] false,
    .requireName [i "os", i "path", i "PathLike"],
    .requireName [i "L"],
    .addImport [i "collections", i "abc"] (some (i "cabc")) true,
    .reexport [i "Any"],
    .requireName [i "Undefined", i "attr"] ]
example : (runOps demoOps).required =
    [[i "Undefined"], [i "Any"], [i "cabc"], [i "L"], [i "os", i "path"]] := by decide
example : (runOps demoOps).importLines =
    [ .fromImport (i "typing") [i "Any"] (some [i "Any"]), .importMod [i "collections", i "abc"] (some [i "cabc"]),
      .fromImport (i "typing") [i "List"] (some [i "L"]), .importMod [i "os", i "path"] none ] := by decide
example : available (runOps demoOps).importLines [i "os", i "path"] = true ∧
    available (runOps demoOps).importLines [i "Undefined"] = false := by decide

end StubImports

namespace StubRet

/-! ## (d) the return annotation: what is spelled out wins over the conventional type -/

/-- **annotation_preserved**.  For every function other than `__init__` that carries annotations — whatever its
    name (the special methods of `infer_method_ret_type`'s table included), abstractness and body — the stub's
    return annotation is the one the source spelled out; if the source spelled out none (implicit `Any`), none
    is emitted.  In particular the conventional type (`__lt__` ↦ `bool`, `__floor__` ↦ `int`, …) never
    replaces an explicit annotation. -/
theorem annotation_preserved (f : FuncInfo) (ha : f.annotated = true) (hn : f.name ≠ "__init__") :
    getFuncReturn f = f.retAnn := by
  simp [getFuncReturn, ha, hn]

/-- the converse reading: the emitted return type differs from the spelled-out one only for `__init__` or
    for functions without any annotation -/
theorem inferred_only_when_unannotated (f : FuncInfo) (h : getFuncReturn f ≠ f.retAnn) :
    f.annotated = false ∨ f.name = "__init__" := by
  cases ha : f.annotated with
  | false => exact Or.inl rfl
  | true =>
    right
    apply Classical.byContradiction
    intro hn
    exact h (annotation_preserved f ha hn)

/-- `__init__` always gets `-> None` (unless abstract) -/
theorem init_returns_none (f : FuncInfo) (hn : f.name = "__init__") (hab : f.abstract = false) :
    getFuncReturn f = some "None" := by
  simp [getFuncReturn, hn, hab, methodsWithReturnValue, inferMethodRet, dunder]

-- non-vacuity: a rich comparison returning a mask, a `__floor__` returning the vector type
example : getFuncReturn ⟨"__lt__", true, some "Mask", false, false, false, false, false, false, true⟩ = some "Mask" := by decide
example : getFuncReturn ⟨"__floor__", true, some "Vec", false, false, false, false, false, false, true⟩ = some "Vec" := by decide
example : getFuncReturn ⟨"__floor__", false, none, false, false, false, false, false, false, true⟩ = some "int" := by decide
example : getFuncReturn ⟨"gen", false, none, false, false, false, true, true, true, true⟩ =
    some "Generator[Incomplete, Incomplete, Incomplete]" := by decide

end StubRet
