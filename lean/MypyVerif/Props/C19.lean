import MypyVerif.Proofs.StubSig
/-!
# C19 — generated stubs are valid, self-consistent and faithful: the three decision cores

Property theorems only (helpers: Proofs/StubSig.lean).  What is proved here is about the *models* of
(a) signature emission, (b) default-value rendering, (c) import bookkeeping; validity and faithfulness of
whole stubs are searched with the real tools (harness/c19), not proved.
-/
namespace StubSig
open StubDefault

variable (sl : Nat → Nat)

/-! ## (a) signature emission -/

def PySig.aPo (s : PySig) : List Arg := s.po.map (mkArg .pos true)
def PySig.aPp (s : PySig) : List Arg := s.pp.map (mkArg .pos false)
def PySig.aVa (s : PySig) : List Arg := s.va.toList.map (mkVArg .star)
def PySig.aKw (s : PySig) : List Arg := s.kw.map (mkArg .named false)
def PySig.aKa (s : PySig) : List Arg := s.ka.toList.map (mkVArg .star2)

/-- the bare `*` is emitted exactly when there are keyword-only parameters and no `*args` -/
def PySig.starItems (s : PySig) : List Item := if s.va.isNone && !s.kw.isEmpty then [.bareStar] else []

/-- the emitted parameter list, written along the grammar's production -/
def PySig.shape (s : PySig) : List Item :=
  itemsFrom sl 0 s.aPo ++ (if s.po.isEmpty then [] else [Item.slash]) ++
  itemsFrom sl s.po.length s.aPp ++ itemsFrom sl (s.po.length + s.pp.length) s.aVa ++ s.starItems ++
  itemsFrom sl (s.po.length + s.pp.length + s.aVa.length) s.aKw ++
  itemsFrom sl (s.po.length + s.pp.length + s.aVa.length + s.kw.length) s.aKa

theorem countPO_aPo (s : PySig) : countPO s.aPo = s.po.length := by
  simp [countPO, PySig.aPo, mkArg, List.filter_map, Function.comp_def]

theorem countPO_noElide (l : List PParam) (k : AKind) (h : ∀ p ∈ l, elide p.name = false) :
    countPO (l.map (mkArg k false)) = 0 := by
  induction l with
  | nil => rfl
  | cons p r ih =>
    have hp := h p (by simp)
    have := ih (fun x hx => h x (by simp [hx]))
    simp only [countPO, List.map_cons, List.filter_cons, mkArg, hp, Bool.or_self, Bool.false_eq_true,
      ↓reduceIte] at this ⊢
    exact this

theorem countPO_v (o : Option VParam) (k : AKind) (h : ∀ p ∈ o, elide p.name = false) :
    countPO (o.toList.map (mkVArg k)) = 0 := by
  cases o with
  | none => rfl
  | some v => have := h v rfl; simp [countPO, mkVArg, this]

/-- The loop of `_get_func_args` followed by the `/` insertion produces exactly the grammar-shaped list. -/
theorem emit_shape (s : PySig) (hne : s.NoElide) : emitArgs sl false s.toMypy = s.shape sl := by
  obtain ⟨hpp, hva, hkw, hka⟩ := hne
  have hsplit : s.toMypy = (s.aPo ++ s.aPp ++ s.aVa) ++ s.aKw ++ s.aKa := by
    simp [PySig.toMypy, PySig.aPo, PySig.aPp, PySig.aVa, PySig.aKw, PySig.aKa]
  have h1 : ∀ a ∈ s.aPo ++ s.aPp ++ s.aVa, a.kind ≠ .named := by
    intro a ha
    simp only [PySig.aPo, PySig.aPp, PySig.aVa, List.mem_append, List.mem_map] at ha
    rcases ha with (⟨p, _, rfl⟩ | ⟨p, _, rfl⟩) | ⟨p, _, rfl⟩ <;> simp [mkArg, mkVArg]
  have hkwk : ∀ a ∈ s.aKw, a.kind = .named := by
    intro a ha; simp only [PySig.aKw, List.mem_map] at ha; obtain ⟨p, _, rfl⟩ := ha; rfl
  have hkak : ∀ a ∈ s.aKa, a.kind ≠ .named := by
    intro a ha; simp only [PySig.aKa, List.mem_map] at ha; obtain ⟨p, _, rfl⟩ := ha; simp [mkVArg]
  have hcnt : countPO (s.aPo ++ s.aPp ++ s.aVa) = s.po.length := by
    rw [countPO_append, countPO_append, countPO_aPo]
    have := countPO_noElide s.pp .pos hpp
    have := countPO_v s.va .star hva
    simp_all [PySig.aPp, PySig.aVa]
  have hcntkw : countPO s.aKw = 0 := countPO_noElide s.kw .named hkw
  have hcntka : countPO s.aKa = 0 := countPO_v s.ka .star2 hka
  -- the state after the three non-keyword segments
  have hst1 := fold_nonNamed sl (s.aPo ++ s.aPp ++ s.aVa) h1 { out := [], cnt := 0, idx := 0 }
  simp only [List.nil_append, Nat.zero_add, hcnt] at hst1
  -- starred-ness of what has been collected so far
  have hstar : (itemsFrom sl 0 (s.aPo ++ s.aPp ++ s.aVa)).any Item.starred = s.va.isSome := by
    rw [itemsFrom_append, List.any_append]
    have hp : (itemsFrom sl 0 (s.aPo ++ s.aPp)).any Item.starred = false := by
      apply itemsFrom_params_not_starred
      intro a ha
      simp only [PySig.aPo, PySig.aPp, List.mem_append, List.mem_map] at ha
      rcases ha with ⟨p, _, rfl⟩ | ⟨p, _, rfl⟩ <;> exact Or.inl rfl
    rw [hp, Bool.false_or]
    cases hv : s.va with
    | none => simp [PySig.aVa, hv, itemsFrom]
    | some v =>
      have he : ∀ f, (argItem sl f (mkVArg .star v)).starred = true := by
        intro f; obtain ⟨ann, he⟩ := argItem_star sl f (mkVArg .star v) rfl rfl; rw [he]; rfl
      simp [PySig.aVa, hv, itemsFrom, he]
  -- the keyword-only segment
  have hst2 : (s.aKw).foldl (estep sl false)
        { out := itemsFrom sl 0 (s.aPo ++ s.aPp ++ s.aVa), cnt := s.po.length, idx := (s.aPo ++ s.aPp ++ s.aVa).length } =
      { out := itemsFrom sl 0 (s.aPo ++ s.aPp ++ s.aVa) ++ s.starItems ++
                 itemsFrom sl (s.aPo ++ s.aPp ++ s.aVa).length s.aKw,
        cnt := s.po.length, idx := (s.aPo ++ s.aPp ++ s.aVa).length + s.aKw.length } := by
    cases hk : s.aKw with
    | nil =>
      have : s.kw = [] := by simpa [PySig.aKw] using hk
      simp [itemsFrom, PySig.starItems, this]
    | cons a r =>
      have hkne : s.kw.isEmpty = false := by
        cases hq : s.kw with
        | nil => simp [PySig.aKw, hq] at hk
        | cons _ _ => rfl
      rw [hk] at hkwk hcntkw
      cases hv : s.va with
      | none =>
        rw [fold_named_fresh sl a r hkwk _ (by rw [hstar, hv]; rfl)]
        simp [PySig.starItems, hv, hkne, hcntkw]
      | some v =>
        rw [fold_named_starred sl (a :: r) hkwk _ (by rw [hstar, hv]; rfl)]
        simp [PySig.starItems, hv, hcntkw]
  have hst3 := fold_nonNamed sl s.aKa hkak
    { out := itemsFrom sl 0 (s.aPo ++ s.aPp ++ s.aVa) ++ s.starItems ++
               itemsFrom sl (s.aPo ++ s.aPp ++ s.aVa).length s.aKw,
      cnt := s.po.length, idx := (s.aPo ++ s.aPp ++ s.aVa).length + s.aKw.length }
  simp only [hcntka, Nat.add_zero] at hst3
  have hlen : (s.aPo ++ s.aPp ++ s.aVa).length = s.po.length + s.pp.length + s.aVa.length := by
    simp [PySig.aPo, PySig.aPp]; omega
  have hlenkw : s.aKw.length = s.kw.length := by simp [PySig.aKw]
  unfold emitArgs
  rw [hsplit, List.foldl_append, List.foldl_append, hst1, hst2, hst3]
  simp only [hlen, hlenkw]
  rw [itemsFrom_append, itemsFrom_append]
  have hpolen : (itemsFrom sl 0 s.aPo).length = s.po.length := by
    rw [itemsFrom_length]; simp [PySig.aPo]
  have hapolen : s.aPo.length = s.po.length := by simp [PySig.aPo]
  have happlen : s.aPp.length = s.pp.length := by simp [PySig.aPp]
  unfold PySig.shape
  cases hpo : s.po with
  | nil =>
    simp [PySig.aPo, hpo, itemsFrom, happlen]
  | cons p r =>
    have hne0 : ¬ (p :: r).length = 0 := by simp
    rw [hpo] at hpolen hapolen
    simp only [hne0, ↓reduceIte, List.isEmpty_cons, Bool.false_eq_true, hapolen, happlen,
      List.length_append, Nat.zero_add, List.append_assoc]
    rw [← hpolen, insertAt_length_append]
    simp [hpolen]

end StubSig
