import MypyVerif.Proofs.StubSig
import MypyVerif.Proofs.StubImports
import MypyVerif.Proofs.StubDefault
/-!
# C19 — generated stubs are valid, self-consistent and faithful: the three decision cores

Property theorems only (helpers: Proofs/StubSig.lean, Proofs/StubDefault.lean, Proofs/StubImports.lean).
What is proved here is about the *models* of (a) signature emission, (b) default-value rendering,
(c) import bookkeeping; validity and faithfulness of whole stubs are searched with the real tools
(harness/c19), not proved.

Three full-strength statements are false of the current code and are kept visible as `not_…` theorems with
concrete witnesses (replayed on the real stubgen by harness/c19 on every run):
  * `not_sig_roundtrip`, `not_sig_valid`      — parameters named `__x` outside the `/` prefix   (F-C19-1)
  * `not_default_closed`                      — `not 1` ↦ `not1`, `1e999` ↦ `inf`               (F-C19-2, F-C19-3)
  * `not_default_is_valid_expr`               — bytes containing both quote characters          (F-C19-4)
-/
namespace StubSig
open StubDefault

variable (sl : Nat → Nat)

/-! ## (a) signature emission -/

/-- **sig_roundtrip** (the provable part).  For every signature Python's grammar admits — any number of
    positional-only, positional, keyword-only parameters, optional `*args`/`**kwargs`, any annotations,
    defaults obeying the compiler's rule — in which no parameter outside the `/` prefix is named `__x` and
    every initializer satisfies the hypotheses of (b): Python reads the emitted parameter list back as the
    same names, kinds and has-default flags. -/
theorem sig_roundtrip_partial (s : PySig) (hd : s.DefaultsOk) (hne : s.NoElide) (hg : s.GoodDefaults) :
    parseItems (emitArgs sl false s.toMypy) = some s.summary :=
  roundtrip_E sl elide s hd hne hg

/-- **sig_valid** (the provable part): the emitted parameter list is an instance of Python's grammar
    production (`GrammarShape`) — `/` only after at least one positional-only parameter, at most one `*`
    (bare only when a keyword-only parameter follows), at most one `**` and it is last, no non-default after
    a default among the positionals. -/
theorem sig_valid_partial (s : PySig) (hd : s.DefaultsOk) (hne : s.NoElide) :
    GrammarShape (emitArgs sl false s.toMypy) :=
  valid_E sl elide s hd hne

/-- **sig_roundtrip_magic**: for the methods of MAGIC_METHODS_POS_ARGS_ONLY (`__add__`, `__eq__`, …) the
    `pos_only` flags are ignored, so the round trip holds whatever the parameter names are — provided the
    source has no `/` (one in the source is dropped by design: mypy elides those names anyway). -/
theorem sig_roundtrip_magic (s : PySig) (hpo : s.po = []) (hd : s.DefaultsOk) (hg : s.GoodDefaults) :
    parseItems (emitArgs sl true s.toMypy) = some s.summary := by
  rw [emit_magic, PySig.toMypy, toMypy_clearPO elide s hpo]
  exact roundtrip_E sl (fun _ => false) s hd (by simp [PySig.NoElideE]) hg

/-- corollary: Python accepts the emitted parameter list -/
theorem sig_parses_partial (s : PySig) (hd : s.DefaultsOk) (hne : s.NoElide) (hg : s.GoodDefaults) :
    (parseItems (emitArgs sl false s.toMypy)).isSome = true := by
  rw [sig_roundtrip_partial sl s hd hne hg]; rfl

/-! The full statements (without `NoElide`) are false of the current code: `make_argument` sets `pos_only`
    for every parameter named `__x`, whatever its kind and position, and `_get_func_args` *counts* the
    flags to place the `/`. -/

def ident (s : String) : Ident := s.toList

/-- `def k(__x, *, __y): ...`  ⟶  `def k(__x, *, /, __y)` -/
def witnessSyntax : PySig :=
  { po := [], pp := [⟨['_','_','x'], none, none⟩], va := none, kw := [⟨['_','_','y'], none, none⟩], ka := none }

/-- `def k(a, *, __x): ...`  ⟶  `def k(a, /, *, __x)`: `a` silently becomes positional-only -/
def witnessKind : PySig :=
  { po := [], pp := [⟨['a'], none, none⟩], va := none, kw := [⟨['_','_','x'], none, none⟩], ka := none }

theorem witnessSyntax_unparseable : parseItems (emitArgs (fun _ => 0) false witnessSyntax.toMypy) = none := by
  decide

theorem witnessKind_changed :
    parseItems (emitArgs (fun _ => 0) false witnessKind.toMypy) =
      some [(['a'], .posOnly, false), (['_','_','x'], .kwOnly, false)] := by
  decide

/-- **not_sig_roundtrip**: the round trip fails for a signature Python accepts. -/
theorem not_sig_roundtrip :
    ¬ ∀ (sl : Nat → Nat) (s : PySig), s.DefaultsOk →
        parseItems (emitArgs sl false s.toMypy) = some s.summary := by
  intro h
  have := h (fun _ => 0) witnessSyntax (by decide)
  rw [witnessSyntax_unparseable] at this
  cases this

/-- **not_sig_valid**: an emitted parameter list that Python rejects. -/
theorem not_sig_valid :
    ¬ ∀ (sl : Nat → Nat) (s : PySig), s.DefaultsOk →
        (parseItems (emitArgs sl false s.toMypy)).isSome = true := by
  intro h
  have := h (fun _ => 0) witnessSyntax (by decide)
  rw [witnessSyntax_unparseable] at this
  cases this

-- non-vacuity: a signature using every parameter kind satisfies the hypotheses, and the round trip is concrete
def demoSig : PySig :=
  { po := [⟨['s','e','l','f'], none, none⟩, ⟨['a'], some "int", none⟩],
    pp := [⟨['b'], none, some (.const .none)⟩],
    va := none,
    kw := [⟨['c'], some "str", none⟩, ⟨['d'], none, some (.const .true)⟩],
    ka := some ⟨['k','w'], none⟩ }
example : demoSig.DefaultsOk ∧ demoSig.NoElide ∧ demoSig.GoodDefaults := by decide
example : (parseItems (emitArgs (fun _ => 0) false demoSig.toMypy)) = some demoSig.summary :=
  sig_roundtrip_partial _ demoSig (by decide) (by decide) (by decide)
example : (emitArgs (fun _ => 0) false demoSig.toMypy).length = 8 := by decide   -- 6 parameters + `/` + `*`

end StubSig

namespace StubDefault

/-! ## (b) default-value rendering -/

/-- **default_is_valid_expr** (the provable part): when the initializer contains no `not` operator and every
    bytes literal in it renders to one well-formed lexeme, the emitted default — the rendered literal, or
    `...` when the code gives up or the text is longer than 200 characters — is an expression of Python's
    grammar. -/
theorem default_is_valid_expr_partial (sl : Nat → Nat) (e : DExpr) (hg : e.good = true) :
    IsExpr (defaultToks sl e) := by
  unfold defaultToks
  cases h : render e with
  | none => exact IsExpr.ellipsis
  | some t =>
    simp only
    split
    · exact render_isExpr e t h hg
    · exact IsExpr.ellipsis

/-- **infer_type_sound**: when `get_str_type_of_node` names a type for an unannotated parameter's default
    (`x=-1` ↦ `x: int = -1`), that is the run-time type of the literal — for every literal, through any
    nesting of unary operators (`- -1.5` is `float`, `not not True` is `bool`, `-True` and `~1` get no
    annotation). -/
theorem infer_type_sound (e : DExpr) (t : String) (h : inferType e = some t) : typeOf e = some t := by
  unfold inferType at h
  cases e with
  | unary o inner =>
    simp only [maybeUnwrap] at h
    by_cases hm : o.isMath = true
    · simp only [hm, ↓reduceIte] at h
      rcases unwrapMath_shape (.unary o inner) ⟨o, inner, rfl⟩ with hnum | ⟨o', e', hu⟩
      · rw [unwrapMath_sound _ hnum]
        cases hr : unwrapMath (.unary o inner) <;> simp_all [typeOf, isNumAtom]
      · rw [hu] at h; simp at h
    · simp only [hm, Bool.false_eq_true, ↓reduceIte] at h
      by_cases hn : (o == UOp.not) = true
      · simp only [hn, ↓reduceIte] at h
        rcases unwrapNot_shape (.unary o inner) ⟨o, inner, rfl⟩ with hb | ⟨o', e', hu⟩
        · rw [unwrapNot_sound _ hb]
          cases hr : unwrapNot (.unary o inner) with
          | const c => cases c <;> simp_all [isBoolConst]
          | _ => simp_all [isBoolConst]
        · rw [hu] at h; simp at h
      · simp only [hn, Bool.false_eq_true, ↓reduceIte] at h
        simp at h
  | const c => cases c <;> simp_all [maybeUnwrap, typeOf]
  | _ => simp_all [maybeUnwrap, typeOf]

example : inferType (.unary .neg (.unary .pos (.float "1.5" true))) = some "float" ∧
    inferType (.unary .not (.unary .not (.const .true))) = some "bool" ∧
    inferType (.unary .neg (.const .true)) = none ∧ inferType (.unary .inv (.int 1)) = none := by decide

/-- **default_closed** (the provable part): under the same hypotheses and when every float literal is finite,
    the emitted default contains no free name and no mis-lexed text: it is a literal display (or `...`) and
    denotes in the stub what the initializer denotes in the source. -/
theorem default_closed_partial (sl : Nat → Nat) (e : DExpr) (hg : e.good = true) (hf : e.finite = true) :
    Closed (defaultToks sl e) = true := by
  unfold defaultToks
  cases h : render e with
  | none => rfl
  | some t =>
    simp only
    split
    · exact render_closed e t h hg hf
    · rfl

/-- `b'\'"'` (a bytes literal containing both kinds of quote): BytesExpr.value is `\'"`, rendered `b'\\'"'` -/
def witnessBytes : DExpr := .bytes ['\\', '\'', '"']
/-- `not 1.5` ⟶ the text `not1.5` -/
def witnessNotFloat : DExpr := .unary .not (.float "1.5" true)
/-- `not 1` ⟶ the text `not1`, a name -/
def witnessNotInt : DExpr := .unary .not (.int 1)
/-- `1e999` ⟶ the text `inf`, a name -/
def witnessInf : DExpr := .float "inf" false

/-- **not_default_is_valid_expr**: full statement refuted (two independent witnesses). -/
theorem not_default_is_valid_expr : ¬ ∀ (sl : Nat → Nat) (e : DExpr), IsExpr (defaultToks sl e) := by
  intro h
  have h1 := h (fun _ => 0) witnessBytes
  have e1 : defaultToks (fun _ => 0) witnessBytes = [.bytes "'\\\\'\"'".toList] := by decide
  rw [e1] at h1
  exact bad_bytes_not_expr _ (by decide) h1

theorem witnessNotFloat_invalid : ¬ IsExpr (defaultToks (fun _ => 0) witnessNotFloat) := by
  have e1 : defaultToks (fun _ => 0) witnessNotFloat = [.raw "not1.5"] := by decide
  rw [e1]; exact raw_not_expr _

/-- **not_default_closed**: `not 1` and `1e999` are emitted as the free names `not1` and `inf`. -/
theorem not_default_closed :
    ¬ ∀ (sl : Nat → Nat) (e : DExpr), e.finite = true → Closed (defaultToks sl e) = true := by
  intro h
  have := h (fun _ => 0) witnessNotInt (by decide)
  revert this; decide

theorem witnessInf_free_name : defaultToks (fun _ => 0) witnessInf = [.name "inf"] := by decide

/-! a sufficient syntactic condition for a bytes literal to be rendered well: no backslash, no `'` -/

/-- **plain_bytes_ok**: a bytes literal whose repr body has no backslash and no single quote is rendered
    as one well-formed bytes literal (so `DExpr.good` holds for it). -/
theorem plain_bytes_ok (b : List Char) (h : ∀ c ∈ b, c ≠ '\\' ∧ c ≠ '\'') : lexOk (renderBytes b) = true := by
  have hq : reprQuote b = '\'' := by
    unfold reprQuote
    have : b.contains '\'' = false := by
      simp only [List.contains_eq_mem, decide_eq_false_iff_not]
      intro hm; exact (h _ hm).2 rfl
    simp only [this, Bool.false_and, Bool.false_eq_true, ↓reduceIte]
  unfold renderBytes pyReprStr
  rw [hq, escapeFor_id '\'' b h]
  have hnb : ∀ c ∈ '\'' :: b ++ ['\''], c ≠ '\\' := by
    intro c hc
    simp only [List.cons_append, List.mem_cons, List.mem_append, List.not_mem_nil, or_false] at hc
    rcases hc with rfl | hc | rfl
    · decide
    · exact (h c hc).1
    · decide
  rw [dedouble_id _ hnb]
  simp only [List.cons_append, lexOk, beq_self_eq_true, Bool.true_or, Bool.true_and]
  exact scanLit_plain '\'' b h

-- non-vacuity: a nested literal satisfies the hypotheses; the emitted default is concrete
def demoDefault : DExpr :=
  .tuple (.cons (.int 1) (.cons (.list (.cons (.unary .neg (.float "1.5" true)) (.cons (.bytes ['x', '"']) .nil)))
    (.cons (.dict (.cons (.str 0) (.const .none) .nil)) .nil)))
example : demoDefault.good = true ∧ demoDefault.finite = true := by decide
example : renderText (defaultToks (fun _ => 3) demoDefault) = "(1, [-1.5, b'x\"'], {'s0': None})" := by decide
example : IsExpr (defaultToks (fun _ => 3) demoDefault) := default_is_valid_expr_partial _ _ (by decide)

end StubDefault

namespace StubImports

/-! ## (c) import bookkeeping -/

/-- closedness of one tracker state: every required name the tracker knows as imported is bound by the
    emitted import lines -/
theorem imports_closed_state (t : Tracker) (hI : KeysNE t) (r : DName) (hr : r ∈ t.required)
    (hk : hasKey r t.moduleFor = true) : available t.importLines r = true := by
  have hne : r ≠ [] := by
    unfold hasKey at hk
    cases hm : lookup r t.moduleFor with
    | none => rw [hm] at hk; cases hk
    | some v => exact hI _ (lookup_some_mem r v _ hm)
  obtain ⟨l, hl, hb⟩ := lineFor_binds t r hk hne
  simp only [available, Tracker.importLines, List.any_eq_true, List.mem_filterMap, decide_eq_true_eq]
  exact ⟨l, ⟨r, hr, hl⟩, hb⟩

/-- **imports_closed**.  For every sequence of `add_import_from` / `add_import` / `require_name` / `reexport`
    operations, in any order: every name in `required_names` that the tracker has seen in an import
    statement is bound by a line of `import_lines()`. -/
theorem imports_closed (ops : List Op) (r : DName) (hr : r ∈ (runOps ops).required)
    (hk : hasKey r (runOps ops).moduleFor = true) : available (runOps ops).importLines r = true :=
  imports_closed_state _ (runOps_keysNE ops {} (by intro p hp; cases hp)) r hr hk

/-- **imports_closed_request**.  Whenever, at any point of any operation sequence, the annotation printer
    asks for a name `q` (`require_name(q)`): the name recorded for it is a prefix `p` of `q` (its root
    module path), it is still recorded at the end, and — if `p` is known as imported then, or is imported
    by any later operation — the final import lines bind `p`.  (A `p` that is never imported is a name
    the tracker leaves to the stub's own definitions or to builtins.) -/
theorem imports_closed_request (ops1 ops2 : List Op) (q : DName) :
    let p := requireTarget (runOps ops1).direct q
    let t := runOps (ops1 ++ [Op.requireName q] ++ ops2)
    p <+: q ∧ p ∈ t.required ∧
    (hasKey p (runOps ops1).moduleFor = true ∨ hasKey p t.moduleFor = true → available t.importLines p = true) := by
  intro p t
  have hpre : p <+: q := requireTarget_prefix _ q
  have ht : t = runOps ops2 ((runOps ops1).requireName q) := by
    show runOps (ops1 ++ [Op.requireName q] ++ ops2) = _
    rw [runOps_append, runOps_append]; rfl
  have hmem1 : p ∈ ((runOps ops1).requireName q).required := by
    simp only [Tracker.requireName]; exact (mem_addSet _ _ _).2 (Or.inl rfl)
  have hmono := runOps_mono ops2 ((runOps ops1).requireName q)
  have hmem : p ∈ t.required := by rw [ht]; exact hmono.2 p hmem1
  refine ⟨hpre, hmem, ?_⟩
  intro hk
  have hk' : hasKey p t.moduleFor = true := by
    rcases hk with hk | hk
    · rw [ht]; exact hmono.1 p ((requireName_mono _ q).1 p hk)
    · exact hk
  exact imports_closed _ p hmem hk'

-- non-vacuity: a concrete operation sequence mixing all four operations
def i (s : String) : Ident := s.toList
def demoOps : List Op :=
  [ .addImport [i "os", i "path"] none false,
    .addImportFrom (i "typing") [(i "Any", none), (i "List", some (i "L"))] false,
    .requireName [i "os", i "path", i "PathLike"],
    .requireName [i "L"],
    .addImport [i "collections", i "abc"] (some (i "cabc")) true,
    .reexport [i "Any"],
    .requireName [i "Undefined", i "attr"] ]
example : (runOps demoOps).required =
    [[i "Undefined"], [i "Any"], [i "cabc"], [i "L"], [i "os", i "path"]] := by decide
example : (runOps demoOps).importLines =
    [ .fromImport (i "typing") [i "Any"] (some [i "Any"]), .importMod [i "collections", i "abc"] (some [i "cabc"]),
      .fromImport (i "typing") [i "List"] (some [i "L"]), .importMod [i "os", i "path"] none ] := by decide
example : available (runOps demoOps).importLines [i "os", i "path"] = true ∧
    available (runOps demoOps).importLines [i "Undefined"] = false := by decide

end StubImports
