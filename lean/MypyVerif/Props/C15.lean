import MypyVerif.Proofs.FixedWidth
import MypyVerif.Proofs.FloatConv
import MypyVerif.Gen.IrOps
/-!
# C15 — compiled numeric primitives compute exactly what Python computes

Property theorems over the *generated* definitions of `Gen/CFast.lean` (the C fast paths of
`mypyc/lib-rt/CPy.h`, `mypyc_util.h`, `int_ops.c`, re-translated on every run).  Quantifier: all
2^64 × 2^64 operand words.  For every tagged-int operation `⊙`:

* `⊙_fast_correct`  — if the inline code returns `fast v`, both operands were short, `v` is a short
  (normalised) tagged int and its value is the exact `Int` result of Python's operation;
* `⊙_slow_iff`      — the out-of-line slow path is taken exactly when an operand is long or the exact
  result does not fit 63 bits; where the C code is deliberately conservative (multiply, `//` with
  `-2^62`, `~` of `2^61`, `<<` by ≥ 64) the full statement is refuted by a witness (`not_⊙_slow_exact`)
  and the exact condition is stated in `⊙_slow_partial`;
* `⊙_total`         — for *every* pair of words and every valuation of long words that respects
  normalisation, the outcome denotes Python's result, given that the out-of-line functions meet their
  specification `Tagged.slowSpec` (trusted: they delegate to CPython's `PyNumber_*`);
* `⊙_no_ub`         — the inline code never executes an operation C leaves undefined.
-/
set_option linter.unusedSimpArgs false
set_option linter.unusedVariables false
namespace C15
open CFast Tagged CSem CFastProofs FixedWidth

/-! ## representation -/

/-- `CPyTagged_CheckShort` tests the tag bit. -/
theorem checkShort_iff (x : BitVec 64) : (CPyTagged_CheckShort x != 0#32) = true ↔ isShort x := by
  rw [checkShort_eq]; simp

/-- `CPyTagged_CheckLong` is its complement. -/
theorem checkLong_iff (x : BitVec 64) : (CPyTagged_CheckLong x != 0#32) = true ↔ ¬ isShort x := by
  rw [checkLong_ne_zero]; simp

/-- `CPyTagged_ShortAsSsize_t` decodes a short word. -/
theorem shortAsSsize_correct (x : BitVec 64) : (CPyTagged_ShortAsSsize_t x).toInt = sval x :=
  shortAsSsize_toInt x

/-- `CPyTagged_TooBig` (used by `CPyTagged_FromSsize_t`: i64/ssize_t → int) is exact. -/
theorem tooBig_exact (v : BitVec 64) : CPyTagged_TooBig v = true ↔ ¬ Fits v.toInt := tooBig_iff v
theorem tooBigInt64_exact (v : BitVec 64) : CPyTagged_TooBigInt64 v = true ↔ ¬ Fits v.toInt := tooBigInt64_iff v

example : CPyTagged_TooBig 4611686018427387904#64 = true := by decide
example : CPyTagged_TooBig 4611686018427387903#64 = false := by decide
example : CPyTagged_TooBig 13835058055282163712#64 = false := by decide   -- -2^62
example : CPyTagged_TooBig 13835058055282163711#64 = true := by decide    -- -2^62 - 1

/-! ## `+` -/

theorem add_fast_correct (l r v : BitVec 64) (h : CPyTagged_Add l r = .fast v) :
    isShort l ∧ isShort r ∧ isShort v ∧ sval v = sval l + sval r := by
  rw [add_eq] at h
  obtain ⟨hc, rfl⟩ := fast_of_ite h
  exact ⟨hc.1, hc.2.1, add_val l r hc⟩

theorem add_slow_iff (l r : BitVec 64) :
    (CPyTagged_Add l r).isSlow = true ↔ ¬ (isShort l ∧ isShort r ∧ Fits (sval l + sval r)) := by
  rw [add_eq]; exact isSlow_ite

theorem add_total (V : Valuation) (l r : BitVec 64) :
    denoteInt V (CPyTagged_Add l r) = .int (V.val l + V.val r) := by
  rw [add_eq]
  split
  · rename_i hc
    obtain ⟨h1, h2⟩ := add_val l r hc
    rw [denoteInt_fast V _ h1, h2, val_short V l hc.1, val_short V r hc.2.1]
  · simp [denoteInt, denoteCall, slowSpec]

-- 2^62-1 + 1 leaves the fast path; 2^62-2 + 1 stays
example : CPyTagged_Add 9223372036854775806#64 2#64 = .slow ⟨"CPyTagged_Add_", [9223372036854775806#64, 2#64], false⟩ := by decide
example : CPyTagged_Add 9223372036854775804#64 2#64 = .fast 9223372036854775806#64 := by decide

/-! ## `-` -/

theorem sub_fast_correct (l r v : BitVec 64) (h : CPyTagged_Subtract l r = .fast v) :
    isShort l ∧ isShort r ∧ isShort v ∧ sval v = sval l - sval r := by
  rw [sub_eq] at h
  obtain ⟨hc, rfl⟩ := fast_of_ite h
  exact ⟨hc.1, hc.2.1, sub_val l r hc⟩

theorem sub_slow_iff (l r : BitVec 64) :
    (CPyTagged_Subtract l r).isSlow = true ↔ ¬ (isShort l ∧ isShort r ∧ Fits (sval l - sval r)) := by
  rw [sub_eq]; exact isSlow_ite

theorem sub_total (V : Valuation) (l r : BitVec 64) :
    denoteInt V (CPyTagged_Subtract l r) = .int (V.val l - V.val r) := by
  rw [sub_eq]
  split
  · rename_i hc
    obtain ⟨h1, h2⟩ := sub_val l r hc
    rw [denoteInt_fast V _ h1, h2, val_short V l hc.1, val_short V r hc.2.1]
  · simp [denoteInt, denoteCall, slowSpec]

example : CPyTagged_Subtract 9223372036854775808#64 2#64 = .slow ⟨"CPyTagged_Subtract_", [9223372036854775808#64, 2#64], false⟩ := by decide
example : CPyTagged_Subtract 0#64 2#64 = .fast 18446744073709551614#64 := by decide

/-! ## unary `-` -/

theorem neg_fast_correct (x v : BitVec 64) (h : CPyTagged_Negate x = .fast v) :
    isShort x ∧ isShort v ∧ sval v = -(sval x) := by
  rw [neg_eq] at h
  obtain ⟨hc, rfl⟩ := fast_of_ite h
  exact ⟨hc.1, neg_val x hc⟩

theorem neg_slow_iff (x : BitVec 64) :
    (CPyTagged_Negate x).isSlow = true ↔ ¬ (isShort x ∧ Fits (-(sval x))) := by
  rw [neg_eq]; exact isSlow_ite

theorem neg_total (V : Valuation) (x : BitVec 64) :
    denoteInt V (CPyTagged_Negate x) = .int (-(V.val x)) := by
  rw [neg_eq]
  split
  · rename_i hc
    obtain ⟨h1, h2⟩ := neg_val x hc
    rw [denoteInt_fast V _ h1, h2, val_short V x hc.1]
  · simp [denoteInt, denoteCall, slowSpec]

-- -(-2^62) = 2^62 does not fit
example : (CPyTagged_Negate 9223372036854775808#64).isSlow = true := by decide
example : CPyTagged_Negate 2#64 = .fast 18446744073709551614#64 := by decide

/-! ## `*` — deliberately conservative (`CPyTagged_IsMultiplyOverflow`) -/

theorem mul_fast_correct (l r v : BitVec 64) (h : CPyTagged_Multiply l r = .fast v) :
    isShort l ∧ isShort r ∧ isShort v ∧ sval v = sval l * sval r := by
  rw [multiply_eq] at h
  obtain ⟨hc, rfl⟩ := fast_of_ite h
  have hf := multiply_fits l r hc
  exact ⟨hc.1, hc.2.1, enc_short _ hf⟩

/-- The full "slow exactly when needed" statement is false for `*`: `-1 * 1` goes through the slow path. -/
theorem not_mul_slow_exact : ¬ ∀ l r : BitVec 64,
    ((CPyTagged_Multiply l r).isSlow = true ↔ ¬ (isShort l ∧ isShort r ∧ Fits (sval l * sval r))) := by
  intro h
  have := (h 18446744073709551614#64 2#64).1 (by decide)
  exact this (by decide)

/-- What holds instead: the fast path is taken exactly for two short operands in `[0, 2^30)`. -/
theorem mul_slow_partial (l r : BitVec 64) :
    (CPyTagged_Multiply l r).isSlow = true ↔
      ¬ (isShort l ∧ isShort r ∧ l.toNat < 2147483648 ∧ r.toNat < 2147483648) := by
  rw [multiply_eq]; exact isSlow_ite

theorem mul_total (V : Valuation) (l r : BitVec 64) :
    denoteInt V (CPyTagged_Multiply l r) = .int (V.val l * V.val r) := by
  rw [multiply_eq]
  split
  · rename_i hc
    obtain ⟨h1, h2⟩ := enc_short _ (multiply_fits l r hc)
    rw [denoteInt_fast V _ h1, h2, val_short V l hc.1, val_short V r hc.2.1]
  · simp [denoteInt, denoteCall, slowSpec]

example : CPyTagged_Multiply 6#64 14#64 = .fast 42#64 := by decide

/-! ## `//` and `%` (Python's sign rule: floor) -/

theorem floordiv_fast_correct (l r v : BitVec 64) (h : CPyTagged_FloorDivide l r = .fast v) :
    isShort l ∧ isShort r ∧ sval r ≠ 0 ∧ isShort v ∧ sval v = (sval l).fdiv (sval r) := by
  rw [floorDivide_eq] at h
  obtain ⟨hc, rfl⟩ := fast_of_ite h
  exact ⟨hc.1, hc.2.1, hc.2.2.1, enc_short _ (floorDivide_fits l r hc)⟩

/-- Full statement false: `-2^62 // 1` fits but is sent to the slow path (`MaybeFloorDivideFault` excludes the
    dividend `-2^62` whatever the divisor, to avoid `-2^62 // -1`). -/
theorem not_floordiv_slow_exact : ¬ ∀ l r : BitVec 64,
    ((CPyTagged_FloorDivide l r).isSlow = true ↔
      ¬ (isShort l ∧ isShort r ∧ sval r ≠ 0 ∧ Fits ((sval l).fdiv (sval r)))) := by
  intro h
  have := (h 9223372036854775808#64 2#64).1 (by decide)
  exact this (by decide)

theorem floordiv_slow_partial (l r : BitVec 64) :
    (CPyTagged_FloorDivide l r).isSlow = true ↔
      ¬ (isShort l ∧ isShort r ∧ sval r ≠ 0 ∧ sval l ≠ -4611686018427387904) := by
  rw [floorDivide_eq]; exact isSlow_ite

/-- in particular a zero divisor (`ZeroDivisionError`) and `-2^62 // -1` (= 2^62, does not fit) never stay inline -/
theorem floordiv_zero_slow (l r : BitVec 64) (h : sval r = 0) : (CPyTagged_FloorDivide l r).isSlow = true := by
  rw [floordiv_slow_partial]; intro hc; exact hc.2.2.1 h

theorem floordiv_total (V : Valuation) (l r : BitVec 64) (hz : V.val r ≠ 0) :
    denoteInt V (CPyTagged_FloorDivide l r) = .int ((V.val l).fdiv (V.val r)) := by
  rw [floorDivide_eq]
  split
  · rename_i hc
    obtain ⟨h1, h2⟩ := enc_short _ (floorDivide_fits l r hc)
    rw [denoteInt_fast V _ h1, h2, val_short V l hc.1, val_short V r hc.2.1]
  · simp [denoteInt, denoteCall, slowSpec, hz]

theorem floordiv_no_ub (l r : BitVec 64) : CPyTagged_FloorDivide_ub l r = false := floorDivide_no_ub l r

example : CPyTagged_FloorDivide 18446744073709551602#64 4#64 = .fast 18446744073709551608#64 := by decide  -- -7 // 2 = -4
example : CPyTagged_FloorDivide 14#64 18446744073709551612#64 = .fast 18446744073709551608#64 := by decide  -- 7 // -2 = -4
example : (CPyTagged_FloorDivide 9223372036854775808#64 18446744073709551614#64).isSlow = true := by decide  -- -2^62 // -1

theorem rem_fast_correct (l r v : BitVec 64) (h : CPyTagged_Remainder l r = .fast v) :
    isShort l ∧ isShort r ∧ sval r ≠ 0 ∧ isShort v ∧ sval v = (sval l).fmod (sval r) := by
  rw [remainder_eq] at h
  obtain ⟨hc, rfl⟩ := fast_of_ite h
  exact ⟨hc.1, hc.2.1, hc.2.2, enc_short _ (remainder_fits l r hc)⟩

/-- `%` is exact: the result always fits, the slow path is taken iff an operand is long or the divisor is 0. -/
theorem rem_slow_iff (l r : BitVec 64) :
    (CPyTagged_Remainder l r).isSlow = true ↔ ¬ (isShort l ∧ isShort r ∧ sval r ≠ 0) := by
  rw [remainder_eq]; exact isSlow_ite

theorem rem_total (V : Valuation) (l r : BitVec 64) (hz : V.val r ≠ 0) :
    denoteInt V (CPyTagged_Remainder l r) = .int ((V.val l).fmod (V.val r)) := by
  rw [remainder_eq]
  split
  · rename_i hc
    obtain ⟨h1, h2⟩ := enc_short _ (remainder_fits l r hc)
    rw [denoteInt_fast V _ h1, h2, val_short V l hc.1, val_short V r hc.2.1]
  · simp [denoteInt, denoteCall, slowSpec, hz]

theorem rem_no_ub (l r : BitVec 64) : CPyTagged_Remainder_ub l r = false := remainder_no_ub l r

example : CPyTagged_Remainder 18446744073709551602#64 4#64 = .fast 2#64 := by decide      -- -7 % 2 = 1
example : CPyTagged_Remainder 14#64 18446744073709551612#64 = .fast 18446744073709551614#64 := by decide  -- 7 % -2 = -1
example : CPyTagged_Remainder 9223372036854775808#64 18446744073709551614#64 = .fast 0#64 := by decide  -- -2^62 % -1 = 0

/-! ## `&`, `|`, `^` (Python's operators on unbounded two's-complement integers: `Tagged.pyAnd/pyOr/pyXor`) -/

theorem and_fast_correct (l r v : BitVec 64) (h : CPyTagged_And l r = .fast v) :
    isShort l ∧ isShort r ∧ isShort v ∧ sval v = pyAnd (sval l) (sval r) := by
  rw [and_eq] at h
  obtain ⟨hc, rfl⟩ := fast_of_ite h
  refine ⟨hc.1, hc.2, (and_val l r hc).1, ?_⟩
  rw [(and_val l r hc).2, and64_eq_pyAnd _ _ (fits_range _ (short_fits l hc.1)) (fits_range _ (short_fits r hc.2))]

theorem and_slow_iff (l r : BitVec 64) : (CPyTagged_And l r).isSlow = true ↔ ¬ (isShort l ∧ isShort r) := by
  rw [and_eq]; exact isSlow_ite

theorem and_total (V : Valuation) (l r : BitVec 64) :
    denoteInt V (CPyTagged_And l r) = .int (pyAnd (V.val l) (V.val r)) := by
  rw [and_eq]
  split
  · rename_i hc
    obtain ⟨h1, h2⟩ := and_val l r hc
    rw [denoteInt_fast V _ h1, h2, val_short V l hc.1, val_short V r hc.2,
      and64_eq_pyAnd _ _ (fits_range _ (short_fits l hc.1)) (fits_range _ (short_fits r hc.2))]
  · simp [denoteInt, denoteCall, slowSpec]

theorem or_fast_correct (l r v : BitVec 64) (h : CPyTagged_Or l r = .fast v) :
    isShort l ∧ isShort r ∧ isShort v ∧ sval v = pyOr (sval l) (sval r) := by
  rw [or_eq] at h
  obtain ⟨hc, rfl⟩ := fast_of_ite h
  refine ⟨hc.1, hc.2, (or_val l r hc).1, ?_⟩
  rw [(or_val l r hc).2, or64_eq_pyOr _ _ (fits_range _ (short_fits l hc.1)) (fits_range _ (short_fits r hc.2))]

theorem or_slow_iff (l r : BitVec 64) : (CPyTagged_Or l r).isSlow = true ↔ ¬ (isShort l ∧ isShort r) := by
  rw [or_eq]; exact isSlow_ite

theorem or_total (V : Valuation) (l r : BitVec 64) :
    denoteInt V (CPyTagged_Or l r) = .int (pyOr (V.val l) (V.val r)) := by
  rw [or_eq]
  split
  · rename_i hc
    obtain ⟨h1, h2⟩ := or_val l r hc
    rw [denoteInt_fast V _ h1, h2, val_short V l hc.1, val_short V r hc.2,
      or64_eq_pyOr _ _ (fits_range _ (short_fits l hc.1)) (fits_range _ (short_fits r hc.2))]
  · simp [denoteInt, denoteCall, slowSpec]

theorem xor_fast_correct (l r v : BitVec 64) (h : CPyTagged_Xor l r = .fast v) :
    isShort l ∧ isShort r ∧ isShort v ∧ sval v = pyXor (sval l) (sval r) := by
  rw [xor_eq] at h
  obtain ⟨hc, rfl⟩ := fast_of_ite h
  refine ⟨hc.1, hc.2, (xor_val l r hc).1, ?_⟩
  rw [(xor_val l r hc).2, xor64_eq_pyXor _ _ (fits_range _ (short_fits l hc.1)) (fits_range _ (short_fits r hc.2))]

theorem xor_slow_iff (l r : BitVec 64) : (CPyTagged_Xor l r).isSlow = true ↔ ¬ (isShort l ∧ isShort r) := by
  rw [xor_eq]; exact isSlow_ite

theorem xor_total (V : Valuation) (l r : BitVec 64) :
    denoteInt V (CPyTagged_Xor l r) = .int (pyXor (V.val l) (V.val r)) := by
  rw [xor_eq]
  split
  · rename_i hc
    obtain ⟨h1, h2⟩ := xor_val l r hc
    rw [denoteInt_fast V _ h1, h2, val_short V l hc.1, val_short V r hc.2,
      xor64_eq_pyXor _ _ (fits_range _ (short_fits l hc.1)) (fits_range _ (short_fits r hc.2))]
  · simp [denoteInt, denoteCall, slowSpec]

/-- fixed-width `& | ^` (any width, signed view): the register operation is Python's operator on the values -/
theorem fixed_bitwise_exact {w : Nat} (a b : BitVec w) :
    (a &&& b).toInt = pyAnd a.toInt b.toInt ∧ (a ||| b).toInt = pyOr a.toInt b.toInt ∧
    (a ^^^ b).toInt = pyXor a.toInt b.toInt :=
  ⟨toInt_and_pyAnd a b, toInt_or_pyOr a b, toInt_xor_pyXor a b⟩

example : CPyTagged_And 18446744073709551614#64 12#64 = .fast 12#64 := by decide       -- -1 & 6 = 6
example : CPyTagged_Xor 18446744073709551614#64 12#64 = .fast 18446744073709551602#64 := by decide  -- -1 ^ 6 = -7
example : pyAnd (-1) 6 = 6 ∧ pyOr (-8) 3 = -5 ∧ pyXor (-1) 6 = -7 := by decide

/-! ## `~` -/

theorem invert_fast_correct (x v : BitVec 64) (h : CPyTagged_Invert x = .fast v) :
    isShort x ∧ isShort v ∧ sval v = -(sval x) - 1 := by
  rw [invert_eq] at h
  obtain ⟨hc, rfl⟩ := fast_of_ite h
  exact ⟨hc.1, invert_val x hc.1⟩

/-- Full statement false: `~x` always fits, yet `x = 2^61` (word `2^62 = CPY_TAGGED_ABS_MIN`) is sent to the slow path. -/
theorem not_invert_slow_exact : ¬ ∀ x : BitVec 64,
    ((CPyTagged_Invert x).isSlow = true ↔ ¬ (isShort x ∧ Fits (-(sval x) - 1))) := by
  intro h
  have := (h 4611686018427387904#64).1 (by decide)
  exact this (by decide)

theorem invert_slow_partial (x : BitVec 64) :
    (CPyTagged_Invert x).isSlow = true ↔ ¬ (isShort x ∧ sval x ≠ 2305843009213693952) := by
  rw [invert_eq]; exact isSlow_ite

theorem invert_total (V : Valuation) (x : BitVec 64) :
    denoteInt V (CPyTagged_Invert x) = .int (-(V.val x) - 1) := by
  rw [invert_eq]
  split
  · rename_i hc
    obtain ⟨h1, h2⟩ := invert_val x hc.1
    rw [denoteInt_fast V _ h1, h2, val_short V x hc.1]
  · simp [denoteInt, denoteCall, slowSpec]

example : CPyTagged_Invert 0#64 = .fast 18446744073709551614#64 := by decide   -- ~0 = -1

/-! ## comparisons (the header's inline versions) -/

theorem isEq_total (V : Valuation) (l r : BitVec 64) :
    denoteBool V (CPyTagged_IsEq l r) = .bool (decide (V.val l = V.val r)) := by
  rw [isEq_eq]
  split
  · rename_i hl; simp only [denoteBool]; rw [short_beq_val V l r hl]
  · simp [denoteBool, denoteCall, slowSpec]

theorem isNe_total (V : Valuation) (l r : BitVec 64) :
    denoteBool V (CPyTagged_IsNe l r) = .bool (decide (V.val l ≠ V.val r)) := by
  rw [isNe_eq]
  split
  · rename_i hl
    simp only [denoteBool, bne, short_beq_val V l r hl]
    congr 1; simp
  · simp [denoteBool, denoteCall, slowSpec, SlowVal.negate]

theorem isLt_total (V : Valuation) (l r : BitVec 64) :
    denoteBool V (CPyTagged_IsLt l r) = .bool (decide (V.val l < V.val r)) := by
  rw [isLt_eq]
  split
  · rename_i hc; rw [val_short V l hc.1, val_short V r hc.2]; rfl
  · simp [denoteBool, denoteCall, slowSpec]

theorem isLe_total (V : Valuation) (l r : BitVec 64) :
    denoteBool V (CPyTagged_IsLe l r) = .bool (decide (V.val l ≤ V.val r)) := by
  rw [isLe_eq]
  split
  · rename_i hc; rw [val_short V l hc.1, val_short V r hc.2]; rfl
  · simp [denoteBool, denoteCall, slowSpec, SlowVal.negate]
    rw [← decide_not]; apply decide_eq_decide.2; omega

theorem isGt_total (V : Valuation) (l r : BitVec 64) :
    denoteBool V (CPyTagged_IsGt l r) = .bool (decide (V.val l > V.val r)) := by
  rw [isGt_eq]
  split
  · rename_i hc; rw [val_short V l hc.1, val_short V r hc.2]; rfl
  · simp [denoteBool, denoteCall, slowSpec]

theorem isGe_total (V : Valuation) (l r : BitVec 64) :
    denoteBool V (CPyTagged_IsGe l r) = .bool (decide (V.val l ≥ V.val r)) := by
  rw [isGe_eq]
  split
  · rename_i hc; rw [val_short V l hc.1, val_short V r hc.2]; rfl
  · simp [denoteBool, denoteCall, slowSpec, SlowVal.negate]
    rw [← decide_not]; apply decide_eq_decide.2; omega

/-- comparisons of two short operands never leave the inline code and equal the `Int` comparison -/
theorem compare_short (l r : BitVec 64) (hl : isShort l) (hr : isShort r) :
    CPyTagged_IsLt l r = .fast (decide (sval l < sval r)) ∧
    CPyTagged_IsLe l r = .fast (decide (sval l ≤ sval r)) ∧
    CPyTagged_IsGt l r = .fast (decide (sval l > sval r)) ∧
    CPyTagged_IsGe l r = .fast (decide (sval l ≥ sval r)) ∧
    CPyTagged_IsEq l r = .fast (decide (sval l = sval r)) ∧
    CPyTagged_IsNe l r = .fast (decide (sval l ≠ sval r)) := by
  have h1 := short_toInt l hl
  have h2 := short_toInt r hr
  rw [isLt_eq, isLe_eq, isGt_eq, isGe_eq, isEq_eq, isNe_eq]
  simp only [hl, hr, and_self, if_true, beq_eq, bne_eq]
  refine ⟨trivial, trivial, trivial, trivial, ?_, ?_⟩
  · congr 1; apply decide_eq_decide.2; omega
  · congr 1; apply decide_eq_decide.2; omega

example : CPyTagged_IsLt 18446744073709551614#64 0#64 = .fast true := by decide      -- -1 < 0
example : (CPyTagged_IsLt 1#64 0#64).isSlow = true := by decide                      -- long operand

/-! ## `>>` and `<<` -/

theorem rshift_fast_correct (l r v : BitVec 64) (h : CPyTagged_Rshift l r = .fast v) :
    isShort l ∧ isShort r ∧ 0 ≤ sval r ∧ isShort v ∧ sval v = pyShr (sval l) (sval r).toNat := by
  rw [rshift_eq] at h
  obtain ⟨hc, rfl⟩ := fast_of_ite h
  exact ⟨hc.1, hc.2.1, hc.2.2, enc_short _ (rshift_fits l r hc)⟩

/-- `>>` is exact: the result always fits; the slow path is taken iff an operand is long or the count is
    negative (`ValueError`, raised by the slow path). -/
theorem rshift_slow_iff (l r : BitVec 64) :
    (CPyTagged_Rshift l r).isSlow = true ↔ ¬ (isShort l ∧ isShort r ∧ 0 ≤ sval r) := by
  rw [rshift_eq]; exact isSlow_ite

theorem rshift_total (V : Valuation) (l r : BitVec 64) (hn : 0 ≤ V.val r) :
    denoteInt V (CPyTagged_Rshift l r) = .int (pyShr (V.val l) (V.val r).toNat) := by
  rw [rshift_eq]
  split
  · rename_i hc
    obtain ⟨h1, h2⟩ := enc_short _ (rshift_fits l r hc)
    rw [denoteInt_fast V _ h1, h2, val_short V l hc.1, val_short V r hc.2.1]
  · have : ¬ V.val r < 0 := by omega
    simp [denoteInt, denoteCall, slowSpec, this]

theorem rshift_no_ub (l r : BitVec 64) : CPyTagged_Rshift_ub l r = false := CFastProofs.rshift_no_ub l r

example : CPyTagged_Rshift 18446744073709551602#64 2#64 = .fast 18446744073709551608#64 := by decide  -- -7 >> 1 = -4
example : CPyTagged_Rshift 18446744073709551602#64 400#64 = .fast 18446744073709551614#64 := by decide -- -7 >> 200 = -1
example : (CPyTagged_Rshift 2#64 18446744073709551614#64).isSlow = true := by decide                  -- 1 >> -1

theorem lshift_fast_correct (l r v : BitVec 64) (h : CPyTagged_Lshift l r = .fast v) :
    isShort l ∧ isShort r ∧ 0 ≤ sval r ∧ isShort v ∧ sval v = pyShl (sval l) (sval r).toNat := by
  rw [lshift_eq] at h
  obtain ⟨hc, rfl⟩ := fast_of_ite h
  exact ⟨hc.1, hc.2.1, hc.2.2.1, enc_short _ hc.2.2.2.2⟩

/-- Full statement false: `0 << 64 = 0` fits, but counts ≥ 64 always take the slow path. -/
theorem not_lshift_slow_exact : ¬ ∀ l r : BitVec 64,
    ((CPyTagged_Lshift l r).isSlow = true ↔
      ¬ (isShort l ∧ isShort r ∧ 0 ≤ sval r ∧ Fits (pyShl (sval l) (sval r).toNat))) := by
  intro h
  have := (h 0#64 128#64).1 (by decide)
  exact this (by decide)

/-- What holds: for counts below 64 the overflow test `IsShortLshiftOverflow` is exact. -/
theorem lshift_slow_partial (l r : BitVec 64) :
    (CPyTagged_Lshift l r).isSlow = true ↔
      ¬ (isShort l ∧ isShort r ∧ 0 ≤ sval r ∧ sval r < 64 ∧ Fits (pyShl (sval l) (sval r).toNat)) := by
  rw [lshift_eq]; exact isSlow_ite

theorem lshift_total (V : Valuation) (l r : BitVec 64) (hn : 0 ≤ V.val r) :
    denoteInt V (CPyTagged_Lshift l r) = .int (pyShl (V.val l) (V.val r).toNat) := by
  rw [lshift_eq]
  split
  · rename_i hc
    obtain ⟨h1, h2⟩ := enc_short _ hc.2.2.2.2
    rw [denoteInt_fast V _ h1, h2, val_short V l hc.1, val_short V r hc.2.1]
  · have : ¬ V.val r < 0 := by omega
    simp [denoteInt, denoteCall, slowSpec, this]

theorem lshift_no_ub (l r : BitVec 64) : CPyTagged_Lshift_ub l r = false := CFastProofs.lshift_no_ub l r

example : CPyTagged_Lshift 6#64 8#64 = .fast 96#64 := by decide                            -- 3 << 4 = 48
example : (CPyTagged_Lshift 2#64 124#64).isSlow = true := by decide                         -- 1 << 62 does not fit
example : CPyTagged_Lshift 18446744073709551614#64 124#64 = .fast 9223372036854775808#64 := by decide  -- -1 << 62 = -2^62 fits

/-! ## the fixed-width division helpers of `int_ops.c` -/

/-- `i64 // i64`: `ZeroDivisionError` iff the divisor is 0; `OverflowError` iff `INT64_MIN // -1` (the only
    quotient that does not fit); otherwise the value is Python's floor quotient. -/
theorem int64_divide_spec (x y : BitVec 64) : CPyInt64_Divide x y =
    if y.toInt = 0 then .raise "ZeroDivisionError" 18446744073709551503#64
    else if y.toInt = -1 ∧ x.toInt = -9223372036854775808 then .raise "OverflowError" 18446744073709551503#64
    else .fast (BitVec.ofInt 64 (x.toInt.fdiv y.toInt)) := int64_divide_eq x y

theorem int64_remainder_spec (x y : BitVec 64) : CPyInt64_Remainder x y =
    if y.toInt = 0 then .raise "ZeroDivisionError" 18446744073709551503#64
    else .fast (BitVec.ofInt 64 (x.toInt.fmod y.toInt)) := int64_remainder_eq x y

theorem int32_divide_spec (x y : BitVec 32) : CPyInt32_Divide x y =
    if y.toInt = 0 then .raise "ZeroDivisionError" 4294967183#32
    else if y.toInt = -1 ∧ x.toInt = -2147483648 then .raise "OverflowError" 4294967183#32
    else .fast (BitVec.ofInt 32 (x.toInt.fdiv y.toInt)) := int32_divide_eq x y

theorem int32_remainder_spec (x y : BitVec 32) : CPyInt32_Remainder x y =
    if y.toInt = 0 then .raise "ZeroDivisionError" 4294967183#32
    else .fast (BitVec.ofInt 32 (x.toInt.fmod y.toInt)) := int32_remainder_eq x y

theorem int16_divide_spec (x y : BitVec 16) : CPyInt16_Divide x y =
    if y.toInt = 0 then .raise "ZeroDivisionError" 65423#16
    else if y.toInt = -1 ∧ x.toInt = -32768 then .raise "OverflowError" 65423#16
    else .fast (BitVec.ofInt 16 (x.toInt.fdiv y.toInt)) := int16_divide_eq x y

theorem int16_remainder_spec (x y : BitVec 16) : CPyInt16_Remainder x y =
    if y.toInt = 0 then .raise "ZeroDivisionError" 65423#16
    else .fast (BitVec.ofInt 16 (x.toInt.fmod y.toInt)) := int16_remainder_eq x y

/-- the quotient / remainder reported on the fast path is the exact one whenever it is representable -/
theorem fixed_divide_exact (x y : BitVec 64) (v : BitVec 64) (h : CPyInt64_Divide x y = .fast v) :
    y.toInt ≠ 0 ∧ v.toInt = x.toInt.fdiv y.toInt := by
  rw [int64_divide_eq] at h
  split at h
  · cases h
  · split at h
    · cases h
    · rename_i hz ho
      injection h with h; subst h
      refine ⟨hz, ?_⟩
      rw [BitVec.toInt_ofInt]
      have hr := fdiv_range64 x y hz ho
      exact Int.bmod_eq_of_le_mul_two (by omega) (by omega)

/-- none of the six helpers divides by zero or computes `INT_MIN / -1` in C -/
theorem fixed_divide_no_ub :
    (∀ x y, CPyInt64_Divide_ub x y = false) ∧ (∀ x y, CPyInt64_Remainder_ub x y = false) ∧
    (∀ x y, CPyInt32_Divide_ub x y = false) ∧ (∀ x y, CPyInt32_Remainder_ub x y = false) ∧
    (∀ x y, CPyInt16_Divide_ub x y = false) ∧ (∀ x y, CPyInt16_Remainder_ub x y = false) :=
  ⟨int64_divide_no_ub, int64_remainder_no_ub, int32_divide_no_ub, int32_remainder_no_ub,
   int16_divide_no_ub, int16_remainder_no_ub⟩

/-- the error value returned with a pending exception is the one the callers test (`c_undefined`) -/
theorem fixed_error_values : cUndefined.lookup "i64" = some "-113" ∧ cUndefined.lookup "i32" = some "-113" ∧
    cUndefined.lookup "i16" = some "-113" ∧ (18446744073709551503#64 : BitVec 64).toInt = -113 ∧
    (4294967183#32 : BitVec 32).toInt = -113 ∧ (65423#16 : BitVec 16).toInt = -113 := by decide

example : CPyInt64_Divide 18446744073709551609#64 2#64 = .fast 18446744073709551612#64 := by decide   -- -7 // 2 = -4
example : CPyInt64_Divide 9223372036854775808#64 18446744073709551615#64 = .raise "OverflowError" 18446744073709551503#64 := by decide
example : CPyInt32_Remainder 4294967289#32 2#32 = .fast 1#32 := by decide                             -- -7 % 2 = 1

/-! ## the operator tables (regenerated from the live registries) -/

/-- Which C function must implement which operator on two `int`s. -/
def expectedBinary : List (String × String) :=
  [("+", "CPyTagged_Add"), ("-", "CPyTagged_Subtract"), ("*", "CPyTagged_Multiply"),
   ("//", "CPyTagged_FloorDivide"), ("%", "CPyTagged_Remainder"), ("&", "CPyTagged_And"),
   ("|", "CPyTagged_Or"), ("^", "CPyTagged_Xor"), ("<<", "CPyTagged_Lshift"), (">>", "CPyTagged_Rshift"),
   ("/", "CPyTagged_TrueDivide"),
   ("+=", "CPyTagged_Add"), ("-=", "CPyTagged_Subtract"), ("*=", "CPyTagged_Multiply"),
   ("//=", "CPyTagged_FloorDivide"), ("%=", "CPyTagged_Remainder"), ("&=", "CPyTagged_And"),
   ("|=", "CPyTagged_Or"), ("^=", "CPyTagged_Xor"), ("<<=", "CPyTagged_Lshift"), (">>=", "CPyTagged_Rshift")]

/-- operators whose C function can fail (division by zero, negative shift count): the primitive must not be
    registered as `ERR_NEVER` (0), or the exception raised by the slow path would be lost -/
def mayRaise (op : String) : Bool :=
  op ∈ ["//", "%", "<<", ">>", "/", "//=", "%=", "<<=", ">>="]

/-- Every `(int, int)` primitive registered in `mypyc.primitives.int_ops` is bound to the C function whose
    theorems above are about that operator, with an error kind that propagates exceptions where they can
    occur; and every operator is registered. -/
theorem int_primitive_table_ok :
    intBinaryOps.all (fun e => expectedBinary.lookup e.1 == some e.2.1 && (!mayRaise e.1 || e.2.2 != 0)) = true ∧
    expectedBinary.all (fun e => intBinaryOps.any (fun r => r.1 == e.1)) = true ∧
    intUnaryOps.all (fun e => [("-", "CPyTagged_Negate"), ("~", "CPyTagged_Invert")].lookup e.1 == some e.2.1) = true ∧
    ["-", "~"].all (fun op => intUnaryOps.any (fun r => r.1 == op)) = true := by decide

/-- A primitive whose result type is a native int or a float has an *overlapping* error value (every bit pattern,
    including -113 / 239 / -113.0, is an ordinary result): it must be registered `ERR_NEVER` (0), `ERR_ALWAYS` (3) or
    `ERR_MAGIC_OVERLAPPING` (4) — with plain `ERR_MAGIC` (1) or `ERR_FALSE` (2) the generated code takes a legitimate
    result equal to the magic value for a raised exception without asking `PyErr_Occurred()`. -/
theorem native_result_error_kinds_ok :
    nativeResultOps.all (fun e => e.2.2.2 == 0 || e.2.2.2 == 3 || e.2.2.2 == 4) = true ∧
    ["CPyInt64_Divide", "CPyInt64_Remainder", "CPyInt32_Divide", "CPyInt32_Remainder", "CPyInt16_Divide",
     "CPyInt16_Remainder", "CPyTagged_TrueDivide", "CPyFloat_FromTagged"].all
      (fun c => nativeResultOps.any (fun e => e.2.1 == c && e.2.2.2 == 4)) = true := by decide

/-! ## comparison lowering (`compare_tagged` with the regenerated `int_comparison_op_mapping`) -/

theorem compare_tagged_correct (V : Valuation) (l r : BitVec 64) :
    ∀ row ∈ intComparisonOpMapping,
      denoteBool V (compareTagged row l r) = .bool (pyCmp row.1 (V.val l) (V.val r)) :=
  compareTagged_total V l r

theorem compare_tagged_all_operators :
    ["==", "!=", "<", "<=", ">", ">="].all (fun op => intComparisonOpMapping.any (fun row => row.1 == op)) = true :=
  comparison_table_complete

example : compareTagged ("<", "SLT", "CPyTagged_IsLt_", false, false) 18446744073709551614#64 0#64 = .fast true := by decide

/-! ## fixed-width operations (`fixed_width_int_op` & co.) -/

/-- signed `+ - *` and unary `-`: the register holds the exact result whenever it fits the type -/
theorem fixed_signed_exact {w : Nat} (a b : BitVec w) :
    (InRange w true (a.toInt + b.toInt) → fwVal true (intOp true .add a b) = fwVal true a + fwVal true b) ∧
    (InRange w true (a.toInt - b.toInt) → fwVal true (intOp true .sub a b) = fwVal true a - fwVal true b) ∧
    (InRange w true (a.toInt * b.toInt) → fwVal true (intOp true .mul a b) = fwVal true a * fwVal true b) ∧
    (InRange w true (-a.toInt) → fwVal true (FixedWidth.neg a) = -fwVal true a) :=
  ⟨signed_add_exact a b, signed_sub_exact a b, signed_mul_exact a b, signed_neg_exact a⟩

example : InRange 16 true (32767 : Int) ∧ ¬ InRange 16 true (32768 : Int) ∧ InRange 8 false (255 : Int) := by decide
example : fwVal true (intOp true .add (32767#16) (1#16)) = -32768 := by decide    -- wraps when the sum does not fit
example : fwVal true (intOp true .mul (100#16) (3#16)) = 300 := by decide

/-- `u8` (any unsigned width) `+ - *` wrap modulo `2^w` -/
theorem u8_wraps (a b : BitVec 8) :
    fwVal false (intOp false .add a b) = (fwVal false a + fwVal false b) % 256 ∧
    fwVal false (intOp false .sub a b) = (fwVal false a - fwVal false b) % 256 ∧
    fwVal false (intOp false .mul a b) = (fwVal false a * fwVal false b) % 256 :=
  ⟨unsigned_add_wrap a b, unsigned_sub_wrap a b, unsigned_mul_wrap a b⟩

example : fwVal false (intOp false .add (200#8) (100#8)) = 44 := by decide        -- 300 mod 256
example : fwVal false (intOp false .sub (3#8) (5#8)) = 254 := by decide

/-- shifts with an in-range count: `<<` exact whenever the product fits, `>>` is floor division -/
theorem fixed_shifts_exact {w : Nat} (a : BitVec w) (k : Nat) :
    (InRange w true (a.toInt * ((2 ^ k : Nat) : Int)) → (a <<< k).toInt = a.toInt * ((2 ^ k : Nat) : Int)) ∧
    (a.toNat * 2 ^ k < 2 ^ w → (a <<< k).toNat = a.toNat * 2 ^ k) ∧
    (a.sshiftRight k).toInt = a.toInt / ((2 ^ k : Nat) : Int) ∧
    (a >>> k).toNat = a.toNat / 2 ^ k :=
  ⟨signed_shl_exact a k, unsigned_shl_exact a k, signed_shr_exact a k, unsigned_shr_exact a k⟩

/-- `//` and `%` by a literal other than 0 and -1 (`inline_fixed_width_divide/mod`): Python's floor semantics -/
theorem inline_divide_exact :
    (∀ a c : BitVec 64, c.toInt ≠ 0 → c.toInt ≠ -1 → (inlineDivide a c).toInt = a.toInt.fdiv c.toInt) ∧
    (∀ a c : BitVec 32, c.toInt ≠ 0 → c.toInt ≠ -1 → (inlineDivide a c).toInt = a.toInt.fdiv c.toInt) ∧
    (∀ a c : BitVec 16, c.toInt ≠ 0 → c.toInt ≠ -1 → (inlineDivide a c).toInt = a.toInt.fdiv c.toInt) ∧
    (∀ a c : BitVec 64, c.toInt ≠ 0 → (inlineMod a c).toInt = a.toInt.fmod c.toInt) ∧
    (∀ a c : BitVec 32, c.toInt ≠ 0 → (inlineMod a c).toInt = a.toInt.fmod c.toInt) ∧
    (∀ a c : BitVec 16, c.toInt ≠ 0 → (inlineMod a c).toInt = a.toInt.fmod c.toInt) :=
  ⟨inlineDivide_exact64, inlineDivide_exact32, inlineDivide_exact16,
   inlineMod_exact64, inlineMod_exact32, inlineMod_exact16⟩

example : (inlineDivide (BitVec.ofInt 64 (-7)) 2#64).toInt = -4 ∧ (inlineMod (BitVec.ofInt 64 (-7)) 2#64).toInt = 1 ∧
    (inlineDivide 7#16 (BitVec.ofInt 16 (-2))).toInt = -4 ∧ (inlineMod 7#16 (BitVec.ofInt 16 (-2))).toInt = -1 := by decide

/-- `u8 // u8`, `u8 % u8`: `ZeroDivisionError` iff the divisor is 0, the exact quotient / remainder otherwise -/
theorem u8_divide_spec (a b : BitVec 8) :
    (u8Divide a b = if b.toNat = 0 then .raise "ZeroDivisionError" 239#8 else .fast (a / b)) ∧
    (u8Mod a b = if b.toNat = 0 then .raise "ZeroDivisionError" 239#8 else .fast (a % b)) ∧
    (a / b).toNat = a.toNat / b.toNat ∧ (a % b).toNat = a.toNat % b.toNat :=
  ⟨u8Divide_spec a b, u8Mod_spec a b, BitVec.toNat_udiv, BitVec.toNat_umod⟩

example : u8Divide 200#8 0#8 = .raise "ZeroDivisionError" 239#8 ∧ u8Divide 200#8 7#8 = .fast 28#8 := by decide

/-! ## conversions `int → iN` (an exception exactly when out of range, never a truncated value) and back -/

theorem int_to_i64_spec (src : BitVec 64) :
    intToI64 src = (if isShort src then .fast (src.sshiftRight 1)
                    else .slow ⟨"CPyLong_AsInt64", [src ^^^ 1#64], false⟩) ∧
    (src.sshiftRight 1).toInt = sval src :=
  ⟨intToI64_spec src, sval_sshr src⟩

theorem int_to_i32_spec (src : BitVec 64) :
    (∃ v, intToNarrow 32 true src = .fast v ∧ isShort src ∧ v.toInt = sval src ∧
        -2147483648 ≤ sval src ∧ sval src < 2147483648) ∨
    (intToNarrow 32 true src = .raise "ValueError" 4294967183#32 ∧
        ¬ (isShort src ∧ -2147483648 ≤ sval src ∧ sval src < 2147483648)) := intToI32_spec src

theorem int_to_i16_spec (src : BitVec 64) :
    (∃ v, intToNarrow 16 true src = .fast v ∧ isShort src ∧ v.toInt = sval src ∧
        -32768 ≤ sval src ∧ sval src < 32768) ∨
    (intToNarrow 16 true src = .raise "ValueError" 65423#16 ∧
        ¬ (isShort src ∧ -32768 ≤ sval src ∧ sval src < 32768)) := intToI16_spec src

theorem int_to_u8_spec (src : BitVec 64) :
    (∃ v, intToNarrow 8 false src = .fast v ∧ isShort src ∧ (v.toNat : Int) = sval src ∧
        0 ≤ sval src ∧ sval src < 256) ∨
    (intToNarrow 8 false src = .raise "ValueError" 239#8 ∧
        ¬ (isShort src ∧ 0 ≤ sval src ∧ sval src < 256)) := intToU8_spec src

theorem fixed_to_int_spec :
    (∀ src : BitVec 64, i64ToInt src = if Fits src.toInt then .fast (enc src.toInt)
                                        else .slow ⟨"CPyTagged_FromInt64", [src], false⟩) ∧
    (∀ src : BitVec 32, isShort (narrowToInt true src) ∧ sval (narrowToInt true src) = src.toInt) ∧
    (∀ src : BitVec 16, isShort (narrowToInt true src) ∧ sval (narrowToInt true src) = src.toInt) ∧
    (∀ src : BitVec 8, isShort (narrowToInt false src) ∧ sval (narrowToInt false src) = (src.toNat : Int)) :=
  ⟨i64ToInt_spec, i32ToInt_spec, i16ToInt_spec, u8ToInt_spec⟩

example : intToNarrow 8 false 510#64 = .fast 255#8 := by decide          -- u8(255)
example : intToNarrow 8 false 512#64 = .raise "ValueError" 239#8 := by decide   -- u8(256)
example : intToNarrow 16 true 18446744073709486080#64 = .fast 32768#16 := by decide  -- i16(-32768)

/-! ## IR ties: the final mypyc IR of the one-operation functions (`Gen/IrOps.lean`, regenerated from the checked
tree) *is* the hand model of the lowering, resp. the translated C helper -/

/-- the IR of `a < b` … on two `int`s *is* `compare_tagged` with the table row of the operator -/
theorem ir_compare (l r : BitVec 64) : ∀ row ∈ intComparisonOpMapping,
    (row.1 = "<" → IrOps.lt_int l r = compareTagged row l r) ∧
    (row.1 = "<=" → IrOps.le_int l r = compareTagged row l r) ∧
    (row.1 = ">" → IrOps.gt_int l r = compareTagged row l r) ∧
    (row.1 = ">=" → IrOps.ge_int l r = compareTagged row l r) ∧
    (row.1 = "==" → IrOps.eq_int l r = compareTagged row l r) ∧
    (row.1 = "!=" → IrOps.ne_int l r = compareTagged row l r) := by
  intro row hrow
  simp only [intComparisonOpMapping, List.mem_cons, List.mem_nil_iff, or_false] at hrow
  rcases hrow with h | h | h | h | h | h <;> subst h <;>
    simp [compareTagged, isLongWord, cmpVariant, IrOps.lt_int, IrOps.le_int, IrOps.gt_int, IrOps.ge_int,
      IrOps.eq_int, IrOps.ne_int]

theorem ir_i64_ops (a b : BitVec 64) :
    IrOps.add_i64 a b = .fast (intOp true .add a b) ∧ IrOps.sub_i64 a b = .fast (intOp true .sub a b) ∧
    IrOps.mul_i64 a b = .fast (intOp true .mul a b) ∧ IrOps.and__i64 a b = .fast (intOp true .and a b) ∧
    IrOps.or__i64 a b = .fast (intOp true .or a b) ∧ IrOps.xor_i64 a b = .fast (intOp true .xor a b) ∧
    IrOps.lsh_i64 a b = .fast (intOp true .shl a b) ∧ IrOps.rsh_i64 a b = .fast (intOp true .shr a b) ∧
    IrOps.neg_i64 a = .fast (FixedWidth.neg a) ∧ IrOps.inv_i64 a = .fast (invert a) ∧
    IrOps.lt_i64 a b = .fast (BitVec.slt a b) ∧ IrOps.eq_i64 a b = .fast (a == b) := by
  refine ⟨rfl, rfl, rfl, rfl, rfl, rfl, rfl, rfl, rfl, ?_, rfl, rfl⟩
  simp [IrOps.inv_i64, invert]

theorem ir_fdiv_i64 (a b : BitVec 64) : IrOps.fdiv_i64 a b = CPyInt64_Divide a b := by
  unfold IrOps.fdiv_i64
  rw [int64_divide_eq]
  by_cases hz : b.toInt = 0
  · simp [hz]
  · by_cases ho : b.toInt = -1 ∧ a.toInt = -9223372036854775808
    · simp [hz, ho]
    · simp [hz, ho]

theorem ir_mod_i64 (a b : BitVec 64) : IrOps.mod_i64 a b = CPyInt64_Remainder a b := by
  unfold IrOps.mod_i64
  rw [int64_remainder_eq]
  by_cases hz : b.toInt = 0
  · simp [hz]
  · simp [hz]

theorem ir_inline_divide (a : BitVec 64) :
    IrOps.fdiv_i64_c3 a = .fast (inlineDivide a 3#64) ∧ IrOps.fdiv_i64_cm3 a = .fast (inlineDivide a (-3#64)) ∧
    IrOps.mod_i64_c3 a = .fast (inlineMod a 3#64) ∧ IrOps.mod_i64_cm3 a = .fast (inlineMod a (-3#64)) := by
  have e : (-3#64 : BitVec 64) = 18446744073709551613#64 := by decide
  rw [e]
  refine ⟨?_, ?_, ?_, ?_⟩ <;>
    simp only [IrOps.fdiv_i64_c3, IrOps.fdiv_i64_cm3, IrOps.mod_i64_c3, IrOps.mod_i64_cm3, inlineDivide, inlineMod,
      apply_ite Res.fast]

theorem ir_conv (a : BitVec 64) :
    IrOps.conv_i64 a = intToI64 a ∧ IrOps.conv_i32 a = intToNarrow 32 true a ∧
    IrOps.conv_i16 a = intToNarrow 16 true a ∧ IrOps.conv_u8 a = intToNarrow 8 false a := by
  have e1 : BitVec.ofInt 64 (2 * ((2 ^ (32 - 1) : Nat) : Int)) = 4294967296#64 := by decide
  have e2 : BitVec.ofInt 64 (2 * -((2 ^ (32 - 1) : Nat) : Int)) = 18446744069414584320#64 := by decide
  have e3 : BitVec.ofInt 64 (2 * ((2 ^ (16 - 1) : Nat) : Int)) = 65536#64 := by decide
  have e4 : BitVec.ofInt 64 (2 * -((2 ^ (16 - 1) : Nat) : Int)) = 18446744073709486080#64 := by decide
  have e5 : BitVec.ofInt 64 (2 * ((2 ^ 8 : Nat) : Int)) = 512#64 := by decide
  have e6 : BitVec.ofInt 64 (2 * (0 : Int)) = 0#64 := by decide
  have r1 : errValue 32 true = 4294967183#32 := by decide
  have r2 : errValue 16 true = 65423#16 := by decide
  have r3 : errValue 8 false = 239#8 := by decide
  refine ⟨rfl, ?_, ?_, ?_⟩
  · simp only [IrOps.conv_i32, intToNarrow, if_true, e1, e2, r1]
  · simp only [IrOps.conv_i16, intToNarrow, if_true, e3, e4, r2]
  · simp only [IrOps.conv_u8, intToNarrow, Bool.false_eq_true, if_false, e5, e6, r3]

theorem ir_back (a : BitVec 64) (b : BitVec 32) (c : BitVec 16) (d : BitVec 8) :
    IrOps.back_i64 a = i64ToInt a ∧ IrOps.back_i32 b = .fast (narrowToInt true b) ∧
    IrOps.back_i16 c = .fast (narrowToInt true c) ∧ IrOps.back_u8 d = .fast (narrowToInt false d) :=
  ⟨rfl, rfl, rfl, rfl⟩

theorem ir_u8 (a b : BitVec 8) :
    IrOps.fdiv_u8 a b = u8Divide a b ∧ IrOps.mod_u8 a b = u8Mod a b ∧
    IrOps.add_u8 a b = .fast (intOp false .add a b) ∧ IrOps.sub_u8 a b = .fast (intOp false .sub a b) ∧
    IrOps.mul_u8 a b = .fast (intOp false .mul a b) ∧ IrOps.rsh_u8 a b = .fast (intOp false .shr a b) ∧
    IrOps.neg_u8 a = .fast (FixedWidth.neg a) ∧ IrOps.inv_u8 a = .fast (invert a) ∧
    IrOps.lt_u8 a b = .fast (BitVec.ult a b) ∧ IrOps.ge_u8 a b = .fast (BitVec.ule b a) := by
  refine ⟨rfl, rfl, rfl, rfl, rfl, rfl, rfl, ?_, rfl, rfl⟩
  simp [IrOps.inv_u8, invert]

theorem ir_i32_i16 (a b : BitVec 32) (c d : BitVec 16) :
    IrOps.add_i32 a b = .fast (intOp true .add a b) ∧ IrOps.mul_i32 a b = .fast (intOp true .mul a b) ∧
    IrOps.rsh_i32 a b = .fast (intOp true .shr a b) ∧ IrOps.neg_i32 a = .fast (FixedWidth.neg a) ∧
    IrOps.le_i32 a b = .fast (BitVec.sle a b) ∧
    IrOps.add_i16 c d = .fast (intOp true .add c d) ∧ IrOps.sub_i16 c d = .fast (intOp true .sub c d) ∧
    IrOps.mul_i16 c d = .fast (intOp true .mul c d) ∧ IrOps.inv_i16 c = .fast (invert c) ∧
    IrOps.gt_i16 c d = .fast (BitVec.slt d c) := by
  refine ⟨rfl, rfl, rfl, rfl, rfl, rfl, rfl, rfl, ?_, rfl⟩
  simp [IrOps.inv_i16, invert]

theorem ir_fdiv_narrow (a b : BitVec 32) (c d : BitVec 16) :
    IrOps.fdiv_i32 a b = CPyInt32_Divide a b ∧ IrOps.mod_i32 a b = CPyInt32_Remainder a b ∧
    IrOps.fdiv_i16 c d = CPyInt16_Divide c d ∧ IrOps.mod_i16 c d = CPyInt16_Remainder c d := by
  refine ⟨?_, ?_, ?_, ?_⟩
  · unfold IrOps.fdiv_i32; rw [int32_divide_eq]
    by_cases hz : b.toInt = 0
    · simp [hz]
    · by_cases ho : b.toInt = -1 ∧ a.toInt = -2147483648
      · simp [hz, ho]
      · simp [hz, ho]
  · unfold IrOps.mod_i32; rw [int32_remainder_eq]
    by_cases hz : b.toInt = 0 <;> simp [hz]
  · unfold IrOps.fdiv_i16; rw [int16_divide_eq]
    by_cases hz : d.toInt = 0
    · simp [hz]
    · by_cases ho : d.toInt = -1 ∧ c.toInt = -32768
      · simp [hz, ho]
      · simp [hz, ho]
  · unfold IrOps.mod_i16; rw [int16_remainder_eq]
    by_cases hz : d.toInt = 0 <;> simp [hz]

theorem ir_inline_narrow (a : BitVec 32) (c : BitVec 16) :
    IrOps.fdiv_i32_c7 a = .fast (inlineDivide a 7#32) ∧ IrOps.mod_i32_cm7 a = .fast (inlineMod a (-7#32)) ∧
    IrOps.fdiv_i16_c3 c = .fast (inlineDivide c 3#16) ∧ IrOps.mod_i16_cm3 c = .fast (inlineMod c (-3#16)) := by
  have e1 : (-7#32 : BitVec 32) = 4294967289#32 := by decide
  have e2 : (-3#16 : BitVec 16) = 65533#16 := by decide
  rw [e1, e2]
  refine ⟨?_, ?_, ?_, ?_⟩ <;>
    simp only [IrOps.fdiv_i32_c7, IrOps.mod_i32_cm7, IrOps.fdiv_i16_c3, IrOps.mod_i16_cm3, inlineDivide, inlineMod,
      apply_ite Res.fast]

/-- the IR of `a ⊙ b` on two `int`s calls exactly the C function the theorems above are about, and adds nothing
    (the `is_error` test after `// % << >>` can never fire on the inline path: a short word is never the error
    value `CPY_INT_TAG`) -/
theorem ir_int_arith (a b : BitVec 64) :
    IrOps.add_int a b = CPyTagged_Add a b ∧ IrOps.sub_int a b = CPyTagged_Subtract a b ∧
    IrOps.mul_int a b = CPyTagged_Multiply a b ∧ IrOps.and__int a b = CPyTagged_And a b ∧
    IrOps.or__int a b = CPyTagged_Or a b ∧ IrOps.xor_int a b = CPyTagged_Xor a b ∧
    IrOps.neg_int a = CPyTagged_Negate a ∧ IrOps.inv_int a = CPyTagged_Invert a ∧
    IrOps.fdiv_int a b = CPyTagged_FloorDivide a b ∧ IrOps.mod_int a b = CPyTagged_Remainder a b ∧
    IrOps.lsh_int a b = CPyTagged_Lshift a b ∧ IrOps.rsh_int a b = CPyTagged_Rshift a b := by
  refine ⟨?_, ?_, ?_, ?_, ?_, ?_, ?_, ?_, ?_, ?_, ?_, ?_⟩
  · unfold IrOps.add_int
    generalize hr : CPyTagged_Add a b = r
    cases r with
    | fast v => rfl
    | slow c => rfl
    | raise e v => rw [add_eq] at hr; exact absurd hr not_raise_ite
  · unfold IrOps.sub_int
    generalize hr : CPyTagged_Subtract a b = r
    cases r with
    | fast v => rfl
    | slow c => rfl
    | raise e v => rw [sub_eq] at hr; exact absurd hr not_raise_ite
  · unfold IrOps.mul_int
    generalize hr : CPyTagged_Multiply a b = r
    cases r with
    | fast v => rfl
    | slow c => rfl
    | raise e v => rw [multiply_eq] at hr; exact absurd hr not_raise_ite
  · unfold IrOps.and__int
    generalize hr : CPyTagged_And a b = r
    cases r with
    | fast v => rfl
    | slow c => rfl
    | raise e v => rw [and_eq] at hr; exact absurd hr not_raise_ite
  · unfold IrOps.or__int
    generalize hr : CPyTagged_Or a b = r
    cases r with
    | fast v => rfl
    | slow c => rfl
    | raise e v => rw [or_eq] at hr; exact absurd hr not_raise_ite
  · unfold IrOps.xor_int
    generalize hr : CPyTagged_Xor a b = r
    cases r with
    | fast v => rfl
    | slow c => rfl
    | raise e v => rw [xor_eq] at hr; exact absurd hr not_raise_ite
  · unfold IrOps.neg_int
    generalize hr : CPyTagged_Negate a = r
    cases r with
    | fast v => rfl
    | slow c => rfl
    | raise e v => rw [neg_eq] at hr; exact absurd hr not_raise_ite
  · unfold IrOps.inv_int
    generalize hr : CPyTagged_Invert a = r
    cases r with
    | fast v => rfl
    | slow c => rfl
    | raise e v => rw [invert_eq] at hr; exact absurd hr not_raise_ite
  · unfold IrOps.fdiv_int
    generalize hr : CPyTagged_FloorDivide a b = r
    cases r with
    | fast v =>
      rw [floorDivide_eq] at hr
      obtain ⟨hc, rfl⟩ := fast_of_ite hr
      simp [short_ne_one _ (enc_short _ (floorDivide_fits a b hc)).1]
    | slow c => rfl
    | raise e v => rw [floorDivide_eq] at hr; exact absurd hr not_raise_ite
  · unfold IrOps.mod_int
    generalize hr : CPyTagged_Remainder a b = r
    cases r with
    | fast v =>
      rw [remainder_eq] at hr
      obtain ⟨hc, rfl⟩ := fast_of_ite hr
      simp [short_ne_one _ (enc_short _ (remainder_fits a b hc)).1]
    | slow c => rfl
    | raise e v => rw [remainder_eq] at hr; exact absurd hr not_raise_ite
  · unfold IrOps.lsh_int
    generalize hr : CPyTagged_Lshift a b = r
    cases r with
    | fast v =>
      rw [lshift_eq] at hr
      obtain ⟨hc, rfl⟩ := fast_of_ite hr
      simp [short_ne_one _ (enc_short _ (hc.2.2.2.2)).1]
    | slow c => rfl
    | raise e v => rw [lshift_eq] at hr; exact absurd hr not_raise_ite
  · unfold IrOps.rsh_int
    generalize hr : CPyTagged_Rshift a b = r
    cases r with
    | fast v =>
      rw [rshift_eq] at hr
      obtain ⟨hc, rfl⟩ := fast_of_ite hr
      simp [short_ne_one _ (enc_short _ (rshift_fits a b hc)).1]
    | slow c => rfl
    | raise e v => rw [rshift_eq] at hr; exact absurd hr not_raise_ite

theorem ir_int_augmented (a b : BitVec 64) :
    IrOps.iadd_int a b = IrOps.add_int a b ∧ IrOps.isub_int a b = IrOps.sub_int a b ∧
    IrOps.imul_int a b = IrOps.mul_int a b ∧ IrOps.ifdiv_int a b = IrOps.fdiv_int a b ∧
    IrOps.imod_int a b = IrOps.mod_int a b ∧ IrOps.iand_int a b = IrOps.and__int a b ∧
    IrOps.ior_int a b = IrOps.or__int a b ∧ IrOps.ixor_int a b = IrOps.xor_int a b ∧
    IrOps.ilsh_int a b = IrOps.lsh_int a b ∧ IrOps.irsh_int a b = IrOps.rsh_int a b :=
  ⟨rfl, rfl, rfl, rfl, rfl, rfl, rfl, rfl, rfl, rfl⟩

/-! ## `int / int` and `int <op> float`: where the compiled code is *not* exact (findings C15-a `int-truediv-double-rounding`, C15-b `int-float-comparison-converts-int`)

The full statements ("compiled true division / mixed comparison equals CPython's for all operands") are false
of the current code; they stay visible as refuted, with the witnesses replayed on the real code on every
run (`harness/c15/run.py`, stream `witness`), and the part that does hold is stated as `…_partial`. -/

/-- finding C15-a: `CPyTagged_TrueDivide` rounds the operands before dividing: `(2^53+1) / 3` is
    `3002399751580330.5` compiled, `3002399751580331.0` in CPython. -/
theorem not_truediv_exact : ¬ ∀ a b : Int, b ≠ 0 →
    (FloatConv.compiledTrueDiv a b).same (FloatConv.cpythonTrueDiv a b) = true := by
  intro h
  have h1 := h 9007199254740993 3 (by decide)
  rw [FloatConv.compiled_truediv_witness] at h1
  cases h1

/-- what holds: operands up to 2^53 in magnitude convert exactly, so the single IEEE division is CPython's -/
theorem truediv_exact_partial (a b : Int)
    (ha : -9007199254740992 ≤ a ∧ a ≤ 9007199254740992) (hb : -9007199254740992 ≤ b ∧ b ≤ 9007199254740992) :
    FloatConv.compiledTrueDiv a b = FloatConv.cpythonTrueDiv a b := FloatConv.truediv_exact_partial a b ha hb

/-- finding C15-b: comparing an `int` with a `float` goes through `(double)int`: `2^53+1 == 2.0^53` holds after the
    conversion although the integers differ. -/
theorem not_int_float_compare_exact : ¬ ∀ a f : Int, (FloatConv.toDouble a = f ↔ a = f) := by
  intro h
  have := (h 9007199254740993 9007199254740992).1 FloatConv.toDouble_witness
  omega

theorem int_float_compare_exact_partial (a : Int) (h : -9007199254740992 ≤ a ∧ a ≤ 9007199254740992) :
    FloatConv.toDouble a = a := FloatConv.toDouble_small a h

end C15
