import MypyVerif.Model.Graph
import MypyVerif.Proofs.Sched
import MypyVerif.Gen.Globals
/-!
# C10 — results are deterministic and independent of irrelevant context

* (a) `order_independent_acyclic`: any two dependency-respecting processing orders give every unit the same
  result (so for programs without import cycles the listing order of the files, which only breaks ties
  between independent units, cannot change the set of diagnostics).
* (b) `reach_perm`, `scc_perm`, `layer_perm`, `topsort_perm`: the SCC of a vertex and every layer of the
  topological sort are the same *sets* whatever the iteration order of the vertex container; after the
  explicit `sorted(...)` tie-break (`sortBy_perm_eq`, keys distinct) the processing order is a function
  of the graph and `State.order` only.
* (c) serialisation order-independence is C11's `symbolTable_bytes_perm`.
* (d) `reset_complete`: generated obligation — every process-global mutable state found in the anchored
  modules is reset at build start or carries a reviewed exemption.
-/
namespace Graph

theorem reach_perm (edge : Nat → Nat → Bool) (i1 i2 : List Nat) (p : i1.Perm i2) :
    ∀ fuel v w, reachB edge i1 fuel v w = reachB edge i2 fuel v w := by
  intro fuel
  induction fuel with
  | zero => intro v w; rfl
  | succ n ih =>
    intro v w
    simp only [reachB]
    have : (fun u => edge v u && reachB edge i1 n u w) = (fun u => edge v u && reachB edge i2 n u w) := by
      funext u; rw [ih]
    rw [this, p.any_eq]

/-- the SCC of a vertex does not depend on the iteration order of the vertex set -/
theorem scc_perm (edge : Nat → Nat → Bool) (i1 i2 : List Nat) (p : i1.Perm i2) (v : Nat) :
    (sccOf edge i1 v).Perm (sccOf edge i2 v) := by
  unfold sccOf
  have hl : i1.length = i2.length := p.length_eq
  have : (fun w => reachB edge i1 i1.length v w && reachB edge i1 i1.length w v)
       = (fun w => reachB edge i2 i2.length v w && reachB edge i2 i2.length w v) := by
    funext w
    rw [reach_perm edge i1 i2 p, reach_perm edge i1 i2 p, hl]
  rw [this]
  exact p.filter _

theorem contains_perm (r1 r2 : List Nat) (p : r1.Perm r2) (x : Nat) : r1.contains x = r2.contains x := by
  rw [Bool.eq_iff_iff]
  simp only [List.contains_iff_mem]
  exact p.mem_iff

/-- layer-wise equality as sets -/
inductive LayersPerm : List (List Nat) → List (List Nat) → Prop
  | nil : LayersPerm [] []
  | cons {a b : List Nat} {as bs : List (List Nat)} : a.Perm b → LayersPerm as bs → LayersPerm (a :: as) (b :: bs)

/-- one round of Kahn's algorithm yields the same set for every iteration order of the vertices and of
    the already-removed set -/
theorem layer_perm (edge : Nat → Nat → Bool) (i1 i2 r1 r2 : List Nat) (p : i1.Perm i2) (q : r1.Perm r2) :
    (layer edge i1 r1).Perm (layer edge i2 r2) := by
  unfold layer
  have : (fun v => !r1.contains v && i1.all (fun d => !(edge v d) || d == v || r1.contains d))
       = (fun v => !r2.contains v && i2.all (fun d => !(edge v d) || d == v || r2.contains d)) := by
    funext v
    rw [contains_perm r1 r2 q v]
    have : (fun d => !(edge v d) || d == v || r1.contains d) = (fun d => !(edge v d) || d == v || r2.contains d) := by
      funext d; rw [contains_perm r1 r2 q d]
    rw [this, p.all_eq]
  rw [this]
  exact p.filter _

/-- **topsort_perm**: every layer the topological sort yields is the same set, whatever the iteration
    order of the vertex container (and of the sets built along the way) -/
theorem topsort_perm (edge : Nat → Nat → Bool) (i1 i2 : List Nat) (p : i1.Perm i2) :
    ∀ (fuel : Nat) (r1 r2 : List Nat), r1.Perm r2 →
      LayersPerm (topsort edge i1 fuel r1) (topsort edge i2 fuel r2) := by
  intro fuel
  induction fuel with
  | zero => intro r1 r2 _; exact LayersPerm.nil
  | succ n ih =>
    intro r1 r2 q
    have hl := layer_perm edge i1 i2 r1 r2 p q
    simp only [topsort]
    have he : (layer edge i1 r1).isEmpty = (layer edge i2 r2).isEmpty := by
      have := hl.length_eq
      cases h1 : layer edge i1 r1 <;> cases h2 : layer edge i2 r2 <;> simp_all
    rw [he]
    split
    · exact LayersPerm.nil
    · exact LayersPerm.cons hl (ih _ _ (q.append hl))

theorem insertBy_perm (key : Nat → Nat) (x : Nat) (l : List Nat) : (insertBy key x l).Perm (x :: l) := by
  induction l with
  | nil => exact List.Perm.refl _
  | cons y ys ih =>
    simp only [insertBy]
    split
    · exact List.Perm.refl _
    · exact (List.Perm.cons y ih).trans (List.Perm.swap x y ys)

theorem sortBy_perm (key : Nat → Nat) (l : List Nat) : (sortBy key l).Perm l := by
  induction l with
  | nil => exact List.Perm.refl _
  | cons x xs ih => exact (insertBy_perm key x _).trans (List.Perm.cons x ih)

def Sorted (key : Nat → Nat) : List Nat → Prop
  | [] => True
  | [_] => True
  | x :: y :: r => key x < key y ∧ Sorted key (y :: r)

/-- two strictly key-sorted lists with the same members are equal (the sorted order is unique when keys
    are distinct, as `State.order` values are) -/
theorem sorted_perm_eq (key : Nat → Nat) : ∀ (l1 l2 : List Nat), Sorted key l1 → Sorted key l2 →
    (∀ x, x ∈ l1 ↔ x ∈ l2) → l1 = l2 := by
  have head_min : ∀ (l : List Nat) (x : Nat), Sorted key (x :: l) → ∀ y ∈ l, key x < key y := by
    intro l
    induction l with
    | nil => intro x _ y hy; cases hy
    | cons z zs ih =>
      intro x hs y hy
      simp only [Sorted] at hs
      simp only [List.mem_cons] at hy
      rcases hy with rfl | hy
      · exact hs.1
      · exact Nat.lt_trans hs.1 (ih z hs.2 y hy)
  have tail_sorted : ∀ (l : List Nat) (x : Nat), Sorted key (x :: l) → Sorted key l := by
    intro l x hs
    cases l with
    | nil => trivial
    | cons z zs => exact hs.2
  intro l1
  induction l1 with
  | nil =>
    intro l2 _ _ hm
    cases l2 with
    | nil => rfl
    | cons y ys => exact absurd ((hm y).mpr (by simp)) (by simp)
  | cons x xs ih =>
    intro l2 h1 h2 hm
    cases l2 with
    | nil => exact absurd ((hm x).mp (by simp)) (by simp)
    | cons y ys =>
      have hxy : x = y := by
        have hx : x ∈ y :: ys := (hm x).mp (by simp)
        have hy : y ∈ x :: xs := (hm y).mpr (by simp)
        simp only [List.mem_cons] at hx hy
        rcases hx with rfl | hx
        · rfl
        · rcases hy with rfl | hy
          · rfl
          · have a := head_min ys y h2 x hx
            have b := head_min xs x h1 y hy
            omega
      subst hxy
      congr 1
      apply ih ys (tail_sorted xs x h1) (tail_sorted ys x h2)
      intro z
      constructor
      · intro hz
        have : z ∈ x :: ys := (hm z).mp (by simp [hz])
        simp only [List.mem_cons] at this
        rcases this with rfl | h
        · have := head_min xs z h1 z hz; omega
        · exact h
      · intro hz
        have : z ∈ x :: xs := (hm z).mpr (by simp [hz])
        simp only [List.mem_cons] at this
        rcases this with rfl | h
        · have := head_min ys z h2 z hz; omega
        · exact h

end Graph

namespace Sched

/-- **order_independent_acyclic**: two processing orders (any dependency-respecting listings of the units,
    e.g. induced by different orders of the file arguments) give every unit the same result. -/
theorem order_independent_acyclic (g : Graph) (F : Nat → Env → Val) (ha : Acyclic g) (hl : DepLocal g F)
    (o1 o2 : List Nat) (s1 s2 : St)
    (h1 : run g F St.init (o1.map Event.fresh) = some s1)
    (h2 : run g F St.init (o2.map Event.fresh) = some s2)
    (u : Nat) (v1 v2 : Val) (e1 : s1.res u = some v1) (e2 : s2.res u = some v2) : v1 = v2 := by
  have a := (run_inv g F ha hl _ St.init s1 (inv_init F) h1).1 u v1 e1
  have b := (run_inv g F ha hl _ St.init s2 (inv_init F) h2).1 u v2 e2
  rw [a, b]

end Sched

namespace GlobalsGen
open GlobalsPolicy

/-- **reset_complete** (generated obligation): every process-global mutable state found in the anchored
    modules is reset when a build starts, or carries a reviewed exemption. -/
theorem reset_complete : allOk table = true := by decide +kernel

end GlobalsGen

-- non-vacuity
example : (Graph.topsort (fun v w => (v, w) ∈ [(1, 0), (2, 0), (3, 1), (3, 2)]) [3, 1, 0, 2] 5 []) = [[0], [1, 2], [3]] := by decide
example : (Graph.topsort (fun v w => (v, w) ∈ [(1, 0), (2, 0), (3, 1), (3, 2)]) [2, 0, 3, 1] 5 []) = [[0], [2, 1], [3]] := by decide
example : Graph.sccOf (fun v w => (v, w) ∈ [(0, 1), (1, 2), (2, 0), (2, 3)]) [3, 2, 1, 0] 1 = [2, 1, 0] := by decide
