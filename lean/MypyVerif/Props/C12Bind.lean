import MypyVerif.Proofs.BindDup
/-!
# C12 (call binding) — mypy rejects a call for arity/keyword reasons iff CPython raises TypeError

Models: `ArgMap` (mypy: `map_actuals_to_formals` + `check_argument_count`), `PyBind` (CPython: call-site
evaluation + `initialize_locals`).  `Sig` is a `def` signature with positional-only, positional-or-keyword
(with a suffix of defaults), `*args`, keyword-only (each with/without default) and `**kwargs` parameters;
`Sig.WF` is what the compiler guarantees (distinct parameter names, `ndef ≤ nargs`).

* `arity_iff_core`            every well-formed signature (any number of parameters), every call made of any
                              number of positional actuals followed by any distinct keywords:
                              mypy's model reports an arity/keyword error ⇔ CPython's model raises TypeError
* `arity_core_both_decide`    … and both sides equal the declarative condition `CoreOk`
* `not_arity_iff_kwdup`, `not_arity_iff_star_kw`, `not_arity_iff_typeddict_names_star_args`
                              the full statement (with `*tuple` / `**TypedDict` actuals) is false of the
                              current code: three witnesses (findings F9 i, ii, iii) — all false *accepts*
* `arity_iff_star`, `expand_star_equiv`
                              the same with `*tuple` actuals of known length anywhere among the positional
                              actuals: a `*tuple` of length k behaves, in both models, like k positionals
* `arity_iff_partial`         the property on *every* call shape with known sizes/keys outside the four
                              decidable shapes F8, F9 (i), (ii), (iii)
* `arity_typeddict_no_false_reject`, `arity_iff_typeddict`
                              with `**TypedDict` actuals as well (supplied keys pairwise distinct): no false
                              reject without any exclusion; the iff outside the shapes F9 (ii) and F9 (iii)
-/
namespace PyBind
open ArgMap

/-- **arity_iff_core** — for every well-formed signature and every call `f(e₁,…,eₙ, k₁=…, …, kₘ=…)` with
    distinct keyword names (duplicates are a syntax error): mypy's model reports an arity / keyword
    diagnostic if and only if CPython's model raises `TypeError`.  Unbounded in the number of parameters,
    positional actuals and keywords. -/
theorem arity_iff_core (s : Sig) (hwf : s.WF) (npos : Nat) (kws : List Name) (hk : kws.Nodup) :
    mypyRejects s.toFormals (coreCall npos kws) = true ↔ pyRaises s (coreCall npos kws) = some true := by
  have h1 := mypy_ok_iff s hwf npos kws hk
  have h2 := pyBind_none_iff s npos kws hk
  unfold mypyRejects pyRaises
  rw [pyCall_core s npos kws hk]
  simp only [Option.map_some, Option.some.injEq]
  constructor
  · intro h
    cases hb : pyBind s npos kws with
    | some e => rfl
    | none =>
      have := h1.2 (h2.1 hb)
      rw [this] at h; simp at h
  · intro h
    cases hm : mypyErrors s.toFormals (coreCall npos kws) with
    | cons e es => rfl
    | nil =>
      have := h2.2 (h1.1 hm)
      rw [this] at h; simp at h

/-- both models decide exactly the declarative binding condition -/
theorem arity_core_both_decide (s : Sig) (hwf : s.WF) (npos : Nat) (kws : List Name) (hk : kws.Nodup) :
    (mypyErrors s.toFormals (coreCall npos kws) = [] ↔ CoreOk s npos kws) ∧
    (pyBind s npos kws = none ↔ CoreOk s npos kws) :=
  ⟨mypy_ok_iff s hwf npos kws hk, pyBind_none_iff s npos kws hk⟩

/-- no false reject and no false accept, spelled out -/
theorem arity_core_no_false_reject (s : Sig) (hwf : s.WF) (npos : Nat) (kws : List Name) (hk : kws.Nodup) :
    pyCall s (coreCall npos kws) = some none → mypyErrors s.toFormals (coreCall npos kws) = [] := by
  intro h
  rw [pyCall_core s npos kws hk] at h
  injection h with h
  exact (mypy_ok_iff s hwf npos kws hk).2 ((pyBind_none_iff s npos kws hk).1 h)

/-- **arity_iff_star** (`expand_star_equiv` + `arity_iff_core`) — the same with `*tuple` actuals of
    statically known lengths anywhere among the positional actuals: for every well-formed signature, every
    list of positional groups (`none` = one positional actual, `some k` = a `*tuple` with `k` items, `k ≥ 0`)
    and all distinct keywords, mypy's model reports an arity / keyword diagnostic if and only if CPython's
    model raises `TypeError`; both are decided by `CoreOk` at the expanded number `width pa` of positional
    arguments, i.e. a `*tuple` of length `k` behaves in both models like `k` positional actuals. -/
theorem arity_iff_star (s : Sig) (hwf : s.WF) (pa : List (Option Nat)) (kws : List Name) (hk : kws.Nodup) :
    mypyRejects s.toFormals (starCall pa kws) = true ↔ pyRaises s (starCall pa kws) = some true := by
  have h1 := mypy_ok_iff_star s hwf pa kws hk
  have h2 := pyBind_none_iff s (width pa) kws hk
  unfold mypyRejects pyRaises
  rw [pyCall_star s pa kws hk]
  simp only [Option.map_some, Option.some.injEq]
  constructor
  · intro h
    cases hb : pyBind s (width pa) kws with
    | some e => rfl
    | none =>
      have := h1.2 (h2.1 hb)
      rw [this] at h; simp at h
  · intro h
    cases hm : mypyErrors s.toFormals (starCall pa kws) with
    | cons e es => rfl
    | nil =>
      have := h2.2 (h1.1 hm)
      rw [this] at h; simp at h

/-- `expand_star_equiv`: a `*tuple` of known length `k` is, for both models, the same as `k` positional
    actuals in its place (stated on the verdicts) -/
theorem expand_star_equiv (s : Sig) (hwf : s.WF) (pa : List (Option Nat)) (kws : List Name) (hk : kws.Nodup) :
    mypyRejects s.toFormals (starCall pa kws) = mypyRejects s.toFormals (coreCall (width pa) kws) ∧
    pyRaises s (starCall pa kws) = pyRaises s (coreCall (width pa) kws) := by
  constructor
  · have a := mypy_ok_iff_star s hwf pa kws hk
    have b := mypy_ok_iff s hwf (width pa) kws hk
    unfold mypyRejects
    cases h1 : mypyErrors s.toFormals (starCall pa kws) with
    | nil =>
      rw [b.2 (a.1 h1)]
    | cons e es =>
      cases h2 : mypyErrors s.toFormals (coreCall (width pa) kws) with
      | nil => rw [a.2 (b.1 h2)] at h1; cases h1
      | cons e' es' => rfl
  · unfold pyRaises
    rw [pyCall_star s pa kws hk, pyCall_core s (width pa) kws hk]

/-! ## `**TypedDict` actuals -/

/-- **no false reject** (`expand_kw_equiv`, direction ⇒, no exclusion): for every well-formed signature and
    every call made of positional actuals, `*tuple`s of known length, explicit keywords and `**TypedDict`
    actuals whose supplied keys are pairwise distinct — if CPython's model binds the call, mypy's model
    reports no arity / keyword diagnostic. -/
theorem arity_typeddict_no_false_reject (s : Sig) (hwf : s.WF) (pa : List (Option Nat)) (kg : List KwGroup)
    (hk : (flatKeys kg).Nodup) :
    pyRaises s (fullCall pa kg) = some false → mypyRejects s.toFormals (fullCall pa kg) = false := by
  unfold pyRaises mypyRejects
  rw [pyCall_full s pa kg hk]
  simp only [Option.map_some, Option.some.injEq]
  intro h
  have hb : pyBind s (width pa) (flatKeys kg) = none := by
    cases hp : pyBind s (width pa) (flatKeys kg) with
    | none => rfl
    | some e => rw [hp] at h; simp at h
  rw [mypy_ok_of_coreOk_full s hwf pa kg hk ((pyBind_none_iff s _ _ hk).1 hb)]
  rfl

/-- **arity_iff_typeddict** (`expand_kw_equiv_partial`): the same calls, outside the two shapes
    `StarThenTypedDict` (F9 ii) and `TypedDictKeyNamesStarArgs` (F9 iii): mypy's model reports an arity /
    keyword diagnostic if and only if CPython's model raises `TypeError`. -/
theorem arity_iff_typeddict (s : Sig) (hwf : s.WF) (pa : List (Option Nat)) (kg : List KwGroup)
    (hk : (flatKeys kg).Nodup)
    (hb9 : StarThenTypedDict s.toFormals (fullCall pa kg) = false)
    (hc9 : TypedDictKeyNamesStarArgs s.toFormals (fullCall pa kg) = false) :
    mypyRejects s.toFormals (fullCall pa kg) = true ↔ pyRaises s (fullCall pa kg) = some true := by
  have h2 := pyBind_none_iff s (width pa) (flatKeys kg) hk
  unfold mypyRejects pyRaises
  rw [pyCall_full s pa kg hk]
  simp only [Option.map_some, Option.some.injEq]
  constructor
  · intro h
    cases hb : pyBind s (width pa) (flatKeys kg) with
    | some e => rfl
    | none =>
      have := mypy_ok_of_coreOk_full s hwf pa kg hk (h2.1 hb)
      rw [this] at h; simp at h
  · intro h
    cases hm : mypyErrors s.toFormals (fullCall pa kg) with
    | cons e es => rfl
    | nil =>
      have := h2.2 (coreOk_of_mypy_ok_full s hwf pa kg hk hb9 hc9 hm)
      rw [this] at h; simp at h

/-- **arity_iff_partial** — the property on every call shape with statically known sizes and keys, outside
    the known-defect shapes.  `fullCall pa kg` is a call as mypy (and Python's `ast`) orders it: positional and
    `*tuple` actuals (`pa`, any lengths ≥ 0), then explicit keywords and `**TypedDict` actuals (`kg`).
    Hypotheses: the signature is well formed; explicit keywords are pairwise distinct and the keys of each
    TypedDict are distinct (`SyntaxOK`, guaranteed by Python's grammar and by TypedDict); and the call is in
    none of the four decidable shapes of `Model/PyBind.lean` — F8 (two TypedDicts share a key: mypy crashes),
    F9 (i) `KwDupIntoStar`, F9 (ii) `StarThenTypedDict`, F9 (iii) `TypedDictKeyNamesStarArgs`.
    Then mypy's model reports an arity / keyword diagnostic ⇔ CPython's model raises `TypeError`. -/
theorem arity_iff_partial (s : Sig) (hwf : s.WF) (pa : List (Option Nat)) (kg : List KwGroup)
    (hsyn : SyntaxOK kg)
    (h8 : TwoTypedDictsShareKey (fullCall pa kg) = false)
    (h9a : KwDupIntoStar s.toFormals (fullCall pa kg) = false)
    (h9b : StarThenTypedDict s.toFormals (fullCall pa kg) = false)
    (h9c : TypedDictKeyNamesStarArgs s.toFormals (fullCall pa kg) = false) :
    mypyRejects s.toFormals (fullCall pa kg) = true ↔ pyRaises s (fullCall pa kg) = some true := by
  by_cases hk : (flatKeys kg).Nodup
  · exact arity_iff_typeddict s hwf pa kg hk h9b h9c
  · -- a key is supplied twice: CPython raises at the call site, mypy reports it
    have hpy := pyRaises_dup s pa kg hk
    obtain ⟨c1, c2, g1, g2, x, hlt, h1, h2, hx1, hx2⟩ := dup_groups kg hsyn.2 hk
    have hroute := routes_false_of_f9a s pa kg h9a (two_le_count kg c1 c2 g1 g2 x hlt h1 h2 hx1 hx2)
    have hmy : mypyErrors s.toFormals (fullCall pa kg) ≠ [] := by
      cases g1 with
      | kw y =>
        simp only [KwGroup.keys, List.mem_singleton] at hx1; subst hx1
        cases g2 with
        | kw z =>
          simp only [KwGroup.keys, List.mem_singleton] at hx2; subst hx2
          exact absurd h2 (fun h2 => hsyn.1 c1 c2 x hlt h1 h2)
        | td ks => exact dup_key_rejected s pa kg x c1 c2 ks h1 h2 hx2 hroute
      | td ks1 =>
        cases g2 with
        | kw z =>
          simp only [KwGroup.keys, List.mem_singleton] at hx2; subst hx2
          exact dup_key_rejected s pa kg x c2 c1 ks1 h2 h1 hx1 hroute
        | td ks2 => exact absurd hx2 (fun hx2 => noShared_of_f8 pa kg h8 c1 c2 ks1 ks2 x hlt h1 h2 hx1 hx2)
    constructor
    · intro _; exact hpy
    · intro _
      unfold mypyRejects
      cases hm : mypyErrors s.toFormals (fullCall pa kg) with
      | nil => exact absurd hm hmy
      | cons e es => rfl

/-- non-vacuity of `arity_iff_partial`: `def f(a, b=0, *, k)`; `f(*(1,), **{'b': …}, k=…)` satisfies every
    hypothesis (and binds), as does the rejected `f(**{'b': …}, b=…, k=…)`, a repeated key on a named formal -/
example :
    let s : Sig := { posonly := [], poskw := [1, 2], ndef := 1, varargs := none, kwonly := [(5, false)], varkw := none }
    let pa : List (Option Nat) := [some 1]
    let kg : List KwGroup := [.td [2], .kw 5]
    s.WF ∧ SyntaxOK kg ∧ TwoTypedDictsShareKey (fullCall pa kg) = false ∧
    KwDupIntoStar s.toFormals (fullCall pa kg) = false ∧ StarThenTypedDict s.toFormals (fullCall pa kg) = false ∧
    TypedDictKeyNamesStarArgs s.toFormals (fullCall pa kg) = false ∧
    mypyRejects s.toFormals (fullCall pa kg) = false ∧
    mypyRejects s.toFormals (fullCall [] [.td [2], .kw 2, .kw 5]) = true ∧
    KwDupIntoStar s.toFormals (fullCall [] [.td [2], .kw 2, .kw 5]) = false := by
  refine ⟨by decide, ⟨?_, ?_⟩, by decide, by decide, by decide, by decide, by decide, by decide, by decide⟩
  · intro c1 c2 x hlt h1 h2
    rcases c1 with _ | _ | c1 <;> rcases c2 with _ | _ | c2 <;> simp at h1 h2 <;> omega
  · intro g hg
    simp at hg
    rcases hg with rfl | rfl <;> decide

/-! ## the full statement is false of the current code (F9) -/

/-- The full statement: for every well-formed signature and every call whose `*`/`**` actuals have
    statically known sizes / keys.  -/
def ArityIff : Prop :=
  ∀ (s : Sig) (acts : List Actual), s.WF → AllKnown acts = true →
    (mypyRejects s.toFormals acts = true ↔ pyRaises s acts = some true)

/-- F9 (i): `def f(**kw)`; `f(z=1, **{'z': 1})` — mypy silent, CPython "multiple values for keyword argument" -/
theorem not_arity_iff_kwdup : ¬ ArityIff := by
  intro h
  have := (h { posonly := [], poskw := [], ndef := 0, varargs := none, kwonly := [], varkw := some 9 }
    [.named 7, .star2 (some [7])] (by decide) (by decide)).2 (by decide)
  exact absurd this (by decide)

/-- F9 (ii): `def f(a)`; `f(*(1,), **{'a': 1})` — mypy silent, CPython "multiple values for argument 'a'" -/
theorem not_arity_iff_star_kw : ¬ ArityIff := by
  intro h
  have := (h { posonly := [], poskw := [1], ndef := 0, varargs := none, kwonly := [], varkw := none }
    [.star (some 1), .star2 (some [1])] (by decide) (by decide)).2 (by decide)
  exact absurd this (by decide)

/-- F9 (iii): `def f(*va)`; `f(**{'va': 1})` — mypy silent, CPython "unexpected keyword argument 'va'".
    Holds for a mapper whose TypedDict branch lacks the `!= ARG_STAR` test (generated constant
    `Cfg.typedDictKeyMayNameStarArgs`, translate/c12bind.py — `true` for the code as found). -/
theorem not_arity_iff_typeddict_names_star_args (hcfg : Cfg.typedDictKeyMayNameStarArgs = true) : ¬ ArityIff := by
  intro h
  have key : Cfg.typedDictKeyMayNameStarArgs = true →
      mypyRejects ({ posonly := [], poskw := [], ndef := 0, varargs := some 8, kwonly := [], varkw := none } : Sig).toFormals
        [.star2 (some [8])] = false := by decide
  have := (h { posonly := [], poskw := [], ndef := 0, varargs := some 8, kwonly := [], varkw := none }
    [.star2 (some [8])] (by decide) (by decide)).2 (by decide)
  rw [key hcfg] at this
  cases this

/-- the three witnesses lie in the three excluded shapes, one each (the third shape exists only for a
    mapper with `Cfg.typedDictKeyMayNameStarArgs`) -/
theorem witnesses_in_excluded_shapes :
    KwDupIntoStar [{ kind := .star2, name := some 9 }] [.named 7, .star2 (some [7])] = true ∧
    StarThenTypedDict [{ kind := .pos, name := some 1 }] [.star (some 1), .star2 (some [1])] = true ∧
    TypedDictKeyNamesStarArgs [{ kind := .star, name := some 8 }] [.star2 (some [8])] =
      Cfg.typedDictKeyMayNameStarArgs := by
  decide

/-! ## non-vacuity -/

/-- a signature with every kind of parameter is well formed … -/
example : ({ posonly := [1], poskw := [2, 3], ndef := 1, varargs := some 8,
             kwonly := [(5, false), (6, true)], varkw := some 9 } : Sig).WF := by decide

/-- … `f(1, 2, k=…)` binds under both models, `f(1, k=…)` and `f(1, 2, b=…, k=…)` do not -/
example :
    let s : Sig := { posonly := [1], poskw := [2, 3], ndef := 1, varargs := some 8,
                     kwonly := [(5, false), (6, true)], varkw := some 9 }
    mypyRejects s.toFormals (coreCall 2 [5]) = false ∧ pyRaises s (coreCall 2 [5]) = some false ∧
    mypyRejects s.toFormals (coreCall 1 [5]) = true ∧ pyRaises s (coreCall 1 [5]) = some true ∧
    mypyRejects s.toFormals (coreCall 2 [2, 5]) = true ∧ pyRaises s (coreCall 2 [2, 5]) = some true := by
  decide

/-- `def f(a, b=0, *, k)`: `f(*(1, 2), k=…)` binds, `f(1, *(1, 2), k=…)` does not, `f(*(), *(1,), a=…)` does not -/
example :
    let s : Sig := { posonly := [], poskw := [1, 2], ndef := 1, varargs := none, kwonly := [(5, false)], varkw := none }
    mypyRejects s.toFormals (starCall [some 2] [5]) = false ∧ pyRaises s (starCall [some 2] [5]) = some false ∧
    mypyRejects s.toFormals (starCall [none, some 2] [5]) = true ∧
    pyRaises s (starCall [none, some 2] [5]) = some true ∧
    mypyRejects s.toFormals (starCall [some 0, some 1] [1, 5]) = true ∧
    pyRaises s (starCall [some 0, some 1] [1, 5]) = some true := by
  decide

example : CoreOk { posonly := [], poskw := [1], ndef := 0, varargs := none, kwonly := [], varkw := none } 0 [1] := by
  refine ⟨Or.inl (by decide), ?_, ?_, ?_, ?_⟩
  · intro x hx; simp at hx; subst hx; decide
  · intro x hx j hj; simp at hx; subst hx; simp [Sig.nargs]
  · intro i hi
    have : i = 0 := by simp [Sig.nargs] at hi; omega
    subst this; exact Or.inr ⟨1, by simp, by decide⟩
  · intro j hj; simp at hj

end PyBind
