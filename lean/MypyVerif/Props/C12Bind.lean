import MypyVerif.Proofs.Bind
/-!
# C12 (call binding) — mypy rejects a call for arity/keyword reasons iff CPython raises TypeError
-/
namespace PyBind
open ArgMap

/-- `def f(**kw)`; `f(z=1, **{'z': 1})` — F9 (i) -/
theorem not_arity_iff_kwdup :
    ∃ (s : Sig) (acts : List Actual), s.WF ∧ AllKnown acts = true ∧
      mypyRejects s.toFormals acts = false ∧ pyRaises s acts = some true :=
  ⟨{ posonly := [], poskw := [], ndef := 0, varargs := none, kwonly := [], varkw := some 9 },
   [.named 7, .star2 (some [7])], by decide, by decide, by decide, by decide⟩

/-- `def f(a)`; `f(*(1,), **{'a': 1})` — F9 (ii) -/
theorem not_arity_iff_star_kw :
    ∃ (s : Sig) (acts : List Actual), s.WF ∧ AllKnown acts = true ∧
      mypyRejects s.toFormals acts = false ∧ pyRaises s acts = some true :=
  ⟨{ posonly := [], poskw := [1], ndef := 0, varargs := none, kwonly := [], varkw := none },
   [.star (some 1), .star2 (some [1])], by decide, by decide, by decide, by decide⟩

end PyBind
