import MypyVerif.Model.PlugSnap
import MypyVerif.Gen.PlugCfg
/-!
# C04 / C02 — entries are tied to the plugins they were computed with

For every history of runs — any plugins version per run, any set of modules per run, killed after any number of
store operations — an entry that a later run trusts was computed with that run's plugins, provided the entry's own
options snapshot records the plugins (`Cfg.entryRecordsPlugins`, regenerated from the source on every run).  With
the global record alone the statement is false: two kernel-checked witnesses, the kill-then-revert history (F34)
and the module that is outside the build while the plugins change (F35).
-/
namespace PlugSnap

/-- every entry records the plugins version it was computed with -/
def Coherent (s : St) : Prop := ∀ m e, s.ent m = some e → e.recorded = e.analysed

theorem apply_coherent (s : St) (h : Coherent s) (o : Op) : Coherent (apply s o) := by
  cases o with
  | rewrite m q =>
    intro x e hx
    simp only [apply, St.set] at hx
    by_cases hxm : x = m
    · simp [hxm] at hx; subst hx; rfl
    · simp [hxm] at hx; exact h x e hx
  | setSnap q => intro x e hx; exact h x e hx

theorem applyAll_coherent (ops : List Op) : ∀ (s : St), Coherent s → Coherent (applyAll s ops) := by
  induction ops with
  | nil => intro s h; exact h
  | cons o os ih => intro s h; exact ih _ (apply_coherent s h o)

theorem history_coherent (cfg : Cfg) (rs : List Run) : ∀ (s : St), Coherent s → Coherent (history cfg s rs) := by
  induction rs with
  | nil => intro s h; exact h
  | cons r rs ih => intro s h; exact ih _ (applyAll_coherent _ s h)

theorem empty_coherent : Coherent empty := by intro m e h; simp [empty] at h

/-- **trusted_was_computed_with_these_plugins.**  After any history of complete and killed runs from the empty
    cache, an entry that a run with plugins `q` trusts holds results computed with plugins `q`. -/
theorem trusted_was_computed_with_these_plugins (rs : List Run) (q m : Nat) (e : Entry)
    (he : (history { entryRecordsPlugins := true } empty rs).ent m = some e)
    (ht : trusted { entryRecordsPlugins := true } (history { entryRecordsPlugins := true } empty rs) q m = true) :
    e.analysed = q := by
  have hc := history_coherent { entryRecordsPlugins := true } rs empty empty_coherent m e he
  unfold trusted at ht
  rw [he] at ht
  simp only [Bool.not_true, Bool.false_or, Bool.and_eq_true, beq_iff_eq] at ht
  rw [← hc]; exact ht.2

/-- the code as it is now records the plugins in every entry (regenerated from `options_snapshot`) -/
theorem cfg_records : Gen.PlugCfg.cfg.entryRecordsPlugins = true := by decide

/-! ### With the global record alone the statement is false -/

/-- F34: both modules computed with plugins 1; plugins change to 2, the run is killed after rewriting module 0
    and before the record is written; the change is reverted: the next run (plugins 1) trusts module 0's entry,
    which was computed with plugins 2. -/
theorem not_trusted_sound_kill_then_revert :
    ∃ (rs : List Run) (q m : Nat) (e : Entry),
      (history { entryRecordsPlugins := false } empty rs).ent m = some e ∧
      trusted { entryRecordsPlugins := false } (history { entryRecordsPlugins := false } empty rs) q m = true ∧
      e.analysed ≠ q :=
  ⟨[{ q := 1, build := [0, 1], k := 3 }, { q := 2, build := [0, 1], k := 1 }], 1, 0, { analysed := 2, recorded := 2 },
   by decide, by decide, by decide⟩

/-- F35: module 1 is outside the build of the run in which the plugins change from 1 to 2 -/
theorem not_trusted_sound_outside_the_build :
    ∃ (rs : List Run) (q m : Nat) (e : Entry),
      (history { entryRecordsPlugins := false } empty rs).ent m = some e ∧
      trusted { entryRecordsPlugins := false } (history { entryRecordsPlugins := false } empty rs) q m = true ∧
      e.analysed ≠ q :=
  ⟨[{ q := 1, build := [0, 1], k := 3 }, { q := 2, build := [0], k := 2 }], 2, 1, { analysed := 1, recorded := 1 },
   by decide, by decide, by decide⟩

/-- non-vacuity: the same two histories under the per-entry rule — the entry is not trusted and gets rewritten -/
example : trusted { entryRecordsPlugins := true }
    (history { entryRecordsPlugins := true } empty
      [{ q := 1, build := [0, 1], k := 3 }, { q := 2, build := [0, 1], k := 1 }]) 1 0 = false
  ∧ trusted { entryRecordsPlugins := true }
    (history { entryRecordsPlugins := true } empty
      [{ q := 1, build := [0, 1], k := 3 }, { q := 2, build := [0], k := 2 }]) 2 1 = false
  ∧ trusted { entryRecordsPlugins := true }
    (history { entryRecordsPlugins := true } empty
      [{ q := 1, build := [0, 1], k := 3 }, { q := 2, build := [0], k := 2 }]) 2 0 = true := by decide

end PlugSnap
