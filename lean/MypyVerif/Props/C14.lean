import MypyVerif.Proofs.ParseNorm
import MypyVerif.Model.ErrPos
/-!
# C14 — both parsers mean the same thing and report valid positions  (the part that is logic)

Property theorems only (helpers: Proofs/ParseNorm.lean; models: Model/ParseNorm.lean, Model/ErrPos.lean).

What is proved here, for **every** input (unbounded quantifiers):

* the third clause of the property — for every call of `Errors.report` the stored span has `end_line ≥ line`
  and, on one line, `end_column > column`; in the printed form (`line:col+1:end_line:end_column`) the end is
  never before the start; a span that is already valid is stored unchanged;
* the normalisations both front ends must implement: the parameter list (`transform_args` — stated for any
  `Argument` constructor that stores name/kind/default, hence for both front ends), the `pos_only` flag of
  each front end and exactly when the two agree (they do **not** always: `not_parsers_agree_posonly`), the
  special-method rule, `arg_names`, `check_param_names`; the `# type: ignore[...]` tag grammar
  (`parseTag_iff`: accepted exactly on the declarative grammar, with exactly those codes); the `# mypy:`
  comment collection.

What is *not* proved (searched by the differential in harness/c14): that the two front ends produce the same
diagnostics on whole programs, and that positions lie inside the file — there is no model of Python's grammar.
-/
namespace ParseNorm

/-! ## positions: the ErrPos.clamp of `Errors.report` (third clause of the property) -/

/-- **`report_end_ge_start`**: for every call of `Errors.report`, the stored `end_line ≥ line` -/
theorem report_end_ge_start (line : Int) (column endLine endColumn : Option Int) :
    (ErrPos.clamp line column endLine endColumn).line ≤ (ErrPos.clamp line column endLine endColumn).endLine := by
  cases endLine with
  | none => simp only [ErrPos.clamp, ErrPos.clampEndLine]; exact Int.le_refl _
  | some e => simp only [ErrPos.clamp, ErrPos.clampEndLine]; split <;> omega

/-- **`report_same_line_end_col`**: when the stored span is on one line, `end_column > column` -/
theorem report_same_line_end_col (line : Int) (column endLine endColumn : Option Int) :
    (ErrPos.clamp line column endLine endColumn).endLine = (ErrPos.clamp line column endLine endColumn).line →
    (ErrPos.clamp line column endLine endColumn).column < (ErrPos.clamp line column endLine endColumn).endColumn := by
  intro h
  simp only [ErrPos.clamp] at h ⊢
  simp only [ErrPos.clampEndColumn]
  split
  · omega
  · rename_i hn
    have : ¬ ErrPos.defaultEndColumn (ErrPos.clampColumn column) endColumn ≤ ErrPos.clampColumn column :=
      fun h' => hn ⟨h.symm, h'⟩
    omega

/-- what is printed with `--show-column-numbers --show-error-end` is `line:column+1:end_line:end_column`:
    the printed end is never before the printed start -/
theorem printed_end_not_before_start (line : Int) (column endLine endColumn : Option Int) :
    (ErrPos.clamp line column endLine endColumn).line < (ErrPos.clamp line column endLine endColumn).endLine ∨
    ((ErrPos.clamp line column endLine endColumn).line = (ErrPos.clamp line column endLine endColumn).endLine ∧
     (ErrPos.clamp line column endLine endColumn).column + 1 ≤ (ErrPos.clamp line column endLine endColumn).endColumn) := by
  have h1 := report_end_ge_start line column endLine endColumn
  have h2 := report_same_line_end_col line column endLine endColumn
  generalize ErrPos.clamp line column endLine endColumn = p at h1 h2 ⊢
  by_cases h : p.line = p.endLine
  · right; exact ⟨h, by have := h2 h.symm; omega⟩
  · left; omega

/-- the ErrPos.clamp never moves a span that is already valid (what a front end supplies is what is stored) -/
theorem clamp_valid_id (line column endLine endColumn : Int)
    (h1 : line ≤ endLine) (h2 : endLine = line → column < endColumn) :
    ErrPos.clamp line (some column) (some endLine) (some endColumn) = ⟨line, column, endLine, endColumn⟩ := by
  have e1 : ErrPos.clampEndLine line (some endLine) = endLine := by
    simp only [ErrPos.clampEndLine]; split <;> omega
  simp only [ErrPos.clamp, ErrPos.clampColumn, ErrPos.defaultEndColumn, ErrPos.clampEndColumn, e1]
  by_cases h : line = endLine ∧ endColumn ≤ column
  · exact absurd (h2 h.1.symm) (by omega)
  · simp [h]

-- the clamp is not vacuous: bad arguments really are repaired, valid ones pass through
example : ErrPos.clamp 3 (some 4) (some 2) (some 1) = ⟨3, 4, 3, 5⟩ := by decide
example : ErrPos.clamp 3 none none none = ⟨3, -1, 3, 0⟩ := by decide
example : ErrPos.clamp 3 (some 4) (some 5) (some 1) = ⟨3, 4, 5, 1⟩ := by decide

/-! ## the parameter list (`transform_args`), for any front end -/

/-- **every parameter appears exactly once, in source order** -/
theorem names_exactly_once {δ : Type} (mk : Name → Option δ → Kind → Bool → Arg δ) (hmk : MkOk mk)
    (a : Arguments δ) (hwf : a.WF) :
    (transformArgsWith mk a).map (·.name) =
      a.posonlyargs ++ a.args ++ a.vararg.toList ++ a.kwonlyargs ++ a.kwarg.toList :=
  names_eq mk hmk a hwf

/-- **kinds come out in canonical order**: `n-k` positional, `k` optional, at most one `*args`, the
    keyword-only ones (optional exactly when they have a default), at most one `**kwargs` -/
theorem kinds_canonical {δ : Type} (mk : Name → Option δ → Kind → Bool → Arg δ) (hmk : MkOk mk)
    (a : Arguments δ) (hwf : a.WF) :
    (transformArgsWith mk a).map (·.kind) =
      List.replicate (a.posonlyargs.length + a.args.length - a.defaults.length) Kind.pos
      ++ List.replicate a.defaults.length Kind.opt
      ++ a.vararg.toList.map (fun _ => Kind.star)
      ++ a.kwDefaults.map kwKind
      ++ a.kwarg.toList.map (fun _ => Kind.star2) :=
  kinds_eq mk hmk a hwf

/-- … hence the kind sequence is sorted by position class (positional ≤ optional ≤ `*` ≤ keyword-only ≤ `**`) -/
theorem kinds_sorted {δ : Type} (mk : Name → Option δ → Kind → Bool → Arg δ) (hmk : MkOk mk)
    (a : Arguments δ) (hwf : a.WF) :
    ((transformArgsWith mk a).map (·.kind)).Pairwise (fun x y => x.rank ≤ y.rank) := by
  rw [kinds_eq mk hmk a hwf]
  have r1 : ∀ x ∈ List.replicate (a.posonlyargs.length + a.args.length - a.defaults.length) Kind.pos, x.rank = 0 := by
    intro x hx; rw [List.eq_of_mem_replicate hx]; rfl
  have r2 : ∀ x ∈ List.replicate a.defaults.length Kind.opt, x.rank = 1 := by
    intro x hx; rw [List.eq_of_mem_replicate hx]; rfl
  have r3 : ∀ x ∈ a.vararg.toList.map (fun _ => Kind.star), x.rank = 2 := by
    intro x hx; obtain ⟨_, _, rfl⟩ := List.mem_map.mp hx; rfl
  have r4 : ∀ x ∈ a.kwDefaults.map kwKind, x.rank = 3 := by
    intro x hx; obtain ⟨o, _, rfl⟩ := List.mem_map.mp hx; cases o <;> rfl
  have r5 : ∀ x ∈ a.kwarg.toList.map (fun _ => Kind.star2), x.rank = 4 := by
    intro x hx; obtain ⟨_, _, rfl⟩ := List.mem_map.mp hx; rfl
  have p12 := pairwise_rank_append _ _ 1 (fun x hx => by rw [r1 x hx]; omega) (fun y hy => by rw [r2 y hy]; omega)
    (pairwise_rank_const _ 0 r1) (pairwise_rank_const _ 1 r2)
  have b12 : ∀ x ∈ List.replicate (a.posonlyargs.length + a.args.length - a.defaults.length) Kind.pos
      ++ List.replicate a.defaults.length Kind.opt, x.rank ≤ 1 := by
    intro x hx
    cases List.mem_append.mp hx with
    | inl e => rw [r1 x e]; omega
    | inr e => rw [r2 x e]; omega
  have p123 := pairwise_rank_append _ _ 2 (fun x hx => by have := b12 x hx; omega) (fun y hy => by rw [r3 y hy]; omega)
    p12 (pairwise_rank_const _ 2 r3)
  have b123 : ∀ x ∈ List.replicate (a.posonlyargs.length + a.args.length - a.defaults.length) Kind.pos
      ++ List.replicate a.defaults.length Kind.opt ++ a.vararg.toList.map (fun _ => Kind.star), x.rank ≤ 2 := by
    intro x hx
    cases List.mem_append.mp hx with
    | inl e => have := b12 x e; omega
    | inr e => rw [r3 x e]; omega
  have p1234 := pairwise_rank_append _ _ 3 (fun x hx => by have := b123 x hx; omega) (fun y hy => by rw [r4 y hy]; omega)
    p123 (pairwise_rank_const _ 3 r4)
  have b1234 : ∀ x ∈ List.replicate (a.posonlyargs.length + a.args.length - a.defaults.length) Kind.pos
      ++ List.replicate a.defaults.length Kind.opt ++ a.vararg.toList.map (fun _ => Kind.star)
      ++ a.kwDefaults.map kwKind, x.rank ≤ 3 := by
    intro x hx
    cases List.mem_append.mp hx with
    | inl e => have := b123 x e; omega
    | inr e => rw [r4 x e]; omega
  exact pairwise_rank_append _ _ 4 (fun x hx => by have := b1234 x hx; omega) (fun y hy => by rw [r5 y hy]; omega)
    p1234 (pairwise_rank_const _ 4 r5)

/-- **defaults attach to the last k positionals** (and keyword-only defaults to their own parameter) -/
theorem defaults_right_aligned {δ : Type} (mk : Name → Option δ → Kind → Bool → Arg δ) (hmk : MkOk mk)
    (a : Arguments δ) (hwf : a.WF) :
    (transformArgsWith mk a).map (·.default) =
      List.replicate (a.posonlyargs.length + a.args.length - a.defaults.length) none
      ++ a.defaults.map some
      ++ a.vararg.toList.map (fun _ => none)
      ++ a.kwDefaults
      ++ a.kwarg.toList.map (fun _ => none) :=
  defaults_eq mk hmk a hwf

/-- **has-default ⇔ kind is OPT / NAMED_OPT** (no well-formedness needed) -/
theorem has_default_iff_kind {δ : Type} (mk : Name → Option δ → Kind → Bool → Arg δ) (hmk : MkOk mk)
    (a : Arguments δ) (x : Arg δ) (hx : x ∈ transformArgsWith mk a) :
    x.default.isSome = true ↔ (x.kind = .opt ∨ x.kind = .namedOpt) :=
  default_iff_kind mk hmk a x hx

/-- both front ends store name, kind and default as given — the four theorems above apply to each -/
theorem both_front_ends_ok {δ : Type} : MkOk (mkArg (δ := δ)) ∧ MkOk (mkArgNative (δ := δ)) :=
  ⟨mkArg_ok, mkArgNative_ok⟩

/-- `ARG_KINDS[k.index] = k`: the integer the native reader indexes `ARG_KINDS` with is the enum value -/
theorem kind_index_roundtrip (k : Kind) : Kind.ofIndex k.index = some k := by cases k <;> rfl

theorem kind_ofIndex_some (n : Nat) (k : Kind) (h : Kind.ofIndex n = some k) : k.index = n := by
  match n, h with
  | 0, h | 1, h | 2, h | 3, h | 4, h | 5, h => cases h; rfl

/-! ## `pos_only` in each front end, and when they agree -/

/-- default front end: positional-only = declared before `/`, or the name follows the legacy `__x`
    convention — for **every** parameter, whatever its kind -/
theorem pos_only_default {δ : Type} (a : Arguments δ) (hwf : a.WF) :
    (transformArgs a).map (·.posOnly) =
      a.posonlyargs.map (fun _ => true)
      ++ (a.args ++ a.vararg.toList ++ a.kwonlyargs ++ a.kwarg.toList).map elideName :=
  posOnly_default a hwf

/-- native front end: the `__x` convention only for positional parameters -/
theorem pos_only_native {δ : Type} (a : Arguments δ) (hwf : a.WF) :
    (transformArgsNative a).map (·.posOnly) =
      a.posonlyargs.map (fun _ => true) ++ a.args.map elideName
      ++ (a.vararg.toList ++ a.kwonlyargs ++ a.kwarg.toList).map (fun _ => false) :=
  posOnly_native a hwf

/-- `def f(*, __y): …` — the two front ends disagree on `pos_only` (hence on `arg_names`, hence on whether
    `f(__y=1)` type-checks): the full statement "both front ends build the same parameter list" is **false** -/
theorem not_parsers_agree_posonly :
    ¬ ∀ (a : Arguments Nat), a.WF → transformArgsNative a = transformArgs a := by
  intro h
  have := h { posonlyargs := [], args := [], vararg := none, kwonlyargs := [['_', '_', 'y']], kwDefaults := [none],
              kwarg := none, defaults := [] } (by decide)
  revert this
  decide

/-- … and they agree exactly when no `*args` / keyword-only / `**kwargs` parameter is named `__x` -/
theorem parsers_agree_iff {δ : Type} (a : Arguments δ) (hwf : a.WF) :
    transformArgsNative a = transformArgs a ↔
      ∀ n ∈ a.vararg.toList ++ a.kwonlyargs ++ a.kwarg.toList, elideName n = false := by
  constructor
  · intro h
    have h1 := posOnly_native a hwf
    rw [h, posOnly_default a hwf] at h1
    simp only [List.map_append, List.append_assoc] at h1
    have h2 := List.append_cancel_left h1
    have h3 := List.append_cancel_left h2
    rw [← List.map_append, ← List.map_append, ← List.map_append, ← List.map_append] at h3
    have := map_const_false_eq h3
    simpa [List.append_assoc] using this
  · exact transform_agree a

/-- `parsers_agree_partial`: the statement that holds — same parameter list whenever no non-positional
    parameter carries a `__x` name -/
theorem parsers_agree_partial {δ : Type} (a : Arguments δ)
    (h : ∀ n ∈ a.vararg.toList ++ a.kwonlyargs ++ a.kwarg.toList, elideName n = false) :
    transformArgsNative a = transformArgs a :=
  transform_agree a h

/-- `argument_elide_name`: starts with `__` and does not end with `__` -/
theorem elideName_iff (n : Name) :
    elideName n = true ↔ (∃ r, n = '_' :: '_' :: r) ∧ ¬ ∃ r, n = r ++ ['_', '_'] := by
  have hs : startsDunder n = true ↔ ∃ r, n = '_' :: '_' :: r := by
    cases n with
    | nil => simp [startsDunder]
    | cons a n' =>
      cases n' with
      | nil => simp [startsDunder]
      | cons b n'' => simp [startsDunder]
  have he : ∀ m : Name, endsDunder m = true ↔ ∃ r, m = r ++ ['_', '_'] := by
    intro m
    induction m with
    | nil => simp [endsDunder]
    | cons a m ih =>
      cases m with
      | nil =>
        simp only [endsDunder]
        constructor
        · intro h; cases h
        · rintro ⟨r, hr⟩
          have := congrArg List.length hr
          simp at this
      | cons b m' =>
        cases m' with
        | nil =>
          simp only [endsDunder, Bool.and_eq_true, beq_iff_eq]
          constructor
          · rintro ⟨rfl, rfl⟩; exact ⟨[], rfl⟩
          · rintro ⟨r, hr⟩
            match r, hr with
            | [], hr => simp at hr; exact hr
            | [x], hr => simp at hr
            | x :: y :: r', hr => simp at hr
        | cons c m'' =>
          simp only [endsDunder]
          rw [ih]
          constructor
          · rintro ⟨r, hr⟩; exact ⟨a :: r, by simp [hr]⟩
          · rintro ⟨r, hr⟩
            match r, hr with
            | [], hr => simp at hr
            | x :: r', hr =>
              simp only [List.cons_append, List.cons.injEq] at hr
              exact ⟨r', hr.2⟩
  simp only [elideName, Bool.and_eq_true, Bool.not_eq_true', hs]
  constructor
  · rintro ⟨h1, h2⟩
    refine ⟨h1, fun h3 => ?_⟩
    rw [(he n).mpr h3] at h2; cases h2
  · rintro ⟨h1, h2⟩
    refine ⟨h1, ?_⟩
    cases h : endsDunder n with
    | false => rfl
    | true => exact absurd ((he n).mp h) h2

/-! ## special methods, `arg_names`, `check_param_names` -/

/-- `special_function_elide_names(name)` → every parameter is positional-only; name, kind, default untouched -/
theorem special_all_pos_only {δ : Type} (args : List (Arg δ)) :
    (∀ x ∈ funcDefArgs true args, x.posOnly = true) ∧
    (funcDefArgs true args).map (·.name) = args.map (·.name) ∧
    (funcDefArgs true args).map (·.kind) = args.map (·.kind) ∧
    (funcDefArgs true args).map (·.default) = args.map (·.default) :=
  ⟨funcDefArgs_special args, funcDefArgs_keeps true args⟩

theorem not_special_unchanged {δ : Type} (args : List (Arg δ)) : funcDefArgs false args = args := rfl

/-- the callable's `arg_names`: `None` exactly for positional-only parameters, the name otherwise -/
theorem argNames_spec {δ : Type} (args : List (Arg δ)) :
    (argNames args).length = args.length ∧
    ∀ i (h : i < args.length), (argNames args)[i]? = some (if args[i].posOnly then none else some args[i].name) := by
  refine ⟨by simp [argNames], ?_⟩
  intro i h
  simp [argNames, h]

/-- `check_param_names` stays silent exactly on duplicate-free parameter lists -/
theorem dup_none_iff_nodup (names : List Name) : firstDup names = none ↔ names.Nodup := by
  unfold firstDup
  rw [firstDupFrom_none]
  simp

/-- … and otherwise reports the *first* parameter whose name occurred before it -/
theorem dup_some_first (names : List Name) (j : Nat) (h : firstDup names = some j) :
    j < names.length ∧ (∃ n, names[j]? = some n ∧ n ∈ names.take j) ∧ (names.take j).Nodup := by
  obtain ⟨_, hlt, ⟨n, hn, hmem⟩, hnd, _⟩ := firstDupFrom_some names [] 0 j h
  simp only [Nat.sub_zero] at *
  refine ⟨hlt, ⟨n, hn, ?_⟩, hnd⟩
  cases hmem with
  | inl e => cases e
  | inr e => exact e

-- non-vacuity: `def f(a, b=1, /, c=2, *d, e, f=3, **g)` and friends
private def ex1 : Arguments Nat :=
  { posonlyargs := [['a'], ['b']], args := [['c']], vararg := some ['d'], kwonlyargs := [['e'], ['f']],
    kwDefaults := [none, some 3], kwarg := some ['g'], defaults := [1, 2] }
example : ex1.WF := by decide
example : (transformArgs ex1).map (·.kind) = [.pos, .opt, .opt, .star, .named, .namedOpt, .star2] := by decide
example : (transformArgs ex1).map (·.default) = [none, some 1, some 2, none, none, some 3, none] := by decide
example : (transformArgs ex1).map (·.posOnly) = [true, true, false, false, false, false, false] := by decide
example : transformArgsNative ex1 = transformArgs ex1 := by decide
example : elideName ['_', '_', 'x'] = true ∧ elideName ['_', '_', 'x', '_', '_'] = false ∧ elideName ['_', '_'] = false := by decide
example : firstDup [['a'], ['b'], ['a'], ['b']] = some 2 := by decide
example : argNames (funcDefArgs true (transformArgs ex1)) = [none, none, none, none, none, none, none] := by decide

/-! ## `# type: ignore[...]` tags -/

/-- **`parse_type_ignore_tag` accepts exactly the documented grammar**: a tag yields the code list `cs` iff it
    is *bare* (nothing but white space, optionally followed by a `#` comment) and `cs = []`, or it is
    *bracketed* (`ws [ body ] ws (# comment)?` with no `]`/`#` inside the body, the comment staying on the
    line) and `cs` are the comma-separated, stripped, non-empty pieces of the body. -/
theorem parseTag_iff (t : List Char) (cs : List (List Char)) :
    parseTag (some t) = some cs ↔ (Bare t ∧ cs = []) ∨ (∃ body, Bracketed t body ∧ cs = codes body) := by
  unfold parseTag
  simp only
  by_cases hb : (t.isEmpty || (strip t).isEmpty || (strip t).head? == some '#') = true
  · rw [if_pos hb]
    have hbare := (bare_iff t).mp hb
    constructor
    · intro h
      simp only [Option.some.injEq] at h
      exact Or.inl ⟨hbare, h.symm⟩
    · intro h
      cases h with
      | inl e => rw [e.2]
      | inr e => obtain ⟨body, hbr, _⟩ := e; exact absurd hbr (bare_not_bracketed t body hbare)
  · rw [if_neg hb]
    have hnb : ¬ Bare t := fun h => hb ((bare_iff t).mpr h)
    constructor
    · intro h
      cases hm : matchBracket t with
      | none => rw [hm] at h; cases h
      | some body =>
        rw [hm] at h
        simp only [Option.map_some, Option.some.injEq] at h
        exact Or.inr ⟨body, (matchBracket_iff t body).mp hm, h.symm⟩
    · intro h
      cases h with
      | inl e => exact absurd e.1 hnb
      | inr e =>
        obtain ⟨body, hbr, hcs⟩ := e
        rw [(matchBracket_iff t body).mpr hbr, hcs]; rfl

/-- a tag is *invalid* (`None`: the "Invalid "type: ignore" comment" error) exactly when it is neither -/
theorem parseTag_none_iff (t : List Char) :
    parseTag (some t) = none ↔ ¬ Bare t ∧ ¬ ∃ body, Bracketed t body := by
  constructor
  · intro h
    refine ⟨fun hb => ?_, fun ⟨body, hbr⟩ => ?_⟩
    · have := (parseTag_iff t []).mpr (Or.inl ⟨hb, rfl⟩); rw [h] at this; cases this
    · have := (parseTag_iff t (codes body)).mpr (Or.inr ⟨body, hbr, rfl⟩); rw [h] at this; cases this
  · rintro ⟨h1, h2⟩
    cases hp : parseTag (some t) with
    | none => rfl
    | some cs =>
      cases (parseTag_iff t cs).mp hp with
      | inl e => exact absurd e.1 h1
      | inr e => obtain ⟨body, hbr, _⟩ := e; exact absurd ⟨body, hbr⟩ h2

/-- a missing tag (`None` from the tokenizer) ignores everything -/
theorem parseTag_missing : parseTag none = some [] := rfl

/-- the codes of a body: every code is non-empty, comma-free, has no surrounding white space, and is made
    of characters of the body … -/
theorem codes_wellformed (body c : List Char) (h : c ∈ codes body) :
    c ≠ [] ∧ ',' ∉ c ∧ strip c = c ∧ (∀ x ∈ c, x ∈ body) :=
  mem_codes body c h

/-- … and `codes` is determined by its comma-free segments: one stripped code per non-blank segment, in order -/
theorem codes_segments (c rest : List Char) (h : ',' ∉ c) :
    codes c = codeOf c ∧ codes (c ++ ',' :: rest) = codeOf c ++ codes rest :=
  ⟨codes_single c h, codes_cons c rest h⟩

-- non-vacuity
example : parseTag (some " [a, b ,, c ] # why".toList) = some ["a".toList, "b".toList, "c".toList] := by decide
example : parseTag (some "  # comment".toList) = some [] := by decide
example : parseTag (some "[".toList) = none := by decide
example : parseTag (some "[a][b]".toList) = none := by decide
example : parseTag (some "[a] x".toList) = none := by decide
example : parseTag (some "[a]#x\ny".toList) = none := by decide
example : Bracketed "[a]".toList "a".toList :=
  ⟨[], [], [], rfl, allSpace_nil, (by intro c hc; simp at hc; subst hc; exact ⟨by decide, by decide⟩), allSpace_nil, Or.inl rfl⟩

/-! ## `# mypy:` comments -/

/-- **`get_mypy_comments` collects exactly the lines that start with `# mypy: `**, with their 1-based line
    number and the text after the prefix -/
theorem mypyComments_iff (source : List Char) (i : Nat) (t : List Char) :
    (i, t) ∈ mypyComments source ↔ (1 ≤ i ∧ (splitOn '\n' source)[i - 1]? = some (mypyPrefix ++ t)) :=
  mem_collectFrom (splitOn '\n' source) 1 i t

/-- … in increasing line order (so later comments override earlier ones in `parse_mypy_comments`) -/
theorem mypyComments_sorted (source : List Char) :
    (mypyComments source).Pairwise (fun a b => a.1 < b.1) :=
  (collectFrom_sorted (splitOn '\n' source) 1).1

/-- the lines are the `"\n"`-separated pieces of the source: none contains a newline, and joining them
    with `"\n"` gives the source back -/
theorem lines_spec (source : List Char) :
    joinWith '\n' (splitOn '\n' source) = source ∧ ∀ l ∈ splitOn '\n' source, '\n' ∉ l :=
  ⟨joinWith_splitOn '\n' source, splitOn_mem_no_sep '\n' source⟩

example : mypyComments "# mypy: a\nx = 1\n# mypy: b c\n # mypy: d\n# mypy:e".toList
    = [(1, "a".toList), (3, "b c".toList)] := by decide

/-! ## module-level `# type: ignore` (the rule of `translate_stmt_list`, with the decorator-line convention) -/

/-- **a `# type: ignore` comment ignores the whole module exactly when it stands before the first statement**,
    where a decorated `def` / `class` starts at its *first decorator* (`get_lineno`), not at its keyword -/
theorem module_ignore_iff (ign : List (Nat × Codes)) (s : FirstStmt) :
    (moduleIgnore ign (some s)).wholeModule = true ↔ ∃ p ∈ ign, p.1 < getLineno s :=
  moduleIgnore_whole_iff ign s

/-- when it does, exactly the *first* such comment is consumed (every other ignore stays a line-level one), and
    an error is reported iff that comment carries codes -/
theorem module_ignore_consumes_first (ign : List (Nat × Codes)) (s : FirstStmt)
    (h : (moduleIgnore ign (some s)).wholeModule = true) :
    ∃ m, minLine ign = some m ∧ m < getLineno s ∧ (∀ p ∈ ign, m ≤ p.1) ∧
      (moduleIgnore ign (some s)).ignores = ign.filter (fun p => p.1 != m) ∧
      ((moduleIgnore ign (some s)).errCodes = none ∨
        ∃ c cs, lookupLine m ign = some (c :: cs) ∧ (moduleIgnore ign (some s)).errCodes = some (m, c :: cs)) :=
  moduleIgnore_fired ign s h

/-- otherwise nothing is touched: all comments are line-level ignores, no error -/
theorem module_ignore_otherwise_untouched (ign : List (Nat × Codes)) (first : Option FirstStmt)
    (h : (moduleIgnore ign first).wholeModule = false) :
    (moduleIgnore ign first).ignores = ign ∧ (moduleIgnore ign first).errCodes = none :=
  moduleIgnore_not_fired ign first h

/-- **the decorator-line convention**: a comment on (or after) the first decorator's line of a decorated
    first definition is a line-level ignore, never a module-level one -/
theorem decorator_line_ignore_is_line_level (ign : List (Nat × Codes)) (line d : Nat)
    (h : ∀ p ∈ ign, d ≤ p.1) :
    moduleIgnore ign (some { line := line, firstDecoratorLine := some d })
      = { wholeModule := false, errCodes := none, ignores := ign } := by
  have hw : (moduleIgnore ign (some { line := line, firstDecoratorLine := some d })).wholeModule = false := by
    cases hb : (moduleIgnore ign (some { line := line, firstDecoratorLine := some d })).wholeModule with
    | false => rfl
    | true =>
      obtain ⟨p, hp, hlt⟩ := (moduleIgnore_whole_iff ign _).mp hb
      have := h p hp
      simp only [getLineno] at hlt
      omega
  obtain ⟨h1, h2⟩ := moduleIgnore_not_fired ign _ hw
  cases hr : moduleIgnore ign (some { line := line, firstDecoratorLine := some d }) with
  | mk w e i =>
    rw [hr] at hw h1 h2
    simp only at hw h1 h2
    rw [hw, h1, h2]

/-- a module without statements has no module-level ignore -/
theorem module_ignore_needs_a_statement (ign : List (Nat × Codes)) :
    moduleIgnore ign none = { wholeModule := false, errCodes := none, ignores := ign } := by
  unfold moduleIgnore; rfl

-- `@deco  # type: ignore[name-defined]` on line 1, `def` on line 2: line-level (get_lineno = 1) …
example : moduleIgnore [(1, ["name-defined".toList])] (some { line := 2, firstDecoratorLine := some 1 })
    = { wholeModule := false, errCodes := none, ignores := [(1, ["name-defined".toList])] } := by decide
-- … whereas comparing with the `def` line would swallow the module and report the codes (the rule is not vacuous)
example : moduleIgnore [(1, ["name-defined".toList])] (some { line := 2, firstDecoratorLine := none })
    = { wholeModule := true, errCodes := some (1, ["name-defined".toList]), ignores := [] } := by decide
-- two comments before the first statement: only the first is consumed
example : moduleIgnore [(1, []), (2, ["misc".toList]), (4, [])] (some { line := 3, firstDecoratorLine := none })
    = { wholeModule := true, errCodes := none, ignores := [(2, ["misc".toList]), (4, [])] } := by decide

/-! ## skipped lines of statically unreachable blocks -/

/-- **the skipped range of an unreachable block is `[line, end_line]`, both ends included** (so an ignore comment
    on the LAST line of the block is not reported as unused) -/
theorem skipped_lines_inclusive (bs : List BlockSpan) (l : Nat) :
    l ∈ skippedLines bs ↔ ∃ b ∈ bs, b.line ≤ l ∧ l ≤ b.endLine := by
  simp only [skippedLines, blockLines, List.mem_flatMap, List.mem_range'_1]
  constructor
  · rintro ⟨b, hb, h1, h2⟩; exact ⟨b, hb, h1, by omega⟩
  · rintro ⟨b, hb, h1, h2⟩; exact ⟨b, hb, h1, by omega⟩

example : skippedLines [⟨4, 6⟩, ⟨9, 9⟩] = [4, 5, 6, 9] := by decide
example : 6 ∈ skippedLines [⟨4, 6⟩] := by decide

end ParseNorm
