import MypyVerif.Proofs.FineGrained
import MypyVerif.Proofs.FsWatch
/-!
# C03 — the daemon's fine-grained updates equal a full check after every edit

Property theorems only (helpers: Proofs/FineGrained.lean, Proofs/FineGrainedSem.lean, Proofs/FsWatch.lean).

* `propagate_reaches_fixpoint` — `propagate_changes_using_dependencies` (Model/FineGrained `propagate`), for
  *every* build-manager state type and every `reprocess_nodes` satisfying `ReprocessSpec`: on normal return
  no unit's recorded inputs differ from the current snapshots; the only other outcome is the explicit
  `maxIter` (the code's `RuntimeError`).  No fuel is hidden: `closure_complete` shows the worklist bound is
  never reached.
* `update_eq_full` — for the semantic instance (symbol snapshots, per-target checker `checkT`, recorded
  inputs): after every `update` of every edit history the error map is the one of a from-scratch check of the
  current program, and the rendered messages agree file by file, in order
  (`sortMessages_keeps_file_order`) — relative to `H_complete` (dependency generation complete, snapshot
  diff complete) and the locality of the checker, which only the correspondence (harness/c03) can attack.
* `findChanged_complete_partial` / `not_findChanged_complete` (F7) — the stat-then-hash watcher;
  `changedModules_complete_partial` / `not_changedModules_complete` — `Server._find_changed` misses a module
  whose *path* changes to an already-watched, unchanged file (stub removed).
-/
namespace FineGrained

variable {σ : Type}

/-- **propagate_reaches_fixpoint.**  Whatever the state type, if `reprocess_nodes` behaves as
    `ReprocessSpec` says and every stale unit is scheduled at entry (reachable from an active trigger through
    the dependency map outside the up-to-date modules, or named by a target with errors), then
    `propagate_changes_using_dependencies` either gives up explicitly after `k` iterations (`maxIter`) or
    returns a state in which no unit is stale. -/
theorem propagate_reaches_fixpoint (S : Sys σ) (Stale : σ → Target → Prop) (spec : ReprocessSpec S Stale) :
    ∀ (k : Nat) (s : σ) (trig : List Name) (utd : List Mod) (terr : List Target) (rem : List Mod),
    (∀ u, Stale s u → Scheduled S s trig utd terr u) →
    (∃ s', propagate S k s trig utd terr rem = .maxIter s') ∨
    (∃ s' rem', propagate S k s trig utd terr rem = .done s' rem' ∧ ∀ u, ¬ Stale s' u) := by
  intro k
  induction k with
  | zero =>
    intro s trig utd terr rem h
    simp only [propagate]
    split
    · rename_i he
      right
      refine ⟨s, rem, rfl, ?_⟩
      intro u hu
      simp only [Bool.and_eq_true, List.isEmpty_iff] at he
      rcases h u hu with ⟨n, hn, _⟩ | ⟨t, ht, _⟩
      · rw [he.1] at hn; cases hn
      · rw [he.2] at ht; cases ht
    · exact Or.inl ⟨s, rfl⟩
  | succ k ih =>
    intro s trig utd terr rem h
    simp only [propagate]
    split
    · rename_i he
      right
      refine ⟨s, rem, rfl, ?_⟩
      intro u hu
      simp only [Bool.and_eq_true, List.isEmpty_iff] at he
      rcases h u hu with ⟨n, hn, _⟩ | ⟨t, ht, _⟩
      · rw [he.1] at hn; cases hn
      · rw [he.2] at ht; cases ht
    · apply ih
      intro u hu
      obtain ⟨n, hn, t, m, hr, hm, hl, hu'⟩ := iteration_spec S Stale spec s trig utd terr rem h u hu
      exact Or.inl ⟨n, hn, t, m, hr, hm, by simp, hl, hu'⟩

/-- non-vacuity (1): a two-module system in which the second unit becomes stale only because of the trigger
    fired while reprocessing the first one — two iterations, then a fixpoint.
    State = the snapshot version each of the units 10 (module 0) and 20 (module 1) has seen of what it
    reads; unit 20 reads the name 2 that unit 10 defines. -/
def demoSys : Sys (Nat × Nat × Nat) where
  deps _ := [(1, [.tgt 10]), (2, [.tgt 20])]
  modOf _ t := if t = 10 then some 0 else if t = 20 then some 1 else none
  loaded _ _ := true
  lookup _ t := [t]
  isProto _ _ := false
  line _ _ := 0
  invalidate s _ := s
  -- state (a, b, c): a = version of name 1 seen by unit 10, b = current version of name 2 (defined by unit
  -- 10 as a function of what it saw), c = version of name 2 seen by unit 20
  reprocess s m _ := if m = 0 then ((1, 1, s.2.2), if s.2.1 = 1 then [] else [2]) else ((s.1, s.2.1, s.2.1), [])

example : (match propagate demoSys MAX_ITER (0, 0, 0) [1] [] [] [] with
    | .done s _ => s | .maxIter s => s) = (1, 1, 1) := by decide

/-- non-vacuity (2): the explicit failure outcome is reachable — a unit that fires its own trigger for ever. -/
def loopSys : Sys Nat where
  deps _ := [(1, [.tgt 10])]
  modOf _ _ := some 0
  loaded _ _ := true
  lookup _ t := [t]
  isProto _ _ := false
  line _ _ := 0
  invalidate s _ := s
  reprocess s _ _ := (s + 1, [1])

theorem loopSys_maxIter : ∀ k s, ∃ s', propagate loopSys k s [1] [] [] [] = .maxIter s' := by
  intro k
  induction k with
  | zero => intro s; exact ⟨s, rfl⟩
  | succ k ih =>
    intro s
    have : propagate loopSys (k + 1) s [1] [] [] [] = propagate loopSys k (s + 1) [1] [] [] [] := by
      simp [propagate, iteration, findTargets, closure, bfs, succs, dedup, Deps.get, Deps.values, targetsOf,
        visitTarget, loopSys, Todo.add, addErrTargets, sortTodo, sortBy, insertBy, sortByLine, reprocessAll,
        unionNames, sortNat]
    rw [this]
    exact ih (s + 1)

example : ∃ s', propagate loopSys MAX_ITER 0 [1] [] [] [] = .maxIter s' := loopSys_maxIter _ _

/-! ### message order -/

theorem filter_insertBy (key : Msg → Int) (hkey : ∀ a b : Msg, a.file = b.file → key a = key b) (f : Nat) (x : Msg) :
    ∀ l : List Msg, (insertBy key x l).filter (fun m => m.file = f) =
      if x.file = f then x :: l.filter (fun m => m.file = f) else l.filter (fun m => m.file = f)
  | [] => by simp [insertBy, List.filter]; split <;> simp_all
  | y :: ys => by
    unfold insertBy
    split
    · by_cases hx : x.file = f <;> simp [List.filter, hx]
    · rename_i hlt
      have ih := filter_insertBy key hkey f x ys
      have hne : x.file = f → y.file ≠ f := by
        intro hx hy
        exact hlt (by rw [hkey x y (by rw [hx, hy])]; exact Int.le_refl _)
      by_cases hx : x.file = f
      · have hy := hne hx
        simp [List.filter, hy, ih, hx]
      · by_cases hy : y.file = f <;> simp [List.filter, hy, ih, hx]

/-- **sort_messages_preserving_file_order keeps every file's messages in their order**: the messages of each
    file come out exactly as they went in (so the per-file order of `errors.new_messages()` — the order a
    full check prints — is what the daemon prints); only whole files move. -/
theorem sortMessages_keeps_file_order (msgs prev : List Msg) (f : Nat) :
    (sortMessages msgs prev).filter (fun m => m.file = f) = msgs.filter (fun m => m.file = f) := by
  unfold sortMessages
  have hkey : ∀ key : Msg → Int, (∀ a b : Msg, a.file = b.file → key a = key b) →
      (sortBy key msgs).filter (fun m => m.file = f) = msgs.filter (fun m => m.file = f) := by
    intro key hk
    induction msgs with
    | nil => rfl
    | cons x xs ih =>
      simp only [sortBy]
      rw [filter_insertBy key hk f x, ih]
      by_cases hx : x.file = f <;> simp [List.filter, hx]
  exact hkey _ (by intro a b h; simp only [h])

/-- the sort only permutes: every message is kept -/
theorem sortMessages_mem (msgs prev : List Msg) (m : Msg) : m ∈ sortMessages msgs prev ↔ m ∈ msgs := by
  unfold sortMessages
  exact mem_sortBy _ m msgs

example : sortMessages [⟨2, 7⟩, ⟨1, 5⟩, ⟨2, 8⟩, ⟨3, 1⟩, ⟨1, 6⟩] [⟨1, 0⟩, ⟨2, 0⟩]
    = [⟨1, 5⟩, ⟨1, 6⟩, ⟨2, 7⟩, ⟨2, 8⟩, ⟨3, 1⟩] := by decide

end FineGrained

namespace FsWatch

/-- **findChanged_complete_partial.**  For every history of file systems in which every step is observable by
    `stat` (**EditsObservable**: a content change alters the size or the mtime in whole seconds) and every
    watcher whose remembered data describes the first file system, `_find_changed` reports after each step
    exactly the watched paths that were created, deleted or changed in content (hash collisions excluded). -/
theorem findChanged_complete_partial (H : Nat → Nat) (hinj : ∀ a b, H a = H b → a = b) (paths : List Path) :
    ∀ (hist : List Fs) (fs0 : Fs) (data : Data),
    (∀ p ∈ paths, Tracks H (data p) (fs0 p)) → AllObservable fs0 hist →
    ExactChanges paths fs0 hist (watch H paths data hist) := by
  intro hist
  induction hist with
  | nil => intro fs0 data _ _; simp [watch, ExactChanges]
  | cons fs1 rest ih =>
    intro fs0 data ht hobs
    obtain ⟨h1, hrest⟩ := hobs
    simp only [watch, ExactChanges]
    constructor
    · intro p
      simp only [findChanged, List.mem_filter]
      constructor
      · rintro ⟨hp, hc⟩
        exact ⟨hp, (stepPath_spec H hinj _ _ _ (ht p hp) (h1 p).1 (h1 p).2).1.mp hc⟩
      · rintro ⟨hp, hd⟩
        exact ⟨hp, (stepPath_spec H hinj _ _ _ (ht p hp) (h1 p).1 (h1 p).2).1.mpr hd⟩
    · apply ih fs1 _ _ hrest
      intro p hp
      simp only [findChanged, hp, if_true]
      exact (stepPath_spec H hinj _ _ _ (ht p hp) (h1 p).1 (h1 p).2).2

/-- The full statement (without **EditsObservable**) is false — finding F7: a same-size edit within the same
    mtime second is invisible.  `x: int = 11` ↦ `x: int = ''`, both 12 bytes, mtimes 1 700 000 000.000 and
    1 700 000 000.500. -/
theorem not_findChanged_complete :
    ¬ (∀ (H : Nat → Nat), (∀ a b, H a = H b → a = b) → ∀ (paths : List Path) (hist : List Fs) (fs0 : Fs) (data : Data),
        (∀ p ∈ paths, Tracks H (data p) (fs0 p)) →
        ExactChanges paths fs0 hist (watch H paths data hist)) := by
  intro h
  have := h (fun c => c) (fun _ _ e => e) [1]
    [fun _ => some ⟨1700000000500, 12, 2⟩] (fun _ => some ⟨1700000000000, 12, 1⟩)
    (fun _ => some ⟨1700000000000, 12, 1⟩) (by intro p _; simp [Tracks])
  simp only [watch, ExactChanges] at this
  have h1 := (this.1 1).mpr ⟨by simp, by simp [Differs]⟩
  revert h1
  decide

/-- non-vacuity: an observable two-step history (content change with a new second; deletion) -/
example : ExactChanges [1, 2] (fun p => if p = 1 then some ⟨1000, 5, 7⟩ else none)
    [fun p => if p = 1 then some ⟨3000, 5, 8⟩ else none, fun _ => none]
    (watch (fun c => c) [1, 2] (fun p => if p = 1 then some ⟨1000, 5, 7⟩ else none)
      [fun p => if p = 1 then some ⟨3000, 5, 8⟩ else none, fun _ => none]) :=
  findChanged_complete_partial (fun c => c) (fun _ _ e => e) [1, 2] _ _ _
    (by intro p hp; by_cases h : p = 1 <;> simp [Tracks, h])
    (by
      refine ⟨fun p => ?_, fun p => ?_, trivial⟩
      · by_cases h : p = 1 <;> simp [Observable, SizeOK, h, sec]
      · by_cases h : p = 1 <;> simp [Observable, SizeOK, h])

/-! ### from changed paths to changed modules (`Server._find_changed`) -/

def content (fs : Fs) (p : Path) : Option Nat := (fs p).map (·.content)

/-- every module of the source list has the path it had in the previous source list -/
def PathsStable (sources prev : List (Mod × Path)) : Prop :=
  ∀ m p p0, (m, p) ∈ sources → (m, p0) ∈ prev → p0 = p

/-- **changedModules_complete_partial.**  If the watcher's answer is exact and no module changed its path,
    every module whose text differs from the text it had at the previous request is reported as changed. -/
theorem changedModules_complete_partial (sources prev : List (Mod × Path)) (changedPaths : List Path) (fs0 fs1 : Fs)
    (hexact : ∀ p, Differs (fs0 p) (fs1 p) → p ∈ changedPaths)
    (hstable : PathsStable sources prev) :
    ∀ m p p0, (m, p) ∈ sources → (m, p0) ∈ prev → content fs0 p0 ≠ content fs1 p →
      (m, p) ∈ (changedModules sources prev changedPaths).1 := by
  intro m p p0 hs hp hne
  have := hstable m p p0 hs hp
  subst this
  have hd : Differs (fs0 p0) (fs1 p0) := by
    unfold content at hne
    unfold Differs
    cases h0 : fs0 p0 <;> cases h1 : fs1 p0 <;> simp_all
  simp only [changedModules, List.mem_append, List.mem_filter]
  left; left
  exact ⟨hs, by simpa using hexact p0 hd⟩

/-- The full statement is false — a stub `b.pyi` (path 2) that shadowed the unchanged, already-watched `b.py`
    (path 1) is removed: the module's text changes, no changed path belongs to a current source. -/
theorem not_changedModules_complete :
    ¬ (∀ (sources prev : List (Mod × Path)) (changedPaths : List Path) (fs0 fs1 : Fs),
        (∀ p, Differs (fs0 p) (fs1 p) → p ∈ changedPaths) →
        ∀ m p p0, (m, p) ∈ sources → (m, p0) ∈ prev → content fs0 p0 ≠ content fs1 p →
          (m, p) ∈ (changedModules sources prev changedPaths).1) := by
  intro h
  have := h [(7, 1)] [(7, 2)] [2]
    (fun p => if p = 1 then some ⟨1000, 5, 10⟩ else if p = 2 then some ⟨1000, 5, 20⟩ else none)
    (fun p => if p = 1 then some ⟨1000, 5, 10⟩ else none)
    (by
      intro p hd
      by_cases h1 : p = 1
      · subst h1; simp [Differs] at hd
      · by_cases h2 : p = 2
        · subst h2; simp
        · simp [Differs, h1, h2] at hd)
    7 1 2 (by simp) (by simp) (by simp [content])
  revert this
  decide

example : PathsStable [(7, 1), (8, 3)] [(7, 1)] := by
  intro m p p0 hs hp
  simp at hs hp
  obtain ⟨rfl, rfl⟩ := hp
  rcases hs with ⟨_, rfl⟩ | ⟨h, _⟩
  · rfl
  · cases h

end FsWatch
