import MypyVerif.Proofs.FineGrained
import MypyVerif.Proofs.FsWatch
import MypyVerif.Proofs.FineGrainedSem
/-!
# C03 — the daemon's fine-grained updates equal a full check after every edit

Property theorems only (helpers: Proofs/FineGrained.lean, Proofs/FineGrainedSem.lean, Proofs/FsWatch.lean).

* `propagate_reaches_fixpoint` — `propagate_changes_using_dependencies` (Model/FineGrained `propagate`), for
  *every* build-manager state type and every `reprocess_nodes` satisfying `ReprocessSpec`: on normal return
  no unit's recorded inputs differ from the current snapshots; the only other outcome is the explicit
  `maxIter` (the code's `RuntimeError`).  No fuel is hidden: `closure_complete` shows the worklist bound is
  never reached.
* `closure_exact` — the worklist of `find_targets_recursive` is exactly reachability in the dependency map.
* `update_eq_full` — for the semantic instance (symbol snapshots, per-target checker `checkT`, recorded
  inputs): after every `update` of every edit history the error map is the one of a from-scratch check of the
  current program, and the rendered messages agree file by file, in order
  (`sortMessages_keeps_file_order`) — relative to `H_complete` (dependency generation complete, snapshot
  diff complete) and the locality of the checker, which only the correspondence (harness/c03) can attack.
* `findChanged_complete_partial` / `not_findChanged_complete` (F7) — the stat-then-hash watcher;
  `changedModules_complete` (the rule of /repo since a1da927) and, for the rule before it,
  `changedModules_complete_partial` / `not_changedModules_complete`: the old `Server._find_changed` missed a module
  whose *path* changes to an already-watched, unchanged file (stub removed).
-/
namespace FineGrained

variable {σ : Type}

/-- **propagate_reaches_fixpoint.**  Whatever the state type, if `reprocess_nodes` behaves as
    `ReprocessSpec` says (for some invariant `Inv` of the build manager's state) and every stale unit is
    scheduled at entry (reachable from an active trigger through the dependency map outside the up-to-date
    modules, or named by a target with errors), then `propagate_changes_using_dependencies` either gives up
    explicitly after `k` iterations (`maxIter`, the code's `RuntimeError`) or returns a state in which no unit
    is stale. -/
theorem propagate_reaches_fixpoint (S : Sys σ) (Inv : σ → Prop) (Stale : σ → Target → Prop)
    (spec : ReprocessSpec S Inv Stale)
    (k : Nat) (s : σ) (trig : List Name) (utd : List Mod) (terr : List Target) (rem : List Mod)
    (hinv : Inv s) (h : ∀ u, Stale s u → Scheduled S s trig utd terr u) :
    (∃ s', propagate S k s trig utd terr rem = .maxIter s') ∨
    (∃ s' rem', propagate S k s trig utd terr rem = .done s' rem' ∧ ∀ u, ¬ Stale s' u) := by
  rcases propagate_spec S Inv Stale spec k s trig utd terr rem hinv h with h | ⟨s', rem', h1, _, h3⟩
  · exact Or.inl h
  · exact Or.inr ⟨s', rem', h1, h3⟩

/-- `find_targets_recursive`'s worklist computes exactly the locations reachable from the active triggers
    through the dependency map — nothing is cut off by the round bound, nothing extra is visited. -/
theorem closure_exact (d : Deps) (S : List Node) (x : Node) : x ∈ closure d S ↔ Reach d S x :=
  ⟨closure_sound d S, closure_complete d S⟩

/-- non-vacuity (1): a two-module system in which the second unit becomes stale only because of the trigger
    fired while reprocessing the first one — two iterations, then a fixpoint.
    State = the snapshot version each of the units 10 (module 0) and 20 (module 1) has seen of what it
    reads; unit 20 reads the name 2 that unit 10 defines. -/
def demoSys : Sys (Nat × Nat × Nat) where
  deps _ := [(1, [.tgt 10]), (2, [.tgt 20])]
  modOf _ t := if t = 10 then some 0 else if t = 20 then some 1 else none
  loaded _ _ := true
  lookup _ t := [t]
  isProto _ _ := false
  line _ _ := 0
  invalidate s _ := s
  -- state (a, b, c): a = version of name 1 seen by unit 10, b = current version of name 2 (defined by unit
  -- 10 as a function of what it saw), c = version of name 2 seen by unit 20
  reprocess s m _ := if m = 0 then ((1, 1, s.2.2), if s.2.1 = 1 then [] else [2]) else ((s.1, s.2.1, s.2.1), [])

example : (match propagate demoSys MAX_ITER (0, 0, 0) [1] [] [] [] with
    | .done s _ => s | .maxIter s => s) = (1, 1, 1) := by decide

/-- non-vacuity (2): the explicit failure outcome is reachable — a unit that fires its own trigger for ever. -/
def loopSys : Sys Nat where
  deps _ := [(1, [.tgt 10])]
  modOf _ _ := some 0
  loaded _ _ := true
  lookup _ t := [t]
  isProto _ _ := false
  line _ _ := 0
  invalidate s _ := s
  reprocess s _ _ := (s + 1, [1])

theorem loopSys_maxIter : ∀ k s, ∃ s', propagate loopSys k s [1] [] [] [] = .maxIter s' := by
  intro k
  induction k with
  | zero => intro s; exact ⟨s, rfl⟩
  | succ k ih =>
    intro s
    have : propagate loopSys (k + 1) s [1] [] [] [] = propagate loopSys k (s + 1) [1] [] [] [] := by
      simp [propagate, iteration, findTargets, closure, bfs, succs, dedup, Deps.get, Deps.values, targetsOf,
        visitTarget, loopSys, Todo.add, addErrTargets, sortTodo, sortBy, insertBy, sortByLine, reprocessAll,
        unionNames, sortNat]
    rw [this]
    exact ih (s + 1)

example : ∃ s', propagate loopSys MAX_ITER 0 [1] [] [] [] = .maxIter s' := loopSys_maxIter _ _

/-! ### message order -/

theorem filter_insertBy (key : Msg → Int) (hkey : ∀ a b : Msg, a.file = b.file → key a = key b) (f : Nat) (x : Msg) :
    ∀ l : List Msg, (insertBy key x l).filter (fun m => m.file = f) =
      if x.file = f then x :: l.filter (fun m => m.file = f) else l.filter (fun m => m.file = f)
  | [] => by simp [insertBy, List.filter]; split <;> simp_all
  | y :: ys => by
    unfold insertBy
    split
    · by_cases hx : x.file = f <;> simp [List.filter, hx]
    · rename_i hlt
      have ih := filter_insertBy key hkey f x ys
      have hne : x.file = f → y.file ≠ f := by
        intro hx hy
        exact hlt (by rw [hkey x y (by rw [hx, hy])]; exact Int.le_refl _)
      by_cases hx : x.file = f
      · have hy := hne hx
        simp [List.filter, hy, ih, hx]
      · by_cases hy : y.file = f <;> simp [List.filter, hy, ih, hx]

/-- **sort_messages_preserving_file_order keeps every file's messages in their order**: the messages of each
    file come out exactly as they went in (so the per-file order of `errors.new_messages()` — the order a
    full check prints — is what the daemon prints); only whole files move. -/
theorem sortMessages_keeps_file_order (msgs prev : List Msg) (f : Nat) :
    (sortMessages msgs prev).filter (fun m => m.file = f) = msgs.filter (fun m => m.file = f) := by
  unfold sortMessages
  have hkey : ∀ key : Msg → Int, (∀ a b : Msg, a.file = b.file → key a = key b) →
      (sortBy key msgs).filter (fun m => m.file = f) = msgs.filter (fun m => m.file = f) := by
    intro key hk
    induction msgs with
    | nil => rfl
    | cons x xs ih =>
      simp only [sortBy]
      rw [filter_insertBy key hk f x, ih]
      by_cases hx : x.file = f <;> simp [List.filter, hx]
  exact hkey _ (by intro a b h; simp only [h])

/-- the sort only permutes: every message is kept -/
theorem sortMessages_mem (msgs prev : List Msg) (m : Msg) : m ∈ sortMessages msgs prev ↔ m ∈ msgs := by
  unfold sortMessages
  exact mem_sortBy _ m msgs

example : sortMessages [⟨2, 7⟩, ⟨1, 5⟩, ⟨2, 8⟩, ⟨3, 1⟩, ⟨1, 6⟩] [⟨1, 0⟩, ⟨2, 0⟩]
    = [⟨1, 5⟩, ⟨1, 6⟩, ⟨2, 7⟩, ⟨2, 8⟩, ⟨3, 1⟩] := by decide

/-! ### update = full check, for every edit history -/

/-- a history of edits: each step gives the new program and the modules that differ from the previous one;
    `full W` stands for the state a fresh, non-incremental check of `W` ends in -/
def EditChain (full : World → SemSt) : World → List (World × List Mod) → Prop
  | _, [] => True
  | W, (W', C) :: rest =>
    Edit W W' C ∧ C ≠ [] ∧ WorldOK W' ∧ Determinate W' ∧ Consistent W' (full W') ∧ EditChain full W' rest

/-- after every update of the history that returns (the alternative is the explicit MAX_ITER failure), the
    error map is the full check's and the messages agree with the full check's file by file, in order,
    whatever the previous messages were -/
def AllEqFull (full : World → SemSt) : UpdSt → List (World × List Mod) → Prop
  | _, [] => True
  | u, (W', C) :: rest =>
    match update W' u C with
    | none => True
    | some u' =>
      (∀ t, u'.st.emap t = (full W').emap t) ∧
      (∀ prev f, (sortMessages (newMessages W' u'.st) prev).filter (fun m => m.file = f)
                  = (newMessages W' (full W')).filter (fun m => m.file = f)) ∧
      AllEqFull full u' rest

theorem newMessages_congr (W : World) (s s' : SemSt) (h : ∀ t, s.emap t = s'.emap t) : newMessages W s = newMessages W s' := by
  unfold newMessages
  have : s.emap = s'.emap := funext h
  rw [this]

/-- **update_eq_full.**  For every finite edit history over programs whose checker, dependency generation and
    snapshot diff satisfy `WorldOK` (H_complete + locality) and whose snapshots are determinate, starting
    from a state that is good for the first program: after each `update` the daemon's error map equals the
    one of a full check of the program as it is at that moment, and the rendered messages
    (`sort_messages_preserving_file_order` applied to `errors.new_messages()`) equal the full check's in every
    file, in the same order. -/
theorem update_eq_full (full : World → SemSt) : ∀ (hist : List (World × List Mod)) (W : World) (u : UpdSt),
    Good W u → EditChain full W hist → AllEqFull full u hist
  | [], _, _, _, _ => trivial
  | (W', C) :: rest, W, u, hg, hc => by
    obtain ⟨hedit, hC, hok, hdet, hfull, hrest⟩ := hc
    simp only [AllEqFull]
    cases hup : update W' u C with
    | none => trivial
    | some u' =>
      have hg' : Good W' u' := update_good W W' C u u' hok hC hg hedit hup
      have heq : ∀ t, u'.st.emap t = (full W').emap t :=
        consistent_unique W' hdet _ _ (good_consistent W' hok u' hg') hfull
      refine ⟨heq, ?_, update_eq_full full rest W' u' hg' hrest⟩
      intro prev f
      rw [sortMessages_keeps_file_order, newMessages_congr W' _ _ heq]

/-- the `update` of these theorems is the generic `updateG` (the function Driver/C03 replays against the real
    `FineGrainedBuildManager.update`) at the semantic instance -/
theorem updateG_sem (W : World) (u : UpdSt) (C : List Mod) :
    updateG (semUSys W) u.toG C = (update W u C).map UpdSt.toG := update_eq W u C

/-- no error whose cause was removed survives, no error of the full check is missed — the set version -/
theorem update_same_messages (W W' : World) (C : List Mod) (u u' : UpdSt) (sFull : SemSt) (prev : List Msg)
    (hg : Good W u) (hedit : Edit W W' C) (hC : C ≠ []) (hok : WorldOK W') (hdet : Determinate W')
    (hfull : Consistent W' sFull) (hup : update W' u C = some u') (m : Msg) :
    m ∈ sortMessages (newMessages W' u'.st) prev ↔ m ∈ newMessages W' sFull := by
  rw [sortMessages_mem]
  have hg' : Good W' u' := update_good W W' C u u' hok hC hg hedit hup
  rw [newMessages_congr W' _ _ (consistent_unique W' hdet _ _ (good_consistent W' hok u' hg') hfull)]

/-! non-vacuity: a two-module program — unit 10 (module 0) defines name 1 with snapshot `k`, unit 20
    (module 1) reads it and reports an error when it is not 0 — satisfies every hypothesis; editing module 0
    (k: 0 ↦ 5) makes the update reprocess unit 20 in the *unedited* module, which gets the error. -/

def demoW (k : Nat) : World where
  units := [10, 20]
  modOf t := if t = 10 then 0 else if t = 20 then 1 else 2
  line _ := 0
  owner n := if n = 1 then some 10 else none
  nameMod n := if n = 1 then 0 else 9
  checkT t e := if t = 20 then { errs := if e 1 = 0 then [] else [⟨1, e 1⟩], reads := [1], defs := fun _ => 0 }
                else { errs := [], reads := [], defs := fun _ => if t = 10 then k else 0 }
  analyze us e := fun n => if n = 1 ∧ 10 ∈ us then k else e n
  depGen t _ := if t = 20 then [(1, [.tgt 20])] else []
  snapDiff e e' := if e 1 = e' 1 then [] else [1]

def demoU0 : UpdSt where
  st := { env := fun _ => 0, emap := fun _ => [], deps := [(1, [.tgt 20])],
          seen := fun t => if t = 20 then [(1, 0)] else [], gerr := fun _ => [] }
  prevErr := []

theorem demoW_ok (k : Nat) : WorldOK (demoW k) where
  frame := by
    intro t e e' h
    by_cases ht : t = 20
    · have : e 1 = e' 1 := h 1 (by simp [demoW, ht])
      simp [demoW, ht, this]
    · simp [demoW, ht]
  depsComplete := by
    intro t e n hn
    by_cases ht : t = 20
    · simp [demoW, ht] at hn
      subst hn; subst ht
      exact Reach.step (n := 1) (Reach.base (by simp)) (by simp [demoW, Deps.get])
    · simp [demoW, ht] at hn
  diffComplete := by
    intro e e' t e0 n hn hne
    by_cases ht : t = 20
    · simp [demoW, ht] at hn
      subst hn
      simp [demoW, hne]
    · simp [demoW, ht] at hn
  analyzeDefs := by
    intro us e n t hn ht
    by_cases h1 : n = 1
    · simp [demoW, h1] at hn
      subst hn
      simp [demoW, h1, ht]
    · simp [demoW, h1] at hn
  analyzeLocal := by
    intro us e n h
    by_cases h1 : n = 1
    · have := h 10 (by simp [demoW, h1])
      simp [demoW, h1, this]
    · simp [demoW, h1]
  ownerUnit := by
    intro n t hn
    by_cases h1 : n = 1
    · simp [demoW, h1] at hn
      subst hn
      simp [demoW, h1]
    · simp [demoW, h1] at hn

theorem demoW_determinate (k : Nat) : Determinate (demoW k) := by
  intro e e' h1 h2 h3 h4
  funext n
  by_cases hn : n = 1
  · subst hn
    rw [h1 1 10 (by simp [demoW]), h3 1 10 (by simp [demoW])]
    simp [demoW]
  · rw [h2 n (by simp [demoW, hn]), h4 n (by simp [demoW, hn])]

theorem demo_good : Good (demoW 0) demoU0 where
  rec_ := by
    intro t ht
    refine ⟨fun _ => 0, ?_, ?_, ?_⟩
    · by_cases h : t = 20 <;> simp [demoW, demoU0, h]
    · by_cases h : t = 20 <;> simp [demoW, demoU0, h]
    · intro n hn
      by_cases h : t = 20 <;> simp [demoW, demoU0, h]
  fresh := by
    intro t _ ⟨p, hp, hne⟩
    by_cases h : t = 20
    · simp [demoU0, h] at hp
      subst hp
      simp [demoU0] at hne
    · simp [demoU0, h] at hp
  emapOK := by intro t _; rfl
  nonunit := by intro t _; rfl
  unowned := by intro n _; rfl
  depsok := by
    intro t _ p hp
    by_cases h : t = 20
    · simp [demoU0, h] at hp
      subst hp; subst h
      exact Reach.step (n := 1) (Reach.base (by simp)) (by simp [demoU0, Deps.get])
    · simp [demoU0, h] at hp
  prev := by intro t ht; exact absurd rfl ht

theorem demo_edit : Edit (demoW 0) (demoW 5) [0] where
  modOf_eq := rfl
  nameMod_eq := rfl
  units_eq := by intro t _; rfl
  check_eq := by
    intro t ht
    have : t ≠ 10 := by intro h; subst h; simp [demoW] at ht
    funext e
    by_cases h : t = 20 <;> simp [demoW, h, this]
  owner_eq := by intro n _; rfl

/-- the update after the edit reprocesses unit 20 of the unedited module 1: its error appears -/
example : (update (demoW 5) demoU0 [0]).map (fun u => (u.st.emap 20, u.st.emap 10, u.st.env 1, u.prevErr))
    = some ([⟨1, 5⟩], [], 5, [20]) := by decide

/-- … and it equals the full check (any consistent state of the edited program) -/
example (sFull : SemSt) (hfull : Consistent (demoW 5) sFull) (u' : UpdSt) (hup : update (demoW 5) demoU0 [0] = some u') :
    ∀ t, u'.st.emap t = sFull.emap t :=
  consistent_unique _ (demoW_determinate 5) _ _
    (good_consistent _ (demoW_ok 5) u' (update_good _ _ [0] demoU0 u' (demoW_ok 5) (by simp) demo_good demo_edit hup)) hfull

/-! ### H_complete is needed: the statement without `depsComplete` is false

The same two-module program with a dependency generator that forgets the edge from name 1 to unit 20 — the shape
of the defects the correspondence found in deps.py (known findings C03-dep-base-attr, C03-dep-any-annotation):
every other hypothesis of `update_eq_full` holds, the update terminates normally, and the daemon misses the
error of unit 20 that the full check reports. -/

def demoWnd (k : Nat) : World := { demoW k with depGen := fun _ _ => [] }

def demoU0nd : UpdSt := { demoU0 with st := { demoU0.st with deps := [] } }

def demoFull : SemSt where
  env := fun n => if n = 1 then 5 else 0
  emap := fun t => if t = 20 then [⟨1, 5⟩] else []
  deps := []
  seen := fun _ => []
  gerr := fun _ => []

theorem demoFull_consistent : Consistent (demoWnd 5) demoFull where
  errs := by
    intro t ht
    have : t = 10 ∨ t = 20 := by simpa [demoWnd, demoW] using ht
    rcases this with rfl | rfl <;> simp [demoWnd, demoW, demoFull]
  nonunit := by
    intro t ht
    have : t ≠ 20 := by intro h; subst h; simp [demoWnd, demoW] at ht
    simp [demoFull, this]
  defs := by
    intro n t hn
    by_cases h1 : n = 1
    · simp [demoWnd, demoW, h1] at hn
      subst hn
      simp [demoWnd, demoW, demoFull, h1]
    · simp [demoWnd, demoW, h1] at hn
  unowned := by
    intro n hn
    by_cases h1 : n = 1
    · simp [demoWnd, demoW, h1] at hn
    · simp [demoFull, h1]

/-- what the update returns in this example -/
def demoU1nd : UpdSt := match update (demoWnd 5) demoU0nd [0] with
  | some u => u
  | none => demoU0nd

/-- **not_update_eq_full** (without `depsComplete`): locality of the checker, completeness of the snapshot
    diff, the analysis hypotheses, determinacy, a consistent full state, an update that returns normally — and
    still the daemon's error map differs from the full check's. -/
theorem not_update_eq_full_without_depsComplete :
    ∃ (W W' : World) (C : List Mod) (u u' : UpdSt) (sFull : SemSt),
      Edit W W' C ∧ C ≠ [] ∧ Determinate W' ∧ Consistent W' sFull ∧
      (∀ t e e', (∀ n ∈ (W'.checkT t e).reads, e n = e' n) → W'.checkT t e' = W'.checkT t e) ∧
      (∀ e e' t e0 n, n ∈ (W'.checkT t e0).reads → e n ≠ e' n → n ∈ W'.snapDiff e e') ∧
      update W' u C = some u' ∧ ∃ t, u'.st.emap t ≠ sFull.emap t := by
  refine ⟨demoWnd 0, demoWnd 5, [0], demoU0nd, demoU1nd, demoFull, ?_, by simp, ?_, demoFull_consistent, ?_, ?_, ?_, 20, ?_⟩
  · exact ⟨rfl, rfl, fun _ _ => Iff.rfl, demo_edit.check_eq, fun _ _ => rfl⟩
  · exact demoW_determinate 5
  · exact (demoW_ok 5).frame
  · exact (demoW_ok 5).diffComplete
  · have hs : (update (demoWnd 5) demoU0nd [0]).isSome = true := by decide
    unfold demoU1nd
    cases h : update (demoWnd 5) demoU0nd [0] with
    | none => rw [h] at hs; cases hs
    | some u => rfl
  · have : demoU1nd.st.emap 20 = [] := by decide
    rw [this]
    simp [demoFull]

/-! ### … and so is `diffComplete`: a snapshot that leaves a field out

The same program with a snapshot diff that never reports name 1 — the shape of the astdiff.py defects found by the
correspondence (known findings C03-snapshot-frozen, C03-snapshot-classvar, seeded TypeVar `default`): dependency
generation is complete, the checker is local, the update returns normally, and the error of unit 20 is missed. -/

def demoWns (k : Nat) : World := { demoW k with snapDiff := fun _ _ => [] }

def demoU1ns : UpdSt := match update (demoWns 5) demoU0 [0] with
  | some u => u
  | none => demoU0

theorem demoFull_consistent_ns : Consistent (demoWns 5) demoFull :=
  ⟨demoFull_consistent.errs, demoFull_consistent.nonunit, demoFull_consistent.defs, demoFull_consistent.unowned⟩

theorem not_update_eq_full_without_diffComplete :
    ∃ (W W' : World) (C : List Mod) (u u' : UpdSt) (sFull : SemSt),
      Edit W W' C ∧ C ≠ [] ∧ Determinate W' ∧ Consistent W' sFull ∧
      (∀ t e e', (∀ n ∈ (W'.checkT t e).reads, e n = e' n) → W'.checkT t e' = W'.checkT t e) ∧
      (∀ t e, ∀ n ∈ (W'.checkT t e).reads, Reach (W'.depGen t e) [Node.trig n] (.tgt t)) ∧
      update W' u C = some u' ∧ ∃ t, u'.st.emap t ≠ sFull.emap t := by
  refine ⟨demoWns 0, demoWns 5, [0], demoU0, demoU1ns, demoFull, ?_, by simp, ?_, demoFull_consistent_ns, ?_, ?_, ?_, 20, ?_⟩
  · exact ⟨rfl, rfl, fun _ _ => Iff.rfl, demo_edit.check_eq, fun _ _ => rfl⟩
  · exact demoW_determinate 5
  · exact (demoW_ok 5).frame
  · exact (demoW_ok 5).depsComplete
  · have hs : (update (demoWns 5) demoU0 [0]).isSome = true := by decide
    unfold demoU1ns
    cases h : update (demoWns 5) demoU0 [0] with
    | none => rw [h] at hs; cases hs
    | some u => rfl
  · have : demoU1ns.st.emap 20 = [] := by decide
    rw [this]
    simp [demoFull]

end FineGrained

namespace FsWatch

/-- **findChanged_complete_partial.**  For every history of file systems in which every step is observable by
    `stat` (**EditsObservable**: a content change alters the size or the mtime in whole seconds) and every
    watcher whose remembered data describes the first file system, `_find_changed` reports after each step
    exactly the watched paths that were created, deleted or changed in content (hash collisions excluded). -/
theorem findChanged_complete_partial (H : Nat → Nat) (hinj : ∀ a b, H a = H b → a = b) (paths : List Path) :
    ∀ (hist : List Fs) (fs0 : Fs) (data : Data),
    (∀ p ∈ paths, Tracks H (data p) (fs0 p)) → AllObservable fs0 hist →
    ExactChanges paths fs0 hist (watch H paths data hist) := by
  intro hist
  induction hist with
  | nil => intro fs0 data _ _; simp [watch, ExactChanges]
  | cons fs1 rest ih =>
    intro fs0 data ht hobs
    obtain ⟨h1, hrest⟩ := hobs
    simp only [watch, ExactChanges]
    constructor
    · intro p
      simp only [findChanged, List.mem_filter]
      constructor
      · rintro ⟨hp, hc⟩
        exact ⟨hp, (stepPath_spec H hinj _ _ _ (ht p hp) (h1 p).1 (h1 p).2).1.mp hc⟩
      · rintro ⟨hp, hd⟩
        exact ⟨hp, (stepPath_spec H hinj _ _ _ (ht p hp) (h1 p).1 (h1 p).2).1.mpr hd⟩
    · apply ih fs1 _ _ hrest
      intro p hp
      simp only [findChanged, hp, if_true]
      exact (stepPath_spec H hinj _ _ _ (ht p hp) (h1 p).1 (h1 p).2).2

/-- The full statement (without **EditsObservable**) is false — finding F7: a same-size edit within the same
    mtime second is invisible.  `x: int = 11` ↦ `x: int = ''`, both 12 bytes, mtimes 1 700 000 000.000 and
    1 700 000 000.500. -/
theorem not_findChanged_complete :
    ¬ (∀ (H : Nat → Nat), (∀ a b, H a = H b → a = b) → ∀ (paths : List Path) (hist : List Fs) (fs0 : Fs) (data : Data),
        (∀ p ∈ paths, Tracks H (data p) (fs0 p)) →
        ExactChanges paths fs0 hist (watch H paths data hist)) := by
  intro h
  have := h (fun c => c) (fun _ _ e => e) [1]
    [fun _ => some ⟨1700000000500, 12, 2⟩] (fun _ => some ⟨1700000000000, 12, 1⟩)
    (fun _ => some ⟨1700000000000, 12, 1⟩) (by intro p _; simp [Tracks])
  simp only [watch, ExactChanges] at this
  have h1 := (this.1 1).mpr ⟨by simp, by simp [Differs]⟩
  revert h1
  decide

/-- non-vacuity: an observable two-step history (content change with a new second; deletion) -/
example : ExactChanges [1, 2] (fun p => if p = 1 then some ⟨1000, 5, 7⟩ else none)
    [fun p => if p = 1 then some ⟨3000, 5, 8⟩ else none, fun _ => none]
    (watch (fun c => c) [1, 2] (fun p => if p = 1 then some ⟨1000, 5, 7⟩ else none)
      [fun p => if p = 1 then some ⟨3000, 5, 8⟩ else none, fun _ => none]) :=
  findChanged_complete_partial (fun c => c) (fun _ _ e => e) [1, 2] _ _ _
    (by intro p hp; by_cases h : p = 1 <;> simp [Tracks, h])
    (by
      refine ⟨fun p => ?_, fun p => ?_, trivial⟩
      · by_cases h : p = 1 <;> simp [Observable, SizeOK, h, sec]
      · by_cases h : p = 1 <;> simp [Observable, SizeOK, h])

/-! ### from changed paths to changed modules (`Server._find_changed`) -/

def content (fs : Fs) (p : Path) : Option Nat := (fs p).map (·.content)

/-- every module of the source list has the path it had in the previous source list -/
def PathsStable (sources prev : List (Mod × Path)) : Prop :=
  ∀ m p p0, (m, p) ∈ sources → (m, p0) ∈ prev → p0 = p

/-- **changedModules_complete** (the rule of /repo since a1da927, `pathRule = true`).  If the watcher's answer
    is exact, every module of the source list whose text differs from the text it had at the previous request is
    reported as changed — also when the module is now defined by another file (stub added or removed). -/
theorem changedModules_complete (sources prev : List (Mod × Path)) (changedPaths : List Path) (fs0 fs1 : Fs)
    (hexact : ∀ p, Differs (fs0 p) (fs1 p) → p ∈ changedPaths) :
    ∀ m p p0, (m, p) ∈ sources → (m, p0) ∈ prev → content fs0 p0 ≠ content fs1 p →
      (m, p) ∈ (changedModules true sources prev changedPaths).1 := by
  intro m p p0 hs hp hne
  simp only [changedModules, if_true, List.mem_append, List.mem_filter]
  by_cases hpp : p0 = p
  · subst hpp
    have hd : Differs (fs0 p0) (fs1 p0) := by
      unfold content at hne
      unfold Differs
      cases h0 : fs0 p0 <;> cases h1 : fs1 p0 <;> simp_all
    left; left; left
    exact ⟨hs, by simpa using hexact p0 hd⟩
  · -- the module is now defined by another file
    by_cases hin : (m, p) ∈ List.filter (fun s => changedPaths.contains s.2) sources ++
        List.filter (fun s => !(prev.map (·.1)).contains s.1 &&
          !(List.filter (fun s => changedPaths.contains s.2) sources).contains s) sources
    · rcases List.mem_append.mp hin with h | h
      · left; left; left; exact List.mem_filter.mp h
      · left; left; right; exact List.mem_filter.mp h
    · left; right
      refine ⟨hs, ?_⟩
      simp only [Bool.and_eq_true, List.any_eq_true, Bool.not_eq_eq_eq_not, Bool.not_true]
      refine ⟨⟨(m, p0), hp, by simp [hpp]⟩, ?_⟩
      simpa using hin

/-- **changedModules_complete_partial** (the rule before a1da927, `pathRule = false`).  If the watcher's answer is
    exact and no module changed its path, every module whose text differs from the text it had at the previous
    request is reported as changed. -/
theorem changedModules_complete_partial (sources prev : List (Mod × Path)) (changedPaths : List Path) (fs0 fs1 : Fs)
    (hexact : ∀ p, Differs (fs0 p) (fs1 p) → p ∈ changedPaths)
    (hstable : PathsStable sources prev) :
    ∀ m p p0, (m, p) ∈ sources → (m, p0) ∈ prev → content fs0 p0 ≠ content fs1 p →
      (m, p) ∈ (changedModules false sources prev changedPaths).1 := by
  intro m p p0 hs hp hne
  have := hstable m p p0 hs hp
  subst this
  have hd : Differs (fs0 p0) (fs1 p0) := by
    unfold content at hne
    unfold Differs
    cases h0 : fs0 p0 <;> cases h1 : fs1 p0 <;> simp_all
  simp only [changedModules, Bool.false_eq_true, if_false, List.mem_append, List.mem_filter]
  left; left
  exact ⟨hs, by simpa using hexact p0 hd⟩

/-- Without `PathsStable` the old rule is incomplete (fixed finding C03-stub-removed) — a stub `b.pyi` (path 2)
    that shadowed the unchanged, already-watched `b.py` (path 1) is removed: the module's text changes, no changed
    path belongs to a current source. -/
theorem not_changedModules_complete :
    ¬ (∀ (sources prev : List (Mod × Path)) (changedPaths : List Path) (fs0 fs1 : Fs),
        (∀ p, Differs (fs0 p) (fs1 p) → p ∈ changedPaths) →
        ∀ m p p0, (m, p) ∈ sources → (m, p0) ∈ prev → content fs0 p0 ≠ content fs1 p →
          (m, p) ∈ (changedModules false sources prev changedPaths).1) := by
  intro h
  have := h [(7, 1)] [(7, 2)] [2]
    (fun p => if p = 1 then some ⟨1000, 5, 10⟩ else if p = 2 then some ⟨1000, 5, 20⟩ else none)
    (fun p => if p = 1 then some ⟨1000, 5, 10⟩ else none)
    (by
      intro p hd
      by_cases h1 : p = 1
      · subst h1; simp [Differs] at hd
      · by_cases h2 : p = 2
        · subst h2; simp
        · simp [Differs, h1, h2] at hd)
    7 1 2 (by simp) (by simp) (by simp [content])
  revert this
  decide

/-- the same input under the new rule: the module is reported -/
example : (7, 1) ∈ (changedModules true [(7, 1)] [(7, 2)] [2]).1 := by decide

example : PathsStable [(7, 1), (8, 3)] [(7, 1)] := by
  intro m p p0 hs hp
  simp at hs hp
  obtain ⟨rfl, rfl⟩ := hp
  rcases hs with ⟨_, rfl⟩ | ⟨h, _⟩
  · rfl
  · cases h

end FsWatch
