import MypyVerif.Proofs.ConfigStrings
import MypyVerif.Model.ConfigTable
/-!
# C17 — configuration sources are equivalent; precedence is as documented

Property theorems only (helpers: Proofs/Config.lean, Proofs/ConfigCache.lean, Proofs/ConfigChain.lean,
Proofs/ConfigStrings.lean).

Part 1 (hand-written model, unbounded quantifiers): every table of sections `parse_config_file` can build
(distinct keys, components `*` or star-free names), every module name, every option.
Part 2 (generated obligations): the argparse table, `ini_config_types`/`toml_config_types`,
`PER_MODULE_OPTIONS`, `strict_flag_assignments` of the *current* tree (`Gen/Options.lean`), by `decide`.
-/
namespace Config

/-! ## Part 1 — per-module resolution -/

/-- **resolution_matches_doc.**  `Options.clone_for_module(m)` (cache construction with sorted structured
    wildcards, nearest-ancestor search, unstructured globs in file order, concrete entries) equals the
    documented precedence: over the global options apply the well-structured wildcard sections covering `m`
    from the most general to the most specific, then the matching unstructured wildcard sections in file
    order, then the section named exactly `m` — so that, reading from the top: concrete section, then
    unstructured wildcards last-in-file first, then structured wildcards most specific first, then global. -/
theorem resolution_matches_doc (g : Opts) (secs : Sections) (m : List Str)
    (hv : ValidSecs secs) (hm : ValidMod m) :
    cloneForModule g secs (modPat m) = specResolve g secs m :=
  cloneForModule_module g secs m hv hm

/-- the same, option by option: the value of an ordinary option is the *first defined* among the concrete
    section, the matching unstructured sections from the last in the file to the first, the covering
    structured sections from the most specific to the most general; the global value otherwise -/
theorem resolution_first_defined (g : Opts) (secs : Sections) (m : List Str) (k : Str)
    (hv : ValidSecs secs) (hm : ValidMod m) :
    (cloneForModule g secs (modPat m)).get k =
      (firstDefined k (concreteChain secs (modPat m) ++ (unstructChain secs m).reverse ++
        (structChain secs (modPat m)).reverse)).getD (g.get k) := by
  rw [resolution_matches_doc g secs m hv hm]
  unfold specResolve precedenceChain
  rw [applyAll_get]
  congr 2
  simp only [List.reverse_append, List.append_assoc]
  congr 1
  unfold concreteChain
  cases secs.lookup (modPat m) <;> rfl

/-- the error-code sets: an error code is enabled/disabled according to the *last* section of the
    precedence chain that mentions it (enable wins inside one section); untouched otherwise.  Holds for
    sections as `parse_section` returns them (they always carry both lists). -/
theorem resolution_error_codes (g : Opts) (secs : Sections) (m : List Str) (c : Str)
    (hv : ValidSecs secs) (hm : ValidMod m) (hl : ∀ s ∈ secs, HasLists s.2) :
    (cloneForModule g secs (modPat m)).enabled c =
      (lastMention c (precedenceChain secs m).reverse).getD (g.enabled c) ∧
    (cloneForModule g secs (modPat m)).disabled c =
      ((lastMention c (precedenceChain secs m).reverse).map (!·)).getD (g.disabled c) := by
  rw [resolution_matches_doc g secs m hv hm]
  apply applyAll_codes
  intro ch hch
  -- every element of the chain is the changes of some section
  have key : ∀ p : Pat, ∀ ch, secs.lookup p = some ch → HasLists ch := by
    intro p ch h
    have hk : p ∈ secs.map Prod.fst := (lookup_isSome_iff secs p).mp (by simp [h])
    obtain ⟨s, hs, rfl⟩ := List.mem_map.mp hk
    have := lookup_some_of_mem secs s.1 s.2 hv.1 hs
    rw [this] at h; cases h
    exact hl s hs
  unfold precedenceChain at hch
  rcases List.mem_append.mp hch with h | h
  · rcases List.mem_append.mp h with h | h
    · obtain ⟨p, _, hp⟩ := List.mem_filterMap.mp h
      exact key p ch hp
    · obtain ⟨s, hs, rfl⟩ := List.mem_map.mp h
      exact hl s (List.mem_filter.mp hs).1
  · unfold concreteChain at h
    cases hlook : secs.lookup (modPat m) with
    | none => rw [hlook] at h; cases h
    | some ch' =>
      rw [hlook] at h
      have : ch = ch' := by simpa using h
      rw [this]; exact key _ ch' hlook

/-- **structured_inherit.**  What a section `q.*` starts from (`clone_for_module("q.*")` during the cache
    construction, before its own changes are applied) and what the cache holds for it: the structured
    sections `a.*`, `a.b.*`, … covering `q`, most general first — and nothing else: unstructured globs are
    not consulted (`*.b` is applied to `a.b` but not to `a.b.*`). -/
theorem structured_inherit (g : Opts) (secs : Sections) (q : List Str)
    (hv : ValidSecs secs) (hq : ValidMod q) :
    cloneForModule g secs (modPat q ++ [Part.star]) = applyAll g (structChain secs (modPat q)) :=
  cloneForModule_wild g secs q hv hq

/-- consequently it does not depend on the unstructured sections at all -/
theorem structured_inherit_ignores_unstructured (g : Opts) (secs : Sections) (q : List Str) (k : Str)
    (hv : ValidSecs secs) (hq : ValidMod q) :
    (cloneForModule g secs (modPat q ++ [Part.star])).get k =
      (firstDefined k (structChain secs (modPat q)).reverse).getD (g.get k) := by
  rw [structured_inherit g secs q hv hq, applyAll_get]

/-- **glob_correct.**  On dotted names, the regular expression `compile_glob` builds accepts exactly what
    the documented component-wise reading accepts (a leading `*`: one or more components; any other `*`:
    zero or more components; a name: itself). -/
theorem glob_correct (p : Pat) (m : List Str) (hp : ValidPat p) (hm : ValidMod m) :
    Matches (compileGlob p) (joinDots m) ↔ compMatch p m = true := by
  rw [← rmatch_iff, ← globMatches_eq_compMatch p m hp hm, globMatches, modPat_str]

/-! ### inline comments and the command line -/

/-- inline `# mypy:` comments are applied on top of everything: an option they set has that value -/
theorem inline_on_top (g : Opts) (secs : Sections) (m : List Str) (inline : List Changes) (k : Str) (v : Val)
    (hne : inline ≠ []) (h : (mergeInline inline).lookup k = some v) :
    (fileOptions g secs m inline).get k = v := by
  unfold fileOptions
  have : inline.isEmpty = false := by cases inline <;> simp_all
  simp only [this, Bool.false_eq_true, if_false]
  rw [applyChanges_get, h]; rfl

/-- an option no inline comment sets keeps its per-module value -/
theorem inline_untouched (g : Opts) (secs : Sections) (m : List Str) (inline : List Changes) (k : Str)
    (h : (mergeInline inline).lookup k = none) :
    (fileOptions g secs m inline).get k = (cloneForModule g secs (modPat m)).get k := by
  unfold fileOptions
  split
  · rfl
  · rw [applyChanges_get, h]; rfl

/-- among several inline comments the later one wins (ordinary options) -/
theorem inline_later_wins (lines : List Changes) (k : Str) (hd : k ≠ kDisable) (he : k ≠ kEnable) :
    (mergeInline lines).lookup k = firstDefined k lines.reverse :=
  mergeInline_lookup lines k hd he

/-- the command line beats the config file's `[mypy]` section: a `store`-type flag given last wins … -/
theorem cli_over_config (dflt : Opts) (ini : Changes) (pre post : List CliArg) (k : Str) (v : Val)
    (h : ∀ a ∈ post, a.key ≠ k) :
    (globalOptions dflt ini (pre ++ CliArg.store k v :: post)).get k = v := by
  simp only [globalOptions, Opts.processErrorCodes]
  exact applyCli_store_last pre post _ k v h

/-- … and an option the command line does not mention keeps the config-file value (or the default) -/
theorem config_over_default (dflt : Opts) (ini : Changes) (cli : List CliArg) (k : Str)
    (h : ∀ a ∈ cli, a.key ≠ k) :
    (globalOptions dflt ini cli).get k = (ini.lookup k).getD (dflt.get k) := by
  simp only [globalOptions, Opts.processErrorCodes]
  rw [applyCli_untouched cli _ k h]
  simp only [setAll]
  cases ini.lookup k <;> rfl

/-- **the documented list, end to end** (ordinary options): inline comments (later first), the concrete
    section, unstructured wildcards (last in the file first), structured wildcards (most specific first),
    then the global options — which are the command line over the config file's `[mypy]` section over the
    defaults (`cli_over_config`, `config_over_default`). -/
theorem full_precedence (dflt : Opts) (ini : Changes) (cli : List CliArg) (secs : Sections) (m : List Str)
    (inline : List Changes) (k : Str) (hv : ValidSecs secs) (hm : ValidMod m)
    (hd : k ≠ kDisable) (he : k ≠ kEnable) :
    (fileOptions (globalOptions dflt ini cli) secs m inline).get k =
      ((firstDefined k inline.reverse).or
        (firstDefined k (concreteChain secs (modPat m) ++ (unstructChain secs m).reverse ++
          (structChain secs (modPat m)).reverse))).getD ((globalOptions dflt ini cli).get k) := by
  unfold fileOptions
  cases inline with
  | nil =>
    simp only [List.isEmpty_nil, if_true, List.reverse_nil, firstDefined, Option.none_or]
    exact resolution_first_defined _ secs m k hv hm
  | cons ln rest =>
    simp only [List.isEmpty_cons, Bool.false_eq_true, if_false]
    rw [applyChanges_get, mergeInline_lookup _ k hd he, resolution_first_defined _ secs m k hv hm]
    cases firstDefined k (ln :: rest).reverse <;> simp

/-- the model reads section names as lists of components; this loses nothing: a name determines its
    components, and the two string tests of `build_per_module_cache` are the component-wise ones -/
theorem section_names_faithful (p q : Pat) (hp : ValidPat p) (hq : ValidPat q) :
    (p.str = q.str → p = q) ∧ strUnstructured p.str = p.unstructured ∧ strEndsDotStar p.str = p.endsDotStar :=
  ⟨pat_str_inj p q hp hq, unstructured_str p hp, endsDotStar_str p hp⟩

/-- a module that no section matches is checked with the global options -/
theorem unmatched_module_global (g : Opts) (secs : Sections) (m : List Str)
    (hv : ValidSecs secs) (hm : ValidMod m) (h : precedenceChain secs m = []) :
    cloneForModule g secs (modPat m) = g := by
  rw [resolution_matches_doc g secs m hv hm, specResolve, h]; rfl

/-- The statement "a setting in a per-module section does not change the options of other modules" is
    **false** of the current code for the key `strict`: `[mypy-pk.a] strict = True` runs `set_strict_flags` on
    the global options (witness: `[mypy]` without `strict`, one per-module section with it). -/
theorem not_section_strict_local :
    ¬ (∀ (g : Opts) (assign : Changes) (perModule : List Bool) (k : Str),
        (strictApplied g assign (false :: perModule)).get k = g.get k) := by
  intro h
  have := h { get := fun _ => .bool false, disabled := fun _ => false, enabled := fun _ => false, imiPerModule := false }
    [("disallow_untyped_defs".toList, .bool true)] [true] "disallow_untyped_defs".toList
  revert this
  decide

/-- … and holds when no per-module section says `strict` -/
theorem section_strict_local_partial (g : Opts) (assign : Changes) (n : Nat) :
    strictApplied g assign (List.replicate (n + 1) false) = g := by
  unfold strictApplied
  have : (List.replicate (n + 1) false).any id = false := by
    rw [List.any_eq_false]; intro x hx; rw [List.eq_of_mem_replicate hx]; simp
  rw [this]; rfl

/-! ### `strict` inside one source, and across sources -/

/-- an explicit key of the `[mypy]` section wins over `strict = True` of the same section — the model has no
    position for `strict`, i.e. in either order — when the command line is silent on it -/
theorem strict_explicit_key_wins (dflt : Opts) (A ini : Changes) (iniStrict : Bool) (cli : List CliArg)
    (k : Str) (v : Val) (hk : ini.lookup k = some v) (hc : ∀ a ∈ cli, a.key ≠ k) :
    (globalOptionsStrict dflt A iniStrict ini false cli).get k = v := by
  simp only [globalOptionsStrict, Opts.processErrorCodes]
  rw [applyCli_untouched cli _ k hc]
  simp [setAll, hk]

/-- `strict = True` expands to its assignments for every strict flag the section does not mention -/
theorem strict_expands (dflt : Opts) (A ini : Changes) (cli : List CliArg) (k : Str) (b : Val)
    (hA : A.lookup k = some b) (hk : ini.lookup k = none) (hc : ∀ a ∈ cli, a.key ≠ k) :
    (globalOptionsStrict dflt A true ini false cli).get k = b := by
  simp only [globalOptionsStrict, Opts.processErrorCodes]
  rw [applyCli_untouched cli _ k hc]
  simp [setAll, hk, hA]

/-- `--strict` on the command line beats an explicit key of the config file (command line over config) … -/
theorem cli_strict_over_config_key (dflt : Opts) (A ini : Changes) (iniStrict : Bool) (cli : List CliArg)
    (k : Str) (b : Val) (hA : A.lookup k = some b) (hc : ∀ a ∈ cli, a.key ≠ k) :
    (globalOptionsStrict dflt A iniStrict ini true cli).get k = b := by
  simp only [globalOptionsStrict, Opts.processErrorCodes]
  rw [applyCli_untouched cli _ k hc]
  simp [setAll, hA]

/-- … and an explicit command-line flag beats strict from either source -/
theorem cli_flag_over_strict (dflt : Opts) (A ini : Changes) (iniStrict cliStrict : Bool)
    (pre post : List CliArg) (k : Str) (v : Val) (h : ∀ a ∈ post, a.key ≠ k) :
    (globalOptionsStrict dflt A iniStrict ini cliStrict (pre ++ CliArg.store k v :: post)).get k = v := by
  simp only [globalOptionsStrict, Opts.processErrorCodes]
  exact applyCli_store_last pre post _ k v h

/-- **strict_source_equiv.**  `strict = True` plus explicit keys in the config file gives, option for option,
    what `--strict` plus the same settings as command-line flags gives (store-type flags, distinct keys) -/
theorem strict_source_equiv (dflt : Opts) (A : Changes) (k : Str) (v : Val) (x : Str) :
    (globalOptionsStrict dflt A true [(k, v)] false []).get x =
    (globalOptionsStrict dflt A false [] true [CliArg.store k v]).get x := by
  simp only [globalOptionsStrict, Opts.processErrorCodes, applyCli]
  unfold setKey setAll
  by_cases h : x = k
  · subst h; simp
  · have hb : (x == k) = false := by simpa using h
    simp [hb, List.lookup_cons]

/-! ### value conversion -/

/-- **per-entry expansion**: whatever separator of the option is used to write them, the entries come out
    stripped and expanded one by one, at every position -/
theorem convPathList_entries (expand : Str → Str) (seps : List Char) (sep : Char) (hs : seps.contains sep = true)
    (es : List Str) (hne : es ≠ []) (hfree : ∀ e ∈ es, ∀ c ∈ e, seps.contains c = false) :
    convPathList expand seps (joinWith sep es) = es.map (fun e => expand (strip e)) := by
  unfold convPathList
  rw [splitOnAny_joinWith seps sep hs es hne hfree]

/-- expanding the whole value first and splitting afterwards is a different function: only the first entry's
    `~` is expanded (what the seeded change C17-4 did) -/
theorem not_expand_whole_then_split :
    (splitOnAny [',', ':'] (expandUser "/H".toList "~/a,~/b".toList)).map strip ≠
      convPathList (expandUser "/H".toList) [',', ':'] "~/a,~/b".toList := by decide

example : convPathList (expandUser "/H".toList) [',', ':'] "~/a, ~/b:c".toList =
    ["/H/a".toList, "/H/b".toList, "c".toList] := by decide

/-! ### from the config file to the section table -/

/-- a section applies to each of its patterns: when no pattern is named by two sections, `mypy.ini` /
    `setup.cfg` and `pyproject.toml` both yield exactly that table, in file order -/
theorem sections_faithful (fs : List FileSection) (h : ((flatSections fs).map Prod.fst).Nodup) :
    iniSections fs = flatSections fs ∧ tomlSections fs = flatSections fs :=
  sections_faithful_partial fs h

/-- The unrestricted statement "both file formats give a module the same options" is **false** of the
    current code: `[mypy-pk.a,pk.b] dud = True` followed by `[mypy-pk.a] wra = True` leaves `pk.a` without
    `dud` in an ini file (`per_module_options[glob] = updates` replaces the earlier table), while the same
    two tables in pyproject.toml are merged. -/
theorem not_ini_toml_sections_agree :
    ¬ (∀ (fs : List FileSection) (g : Opts) (m : List Str) (k : Str),
        (cloneForModule g (iniSections fs) (modPat m)).get k =
        (cloneForModule g (tomlSections fs) (modPat m)).get k) := by
  intro h
  have := h [([[.lit "pk".toList, .lit "a".toList], [.lit "pk".toList, .lit "b".toList]], [("dud".toList, .bool true)]),
             ([[.lit "pk".toList, .lit "a".toList]], [("wra".toList, .bool true)])]
    { get := fun _ => .bool false, disabled := fun _ => false, enabled := fun _ => false, imiPerModule := false }
    ["pk".toList, "a".toList] "dud".toList
  revert this
  decide

/-! ### non-vacuity: concrete instances of the hypotheses, evaluated -/

section examples
def ex_s (x : String) : Str := x.toList
def ex_g : Opts :=
  { get := fun _ => .str (ex_s "global"), disabled := fun _ => false, enabled := fun _ => false, imiPerModule := false }
/-- `[mypy-a.*] [mypy-*.c] [mypy-a.*.c] [mypy-a.b.*] [mypy-a.b.c]`, each setting option `o` to its own name;
    `a.b.*` sets `p` only -/
def ex_secs : Sections := [
  ([.lit (ex_s "a"), .star], [(ex_s "o", .str (ex_s "a.*")), (ex_s "p", .str (ex_s "a.*"))]),
  ([.star, .lit (ex_s "c")], [(ex_s "o", .str (ex_s "*.c"))]),
  ([.lit (ex_s "a"), .star, .lit (ex_s "c")], [(ex_s "o", .str (ex_s "a.*.c"))]),
  ([.lit (ex_s "a"), .lit (ex_s "b"), .star], [(ex_s "p", .str (ex_s "a.b.*"))]),
  ([.lit (ex_s "a"), .lit (ex_s "b"), .lit (ex_s "d")], [(ex_s "o", .str (ex_s "a.b.d"))])]

example : ValidSecs ex_secs ∧ ValidMod [ex_s "a", ex_s "b", ex_s "c"] := by decide
-- later unstructured section wins over the earlier one and over both structured ones
example : (cloneForModule ex_g ex_secs (modPat [ex_s "a", ex_s "b", ex_s "c"])).get (ex_s "o") = .str (ex_s "a.*.c") := by
  decide
-- an option only structured sections set: the more specific one
example : (cloneForModule ex_g ex_secs (modPat [ex_s "a", ex_s "b", ex_s "c"])).get (ex_s "p") = .str (ex_s "a.b.*") := by
  decide
-- the concrete section beats them all
example : (cloneForModule ex_g ex_secs (modPat [ex_s "a", ex_s "b", ex_s "d"])).get (ex_s "o") = .str (ex_s "a.b.d") := by
  decide
-- no section applies: global
example : (cloneForModule ex_g ex_secs (modPat [ex_s "x"])).get (ex_s "o") = .str (ex_s "global") := by decide
-- `a.b.*` inherits `o` from `a.*`, not from `*.c` / `a.*.c`
example : (cloneForModule ex_g ex_secs [.lit (ex_s "a"), .lit (ex_s "b"), .star]).get (ex_s "o") = .str (ex_s "a.*") := by
  decide
-- glob: `a.*.c` matches `a.c` (zero components) and `a.x.y.c`, not `a.cc`; `*.c` does not match `c`
example : ValidPat [.lit (ex_s "a"), .star, .lit (ex_s "c")] := by decide
example : compMatch [.lit (ex_s "a"), .star, .lit (ex_s "c")] [ex_s "a", ex_s "c"] = true ∧
    compMatch [.lit (ex_s "a"), .star, .lit (ex_s "c")] [ex_s "a", ex_s "x", ex_s "y", ex_s "c"] = true ∧
    compMatch [.lit (ex_s "a"), .star, .lit (ex_s "c")] [ex_s "a", ex_s "cc"] = false ∧
    compMatch [.star, .lit (ex_s "c")] [ex_s "c"] = false := by decide
example : (compileGlob [.lit (ex_s "a"), .star, .lit (ex_s "c")]).text = "a(\\..*)?\\.c\\Z".toList := by decide
-- error codes: a section's disable list overrides a global enable, a later section's enable wins again
example : HasLists [(kDisable, .list [ex_s "x"]), (kEnable, .list [])] := ⟨_, _, rfl, rfl⟩
example : lastMention (ex_s "x") [[(kDisable, .list []), (kEnable, .list [ex_s "x"])],
    [(kDisable, .list [ex_s "x"]), (kEnable, .list [])]] = some true := by decide
end examples

/-! ## Part 2 — obligations over the regenerated tables (`Gen/Options.lean`) -/

open Table
open Gen.Options (flags attrs perModule strictFlags iniKeys tomlKeys)

/-- **cli_ini_agree.**  For every Boolean flag of the argparse table and every long spelling `--x-y` of it:
    a config-file line `x_y = True` is either not understood by `parse_section`, or it sets exactly the
    attribute and value the flag sets (through `no_`, `allow`/`disallow`, `show_`→`hide_` inversion as the
    case may be); spellings `parse_section` does not understand are exactly the reasoned list
    `cliOnlySpellings`; `special-opts` flags are exactly the reasoned list `specialHandled`. -/
theorem cli_ini_agree : ∀ f ∈ flags, flagAgrees genTemplate f = true := by
  have h : cliIniAgreeB = true := by decide +kernel
  exact fun f hf => List.all_eq_true.mp h f hf

/-- every setting the command line can make can be written in a config file under its option name, with
    the value given directly (or is on the reasoned list `cliOnlySettings`) -/
theorem dest_settable : ∀ f ∈ flags, destSettable genTemplate f = true := by
  have h : destSettableB = true := by decide +kernel
  exact fun f hf => List.all_eq_true.mp h f hf

/-- **toml_ini_same_keys.**  `pyproject.toml` and `mypy.ini` have converters for the same keys, and agree
    on which of them are read as Booleans -/
theorem toml_ini_same_keys : iniKeys = tomlKeys := by
  have h : tomlIniSameKeysB = true := by decide +kernel
  exact eq_of_beq h

/-- **per_module_flags_inline_ok.**  Every member of `PER_MODULE_OPTIONS` can be set in a `[mypy-…]`
    section and in an inline `# mypy:` comment under its own name (the two derived sets excepted, which are
    set through `enable_error_code` / `disable_error_code`) -/
theorem per_module_flags_inline_ok : ∀ k ∈ perModule, perModuleSettable genTemplate k = true := by
  have h : perModuleInlineOkB = true := by decide +kernel
  exact fun k hk => List.all_eq_true.mp h k hk

/-- `strict = True` / `--strict` assign what individual flags assign, each expressible in a config file -/
theorem strict_flags_ok : ∀ d ∈ strictFlags, strictAssignmentOk genTemplate d = true := by
  have h : strictOkB = true := by decide +kernel
  exact fun d hd => List.all_eq_true.mp h d hd

/-- every strict flag has an opposite on the command line whose config-file spelling (ini and toml) resolves
    to the same option with the opposite value: "strict plus one flag turned back" is expressible in every
    source -/
theorem strict_opposites_expressible : strictOppositeB = true := by decide +kernel

/-- the exemption lists only name flags and options that exist -/
theorem exemptions_live : exemptionsLiveB = true := by decide +kernel

/-- **list_options_typed.**  Every list-valued option has a converter in `ini_config_types` and in
    `toml_config_types` (without one, `parse_section` applies `list` to the text of a config-file value and
    splits it into characters, while the command-line flag appends whole items). -/
theorem list_options_typed :
    (∀ a ∈ attrs, listAttrTyped iniKeys a = true) ∧ (∀ a ∈ attrs, listAttrTyped tomlKeys a = true) := by
  have h1 : listAttrsTypedB = true := by decide +kernel
  have h2 : listAttrsTypedTomlB = true := by decide +kernel
  exact ⟨fun a ha => List.all_eq_true.mp h1 a ha, fun a ha => List.all_eq_true.mp h2 a ha⟩

/-- The obligation is not vacuous, and it was false of the tree before the repair 9b531e7: the row
    `deprecated_calls_exclude` (list-valued) fails it against every converter table that lacks the key. -/
theorem pre_repair_row_untyped (keys : List (Str × Bool)) (h : keys.lookup preRepairRow.name = none) :
    listAttrTyped keys preRepairRow = false := by
  unfold listAttrTyped
  rw [h]
  decide

example : listAttrTyped [] preRepairRow = false := by decide

end Config
