import Lean.Data.Json
import MypyVerif.Model.ParseNorm
import MypyVerif.Model.ErrPos
/-!
Line-protocol driver for the C14 models (model files only).  One JSON value per line in, one per line out.

  ["args", [posonly…], [args…], vararg|null, [kwonly…], [kwdefault id|null …], kwarg|null, [default id…], special, native]
        → {"args": [[name, kindIndex, posOnly, defaultId|null]…], "names": [name|null…], "dup": index|null}
          (transform_args [native = true: the variant the native front end delivers], then the special-method
           loop of do_func_def / read_func_def, arg_names, check_param_names)
  ["kind", n]                 → ARG_KINDS[n] as the model's kind index, null when out of range
  ["tag", text|null]          → null (invalid) | [code…]          (parse_type_ignore_tag)
  ["cfg", source]             → [[line, text]…]                   (get_mypy_comments)
  ["modign", [[line, tag|null]…], firstStmtLine|null, firstDecoratorLine|null]
        → {"whole": bool, "err": [line, [codes]]|null, "ignores": [[line, [codes]]…], "invalid": [line…]}
          (visit_Module's type_ignores + the module-level-ignore rule of translate_stmt_list / get_lineno)
  ["skip", [[line, endLine]…]]  → [line…]     (skipped_lines of unreachable blocks, visit_block)
  ["space", [codepoint…]]     → [bool…]                           (str.isspace as used by strip / \s)
  ["elide", name]             → bool                              (argument_elide_name)
  ["pos", line, col|null, endLine|null, endCol|null] → [line, col, endLine, endCol]   (Errors.report clamp)
-/
open Lean ParseNorm

def jInt (j : Json) : Int := (j.getInt?).toOption.getD 0
def jNat (j : Json) : Nat := (jInt j).toNat
def jBool (j : Json) : Bool :=
  match j with
  | .bool b => b
  | _ => false
def jArr (j : Json) : List Json := ((j.getArr?).toOption.getD #[]).toList
def jOptInt (j : Json) : Option Int := if j.isNull then none else some (jInt j)
def jOptNat (j : Json) : Option Nat := if j.isNull then none else some (jNat j)
def jStr (j : Json) : String := (j.getStr?).toOption.getD ""
def jChars (j : Json) : List Char := (jStr j).toList
def jOptChars (j : Json) : Option (List Char) := if j.isNull then none else some (jChars j)
def nth (l : List Json) (n : Nat) : Json := l.getD n Json.null

def outStr (cs : List Char) : Json := Json.str (String.ofList cs)
def outOptNat (o : Option Nat) : Json := match o with | none => Json.null | some n => Json.num (n : Int)

def runArgs (a : List Json) : Json :=
  let ar : Arguments Nat :=
    { posonlyargs := (jArr (nth a 1)).map jChars, args := (jArr (nth a 2)).map jChars,
      vararg := jOptChars (nth a 3), kwonlyargs := (jArr (nth a 4)).map jChars,
      kwDefaults := (jArr (nth a 5)).map jOptNat, kwarg := jOptChars (nth a 6),
      defaults := (jArr (nth a 7)).map jNat }
  let out := funcDefArgs (jBool (nth a 8)) (if jBool (nth a 9) then transformArgsNative ar else transformArgs ar)
  Json.mkObj [
    ("args", Json.arr (out.map fun x =>
        Json.arr #[outStr x.name, Json.num (x.kind.index : Int), Json.bool x.posOnly, outOptNat x.default]).toArray),
    ("names", Json.arr ((argNames out).map fun o => match o with | none => Json.null | some n => outStr n).toArray),
    ("dup", outOptNat (firstDup (out.map (·.name))))]

def step (line : String) : String :=
  match Json.parse line with
  | .error e => "bad-json " ++ e
  | .ok j =>
    let a := jArr j
    let r : Json :=
      match jStr (nth a 0) with
      | "args" => runArgs a
      | "kind" => match Kind.ofIndex (jNat (nth a 1)) with
          | none => Json.null
          | some k => Json.num (k.index : Int)
      | "tag" =>
        match parseTag (jOptChars (nth a 1)) with
        | none => Json.null
        | some cs => Json.arr (cs.map outStr).toArray
      | "cfg" => Json.arr ((mypyComments (jChars (nth a 1))).map fun p =>
          Json.arr #[Json.num (p.1 : Int), outStr p.2]).toArray
      | "modign" =>
        let tags : List (Nat × Option (List Char)) := (jArr (nth a 1)).map fun e =>
          let x := jArr e; (jNat (nth x 0), jOptChars (nth x 1))
        let (ign, bad) := buildIgnores tags
        let first : Option FirstStmt :=
          if (nth a 2).isNull then none else some { line := jNat (nth a 2), firstDecoratorLine := jOptNat (nth a 3) }
        let r := moduleIgnore ign first
        let showIgn := fun (p : Nat × Codes) => Json.arr #[Json.num (p.1 : Int), Json.arr (p.2.map outStr).toArray]
        Json.mkObj [("whole", Json.bool r.wholeModule),
          ("err", match r.errCodes with | none => Json.null | some p => showIgn p),
          ("ignores", Json.arr (r.ignores.map showIgn).toArray),
          ("invalid", Json.arr (bad.map fun (l : Nat) => Json.num (l : Int)).toArray)]
      | "skip" => Json.arr ((skippedLines ((jArr (nth a 1)).map fun e =>
          let x := jArr e; ({ line := jNat (nth x 0), endLine := jNat (nth x 1) } : BlockSpan))).map
            fun (l : Nat) => Json.num (l : Int)).toArray
      | "space" => Json.arr ((jArr (nth a 1)).map fun n => Json.bool (isSpace (Char.ofNat (jNat n)))).toArray
      | "elide" => Json.bool (elideName (jChars (nth a 1)))
      | "pos" =>
        let p := ErrPos.clamp (jInt (nth a 1)) (jOptInt (nth a 2)) (jOptInt (nth a 3)) (jOptInt (nth a 4))
        Json.arr #[Json.num p.line, Json.num p.column, Json.num p.endLine, Json.num p.endColumn]
      | _ => Json.str "bad-op"
    r.compress

partial def loop (h : IO.FS.Stream) : IO Unit := do
  let line ← h.getLine
  if line.isEmpty then return ()
  IO.println (step line)
  loop h

def main : IO Unit := do loop (← IO.getStdin)
