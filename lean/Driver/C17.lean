import MypyVerif.Model.Config
import MypyVerif.Model.ConfigTable
/-!
Line-protocol driver for the C17 models (model files + the generated option table; no proofs).

  G <glob>|<module>                       → `re=<regex text> m=<0|1> c=<0|1>`  (regex matcher / component matcher)
  C <global>|<sections>|<modules>|<keys>|<codes>
        global   `k=v,k=v`      (v: `1`/`0` bool, `[a+b]` list, `~` None, anything else a string)
        sections `pat:k=v,k=v;pat:…`   in file order
        modules  `a.b;a.*;…`    (patterns allowed: clone_for_module is also called on wildcard keys)
        → per module `k=v … dis={…} en={…} imi=<0|1> spec=<0|1|->`  joined by ` ; `
          (spec: the declarative precedence gives the same values; `-` for a non-module argument)
  K <ini|toml> <key>=<value>              → `res=<resolution> bool=<attr=0|1 or none>`
  I <flag>                                → `invert_flag_name(flag)`
  M <k=v,…>/<k=v,…>/…                     → merged inline comments, keys sorted: `k=v,k=v`
  P <ini key=value,…>|<cli --flag[=v] …>|<keys>|<codes>   (global options: defaults ← [mypy] ← command line)
        → `k=v … dis={…} en={…}`
  S <ini|toml> <p1+p2:k=v,…>/<p3:k=v,…>/… → the `per_module_options` table of that config file: `pat:k=v,…;pat:…`
  L <0|1>,<0|1>,…                         → per section of a config file ([mypy] first): does it say `strict = True`;
                                            answer `1` when the strict assignments reach the *global* options
  V <seps>|<home>|<value>                 → `convPathList (expandUser home) seps value`, entries joined by `|` (`¶` = newline)
  F                                       → obligations with the flags/options that violate them
  E                                       → the hand-written exemption lists of Model/ConfigTable.lean
-/
open Config Config.Table

def str (x : Str) : String := String.ofList x

def splitC (sep : Char) (x : Str) : List Str :=
  let rec go (cur : Str) : Str → List Str
    | [] => [cur.reverse]
    | c :: r => if c == sep then cur.reverse :: go [] r else go (c :: cur) r
  go [] x

def splitNE (sep : Char) (x : Str) : List Str := (splitC sep x).filter (fun y => !y.isEmpty)

def parsePart (x : Str) : Part := if x == ['*'] then .star else .lit x
def parsePat (x : Str) : Pat := (splitC '.' x).map parsePart

def parseVal (x : Str) : Val :=
  if x == ['1'] then .bool true
  else if x == ['0'] then .bool false
  else if x == ['~'] then .none
  else match x with
    | '[' :: r => .list (splitNE '+' (r.takeWhile (· != ']')))
    | _ => .str x

def parseKV (x : Str) : Str × Str :=
  match splitC '=' x with
  | k :: rest => (k, ("=".toList).intercalate rest)
  | [] => ([], [])

def parseChanges (x : Str) : Changes :=
  (splitNE ',' x).map (fun kv => let p := parseKV kv; (p.1, parseVal p.2))

def showVal : Val → String
  | .none => "~"
  | .bool b => if b then "1" else "0"
  | .str x => str x
  | .list l => "[" ++ "+".intercalate (l.map str) ++ "]"

def showSet (codes : List Str) (f : Str → Bool) : String :=
  "{" ++ "+".intercalate ((codes.filter f).map str) ++ "}"

def b2s (b : Bool) : String := if b then "1" else "0"

def showOpts (keys codes : List Str) (o : Opts) : String :=
  " ".intercalate (keys.map (fun k => str k ++ "=" ++ showVal (o.get k))) ++
  s!" dis={showSet codes o.disabled} en={showSet codes o.enabled} imi={b2s o.imiPerModule}"

def baseOpts (ch : Changes) : Opts :=
  Opts.processErrorCodes
    { get := fun k => match ch.lookup k with
        | some v => v
        | none => if k == kDisable || k == kEnable then .list [] else .bool false
      disabled := fun _ => false, enabled := fun _ => false, imiPerModule := false }

def isModule (p : Pat) : Option (List Str) :=
  p.mapM (fun x => match x with | .lit c => some c | .star => none)

def cmdC (arg : Str) : String :=
  match splitC '|' arg with
  | [g, secs, mods, keys, codes] =>
    let g := baseOpts (parseChanges g)
    let secs : Sections := (splitNE ';' secs).map (fun x =>
      match splitC ':' x with
      | [p, ch] => (parsePat p, parseChanges ch)
      | _ => (parsePat x, []))
    let keys := splitNE ',' keys
    let codes := splitNE ',' codes
    let one (m : Str) : String :=
      let p := parsePat m
      let o := cloneForModule g secs p
      let shown := showOpts keys codes o
      let spec := match isModule p with
        | some ms => b2s (showOpts keys codes (specResolve g secs ms) == shown)
        | none => "-"
      s!"{shown} spec={spec}"
    " ; ".intercalate ((splitNE ';' mods).map one)
  | _ => "bad-op"

def showRes : KeyRes → String
  | .sets k isBool inv => s!"sets {str k} bool={b2s isBool} invert={b2s inv}"
  | .strict => "strict"
  | .report k => s!"report {str k}"
  | .ignored => "ignored"
  | .rejected => "rejected"

def cmdK (arg : Str) : String :=
  match splitC ' ' arg with
  | which :: rest =>
    let kv := parseKV ((" ".toList).intercalate rest)
    let T := if which == "toml".toList then tomlTemplate else genTemplate
    let r := resolveKey T kv.1
    let b := match resolveBool T kv.1 kv.2 with
      | some (k, v) => s!"{str k}={b2s v}"
      | none => "none"
    s!"res={showRes r} bool={b}"
  | _ => "bad-op"

def showChanges (ch : Changes) : String :=
  let keys := isort strLe (ch.map Prod.fst)
  ",".intercalate (keys.map (fun k => str k ++ "=" ++ showVal ((ch.lookup k).getD .none)))

def cmdM (arg : Str) : String :=
  showChanges (mergeInline ((splitC '/' arg).map parseChanges))

/-- a `[mypy]` section given as raw `key=value` lines: keys are resolved by the model of `parse_section`;
    Boolean values and the two error-code lists are converted, other keys are out of this command's scope -/
def iniChanges (x : Str) : Changes :=
  -- `results[options_key] = v` in file order: a later line for the same option overwrites an earlier one
  (splitNE ',' x).foldl (fun acc kv =>
    let p := parseKV kv
    let one : Option (Str × Val) :=
      match resolveKey genTemplate p.1 with
      | .sets k true inv => (parseBool p.2).map (fun b => (k, Val.bool (if inv then !b else b)))
      | .sets k false _ =>
        if k == kDisable || k == kEnable then some (k, Val.list (splitNE '+' p.2)) else none
      | _ => none
    match one with
    | some kv' => dictUpdate acc [kv']
    | none => acc) []

def cmdP (arg : Str) : String :=
  match splitC '|' arg with
  | [ini, cli, keys, codes] =>
    let dflt : Opts :=
      { get := fun k => match Gen.Options.attrs.find? (fun a => a.name == k) with
          | some a => (match a.boolDefault with | some b => .bool b | none => if a.ty == .list then .list [] else .none)
          | none => .none
        disabled := fun _ => false, enabled := fun _ => false, imiPerModule := false }
    let args := (splitNE ' ' cli).filterMap (fun a =>
      match splitC '=' a with
      | [f] => cliArgOf f []
      | f :: v => cliArgOf f (("=".toList).intercalate v)
      | [] => none)
    -- `strict = <true>` in [mypy] / `--strict` on the command line
    let iniStrict := (splitNE ',' ini).any (fun kv =>
      let p := parseKV kv
      resolveKey genTemplate p.1 == .strict && parseBool p.2 == some true)
    let cliStrict := (splitNE ' ' cli).contains "--strict".toList
    let o := globalOptionsStrict dflt strictAssign iniStrict (iniChanges ini) cliStrict args
    showOpts (splitNE ',' keys) (splitNE ',' codes) { o with imiPerModule := false }
  | _ => "bad-op"

def flagName (f : Gen.Options.Flag) : String := "/".intercalate (f.strings.map str)

def cmdF : String :=
  let bad (name : String) (xs : List String) : String := s!"{name}:[" ++ ",".intercalate xs ++ "]"
  " ".intercalate [
    bad "cli_ini_agree" ((Gen.Options.flags.filter (fun f => !flagAgrees genTemplate f)).map flagName),
    bad "dest_settable" ((Gen.Options.flags.filter (fun f => !destSettable genTemplate f)).map flagName),
    bad "toml_ini_same_keys" (if tomlIniSameKeysB then [] else
      ((Gen.Options.iniKeys.filter (fun k => !Gen.Options.tomlKeys.contains k)) ++
       (Gen.Options.tomlKeys.filter (fun k => !Gen.Options.iniKeys.contains k))).map (fun k => str k.1)),
    bad "per_module_flags_inline_ok" ((Gen.Options.perModule.filter (fun k => !perModuleSettable genTemplate k)).map str),
    bad "strict_flags_ok" ((Gen.Options.strictFlags.filter (fun d => !strictAssignmentOk genTemplate d)).map (fun d => str d.1)),
    bad "strict_opposites_expressible" ((Gen.Options.strictFlags.filter (fun d =>
      !(strictOppositeOk genTemplate d && strictOppositeOk tomlTemplate d))).map (fun d => str d.1)),
    bad "list_options_typed" ((Gen.Options.attrs.filter (fun a =>
      !(listAttrTyped Gen.Options.iniKeys a && listAttrTyped Gen.Options.tomlKeys a))).map (fun a => str a.name)),
    bad "exemptions_live" (if exemptionsLiveB then [] else ["stale"])]

def cmdS (arg : Str) : String :=
  match splitC ' ' arg with
  | which :: rest =>
    let fs : List FileSection := (splitNE '/' ((" ".toList).intercalate rest)).map (fun x =>
      match splitC ':' x with
      | [ps, ch] => ((splitNE '+' ps).map parsePat, parseChanges ch)
      | _ => ([], []))
    let t := if which == "toml".toList then tomlSections fs else iniSections fs
    ";".intercalate (t.map (fun kv => str kv.1.str ++ ":" ++ showChanges kv.2))
  | _ => "bad-op"

def cmdL (arg : Str) : String :=
  let bits := (splitNE ',' arg).map (fun x => x == ['1'])
  let g : Opts := { get := fun _ => .bool false, disabled := fun _ => false, enabled := fun _ => false, imiPerModule := false }
  let assign : Changes := Gen.Options.strictFlags.map (fun d => (d.1, Val.bool d.2))
  let o := strictApplied g assign bits
  -- did the strict assignments reach the global object?
  b2s (Gen.Options.strictFlags.any (fun d => o.get d.1 != g.get d.1))

def cmdV (arg : Str) : String :=
  match splitC '|' arg with
  | seps :: home :: rest =>
    let value := (("|".toList).intercalate rest).map (fun c => if c == '¶' then '\n' else c)
    "|".intercalate ((convPathList (expandUser home) seps value).map str)
  | _ => "bad-op"

def cmdE : String :=
  let one (name : String) (xs : List Str) : String := s!"{name}:[" ++ ",".intercalate (xs.map str) ++ "]"
  " ".intercalate [
    one "cliOnlySpellings" (cliOnlySpellings.map Prod.fst), one "specialHandled" (specialHandled.map Prod.fst),
    one "cliOnlySettings" (cliOnlySettings.map Prod.fst),
    one "derivedPerModule" (derivedPerModule.map Prod.fst)]

def step (line : String) : String :=
  let l := line.toList.reverse.dropWhile (fun c => c == '\n' || c == '\r') |>.reverse
  match l with
  | 'G' :: ' ' :: r =>
    (match splitC '|' r with
     | [g, m] =>
       let gp := parsePat g
       let mp := parsePat m
       let ms := splitC '.' m
       s!"re={str (compileGlob gp).text} m={b2s (globMatches gp mp)} c={b2s (compMatch gp ms)}"
     | _ => "bad-op")
  | 'C' :: ' ' :: r => cmdC r
  | 'K' :: ' ' :: r => cmdK r
  | 'I' :: ' ' :: r => str (invertFlagName Gen.Options.flagPrefixPairs r)
  | 'M' :: ' ' :: r => cmdM r
  | 'P' :: ' ' :: r => cmdP r
  | 'S' :: ' ' :: r => cmdS r
  | 'V' :: ' ' :: r => cmdV r
  | 'L' :: ' ' :: r => cmdL r
  | ['F'] => cmdF
  | ['E'] => cmdE
  | _ => "bad-op"

partial def loop (h : IO.FS.Stream) : IO Unit := do
  let line ← h.getLine
  if line.isEmpty then return ()
  IO.println (step line)
  loop h

def main : IO Unit := do loop (← IO.getStdin)
