import MypyVerif.Model.Ownership
/-!
Line-protocol driver for C06: one function per line (all naturals, separated by blanks), as written by
`translate/c06_micro.py:encode`:

    nvars nargs (var kind)* nblocks ( nops (code a b)* term )*
    term:  0 = unreachable | 1 = return (operand not tracked) | 2 v = return v
         | 3 nedges ( nops (code a b)* target )*
    micro-op codes: 0 define d kind(0 owned 1 maybe 2 borrowed 3 maybeBorrowed 4 null 5 imm) | 1 incref v _ |
      2 decref v x | 3 steal v _ | 4 stealMaybe v _ | 5 use v _ | 6 useMaybe v _ | 7 move d s |
      8 assumeNull v _ | 9 assumeOk v _ | 10 clobber v _
    argument kinds: 0 borrowed | 1 optional

A line is `0 <function>` (verify) or `1 nnull v* nchoices (afterOps edge afterEdge)* <function>` (replay a witness).
Answer per line: `ok` (checkFunc = true) / `bad` (checkFunc = false); `replay-ok` (the path exists in the concrete
semantics from the initial state with the listed optional arguments NULL and ends in an unsafe block entry) /
`replay-fail`; or `parse-error`.
-/
open Own

abbrev P := StateM (List Nat)

def next : P Nat := fun s => match s with | [] => (0, []) | x :: r => (x, r)

def defKind (n : Nat) : DefKind :=
  match n with
  | 0 => .owned | 1 => .maybe | 2 => .borrowed | 3 => .maybeBorrowed | 4 => .null | _ => .imm

def mkOp (code a b : Nat) : MicroOp :=
  match code with
  | 0 => .define a (defKind b)
  | 1 => .incref a
  | 2 => .decref a (b != 0)
  | 3 => .steal a
  | 4 => .stealMaybe a
  | 5 => .use a
  | 6 => .useMaybe a
  | 7 => .move a b
  | 8 => .assumeNull a
  | 9 => .assumeOk a
  | _ => .clobber a

def readOps : Nat → P (List MicroOp)
  | 0 => pure []
  | n + 1 => do
    let c ← next; let a ← next; let b ← next
    let rest ← readOps n
    pure (mkOp c a b :: rest)

def readEdges : Nat → P (List Edge)
  | 0 => pure []
  | n + 1 => do
    let k ← next
    let ops ← readOps k
    let t ← next
    let rest ← readEdges n
    pure (⟨ops, t⟩ :: rest)

def readTerm : P Term := do
  let t ← next
  match t with
  | 0 => pure .unreachable
  | 1 => pure (.ret none)
  | 2 => do let v ← next; pure (.ret (some v))
  | _ => do let n ← next; let es ← readEdges n; pure (.br es)

def readBlocks : Nat → P (List Block)
  | 0 => pure []
  | n + 1 => do
    let k ← next
    let ops ← readOps k
    let t ← readTerm
    let rest ← readBlocks n
    pure (⟨ops, t⟩ :: rest)

def readArgs : Nat → P (List (Var × ArgKind))
  | 0 => pure []
  | n + 1 => do
    let v ← next; let k ← next
    let rest ← readArgs n
    pure ((v, if k == 0 then .borrowed else .optional) :: rest)

def readFunc : P FuncIR := do
  let nvars ← next
  let nargs ← next
  let args ← readArgs nargs
  let nb ← next
  let blocks ← readBlocks nb
  pure { nvars := nvars, args := args, blocks := blocks.toArray }

def readNats : Nat → P (List Nat)
  | 0 => pure []
  | n + 1 => do let x ← next; let rest ← readNats n; pure (x :: rest)

def readChoices : Nat → P (List Choice)
  | 0 => pure []
  | n + 1 => do
    let a ← next; let b ← next; let c ← next
    let rest ← readChoices n
    pure (⟨a, b, c⟩ :: rest)

def readWitness : P (List Var × List Choice) := do
  let nn ← next
  let nulls ← readNats nn
  let nc ← next
  let w ← readChoices nc
  pure (nulls, w)

def step (line : String) : String :=
  let toks := (line.splitOn " ").filter (fun t => !t.isEmpty)
  let nums := toks.filterMap (fun t => t.trimAscii.toString.toNat?)
  if nums.length != toks.length || nums.isEmpty then "parse-error"
  else
    match nums with
    | 0 :: body =>
      let (f, rest) := readFunc.run body
      if !rest.isEmpty then "parse-error"
      else if checkFunc f then "ok" else "bad"
    | 1 :: body =>
      let ((nulls, w), rest1) := readWitness.run body
      let (f, rest) := readFunc.run rest1
      if !rest.isEmpty then "parse-error"
      else if replayFrom f w 0 (initStateWith f nulls) then "replay-ok" else "replay-fail"
    | _ => "parse-error"

partial def loop (h : IO.FS.Stream) : IO Unit := do
  let line ← h.getLine
  if line.isEmpty then return ()
  IO.println (step line)
  loop h

def main : IO Unit := do loop (← IO.getStdin)
