import Lean.Data.Json
import MypyVerif.Model.ExitStatus
import MypyVerif.Gen.ErrorCodes
import MypyVerif.Gen.ExitRule
/-!
Line-protocol driver for the C13 models (model files + the generated code table; no proofs needed).
One JSON value per input line, one JSON value per output line.

  ["stream", ev, ev, …]   run the events on a fresh sink (env = Gen.env); output = list of observations
     events   ["F", file, [enabled], [disabled], showLinks, threshold]      set_file
              ["C", ctx]                                                    set_import_context
              ["I", file, [[line, [codes]], …], ignoreAll]                  set_file_ignored_lines
              ["K", file, [lines]]                                          set_skipped_lines
              ["X", file]                                                   ignored_files.add
              ["R", uid, line, col|null, msgId, code|null, blocker, sev, onlyOnce, [span], offset,
                    endLine|null, endCol|null, parent|null]                 report
                    code = [name, subOf|null, defaultEnabled, linkable]; sev = "e"|"n"; parent = [uid, code|null]
              ["A", [uid, ctx, line, col, endLine, endCol, sev, msgId, code|null, blocker, onlyOnce, [span],
                     priority, hidden, parentUid|null], file|null]          add_error_info
              ["U", file, isTypeshed]                                       generate_unused_ignore_errors
              ["N", file, warnUnused, isTypeshed]                           generate_ignore_without_code_errors
     observations (no state change)
              ["M", file]  → ["M", [tuple…]]   file_messages; tuple = [line, col, endLine, endCol, sev, msg, code|null]
              ["S"]        → ["S", [[file, line, code]…], [blocker files], seenImportError, nInfos]
  ["pos", line, col|null, endLine|null, endCol|null]   → [line, col, endLine, endCol]   (Errors.report clamp)
  ["exit", [[srcloc, sev, message, suffix]…], blockers] → [exitCode, truth, nErrors, nNotes]   (rule = Gen.exitRule)
-/
open Lean Errors

def jInt (j : Json) : Int := (j.getInt?).toOption.getD 0
def jNat (j : Json) : Nat := (jInt j).toNat
def jBool (j : Json) : Bool :=
  match j with
  | .bool b => b
  | .num n => n.mantissa != 0
  | _ => false
def jArr (j : Json) : List Json := ((j.getArr?).toOption.getD #[]).toList
def jOptInt (j : Json) : Option Int := if j.isNull then none else some (jInt j)
def jOptNat (j : Json) : Option Nat := if j.isNull then none else some (jNat j)
def jStr (j : Json) : String := (j.getStr?).toOption.getD ""
def nth (l : List Json) (n : Nat) : Json := l.getD n Json.null

def jSev (j : Json) : Sev := if jStr j == "e" then .error else .note

def jCode (j : Json) : Option Code :=
  if j.isNull then none else
  let a := jArr j
  some { name := jNat (nth a 0), subOf := jOptNat (nth a 1), defaultEnabled := jBool (nth a 2), linkable := jBool (nth a 3) }

def jIgn (j : Json) : List (Int × List CodeName) :=
  (jArr j).map fun e => let a := jArr e; (jInt (nth a 0), (jArr (nth a 1)).map jNat)

def parseEv (j : Json) : Option Ev :=
  let a := jArr j
  match jStr (nth a 0) with
  | "F" => some (.setFile (jNat (nth a 1))
      { enabled := (jArr (nth a 2)).map jNat, disabled := (jArr (nth a 3)).map jNat,
        showLinks := jBool (nth a 4), manyThreshold := jInt (nth a 5) })
  | "C" => some (.setImportCtx (jNat (nth a 1)))
  | "I" => some (.setIgnored (jNat (nth a 1)) (jIgn (nth a 2)) (jBool (nth a 3)))
  | "K" => some (.setSkipped (jNat (nth a 1)) ((jArr (nth a 2)).map jInt))
  | "X" => some (.ignoreFile (jNat (nth a 1)))
  | "R" =>
    let par := nth a 13
    some (.report
      { uid := jNat (nth a 1), line := jInt (nth a 2), column := jOptInt (nth a 3), msgId := jNat (nth a 4),
        code := jCode (nth a 5), blocker := jBool (nth a 6), sev := jSev (nth a 7), onlyOnce := jBool (nth a 8),
        span := (jArr (nth a 9)).map jInt, offset := jNat (nth a 10), endLine := jOptInt (nth a 11),
        endColumn := jOptInt (nth a 12),
        parent := if par.isNull then none else some (jNat (nth (jArr par) 0), jCode (nth (jArr par) 1)) })
  | "A" =>
    let i := jArr (nth a 1)
    some (.add
      { uid := jNat (nth i 0), importCtx := jNat (nth i 1), line := jInt (nth i 2), column := jInt (nth i 3),
        endLine := jInt (nth i 4), endColumn := jInt (nth i 5), sev := jSev (nth i 6),
        msg := .user (jNat (nth i 7)) 0, code := jCode (nth i 8), blocker := jBool (nth i 9),
        onlyOnce := jBool (nth i 10), span := (jArr (nth i 11)).map jInt, priority := jInt (nth i 12),
        hidden := jBool (nth i 13), parent := jOptNat (nth i 14) }
      (jOptNat (nth a 2)))
  | "U" => some (.genUnused (jNat (nth a 1)) (jBool (nth a 2)))
  | "N" => some (.genNoCode (jNat (nth a 1)) (jBool (nth a 2)) (jBool (nth a 3)))
  | _ => none

def natsJ (l : List Nat) : Json := Json.arr (l.map fun n => Json.num (JsonNumber.fromNat n)).toArray
def intJ (i : Int) : Json := Json.num (JsonNumber.fromInt i)

def msgJ : Msg → Json
  | .user id off => Json.arr #["u", Json.num (JsonNumber.fromNat id), Json.num (JsonNumber.fromNat off)]
  | .notCovered c ig => Json.arr #["nc", Json.num (JsonNumber.fromNat c), natsJ ig]
  | .codeChanged c => Json.arr #["cc", Json.num (JsonNumber.fromNat c)]
  | .unusedIgnore d n => Json.arr #["ui", natsJ d,
      Json.arr (n.map fun p => Json.arr #[Json.num (JsonNumber.fromNat p.1), natsJ p.2]).toArray]
  | .ignoreWithoutCode h => Json.arr #["iw", natsJ h]
  | .seeLink c => Json.arr #["sl", Json.num (JsonNumber.fromNat c)]
  | .skipping => Json.arr #["sk"]

def tupleJ (t : Tuple) : Json :=
  Json.arr #[intJ t.line, intJ t.column, intJ t.endLine, intJ t.endColumn,
    (match t.sev with | .error => "e" | .note => "n"), msgJ t.msg,
    (match t.code with | some c => Json.num (JsonNumber.fromNat c) | none => Json.null)]

def runStream (evs : List Json) : Json :=
  let go := fun (acc : St × Array Json) (j : Json) =>
    let a := jArr j
    match jStr (nth a 0) with
    | "M" => (acc.1, acc.2.push (Json.arr #["M", Json.arr ((fileMessages acc.1.dyn (jNat (nth a 1))).map tupleJ).toArray]))
    | "S" =>
      let d := acc.1.dyn
      (acc.1, acc.2.push (Json.arr #["S",
        Json.arr (d.used.map fun u => Json.arr #[Json.num (JsonNumber.fromNat u.1), intJ u.2.1, Json.num (JsonNumber.fromNat u.2.2)]).toArray,
        natsJ d.hasBlockers, Json.bool d.seenImportError, Json.num (JsonNumber.fromNat d.infos.length)]))
    | _ =>
      match parseEv j with
      | some e => (step Gen.env acc.1 e, acc.2)
      | none => (acc.1, acc.2.push (Json.str "bad-event"))
  Json.arr (evs.foldl go (St.init, #[])).2

def runExit (a : List Json) : Json :=
  let ls : List ExitStatus.Line := (jArr (nth a 1)).map fun l =>
    let f := jArr l
    { srcloc := (jStr (nth f 0)).toList, sev := jSev (nth f 1), message := (jStr (nth f 2)).toList,
      codeSuffix := (jStr (nth f 3)).toList }
  let b := jBool (nth a 2)
  let msgs := ls.map ExitStatus.format
  let cs := ExitStatus.countStats ExitStatus.Gen.exitRule msgs
  natsJ [ExitStatus.exitCode ExitStatus.Gen.exitRule msgs b, ExitStatus.truth ls b, cs.1, cs.2]

def stepLine (line : String) : String :=
  match Json.parse line with
  | .error e => "\"bad-json " ++ e ++ "\""
  | .ok j =>
    let a := jArr j
    match jStr (nth a 0) with
    | "stream" => (runStream (a.drop 1)).compress
    | "pos" =>
      let p := ErrPos.clamp (jInt (nth a 1)) (jOptInt (nth a 2)) (jOptInt (nth a 3)) (jOptInt (nth a 4))
      (Json.arr #[intJ p.line, intJ p.column, intJ p.endLine, intJ p.endColumn]).compress
    | "exit" => (runExit a).compress
    | _ => "\"bad-op\""

partial def loop (h : IO.FS.Stream) : IO Unit := do
  let line ← h.getLine
  if line.isEmpty then return ()
  IO.println (stepLine line)
  loop h

def main : IO Unit := do loop (← IO.getStdin)
