import MypyVerif.Model.PyBind
/-!
Line-protocol driver for the call-binding models (model files only).

  <posonly>;<poskw>;<ndef>;<varargs|->;<kwonly name:hasdefault,…>;<varkw|-> | <actual> <actual> …
      names are decimal numbers; actuals: `p` positional, `t<k>` *tuple of length k, `t?` *iterable,
      `n<x>` keyword x, `d<k1,k2,…>` **TypedDict with these keys (`d` = no keys), `d?` **mapping
  → `map=<[m0][m1]…|-> errs=<E,…|-> py=<ok|unknown|KWDUP|MULT|UNEXP|POSONLYKW|TOOMANY|MISSPOS|MISSKW> f8=<0|1> f9a=<0|1> f9b=<0|1> f9c=<0|1>`
      m_i = actual indices mapped to formal i (`formal_to_actual[i]`), errors in mypy's order:
      TM  UK:x  XTD:x  TF  MN:x  DUP:x  TMP   (x = name number, `?` for a nameless formal)
-/
open ArgMap PyBind

def parseNames (s : String) : List Nat :=
  (s.splitOn ",").filterMap fun t => if t.isEmpty then none else t.trimAscii.toString.toNat?

def parseOptName (s : String) : Option Nat := s.trimAscii.toString.toNat?

def parseKwonly (s : String) : List (Nat × Bool) :=
  (s.splitOn ",").filterMap fun t =>
    match t.trimAscii.toString.splitOn ":" with
    | [n, d] => n.toNat?.map fun x => (x, d == "1")
    | _ => none

def parseSig (s : String) : Option Sig :=
  match s.trimAscii.toString.splitOn ";" with
  | [po, pk, nd, va, ko, kw] =>
    some { posonly := parseNames po, poskw := parseNames pk, ndef := nd.trimAscii.toString.toNat?.getD 0,
           varargs := parseOptName va, kwonly := parseKwonly ko, varkw := parseOptName kw }
  | _ => none

def parseActual (t : String) : Option Actual :=
  let body := (t.drop 1).toString
  if t == "p" then some .pos
  else if t == "t?" then some (.star none)
  else if t.startsWith "t" then body.toNat?.map fun k => .star (some k)
  else if t.startsWith "n" then body.toNat?.map .named
  else if t == "d?" then some (.star2 none)
  else if t.startsWith "d" then some (.star2 (some (parseNames body)))
  else none

def showName : Option Nat → String
  | some x => toString x
  | none => "?"

def showErr : Err → String
  | .tooMany => "TM"
  | .unexpectedKw x => s!"UK:{x}"
  | .extraFromTD x => s!"XTD:{x}"
  | .tooFew => "TF"
  | .missingNamed x => "MN:" ++ showName x
  | .duplicate x => "DUP:" ++ showName x
  | .tooManyPositional => "TMP"

def showPy : Option (Option PyErr) → String
  | none => "unknown"
  | some none => "ok"
  | some (some (.kwDup _)) => "KWDUP"
  | some (some (.multiple _)) => "MULT"
  | some (some (.unexpectedKw _)) => "UNEXP"
  | some (some .posonlyAsKw) => "POSONLYKW"
  | some (some .tooManyPositional) => "TOOMANY"
  | some (some .missingPositional) => "MISSPOS"
  | some (some .missingKwonly) => "MISSKW"

def b2s (b : Bool) : String := if b then "1" else "0"

def step (line : String) : String :=
  match line.splitOn "|" with
  | [sg, call] =>
    match parseSig sg with
    | none => "bad-sig"
    | some s =>
      let toks := (call.trimAscii.toString.splitOn " ").filter (· ≠ "")
      let acts := toks.filterMap parseActual
      if acts.length ≠ toks.length then "bad-call"
      else
        let F := s.toFormals
        let ps := mapActualsToFormals F acts
        let ms := (List.range F.length).map fun i => "[" ++ ",".intercalate ((mapped ps i).map toString) ++ "]"
        let errs := (checkArgumentCount F acts ps).map showErr
        let es := if errs.isEmpty then "-" else ",".intercalate errs
        s!"map={if ms.isEmpty then "-" else "".intercalate ms} errs={es} py={showPy (pyCall s acts)} f8={b2s (TwoTypedDictsShareKey acts)} f9a={b2s (KwDupIntoStar F acts)} f9b={b2s (StarThenTypedDict F acts)} f9c={b2s (TypedDictKeyNamesStarArgs F acts)}"
  | _ => "bad-line"

partial def loop (h : IO.FS.Stream) : IO Unit := do
  let line ← h.getLine
  if line.isEmpty then return ()
  IO.println (step line)
  loop h

def main : IO Unit := do loop (← IO.getStdin)
