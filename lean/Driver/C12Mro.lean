import MypyVerif.Model.Mro
/-!
Line-protocol driver for the MRO models (model file only).

  H <b…>;<b…>;…;     a hierarchy: the written base lists of classes 1, 2, … (space-separated class numbers,
                     0 = object, an empty item = no bases written), each terminated by `;`
      → per class (1, 2, …) `py=<ok n…|dup|mro|name> my=<n…>/<none|dup|mro>/<bad 0|1>` joined by ` | `
  M <s…>;<s…>;…;     raw sequences for the two merge loops
      → `merge=<n…|fail> pmerge=<n…|fail>`
-/
open Mro

def parseNums (s : String) : List Nat :=
  (s.splitOn " ").filterMap fun t => if t.isEmpty then none else t.toNat?

/-- every list is terminated by `;` (so `;` alone is one empty list, nothing is no list) -/
def parseLists (s : String) : List (List Nat) := ((s.splitOn ";").map parseNums).dropLast

def showNums (l : List Nat) : String := " ".intercalate (l.map toString)

def showPy : PyRes → String
  | .ok l => "ok " ++ showNums l
  | .typeErrorDup => "dup"
  | .typeErrorMro => "mro"
  | .nameError => "name"

def showErr : Option Err → String
  | none => "none"
  | some .duplicateBase => "dup"
  | some .inconsistentMro => "mro"

def showMy (i : Info) : String := s!"{showNums i.mro}/{showErr i.err}/{if i.badMro then 1 else 0}"

def showOpt : Option (List Nat) → String
  | none => "fail"
  | some l => showNums l

def step (line : String) : String :=
  let line := line.trimAscii.toString
  if line.startsWith "H " || line == "H" then
    let H := parseLists (line.drop 2).toString
    let py := (pyTable H).drop 1
    let my := (myTable H).drop 1
    " | ".intercalate ((py.zip my).map fun (p, m) => s!"py={showPy p} my={showMy m}")
  else if line.startsWith "M " || line == "M" then
    let seqs := parseLists (line.drop 2).toString
    s!"merge={showOpt (merge seqs)} pmerge={showOpt (pmerge seqs)}"
  else "bad-op"

partial def loop (h : IO.FS.Stream) : IO Unit := do
  let line ← h.getLine
  if line.isEmpty then return ()
  IO.println (step line)
  loop h

def main : IO Unit := do loop (← IO.getStdin)
