import MypyVerif.Model.Driver
import MypyVerif.Gen.DriverCaps
/-!
Line-protocol driver for the C20 model (model + generated caps only — no proofs needed at run time).

  C                         → the generated caps and the derived limits
  S top|func <e> <e> …      scripted semantic-analysis loop; entry `<d><f><p>` (three bits) for one iteration:
                            deferred when not final / deferred when final / progress; the last entry repeats
      → `exit=<converged|capHit|deferInFinal|fuelOut> iters=<n>`
  P <k> <k> …               SCC of modules whose checker wants to defer in passes `< k`
      → `done=<0|1> sweeps=<n> pass=<p,…> calls=<c,…>`
  F <b> <b> …               fine-grained propagation, `pending` after 0, 1, … rounds (last entry repeats)
      → `exit=<done|runtimeError|fuelOut> iters=<n>`
  R <k>                     reprocess_nodes for a target that wants to defer in passes `< k`
      → `done=<0|1> calls=<n> pass=<p>`
  O <status|T> ie tb hang top func pass second sweeps fg fgpass fgcalls viamain blockers nmsg nnotes
      → `accepted` | `reject <reason>`
-/
open Driver

def b2s (b : Bool) : String := if b then "1" else "0"

def words (s : String) : List String := (s.splitOn " ").filter (fun t => !t.isEmpty)

def nth (l : List String) (i : Nat) : String := (l[i]?).getD ""
def nat (l : List String) (i : Nat) : Nat := (nth l i).toNat?.getD 0
def bit (l : List String) (i : Nat) : Bool := nth l i == "1"

/-- script lookup: entry `i` (1-based iteration), the last entry repeats -/
def scriptAt (sc : List String) (i : Nat) : String :=
  match sc[i - 1]? with
  | some e => e
  | none => sc.getLast?.getD "000"

def semOracle (sc : List String) : Nat → Bool → SweepOut := fun it final =>
  let e := (scriptAt sc it).toList
  let d := e[0]? == some '1'
  let f := e[1]? == some '1'
  let p := e[2]? == some '1'
  ⟨if final then f else d, p⟩

def showSemExit : SemExit → String
  | .converged => "converged" | .capHit => "capHit" | .deferInFinal => "deferInFinal" | .fuelOut => "fuelOut"

def showFgExit : FgExit → String
  | .done => "done" | .runtimeError => "runtimeError" | .fuelOut => "fuelOut"

def showLimit (o : Option Nat) : String := match o with | none => "none" | some n => toString n

def step (line : String) : String :=
  let w := words line.trimAscii.toString
  let c := Gen.caps
  match w with
  | "C" :: _ =>
    s!"maxIterations={c.maxIterations} topOp={repr c.topOp} funcOp={repr c.funcOp} topLimit={showLimit (c.topOp.limit c.maxIterations)} " ++
    s!"funcLimit={showLimit (c.funcOp.limit c.maxIterations)} coreWarmup={c.coreWarmup} nCore={c.nCore} " ++
    s!"defaultLastPass={c.defaultLastPass} fgLastPass={c.fgLastPass} deferGuarded={b2s c.deferGuarded} " ++
    s!"maxIter={c.maxIter} fgOp={repr c.fgOp} fgLimit={showLimit (c.fgOp.limit c.maxIter)} " ++
    s!"deferSites={Gen.deferSitesGuarded}/{Gen.deferSites} sccLoop={b2s Gen.sccLoopRecognised} exits={b2s Gen.exitsRecognised} " ++
    s!"foldGuard={showLimit Gen.foldGuard}"
  | "S" :: kind :: sc =>
    let (op, sticky) := if kind == "top" then (c.topOp, false) else (c.funcOp, true)
    -- an uncapped loop is followed for max (4 × script length) (2 × the cap constant) + 64 rounds, then `fuelOut`
    let fuel := match op.limit c.maxIterations with | some l => l | none => max (4 * sc.length) (2 * c.maxIterations) + 64
    let r := semLoop op c.maxIterations sticky (semOracle sc) fuel 0 false
    s!"exit={showSemExit r.exit} iters={r.iterations}"
  | "P" :: ks =>
    let mods := ks.map fun k => (fun p => decide (p < k.toNat?.getD 0))
    let start := mods.map (Mod.start c.deferGuarded c.defaultLastPass)
    let r := sccLoop c.deferGuarded c.defaultLastPass (c.defaultLastPass + 8) start 0
    let ps := ",".intercalate (r.mods.map fun m => toString m.chk.passNum)
    let cs := ",".intercalate (r.mods.map fun m => toString m.calls)
    s!"done={b2s r.done} sweeps={r.sweeps} pass={ps} calls={cs}"
  | "F" :: sc =>
    let pending : Nat → Bool := fun k => (match sc[k]? with | some e => e | none => sc.getLast?.getD "0") == "1"
    let fuel := match c.fgOp.limit c.maxIter with | some l => l | none => max (4 * sc.length) (2 * c.maxIter) + 64
    let r := fgLoop c.fgOp c.maxIter pending fuel 0
    s!"exit={showFgExit r.exit} iters={r.iterations}"
  | "R" :: k :: _ =>
    let kk := k.toNat?.getD 0
    let r := reprocessLoop c.deferGuarded c.fgLastPass (fun p => decide (p < kk)) (c.fgLastPass + 8) reprocessStart 0
    s!"done={b2s r.1} calls={r.2.1} pass={r.2.2.passNum}"
  | "O" :: a =>
    let o : Obs :=
      { status := if nth a 0 == "T" then none else some (nat a 0)
        internalError := bit a 1, traceback := bit a 2, hangReported := bit a 3
        topIters := nat a 4, funcIters := nat a 5, passNum := nat a 6, secondCalls := nat a 7, sweeps := nat a 8
        fgIters := nat a 9, fgPassNum := nat a 10, fgCalls := nat a 11
        viaMain := bit a 12, blockers := bit a 13, nMessages := nat a 14, nNotes := nat a 15 }
    if accepts c o then "accepted" else "reject " ++ rejectReason c o
  | _ => "bad-op"

partial def loop (h : IO.FS.Stream) : IO Unit := do
  let line ← h.getLine
  if line.isEmpty then return ()
  IO.println (step line)
  loop h

def main : IO Unit := do loop (← IO.getStdin)
