import MypyVerif.Model.Build
/-!
Line-protocol driver for the build-protocol model (C02, reused by C04/C09).

One line = one history of runs sharing a cache:
  world || world || …        world = `<key> | unit ; unit ; …`   (processing order, dependencies first)
  unit  = `<mod> <src> <mtime> <size> <iface> <errs> <reads>`    reads = comma separated mods or `-`
All values are small interned naturals supplied by the harness; `iface`/`errs` are what the real type
checker produced for that unit in that world (the oracle for the parameter `analyze`).
Output per world: `rechecked=<mods> msgs=<mod>:<errs>,… miss=<n>` joined by ` || `.
-/
open Build

structure UnitIn where
  m : Nat
  f : File
  iface : Nat
  errs : Nat
  reads : List Nat

structure Entry where
  m : Nat
  src : Nat
  k : Nat
  renv : List (Nat × Option Nat)
  res : Res

def MISS : Nat := 999999999

def parseNats (s : String) (sep : String) : List Nat :=
  (s.splitOn sep).filterMap fun t => t.trimAscii.toString.toNat?

def parseUnit (s : String) : Option UnitIn :=
  match (s.trimAscii.toString.splitOn " ").filter (· ≠ "") with
  | [m, src, mt, sz, ifc, er, rd] =>
    match m.toNat?, src.toNat?, mt.toNat?, sz.toNat?, ifc.toNat?, er.toNat? with
    | some m, some src, some mt, some sz, some ifc, some er =>
      some { m := m, f := { src := src, mtime := mt, size := sz }, iface := ifc, errs := er,
             reads := if rd == "-" then [] else parseNats rd "," }
    | _, _, _, _, _, _ => none
  | _ => none

def parseWorld (s : String) : Option (Nat × List UnitIn) :=
  match s.splitOn " | " with
  | [k, us] =>
    match k.trimAscii.toString.toNat? with
    | some k =>
      let units := (us.splitOn " ; ").filterMap parseUnit
      some (k, units)
    | none => none
  | [k] => match k.trimAscii.toString.toNat? with
    | some k => some (k, [])
    | none => none
  | _ => none

def ifaceIn (us : List UnitIn) (d : Nat) : Option Nat := (us.find? (·.m == d)).map (·.iface)

def entriesOf (w : Nat × List UnitIn) : List Entry :=
  w.2.map fun u =>
    { m := u.m, src := u.f.src, k := w.1,
      renv := u.reads.map (fun d => (d, ifaceIn w.2 d)),
      res := { iface := u.iface, errs := [u.errs], reads := u.reads } }

def mkAnalyze (tbl : List Entry) : Mod → Src → Sem → Env → Res := fun m s k e =>
  match tbl.find? (fun t => t.m == m && t.src == s && t.k == k && t.renv.all (fun p => e p.1 == p.2)) with
  | some t => t.res
  | none => { iface := MISS, errs := [MISS], reads := [] }

def showNats (l : List Nat) : String := ",".intercalate (l.map toString)

def runHistoryOut (hs : Hashes) (an : Mod → Src → Sem → Env → Res) :
    Cache → List (Nat × List UnitIn) → List String
  | _, [] => []
  | c, w :: ws =>
    let world : World := { opts := { sem := w.1, key := w.1 }, order := w.2.map (fun u => (u.m, u.f)) }
    let st := warm hs an c world
    let msgs := ",".intercalate (st.msgs.map fun p => s!"{p.1}:{showNats p.2}")
    let miss := (st.msgs.filter fun p => p.2 == [MISS]).length
    s!"rechecked={showNats st.rechecked} msgs={msgs} miss={miss}" :: runHistoryOut hs an st.cache ws

def step (line : String) : String :=
  let worlds := (line.trimAscii.toString.splitOn " || ").filterMap parseWorld
  let tbl := worlds.flatMap entriesOf
  let hs : Hashes := { H := id, HI := id }
  " || ".intercalate (runHistoryOut hs (mkAnalyze tbl) (fun _ => none) worlds)

partial def loop (h : IO.FS.Stream) : IO Unit := do
  let line ← h.getLine
  if line.isEmpty then return ()
  IO.println (step line)
  loop h

def main : IO Unit := do loop (← IO.getStdin)
