import MypyVerif.Model.Graph
import MypyVerif.Gen.Globals
/-!
Driver for C10.
  `G <items in iteration order> | <v>w <v>w …`   (edge v>w: v depends on w)
      → `sccs=<a+b,c,…> layers=<scc,scc;scc;…>`  SCCs as +-joined sorted members; layers of the condensation, deps first
  `?globals` → rows of the regenerated globals table violating the policy
-/
open Graph

def minOf (l : List Nat) : Nat := l.foldl min (l.headD 0)

def insertSorted (x : Nat) : List Nat → List Nat
  | [] => [x]
  | y :: ys => if x ≤ y then x :: y :: ys else y :: insertSorted x ys
def sortNat (l : List Nat) : List Nat := l.foldr insertSorted []

def showScc (l : List Nat) : String := "+".intercalate ((sortNat l).map toString)

def step (line : String) : String :=
  let l := line.trimAscii.toString
  if l == "?globals" then ",".intercalate (GlobalsPolicy.bad GlobalsGen.table) else
  match (l.drop 2).toString.splitOn " | " with
  | [is, es] =>
    let items := (is.splitOn " ").filterMap (·.toNat?)
    let edges := (es.splitOn " ").filterMap fun t => match t.splitOn ">" with
      | [a, b] => match a.toNat?, b.toNat? with
        | some a, some b => some (a, b)
        | _, _ => none
      | _ => none
    let edge := fun v w => edges.contains (v, w)
    let rep := fun v => minOf (sccOf edge items v)
    let reps := sortNat (items.map rep).eraseDups
    let edge' := fun a b => a != b && edges.any (fun e => rep e.1 == a && rep e.2 == b)
    let layers := topsort edge' reps (reps.length + 1) []
    let sccs := reps.map (fun r => showScc (sccOf edge items r))
    let ls := layers.map (fun ly => ",".intercalate ((sortNat ly).map (fun r => showScc (sccOf edge items r))))
    s!"sccs={",".intercalate sccs} layers={";".intercalate ls}"
  | _ => "bad-op"

partial def loop (h : IO.FS.Stream) : IO Unit := do
  let line ← h.getLine
  if line.isEmpty then return ()
  IO.println (step line)
  loop h

def main : IO Unit := do loop (← IO.getStdin)
