import MypyVerif.Model.FineGrained
import MypyVerif.Model.FsWatch
/-!
Line-protocol driver for the C03 models (model files only).

  P k=<iters> trig=<n,..> utd=<m,..> terr=<t,..> | I c=<c> deps=<k>:<loc>,<loc>;… mod=<t>:<m>:<0|1>;… look=<t>:<0|1>:<u>@<line>,…;… | … | R m=<m> fired=<n,..> | …
      replays `propagate` on tables observed on the real FineGrainedBuildManager.  The state of the replay
      is the number `c` of `reprocess_nodes` calls made so far: `I c=…` is what the build manager looked
      like after `c` calls (the part of the real `deps` map reachable from the active triggers, the results
      of `module_prefix` and `lookup_target`); the c-th `R` is what the c-th `reprocess_nodes` call returned.
      A location is `T<n>` (trigger) or `G<t>` (target); `-` is an empty list.
      → `outcome=<done|maxiter> remaining=<m,..> seq=<m>:<u,..>;… protos=<t,..>/… err=<notes>`
  U prev=<t,..> changed=<m,..> | M m=<m> trig=<n,..> | I pm=<i> c=<c> deps=… mod=… look=… | R m=<m> fired=<n,..> | E pm=<i> c=<c> targets=<t,..> | …
      replays a whole `FineGrainedBuildManager.update` call on the model's `updateG`: the i-th `M` is what the
      i-th `update_module` did up to `calculate_active_triggers` (module, active triggers); the state of the
      replay is (number of `update_module` calls, number of `reprocess_nodes` calls) and the `I`/`E` tables are
      what the build manager / `errors.targets()` looked like in that state
      → `outcome=<done|maxiter> modules=<m,..> seq=<m>:<u,..>;… prev=<t,..> err=<notes>`
  W <path events>   see Model/FsWatch.lean:  W d=<p>:<mtime>:<size>:<hash>;… f=<p>:<mtime>:<size>:<hash>;… w=<p,..>
      → `changed=<p,..> data=<p>:<mtime>:<size>:<hash>;…`
  M rule=<new|old> s=<m>:<p>;… p=<m>:<p>;… c=<p,..>     `Server._find_changed(sources, changed_paths)` with previous_sources = p;
      rule = which version of the function the checked tree has (probed by the harness on the stub-removal input)
      → `changed=<m>:<p>;… removed=<m>:<p>;…`
-/
open FineGrained

def splitNE (s : String) (sep : String) : List String :=
  (s.splitOn sep).filter (fun t => !t.isEmpty && t != "-")

def natList (s : String) : List Nat := (splitNE s ",").filterMap (·.toNat?)

def parseInt (s : String) : Int :=
  if s.startsWith "-" then -((s.drop 1).toString.toNat?.getD 0 : Nat) else ((s.toNat?.getD 0 : Nat) : Int)

def parseNode (s : String) : Option Node :=
  if s.startsWith "T" then (s.drop 1).toString.toNat?.map Node.trig
  else if s.startsWith "G" then (s.drop 1).toString.toNat?.map Node.tgt
  else none

def field (parts : List String) (key : String) : String :=
  match parts.find? (·.startsWith (key ++ "=")) with
  | some p => (p.drop (key.length + 1)).toString
  | none => ""

structure LookupE where
  target : Target
  proto : Bool
  units : List (Target × Int)

structure IterTab where
  c : Nat
  deps : Deps
  modOf : List (Target × Mod × Bool)
  look : List LookupE

structure ReprocE where
  m : Mod
  fired : List Name

structure Replay where
  c : Nat := 0
  log : List (Mod × List Target) := []
  protos : List (List Target) := []
  err : List String := []

structure Tables where
  iters : List IterTab
  reproc : List ReprocE

def Tables.at (T : Tables) (c : Nat) : Option IterTab := T.iters.find? (·.c == c)

def replaySys (T : Tables) : Sys Replay where
  deps s := match T.at s.c with | some t => t.deps | none => []
  modOf s t := match T.at s.c with
    | some tab => (tab.modOf.find? (·.1 == t)).map (·.2.1)
    | none => none
  loaded s m := match T.at s.c with
    | some tab => (tab.modOf.any (fun e => e.2.1 == m && e.2.2))
    | none => false
  lookup s t := match T.at s.c with
    | some tab => match tab.look.find? (·.target == t) with
      | some e => e.units.map (·.1)
      | none => []
    | none => []
  isProto s t := match T.at s.c with
    | some tab => match tab.look.find? (·.target == t) with
      | some e => e.proto
      | none => false
    | none => false
  line s u := match T.at s.c with
    | some tab => ((tab.look.flatMap (·.units)).find? (·.1 == u)).map (·.2) |>.getD 0
    | none => 0
  invalidate s ps := { s with protos := s.protos ++ [ps] }
  reprocess s m us :=
    match T.reproc[s.c]? with
    | some e =>
      let err := if e.m == m then s.err else s.err ++ [s!"reprocess#{s.c}:model-module={m},real-module={e.m}"]
      ({ s with c := s.c + 1, log := s.log ++ [(m, us)], err := err }, e.fired)
    | none => ({ s with c := s.c + 1, log := s.log ++ [(m, us)], err := s.err ++ [s!"reprocess#{s.c}:not-in-real-trace"] }, [])

def parseIter (parts : List String) : IterTab :=
  let deps : Deps := (splitNE (field parts "deps") ";").filterMap fun e =>
    match e.splitOn ":" with
    | [k, vs] => k.toNat?.map fun k => (k, (splitNE vs ",").filterMap parseNode)
    | _ => none
  let modOf := (splitNE (field parts "mod") ";").filterMap fun e =>
    match e.splitOn ":" with
    | [t, m, l] => match t.toNat?, m.toNat? with
      | some t, some m => some (t, m, l == "1")
      | _, _ => none
    | _ => none
  let look := (splitNE (field parts "look") ";").filterMap fun e =>
    match e.splitOn ":" with
    | [t, p, us] => t.toNat?.map fun t =>
      { target := t, proto := p == "1",
        units := (splitNE us ",").filterMap fun u => match u.splitOn "@" with
          | [n, l] => n.toNat?.map fun n => (n, parseInt l)
          | _ => none : LookupE }
    | _ => none
  { c := (field parts "c").toNat?.getD 0, deps := deps, modOf := modOf, look := look }

def showNats (l : List Nat) : String := if l.isEmpty then "-" else ",".intercalate (l.map toString)

def runP (line : String) : String :=
  let secs := (line.splitOn " | ").map fun s => (s.trimAscii.toString.splitOn " ").filter (!·.isEmpty)
  match secs with
  | [] => "bad-op"
  | hd :: rest =>
    let iters := (rest.filter (·.head? == some "I")).map parseIter
    let reproc := (rest.filter (·.head? == some "R")).map fun p =>
      ({ m := (field p "m").toNat?.getD 0, fired := natList (field p "fired") } : ReprocE)
    let T : Tables := { iters := iters, reproc := reproc }
    let k := (field hd "k").toNat?.getD MAX_ITER
    let out := propagate (replaySys T) k {} (natList (field hd "trig")) (natList (field hd "utd")) (natList (field hd "terr")) []
    let (tag, s, rem) := match out with
      | .done s rem => ("done", s, rem)
      | .maxIter s => ("maxiter", s, [])
    let seq := ";".intercalate (s.log.map fun e => s!"{e.1}:{showNats e.2}")
    let protos := "/".intercalate (s.protos.map showNats)
    let unused := if s.c < reproc.length then [s!"real-trace-has-{reproc.length}-reprocess-calls,model-made-{s.c}"] else []
    let err := s.err ++ unused
    s!"outcome={tag} remaining={showNats rem} seq={if seq.isEmpty then "-" else seq} protos={if protos.isEmpty then "-" else protos} err={if err.isEmpty then "-" else " ".intercalate err}"

def parseData (s : String) : List (Nat × Nat × Nat × Nat) :=
  (splitNE s ";").filterMap fun e =>
    match (e.splitOn ":").map (·.toNat?) with
    | [some p, some a, some b, some c] => some (p, a, b, c)
    | _ => none

def runW (line : String) : String :=
  let parts := (line.splitOn " ").filter (!·.isEmpty)
  let data := (parseData (field parts "d")).map fun (p, a, b, c) => (p, ({ mtime := a, size := b, hash := c } : FsWatch.FileData))
  let fs := (parseData (field parts "f")).map fun (p, a, b, c) => (p, ({ mtime := a, size := b, content := c } : FsWatch.File))
  let watched := natList (field parts "w")
  let r := FsWatch.findChanged (fun c => c) watched (fun p => (fs.find? (·.1 == p)).map (·.2))
    (fun p => (data.find? (·.1 == p)).map (·.2))
  let ds := ";".intercalate (watched.filterMap fun p => (r.2 p).map fun d => s!"{p}:{d.mtime}:{d.size}:{d.hash}")
  s!"changed={showNats r.1} data={if ds.isEmpty then "-" else ds}"

/-! replay of a whole `FineGrainedBuildManager.update` call -/
structure UReplay where
  pm : Nat := 0
  c : Nat := 0
  log : List (Mod × List Target) := []
  pmLog : List Mod := []
  err : List String := []

structure UIter where
  pm : Nat
  tab : IterTab

structure UTables where
  iters : List UIter
  reproc : List ReprocE
  pms : List (Mod × List Name)                 -- i-th update_module: module, active triggers
  errs : List (Nat × Nat × List Target)        -- (pm, c) ↦ errors.targets()

def UTables.tabs (T : UTables) (s : UReplay) : List IterTab :=
  (T.iters.filter (fun e => e.pm == s.pm && e.tab.c == s.c)).map (·.tab)

def ureplaySys (T : UTables) : USys UReplay where
  deps s := (T.tabs s).flatMap (·.deps)
  modOf s t := (((T.tabs s).flatMap (·.modOf)).find? (·.1 == t)).map (·.2.1)
  loaded s m := ((T.tabs s).flatMap (·.modOf)).any (fun e => e.2.1 == m && e.2.2)
  lookup s t := match ((T.tabs s).flatMap (·.look)).find? (·.target == t) with
    | some e => e.units.map (·.1)
    | none => []
  isProto s t := match ((T.tabs s).flatMap (·.look)).find? (·.target == t) with
    | some e => e.proto
    | none => false
  line s u := ((((T.tabs s).flatMap (·.look)).flatMap (·.units)).find? (·.1 == u)).map (·.2) |>.getD 0
  invalidate s _ := s
  reprocess s m us :=
    match T.reproc[s.c]? with
    | some e =>
      let err := if e.m == m then s.err else s.err ++ [s!"reprocess#{s.c}:model-module={m},real-module={e.m}"]
      ({ s with c := s.c + 1, log := s.log ++ [(m, us)], err := err }, e.fired)
    | none => ({ s with c := s.c + 1, log := s.log ++ [(m, us)], err := s.err ++ [s!"reprocess#{s.c}:not-in-real-trace"] }, [])
  processModule s m :=
    match T.pms[s.pm]? with
    | some e =>
      let err := if e.1 == m then s.err else s.err ++ [s!"update_module#{s.pm}:model-module={m},real-module={e.1}"]
      ({ s with pm := s.pm + 1, pmLog := s.pmLog ++ [m], err := err }, e.2)
    | none => ({ s with pm := s.pm + 1, pmLog := s.pmLog ++ [m], err := s.err ++ [s!"update_module#{s.pm}:not-in-real-trace"] }, [])
  errTargets s := match T.errs.find? (fun e => e.1 == s.pm && e.2.1 == s.c) with
    | some e => e.2.2
    | none => []

def runU (line : String) : String :=
  let secs := (line.splitOn " | ").map fun s => (s.trimAscii.toString.splitOn " ").filter (!·.isEmpty)
  match secs with
  | [] => "bad-op"
  | hd :: rest =>
    let iters := (rest.filter (·.head? == some "I")).map fun p => ({ pm := (field p "pm").toNat?.getD 0, tab := parseIter p } : UIter)
    let reproc := (rest.filter (·.head? == some "R")).map fun p =>
      ({ m := (field p "m").toNat?.getD 0, fired := natList (field p "fired") } : ReprocE)
    let pms := (rest.filter (·.head? == some "M")).map fun p => ((field p "m").toNat?.getD 0, natList (field p "trig"))
    let errs := (rest.filter (·.head? == some "E")).map fun p =>
      ((field p "pm").toNat?.getD 0, (field p "c").toNat?.getD 0, natList (field p "targets"))
    let T : UTables := { iters := iters, reproc := reproc, pms := pms, errs := errs }
    let out := updateG (ureplaySys T) { st := {}, prevErr := natList (field hd "prev") } (natList (field hd "changed"))
    match out with
    | none => "outcome=maxiter"
    | some u =>
      let s := u.st
      let seq := ";".intercalate (s.log.map fun e => s!"{e.1}:{showNats e.2}")
      let unused := (if s.c < reproc.length then [s!"real-trace-has-{reproc.length}-reprocess-calls,model-made-{s.c}"] else []) ++
                    (if s.pm < pms.length then [s!"real-trace-has-{pms.length}-update_module-calls,model-made-{s.pm}"] else [])
      let err := s.err ++ unused
      s!"outcome=done modules={showNats s.pmLog} seq={if seq.isEmpty then "-" else seq} prev={showNats (sortNat (dedup u.prevErr))} err={if err.isEmpty then "-" else " ".intercalate err}"

def parsePairs (s : String) : List (Nat × Nat) :=
  (splitNE s ";").filterMap fun e =>
    match (e.splitOn ":").map (·.toNat?) with
    | [some m, some p] => some (m, p)
    | _ => none

def showPairs (l : List (Nat × Nat)) : String :=
  if l.isEmpty then "-" else ";".intercalate (l.map fun (m, p) => s!"{m}:{p}")

def runM (line : String) : String :=
  let parts := (line.splitOn " ").filter (!·.isEmpty)
  let r := FsWatch.changedModules (field parts "rule" != "old") (parsePairs (field parts "s")) (parsePairs (field parts "p")) (natList (field parts "c"))
  s!"changed={showPairs r.1} removed={showPairs r.2}"

def step (line : String) : String :=
  let line := line.trimAscii.toString
  if line.startsWith "P " then runP line
  else if line.startsWith "W " then runW line
  else if line.startsWith "M " then runM line
  else if line.startsWith "U " then runU line
  else "bad-op"

partial def loop (h : IO.FS.Stream) : IO Unit := do
  let line ← h.getLine
  if line.isEmpty then return ()
  IO.println (step line)
  loop h

def main : IO Unit := do loop (← IO.getStdin)
