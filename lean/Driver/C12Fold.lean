import MypyVerif.Model.Fold
/-!
Line-protocol driver for the constant-folding models (model file only).

  B <ext 0|1> <op> <val> <val>    foldBin ext op l r   and  pyBin op l r
  G <ext 0|1> <op> <val> <val>    like B, plus `below=<0|1>` = belowGuard ext op l r (no size guard fires)
  U <ext 0|1> <uop> <val>         foldUn ext op v      and  pyUnary op v
  E <ext 0|1> <prefix expression> foldExpr ext e       and  pyEval e
      → `fold=<res|none> py=<res|raise:<Exc>|notmodelled>`

  val tokens: i<int>  b<0|1>  s<cp,cp,…>  y<byte,byte,…>
  expression tokens: a val token (literal), T / F (the names True / False), R<0|1> <val> (reference to a
  Final; 1 = defined in the current module), a binary operator token followed by two expressions,
  u- u~ u+ followed by one expression.
  res: i<int> b<0|1> s<…> y<…> quot:<a>/<b> (CPython's float a / b of these two ints) float
-/
open Fold

def parseSeq (s : String) : List Nat :=
  (s.splitOn ",").filterMap fun t => if t.isEmpty then none else t.toNat?

def parseVal (t : String) : Option Val :=
  let body := (t.drop 1).toString
  if t.startsWith "i" then body.toInt?.map Val.int
  else if t.startsWith "b" then some (Val.bool (body == "1"))
  else if t.startsWith "s" then some (Val.str (parseSeq body))
  else if t.startsWith "y" then some (Val.bytes (parseSeq body))
  else none

def parseOp (t : String) : Option Op :=
  match t with
  | "+" => some .add | "-" => some .sub | "*" => some .mul | "/" => some .truediv
  | "//" => some .floordiv | "%" => some .mod | "&" => some .band | "|" => some .bor
  | "^" => some .bxor | "<<" => some .lshift | ">>" => some .rshift | "**" => some .pow
  | "@" => some .matmul | _ => none

def parseUOp (t : String) : Option UOp :=
  match t with
  | "u-" | "-" => some .neg | "u~" | "~" => some .inv | "u+" | "+" => some .pos | _ => none

partial def parseExpr : List String → Option (Expr × List String)
  | [] => none
  | t :: rest =>
    if t == "T" then some (.boolName true, rest)
    else if t == "F" then some (.boolName false, rest)
    else if t == "R0" || t == "R1" then
      match rest with
      | v :: rest' => (parseVal v).map fun x => (.ref (t == "R1") x, rest')
      | [] => none
    else if t == "u-" || t == "u~" || t == "u+" then
      match parseUOp t, parseExpr rest with
      | some op, some (e, rest') => some (.un op e, rest')
      | _, _ => none
    else match parseOp t with
      | some op =>
        match parseExpr rest with
        | some (l, r1) =>
          match parseExpr r1 with
          | some (r, r2) => some (.bin op l r, r2)
          | none => none
        | none => none
      | none => (parseVal t).map fun x => (.lit x, rest)

def showSeq (s : List Nat) : String := ",".intercalate (s.map toString)

def showVal : Val → String
  | .int i => s!"i{i}"
  | .bool b => if b then "b1" else "b0"
  | .str s => "s" ++ showSeq s
  | .bytes s => "y" ++ showSeq s

def showRes : Res → String
  | .val v => showVal v
  | .quot a b => s!"quot:{a}/{b}"
  | .float => "float"

def showFold : Option Res → String
  | none => "none"
  | some r => showRes r

def showPy : PyRes → String
  | .ok r => showRes r
  | .raises .zeroDivision => "raise:ZeroDivisionError"
  | .raises .valueError => "raise:ValueError"
  | .raises .typeError => "raise:TypeError"
  | .raises .overflowError => "raise:OverflowError"
  | .notModelled => "notmodelled"

def step (line : String) : String :=
  let toks := (line.trimAscii.toString.splitOn " ").filter (· ≠ "")
  match toks with
  | "B" :: ext :: op :: a :: b :: [] =>
    match parseOp op, parseVal a, parseVal b with
    | some op, some a, some b => s!"fold={showFold (foldBin (ext == "1") op a b)} py={showPy (pyBin op a b)}"
    | _, _, _ => "bad-op"
  | "G" :: ext :: op :: a :: b :: [] =>
    match parseOp op, parseVal a, parseVal b with
    | some op, some a, some b =>
      s!"fold={showFold (foldBin (ext == "1") op a b)} py={showPy (pyBin op a b)} below={if belowGuard (ext == "1") op a b then "1" else "0"}"
    | _, _, _ => "bad-op"
  | "U" :: ext :: op :: a :: [] =>
    match parseUOp op, parseVal a with
    | some op, some a => s!"fold={showFold (foldUn (ext == "1") op a)} py={showPy (pyUnary op a)}"
    | _, _ => "bad-op"
  | "E" :: ext :: rest =>
    match parseExpr rest with
    | some (e, []) => s!"fold={showFold (foldExpr (ext == "1") e)} py={showPy (pyEval e)}"
    | _ => "bad-op"
  | _ => "bad-op"

partial def loop (h : IO.FS.Stream) : IO Unit := do
  let line ← h.getLine
  if line.isEmpty then return ()
  IO.println (step line)
  loop h

def main : IO Unit := do loop (← IO.getStdin)
