import MypyVerif.Model.StubSig
import MypyVerif.Model.StubImports
import MypyVerif.Gen.StubCfg
import MypyVerif.Model.StubRet
/-!
Line-protocol driver for the C19 models (model files only).

  S <magic 0|1> TAB <lens> TAB <param>;<param>;…      param = kind,name,ann,dflt   (fields separated by \x1f)
        kind ∈ po pp va kw ka; ann = `-` or the printed annotation; dflt = `-` or an encoded DExpr;
        lens = comma-separated repr lengths of the string literals S0, S1, …
      → `(<text of the parameter list>)` TAB `<parse>`       parse = `SyntaxError` | name:kind:d,…
  P <item> <item> …        items: `/` `*` `p:name:0|1` `v:name` `k:name`   → `<parse>`
  D <lens> TAB <dexpr>     → `<text>` TAB `<lexemes>` TAB `<inferred type | ->`
  I <op>;<op>;…            ops: `F module req name[:alias] …` | `M dotted alias|- req` | `R dotted` | `X dotted`
                                | `A module name req defined,defined,…`
      → `lines=<l>|<l>…` TAB `required=<n>,<n>…` TAB `refs=<r>,…`
  T name TAB annotated TAB retAnn|- TAB <7 flags>   → the emitted return type, or `-`

DExpr encoding (prefix, space separated): N T Fa | Nm <text> | I <n> | Fl <text> <0|1> | C | CS | S <id> |
  B <hex> | U <neg|pos|inv|not> <e> | Tu <n> <e>* | Li <n> <e>* | Se <n> <e>* | Di <n> (K <e> <e> | Sp <e>)* | O
String literal i is printed as ⟦i⟧ (the harness substitutes repr(value)).
-/
open StubDefault StubSig StubImports

/-- the rules of the tree under check (translate/c19cfg.py) -/
def cur : DCfg := ⟨StubCfg.notSpaced, StubCfg.nonFiniteEllipsis, StubCfg.bytesQuote⟩

def hexVal (c : Char) : Nat :=
  if c.isDigit then c.toNat - '0'.toNat else if 'a' ≤ c && c ≤ 'f' then c.toNat - 'a'.toNat + 10 else 0

def unhex : List Char → List Char
  | a :: b :: r => Char.ofNat (hexVal a * 16 + hexVal b) :: unhex r
  | _ => []

def hexDigit (n : Nat) : Char := if n < 10 then Char.ofNat (48 + n) else Char.ofNat (87 + n)
def tohex (l : List Char) : String := String.ofList (l.flatMap fun c => [hexDigit (c.toNat / 16), hexDigit (c.toNat % 16)])

partial def parseD : List String → Option (DExpr × List String)
  | "N" :: r => some (.const .none, r)
  | "T" :: r => some (.const .true, r)
  | "Fa" :: r => some (.const .false, r)
  | "Nm" :: t :: r => some (.name t, r)
  | "I" :: n :: r => n.toNat?.map fun n => (.int n, r)
  | "Fl" :: t :: f :: r => some (.float t (f == "1"), r)
  | "C" :: r => some (.complex, r)
  | "CS" :: r => some (.complexSum, r)
  | "S" :: i :: r => i.toNat?.map fun i => (.str i, r)
  | "B" :: h :: r => some (.bytes (unhex (if h == "-" then [] else h.toList)), r)
  | "U" :: o :: r =>
    let op := match o with | "neg" => UOp.neg | "pos" => .pos | "inv" => .inv | _ => .not
    (parseD r).map fun (e, r') => (.unary op e, r')
  | "Tu" :: n :: r => n.toNat?.bind fun n => (parseL n r).map fun (xs, r') => (.tuple xs, r')
  | "Li" :: n :: r => n.toNat?.bind fun n => (parseL n r).map fun (xs, r') => (.list xs, r')
  | "Se" :: n :: r => n.toNat?.bind fun n => (parseL n r).map fun (xs, r') => (.set xs, r')
  | "Di" :: n :: r => n.toNat?.bind fun n => (parseP n r).map fun (xs, r') => (.dict xs, r')
  | "O" :: r => some (.other, r)
  | _ => none
where
  parseL : Nat → List String → Option (DList × List String)
    | 0, r => some (.nil, r)
    | n + 1, r => (parseD r).bind fun (x, r') => (parseL n r').map fun (xs, r'') => (.cons x xs, r'')
  parseP : Nat → List String → Option (DPairs × List String)
    | 0, r => some (.nil, r)
    | n + 1, "K" :: r =>
      (parseD r).bind fun (k, r1) => (parseD r1).bind fun (v, r2) => (parseP n r2).map fun (xs, r3) => (.cons k v xs, r3)
    | n + 1, "Sp" :: r => (parseD r).bind fun (v, r1) => (parseP n r1).map fun (xs, r2) => (.spread v xs, r2)
    | _, _ => none

def words (s : String) : List String := (s.splitOn " ").filter (· ≠ "")

def parseDExpr (s : String) : Option DExpr := (parseD (words s)).map (·.1)

def lensFn (s : String) : Nat → Nat :=
  let l := (s.splitOn ",").filterMap String.toNat?
  fun i => l.getD i 0

def tokText : DTok → String
  | .str i => "⟦" ++ toString i ++ "⟧"
  | t => t.text

def toksText (ts : List DTok) : String := String.join (ts.map tokText)

def tokCanon : DTok → String
  | .kw .none => "kw:None" | .kw .true => "kw:True" | .kw .false => "kw:False"
  | .num t => "num:" ++ t | .name t => "name:" ++ t | .raw t => "raw:" ++ t
  | .str i => "str:" ++ toString i | .bytes t => "bytes:" ++ tohex t
  | .op o => "op:" ++ o.text
  | .lpar => "(" | .rpar => ")" | .lbrk => "[" | .rbrk => "]" | .lbrc => "{" | .rbrc => "}"
  | .comma => "," | .tcomma => "," | .colon => ":" | .ellipsis => "..."

def nameStr (n : List Char) : String := String.ofList n

/-- FunctionSig.format_sig, per argument -/
def itemText : Item → String
  | .slash => "/"
  | .bareStar => "*"
  | .param n ann d =>
    match ann, d with
    | some t, some d => nameStr n ++ ": " ++ t ++ " = " ++ toksText d
    | some t, none => nameStr n ++ ": " ++ t
    | none, some d => nameStr n ++ "=" ++ toksText d
    | none, none => nameStr n
  | .vararg n ann => "*" ++ nameStr n ++ (match ann with | some t => ": " ++ t | none => "")
  | .kwarg n ann => "**" ++ nameStr n ++ (match ann with | some t => ": " ++ t | none => "")

def kindStr : PKind → String
  | .posOnly => "posonly" | .pos => "pos" | .varArg => "star" | .kwOnly => "kwonly" | .kwArg => "star2"

def showParse : Option (List Summ) → String
  | none => "SyntaxError"
  | some l => ",".intercalate (l.map fun (n, k, d) => nameStr n ++ ":" ++ kindStr k ++ ":" ++ (if d then "1" else "0"))

structure RawP where
  kind : String
  p : PParam

def parseParam (s : String) : Option RawP :=
  match s.splitOn "\x1f" with
  | [k, n, a, d] =>
    let ann := if a == "-" then none else some a
    if d == "-" then some ⟨k, ⟨n.toList, ann, none⟩⟩
    else (parseDExpr d).map fun e => ⟨k, ⟨n.toList, ann, some e⟩⟩
  | _ => none

def buildSig (ps : List RawP) : PySig :=
  let sel := fun k => (ps.filter (·.kind == k)).map (·.p)
  let v := fun k => ((ps.filter (·.kind == k)).head?).map fun r => (⟨r.p.name, r.p.ann⟩ : VParam)
  { po := sel "po", pp := sel "pp", va := v "va", kw := sel "kw", ka := v "ka" }

def doS (magic lens params : String) : String :=
  let raw := if params.trimAscii.toString.isEmpty then some [] else (params.splitOn ";").mapM parseParam
  match raw with
  | none => "bad-op"
  | some ps =>
    let s := buildSig ps
    let items := emitArgs cur (lensFn lens) StubCfg.slashContiguous (magic == "1") s.toMypy
    "(" ++ ", ".intercalate (items.map itemText) ++ ")\t" ++ showParse (parseItems items)

def parseItem (s : String) : Option Item :=
  if s == "/" then some .slash
  else if s == "*" then some .bareStar
  else match s.splitOn ":" with
    | ["p", n, d] => some (.param n.toList none (if d == "1" then some [] else none))
    | ["v", n] => some (.vararg n.toList none)
    | ["k", n] => some (.kwarg n.toList none)
    | _ => none

def doP (rest : String) : String :=
  match (words rest).mapM parseItem with
  | none => "bad-op"
  | some items => showParse (parseItems items)

def doD (lens e : String) : String :=
  match parseDExpr e with
  | none => "bad-op"
  | some e =>
    let ts := defaultToks cur (lensFn lens) e
    toksText ts ++ "\t" ++ " ".intercalate (ts.map tokCanon) ++ "\t" ++ (inferType e).getD "-"

def dotted (s : String) : DName := (s.splitOn ".").map String.toList
def showDotted (n : DName) : String := ".".intercalate (n.map nameStr)

def lineText : Line → String
  | .fromImport m o none => "from " ++ nameStr m ++ " import " ++ showDotted o
  | .fromImport m o (some a) => "from " ++ nameStr m ++ " import " ++ showDotted o ++ " as " ++ showDotted a
  | .importMod m none => "import " ++ showDotted m
  | .importMod m (some a) => "import " ++ showDotted m ++ " as " ++ showDotted a

def parseNA (s : String) : StubImports.Ident × Option StubImports.Ident :=
  match s.splitOn ":" with
  | [n, a] => (n.toList, some a.toList)
  | _ => (s.toList, none)

def doI (rest : String) : String :=
  let go := fun (acc : Tracker × List String) (op : String) =>
    let (t, refs) := acc
    match words op with
    | "F" :: m :: req :: names => (t.addImportFrom m.toList (names.map parseNA) (req == "1"), refs)
    | ["M", m, a, req] => (t.addImport (dotted m) (if a == "-" then none else some a.toList) (req == "1"), refs)
    | ["R", n] => (t.requireName (dotted n), refs)
    | ["X", n] => (t.reexport (dotted n), refs)
    | ["A", m, n, req, defs] =>
      let defined := if defs == "-" then [] else (defs.splitOn ",").map String.toList
      let (t', r) := addName defined t m.toList n.toList (req == "1")
      (t', refs ++ [nameStr r])
    | _ => (t, refs ++ ["bad-op"])
  let (t, refs) := (rest.splitOn ";").foldl go (({} : Tracker), [])
  "lines=" ++ "|".intercalate (t.importLines.map lineText) ++ "\trequired=" ++
    ",".intercalate (t.required.map showDotted) ++ "\trefs=" ++ ",".intercalate refs

/-- `T name TAB annotated TAB retAnn|- TAB abstract implicitlyAbstract yieldFrom yields yieldsValue yieldAssigned returnsValue` (0/1 each) -/
def doT (rest : String) : String :=
  match rest.splitOn "\t" with
  | [name, ann, ret, flags] =>
    let b := (words flags).map (· == "1")
    let g := fun i => b.getD i false
    let f : StubRet.FuncInfo :=
      { name := name, annotated := ann == "1", retAnn := if ret == "-" then none else some ret,
        abstract := g 0, implicitlyAbstract := g 1, yieldFrom := g 2, yields := g 3, yieldsValue := g 4,
        yieldAssigned := g 5, returnsValue := g 6 }
    (StubRet.getFuncReturn f).getD "-"
  | _ => "bad-op"

def step (line : String) : String :=
  let line := (line.dropEndWhile (· == '\n')).toString
  if line.startsWith "S " then
    match (line.drop 2).toString.splitOn "\t" with
    | [magic, lens, params] => doS magic lens params
    | _ => "bad-op"
  else if line.startsWith "P " || line == "P" then doP (line.drop 1).toString
  else if line.startsWith "D " then
    match (line.drop 2).toString.splitOn "\t" with
    | [lens, e] => doD lens e
    | _ => "bad-op"
  else if line.startsWith "I " then doI (line.drop 2).toString
  else if line.startsWith "T " then doT (line.drop 2).toString
  else "bad-op"

partial def loop (h : IO.FS.Stream) : IO Unit := do
  let line ← h.getLine
  if line.isEmpty then return ()
  IO.println (step line)
  loop h

def main : IO Unit := do loop (← IO.getStdin)
