import MypyVerif.Gen.OptReads
/-! Driver for C09: `<name>,<name>,…` (options whose value differs between two runs) → prediction
    all / none-required; `?bad` → rows violating the policy. -/
open OptPolicy
def step (line : String) : String :=
  let l := line.trimAscii.toString
  if l == "?bad" then ",".intercalate (badRows OptGen.table) else predict OptGen.table ((l.splitOn ",").filter (· ≠ ""))
partial def loop (h : IO.FS.Stream) : IO Unit := do
  let line ← h.getLine
  if line.isEmpty then return ()
  IO.println (step line)
  loop h
def main : IO Unit := do loop (← IO.getStdin)
