import MypyVerif.Model.Reach
/-!
Line-protocol driver for the reachability model (model file only).

  <platform> <always_true,…|-> <always_false,…|-> fix=<0|1> | <cond> | <entry> ; <entry> ; …
      fix    = which consider_sys_version_info is modelled (1: with the open-ended-slice rule of proposed_fix_F4)
      entry  = <target> ~ <name>=<1|0|x> … ~ <name>=<1|0|x> … ~ <k>=<1|0|x> … ~ <k>=<1|0|x> …
               (measured truth of the names at run time / with TYPE_CHECKING = MYPY = True, then of the opaque
                leaves at run time / with TYPE_CHECKING = MYPY = True; x = evaluating it raises)
      target = <major>.<minor>.<micro>.<releaselevel>.<serial>
      cond   = cmp <operand> <op> <operand> | call <operand> <meth> <operand> | callkw … | name <ident> | opq <k>
             | not <cond> | and <cond> <cond> | or <cond> <cond>            (prefix notation)
      operand = vi | idx <lit> | sl <lit|_> <lit|_> <n|_> | plat | lit <lit> | tup <n> <lit>×n | str <s|%>
      lit    = i<n> (IntExpr n) | n<n> (unary minus applied to IntExpr n);   op = eq ne lt le gt ge
      → per target `<AT|MT|AF|MF|U>/<run-time 1|0|raise>/<mypy-time 1|0|raise>` joined by `;`
-/
open Reach

abbrev P := StateT (List String) Option

def tok : P String := do
  match (← get) with
  | [] => failure
  | t :: ts => set ts; pure t

def pLit : P Lit := do
  let t ← tok
  let n ← (t.drop 1).toString.toNat?
  if t.startsWith "i" then pure (.int n) else if t.startsWith "n" then pure (.neg n) else failure

def pOptLit : P (Option Lit) := do
  match (← get) with
  | "_" :: ts => set ts; pure none
  | _ => some <$> pLit

def pOptNat : P (Option Nat) := do
  let t ← tok
  if t == "_" then pure none else some <$> (t.toNat? : Option Nat)

def pLits : Nat → P (List Lit)
  | 0 => pure []
  | n + 1 => do let x ← pLit; let xs ← pLits n; pure (x :: xs)

def pOperand : P Operand := do
  match (← tok) with
  | "vi" => pure .versionInfo
  | "idx" => .index <$> pLit
  | "sl" => do let lo ← pOptLit; let hi ← pOptLit; let st ← pOptNat; pure (.slice lo hi st)
  | "plat" => pure .platform
  | "lit" => .lit <$> pLit
  | "tup" => do let n ← (← tok).toNat?; .tuple <$> pLits n
  | "str" => do let s ← tok; pure (.str (if s == "%" then "" else s))
  | _ => failure

def pOp : P Op := do
  match (← tok) with
  | "eq" => pure .eq | "ne" => pure .ne | "lt" => pure .lt | "le" => pure .le | "gt" => pure .gt | "ge" => pure .ge
  | _ => failure

partial def pCond : P Cond := do
  match (← tok) with
  | "cmp" => do let l ← pOperand; let o ← pOp; let r ← pOperand; pure (.cmp l o r)
  | "call" => do let r ← pOperand; let m ← tok; let a ← pOperand; pure (.call r m a)
  | "callkw" => do let r ← pOperand; let m ← tok; let a ← pOperand; pure (.callKw r m a)
  | "name" => .name <$> tok
  | "opq" => do let k ← (← tok).toNat?; pure (.opaque k)
  | "not" => .not <$> pCond
  | "and" => do let a ← pCond; let b ← pCond; pure (.and a b)
  | "or" => do let a ← pCond; let b ← pCond; pure (.or a b)
  | _ => failure

def words (s : String) : List String := (s.splitOn " ").filter (· ≠ "")

def parseBoolMap (s : String) : List (String × Option Bool) :=
  (words s).filterMap fun t =>
    match t.splitOn "=" with
    | [k, "1"] => some (k, some true)
    | [k, "0"] => some (k, some false)
    | [k, _] => some (k, none)
    | _ => none

def csv (s : String) : List String := if s == "-" then [] else s.splitOn ","

def showTV : TV → String
  | .alwaysTrue => "AT" | .mypyTrue => "MT" | .alwaysFalse => "AF" | .mypyFalse => "MF" | .unknown => "U"

def showRt : Option Bool → String
  | some true => "1" | some false => "0" | none => "raise"

def step (line : String) : String :=
  match line.splitOn "|" with
  | [opts, cond, entries] =>
    match words opts, (pCond.run (words cond)) with
    | [plat, atr, afa, fix], some (c, []) =>
      let res := (entries.splitOn ";").map fun e =>
        match e.splitOn "~" with
        | [t, names, namesMt, opqRt, opqMt] =>
          match t.trimAscii.toString.splitOn "." with
          | [ma, mi, mc, lv, se] =>
            match ma.toNat?, mi.toNat?, mc.toNat?, se.toNat? with
            | some ma, some mi, some mc, some se =>
              let nm := parseBoolMap names
              let oq := parseBoolMap opqRt
              let oq2 := parseBoolMap opqMt
              let o : Options := { major := ma, minor := mi, platform := if plat == "%" then "" else plat,
                                   alwaysTrue := csv atr, alwaysFalse := csv afa, openSliceFix := fix == "fix=1" }
              let env : Env := { versionInfo := [.int ma, .int mi, .int mc, .str lv, .int se], platform := o.platform,
                                 names := fun n => (nm.lookup n).join, opq := fun k => (oq.lookup (toString k)).join }
              let nm2 := parseBoolMap namesMt
              let env2 : Env := { env with names := fun n => (nm2.lookup n).join, opq := fun k => (oq2.lookup (toString k)).join }
              s!"{showTV (infer o c)}/{showRt (eval env c)}/{showRt (eval env2 c)}"
            | _, _, _, _ => "bad-target"
          | _ => "bad-target"
        | _ => "bad-entry"
      ";".intercalate res
    | _, _ => "bad-cond"
  | _ => "bad-line"

partial def loop (h : IO.FS.Stream) : IO Unit := do
  let line ← h.getLine
  if line.isEmpty then return ()
  IO.println (step line.trimAscii.toString)
  loop h

def main : IO Unit := do loop (← IO.getStdin)
