import MypyVerif.Model.LangTc
/-!
Line-protocol driver for the C01 model (model files only).  One program per line, as emitted by
`harness/c01/lang.py:to_lean`:

  prog <nc> {class <k> bases… <k> mro… <k> {f T}… <k> T… <k> {f E}… <k> {m FN}…} <nf> FN…
  calls <fuel> <k> {<f> <k> E…}…

  T  ::= T<k> atom…          atom ::= i | s | b | n | o | c<id>
  E  ::= I n | S k c… | B 0|1 | N | V x | A E f | M E m k E… | F f k E… | C c k E… | Q x c | Z x neg
       | ! E | & E E | "|" E E | = E E | + E E | - E E | < E E | P k E
  ST ::= pass | D x E | X x E | Y x E | W E f E | E E | R E | IF E ST ST | WH E ST | SQ ST ST | BR | CT | RS k | TR ST k kinds… ST ST ST 0|1
  FN ::= fn <k> T… <k> T… T ST

Output, one line:  `wf=<0|1> tc=<ok|type k|unsupported k|hole k|stuck k|fuel> tm=<k>:<atoms>;… || <call>;;<call>…`
with `<call>` = `<ok VAL|typeError|attrError|unbound|stuck|timeout|badargs> @ <k>=VAL,…` (the probe log),
VAL = i<n> | s<c.c.c> | b<0|1> | n | r<class id>.   `tc` = `Lang.tc`, calls = `Lang.evalCall` from a heap built by
evaluating the (closed) argument expressions.
-/
open Lang

abbrev Toks := List String
abbrev Parser (α : Type) := Toks → Option (α × Toks)

def pNat : Parser Nat
  | t :: r => t.toNat?.map (·, r)
  | [] => none

def pInt : Parser Int
  | t :: r => t.toInt?.map (·, r)
  | [] => none

def pMany {α : Type} (p : Parser α) : Nat → Parser (List α)
  | 0, ts => some ([], ts)
  | n+1, ts => do
    let (a, ts) ← p ts
    let (r, ts) ← pMany p n ts
    pure (a :: r, ts)

def pCounted {α : Type} (p : Parser α) : Parser (List α) := fun ts => do
  let (k, ts) ← pNat ts
  pMany p k ts

def pAtom : Parser Atom
  | "i" :: r => some (.int, r) | "s" :: r => some (.str, r) | "b" :: r => some (.bool, r)
  | "n" :: r => some (.none, r) | "o" :: r => some (.object, r)
  | t :: r => if t.startsWith "c" then (t.drop 1).toString.toNat?.map (fun k => (.cls k, r)) else none
  | [] => none

def pTy : Parser Ty
  | t :: r => if t.startsWith "T" then (t.drop 1).toString.toNat?.bind (fun k => pMany pAtom k r) else none
  | [] => none

partial def pExpr : Parser Expr
  | "I" :: r => do let (n, r) ← pInt r; pure (.intLit n, r)
  | "S" :: r => do let (cs, r) ← pCounted pNat r; pure (.strLit cs, r)
  | "B" :: r => do let (b, r) ← pNat r; pure (.boolLit (b != 0), r)
  | "N" :: r => some (.noneLit, r)
  | "V" :: r => do let (x, r) ← pNat r; pure (.var x, r)
  | "A" :: r => do let (e, r) ← pExpr r; let (f, r) ← pNat r; pure (.attr e f, r)
  | "M" :: r => do
    let (e, r) ← pExpr r; let (m, r) ← pNat r; let (as, r) ← pCounted pExpr r; pure (.callM e m as, r)
  | "F" :: r => do let (f, r) ← pNat r; let (as, r) ← pCounted pExpr r; pure (.callF f as, r)
  | "C" :: r => do let (c, r) ← pNat r; let (as, r) ← pCounted pExpr r; pure (.new c as, r)
  | "Q" :: r => do let (x, r) ← pNat r; let (c, r) ← pNat r; pure (.isinst x c, r)
  | "Z" :: r => do let (x, r) ← pNat r; let (g, r) ← pNat r; pure (.isNone x (g != 0), r)
  | "!" :: r => do let (e, r) ← pExpr r; pure (.not e, r)
  | "&" :: r => do let (a, r) ← pExpr r; let (b, r) ← pExpr r; pure (.and a b, r)
  | "|" :: r => do let (a, r) ← pExpr r; let (b, r) ← pExpr r; pure (.or a b, r)
  | "=" :: r => do let (a, r) ← pExpr r; let (b, r) ← pExpr r; pure (.eq a b, r)
  | "+" :: r => do let (a, r) ← pExpr r; let (b, r) ← pExpr r; pure (.add a b, r)
  | "-" :: r => do let (a, r) ← pExpr r; let (b, r) ← pExpr r; pure (.sub a b, r)
  | "<" :: r => do let (a, r) ← pExpr r; let (b, r) ← pExpr r; pure (.lt a b, r)
  | "P" :: r => do let (k, r) ← pNat r; let (e, r) ← pExpr r; pure (.probe k e, r)
  | _ => none

partial def pStmt : Parser Stmt
  | "pass" :: r => some (.pass, r)
  | "D" :: r => do let (x, r) ← pNat r; let (e, r) ← pExpr r; pure (.decl x e, r)
  | "X" :: r => do let (x, r) ← pNat r; let (e, r) ← pExpr r; pure (.assign x e, r)
  | "Y" :: r => do let (x, r) ← pNat r; let (e, r) ← pExpr r; pure (.infer x e, r)
  | "W" :: r => do
    let (o, r) ← pExpr r; let (f, r) ← pNat r; let (e, r) ← pExpr r; pure (.setAttr o f e, r)
  | "E" :: r => do let (e, r) ← pExpr r; pure (.expr e, r)
  | "R" :: r => do let (e, r) ← pExpr r; pure (.ret e, r)
  | "IF" :: r => do
    let (c, r) ← pExpr r; let (t, r) ← pStmt r; let (e, r) ← pStmt r; pure (.ite c t e, r)
  | "WH" :: r => do let (c, r) ← pExpr r; let (b, r) ← pStmt r; pure (.while c b, r)
  | "SQ" :: r => do let (a, r) ← pStmt r; let (b, r) ← pStmt r; pure (.seq a b, r)
  | "RS" :: r => do let (k, r) ← pNat r; pure (.raise k, r)
  | "TR" :: r => do
    let (b, r) ← pStmt r; let (ks, r) ← pCounted pNat r; let (h, r) ← pStmt r; let (e, r) ← pStmt r
    let (f, r) ← pStmt r; let (hf, r) ← pNat r
    pure (.tryS b ks h e f (hf != 0), r)
  | "BR" :: r => some (.brk, r)
  | "CT" :: r => some (.cont, r)
  | _ => none

def pFunc : Parser FuncDef
  | "fn" :: r => do
    let (ps, r) ← pCounted pTy r
    let (ls, r) ← pCounted pTy r
    let (rt, r) ← pTy r
    let (b, r) ← pStmt r
    pure ({ params := ps, locals := ls, ret := rt, body := b }, r)
  | _ => none

def pPair {α : Type} (p : Parser α) : Parser (Nat × α) := fun ts => do
  let (k, ts) ← pNat ts
  let (a, ts) ← p ts
  pure ((k, a), ts)

def pClass : Parser ClassDef
  | "class" :: r => do
    let (bases, r) ← pCounted pNat r
    let (mro, r) ← pCounted pNat r
    let (attrs, r) ← pCounted (pPair pTy) r
    let (ips, r) ← pCounted pTy r
    let (ias, r) ← pCounted (pPair pExpr) r
    let (ms, r) ← pCounted (pPair pFunc) r
    pure ({ bases := bases, mro := mro, attrs := attrs, init := { params := ips, assigns := ias }, methods := ms }, r)
  | _ => none

def pProg : Parser Prog
  | "prog" :: r => do
    let (cs, r) ← pCounted pClass r
    let (fs, r) ← pCounted pFunc r
    pure ({ classes := cs, funcs := fs }, r)
  | _ => none

def pCall : Parser (Nat × List Expr) := fun ts => do
  let (f, ts) ← pNat ts
  let (as, ts) ← pCounted pExpr ts
  pure ((f, as), ts)

def showAtom : Atom → String
  | .int => "i" | .str => "s" | .bool => "b" | .none => "n" | .object => "o" | .cls c => s!"c{c}"

def showTy (T : Ty) : String := "|".intercalate (T.map showAtom)

def showErr : TcErr → String
  | .type k => s!"type {k}" | .unsupported k => s!"unsupported {k}" | .hole k => s!"hole {k}"
  | .stuck k => s!"stuck {k}" | .fuel => "fuel"

def showVal (h : Heap) : Val → String
  | .int n => s!"i{n}"
  | .str s => "s" ++ ".".intercalate (s.map toString)
  | .bool b => if b then "b1" else "b0"
  | .none => "n"
  | .ref l => match classOf h l with | some c => s!"r{c}" | none => "r?"

def showFail : Fail → String
  | .typeError => "typeError" | .attrError => "attrError" | .unbound => "unbound"
  | .stuck => "stuck" | .timeout => "timeout" | .exc k => s!"exc {k}"

def showLog (st : State) : String :=
  ",".intercalate (st.log.reverse.map fun p => s!"{p.1}={showVal st.heap p.2}")

def runCall (fuel : Nat) (P : Prog) (c : Nat × List Expr) : String :=
  match P.funcs[c.1]? with
  | none => "badargs @ "
  | some fd =>
    match evalArgs fuel P [] c.2 { heap := [], log := [] } with
    | (.error _, _) => "badargs @ "
    | (.ok vs, st0) =>
      match evalCall fuel P fd vs { heap := st0.heap, log := [] } with
      | (.ok v, st) => s!"ok {showVal st.heap v} @ {showLog st}"
      | (.error f, st) => s!"{showFail f} @ {showLog st}"

def step (line : String) : String :=
  let toks := (line.splitOn " ").filter (· != "")
  match pProg toks with
  | none => "parse-error"
  | some (P, rest) =>
    let wf := if decide (WF P) then "1" else "0"
    let (tcs, tm) : String × String := match tc P with
      | .ok tm => ("ok", ";".intercalate (tm.map fun (p : Nat × Ty) => s!"{p.1}:{showTy p.2}"))
      | .error e => (showErr e, "")
    let calls := match rest with
      | "calls" :: r =>
        match (do let (fuel, r) ← pNat r; let (cs, _) ← pCounted pCall r; pure (fuel, cs)) with
        | some (fuel, cs) => ";;".intercalate (cs.map (runCall fuel P))
        | none => "calls-parse-error"
      | _ => ""
    s!"wf={wf} tc={tcs} tm={tm} || {calls}"

partial def loop (h : IO.FS.Stream) : IO Unit := do
  let line ← h.getLine
  if line.isEmpty then return ()
  IO.println (step line.trimAscii.toString)
  loop h

def main : IO Unit := do loop (← IO.getStdin)
