import MypyVerif.Model.Serve
/-!
Line-protocol driver for the C16 models (model files only — no proofs needed at run time).

  R <k> <chunks>            k successive read_bytes on a fresh IPCBase; chunks = `;`-separated byte lists
                            (space-separated decimals; an empty item is an empty recv = peer closed)
      → per read `msg=<bytes|none> buf=<bytes> ms=<n|none>` joined by ` | `
  S <conn> / <conn> / …     serve loop; conn = `<chunks>#<class>#<hangup 0|1>`; class is what the frame
                            amounts to after decoding (badUtf8 badJson notDict noCommand cmdNotStr unknown
                            badArgs good crash stop)
      → per connection `alive=<0|1> status=<0|1> reply=<none|error k|result|crashed|stopped>` joined by ` | `
-/
open Ipc Serve

def parseBytes (s : String) : List Nat :=
  (s.splitOn " ").filterMap fun t => if t.isEmpty then none else t.toNat?

def parseChunks (s : String) : List (List Nat) :=
  if s.trimAscii.toString.isEmpty then [] else (s.splitOn ";").map parseBytes

def showBytes (b : List Nat) : String := " ".intercalate (b.map toString)

def showOpt (o : Option Nat) : String := match o with | none => "none" | some n => toString n

def runReads : Nat → St → List (List Nat) → List String
  | 0, _, _ => []
  | k + 1, s, cs =>
    match readBytes s cs with
    | (s', cs', r) =>
      let m := match r with | none => "none" | some b => "[" ++ showBytes b ++ "]"
      s!"msg={m} buf=[{showBytes s'.buffer}] ms={showOpt s'.messageSize}" :: runReads k s' cs'

def parseClass (s : String) : Req :=
  match s with
  | "badUtf8" => .badUtf8 | "badJson" => .badJson | "notDict" => .notDict
  | "noCommand" => .noCommand | "cmdNotStr" => .cmdNotStr | "unknown" => .unknown
  | "badArgs" => .badArgs | "good" => .good 0 | "crash" => .crash 0 | "stop" => .stop
  | _ => .badJson

def showReply : Option Reply → String
  | none => "none"
  | some (.error k) => s!"error {k}"
  | some (.result _) => "result"
  | some .crashed => "crashed"
  | some .stopped => "stopped"

def b2s (b : Bool) : String := if b then "1" else "0"

def runServe (conns : List (List (List Nat) × Req × Bool)) : List String :=
  -- the classifier is the table the harness supplied: frame bytes ↦ class
  let go := fun (acc : Daemon × List String) (c : List (List Nat) × Req × Bool) =>
    let P : Params := { classify := fun _ => c.2.1, handle := fun a _ => (a + 1, a) }
    let (d', r) := serve P acc.1 { chunks := c.1, hangup := c.2.2 }
    (d', acc.2 ++ [s!"alive={b2s d'.alive} status={b2s d'.statusFile} reply={showReply r}"])
  (conns.foldl go ({ alive := true, statusFile := true, ipc := St.init, app := 0 }, [])).2

def step (line : String) : String :=
  let line := line.trimAscii.toString
  if line.startsWith "R " then
    match (line.drop 2).toString.splitOn " " with
    | k :: rest =>
      match k.toNat? with
      | some k => " | ".intercalate (runReads k St.init (parseChunks (" ".intercalate rest)))
      | none => "bad-op"
    | _ => "bad-op"
  else if line.startsWith "S " then
    let conns := ((line.drop 2).toString.splitOn "/").map fun c =>
      match c.splitOn "#" with
      | [ch, cl, h] => (parseChunks ch, parseClass cl.trimAscii.toString, h.trimAscii.toString == "1")
      | _ => ([], Req.badJson, false)
    " | ".intercalate (runServe conns)
  else "bad-op"

partial def loop (h : IO.FS.Stream) : IO Unit := do
  let line ← h.getLine
  if line.isEmpty then return ()
  IO.println (step line)
  loop h

def main : IO Unit := do loop (← IO.getStdin)
