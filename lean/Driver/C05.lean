import MypyVerif.Model.VTable
import MypyVerif.Model.ForRange
import MypyVerif.Model.ErrEdges
import MypyVerif.Model.ForZip
/-!
Line-protocol driver for the C05 models (model files only).

  V <class> <class> …        class = `<T|C>:<mro, comma separated>:<name/sig, comma separated>` in definition order
      → `wf=<0|1> ; <class> ; <class> …` with class =
        `vt=<name>:<slot>,… es=<entry>,… tv=<trait>[<entry>,…]+… g=<0|1> mf=<name>:<is_method_final 0|1>,…`
        (class tokens may carry a 4th field: the children, comma separated; the first output item also has
        `sc=<0|1>`: children reach every class that has the class in its MRO)
        entry = `<cls>.<name>.d.<definer>` | `<cls>.<name>.g.<definer>.<forcls>`; vt sorted by name;
        g = every glue subscript of `specialize_parent_vtable` finds its key
  D <class> … | <c> <d> <m>   → `e=<entry|none> py=<definer|none>`  (dispatch through the model's tables vs MRO lookup)
  R <startTy> <endTy> <step> <start> <stop> <n>
      → `idx=<ty> cmp=<lt|gt> add=<intop|tagged> lit=<k> init=<v|raise> visit=<v,…> py=<v,…>|len=<n>`
        visit = first n values of the emitted loop; py = first n values of range() and its length
  E <block> ; <block> ; …     one function; block = `<op> <op> … # <term>`,
        op = `<dest|->:<use,use,…>:<n|m|f|a>:<0|1>` (error kind never/magic/false/always; 1 = IncRef/DecRef),
        term = `g <l>` | `b <e|b> <value|-> <negated 0|1> <true> <false>` | `r` | `u`
      → `ok` | `bad <index of the first block checkBlock rejects>`
  Z <len> <len> …             operand lengths of a zip loop
      → `body=<n> taken=<k0>,<k1>,…`   (ForZip.run)
-/
open VTable ForRange

def parseNats (s : String) : List Nat :=
  (s.splitOn ",").filterMap fun t => t.trimAscii.toString.toNat?

def parseMethods (s : String) : List (Nat × Nat) :=
  (s.splitOn ",").filterMap fun t =>
    match t.trimAscii.toString.splitOn "/" with
    | [n, g] => match n.toNat?, g.toNat? with
      | some n, some g => some (n, g)
      | _, _ => none
    | _ => none

def parseClass (t : String) : Option ClassRec :=
  match t.splitOn ":" with
  | [k, mro, ms] => some { isTrait := k == "T", mro := parseNats mro, methods := parseMethods ms }
  | [k, mro, ms, ch] => some { isTrait := k == "T", mro := parseNats mro, methods := parseMethods ms, children := parseNats ch }
  | _ => none

def parseHier (s : String) : Option Hier :=
  let toks := (s.trimAscii.toString.splitOn " ").filter (· ≠ "")
  let cs := toks.filterMap parseClass
  if cs.length = toks.length then some cs else none

def showEntry (e : Entry) : String :=
  match e.target with
  | .direct d => s!"{e.cls}.{e.name}.d.{d}"
  | .glue d f => s!"{e.cls}.{e.name}.g.{d}.{f}"

def showEntries (es : List Entry) : String := ",".intercalate (es.map showEntry)

def insertSorted (p : Nat × Nat) : List (Nat × Nat) → List (Nat × Nat)
  | [] => [p]
  | q :: rest => if p.1 ≤ q.1 then p :: q :: rest else q :: insertSorted p rest

def dedupFirst : List (Nat × Nat) → List Nat → List (Nat × Nat)
  | [], _ => []
  | (n, i) :: rest, seen => if seen.contains n then dedupFirst rest seen else (n, i) :: dedupFirst rest (n :: seen)

def showVMap (v : VMap) : String :=
  let items := (dedupFirst v []).foldl (fun acc p => insertSorted p acc) []
  ",".intercalate (items.map fun p => s!"{p.1}:{p.2}")

def same (a b : Nat) : Bool := a == b

def allNames (H : Hier) : List Nat :=
  ((H.flatMap (fun r => r.methods.map (·.1))).foldl (fun acc n => if acc.contains n then acc else insertSorted (n, 0) (acc.map (·, 0)) |>.map (·.1)) [])

def showClass (H : Hier) (c : Nat) (v : ClassVT) : String :=
  let tv := "+".intercalate (v.traitVTs.map fun p => s!"{p.1}[{showEntries p.2}]")
  let mf := ",".intercalate ((allNames H).map fun n => s!"{n}:{if isMethodFinal H c n then 1 else 0}")
  s!"vt={showVMap v.vtable} es={showEntries v.entries} tv={tv} g={if glueOk same H v then 1 else 0} mf={mf}"

def showInts (l : List Int) : String := ",".intercalate (l.map toString)

def parseTy (s : String) : Option RTy :=
  match s with
  | "short" => some .short | "int" => some .int | "i64" => some .i64
  | "i32" => some .i32 | "i16" => some .i16 | "u8" => some .u8 | _ => none

def showTy : RTy → String
  | .short => "short" | .int => "int" | .i64 => "i64" | .i32 => "i32" | .i16 => "i16" | .u8 => "u8"

def parseEOp (t : String) : Option ErrEdges.Op :=
  match t.splitOn ":" with
  | [d, us, k, r] =>
    let ek : Option ErrEdges.EK := match k with
      | "n" => some .never | "m" => some .magic | "f" => some .false_ | "a" => some .always | _ => none
    ek.map fun ek => { dest := d.toNat?, uses := parseNats us, ek := ek, refOnly := r == "1" }
  | _ => none

def parseETerm (s : String) : Option ErrEdges.Term :=
  match (s.trimAscii.toString.splitOn " ").filter (· ≠ "") with
  | ["g", l] => l.toNat?.map .goto
  | ["b", k, v, n, t, f] =>
    match t.toNat?, f.toNat? with
    | some t, some f => some (.branch (if k == "e" then .isError else .bool) v.toNat? (n == "1") t f)
    | _, _ => none
  | ["r"] => some (.ret none)
  | ["u"] => some .unreachable
  | _ => none

def parseEBlock (s : String) : Option ErrEdges.Block :=
  match s.splitOn "#" with
  | [ops, term] =>
    let toks := (ops.trimAscii.toString.splitOn " ").filter (· ≠ "")
    let os := toks.filterMap parseEOp
    match parseETerm term with
    | some t => if os.length = toks.length then some { ops := os, term := t } else none
    | none => none
  | _ => none

def stepE (s : String) : String :=
  let bs := (s.splitOn ";").map parseEBlock
  if bs.any (·.isNone) then "bad-block-syntax"
  else
    let rec go (l : List (Option ErrEdges.Block)) (i : Nat) : String :=
      match l with
      | [] => "ok"
      | some b :: rest => if ErrEdges.checkBlock b then go rest (i + 1) else s!"bad {i}"
      | none :: _ => "bad-block-syntax"
    go bs 0

def stepV (H : Hier) : String :=
  let tbl := computeAll same H
  s!"wf={if wfAll H then 1 else 0} sc={if subclassesComplete H then 1 else 0} ; " ++
    " ; ".intercalate ((List.range tbl.length).map fun c => showClass H c (tbl.getD c emptyVT))

def step (line : String) : String :=
  let line := line.trimAscii.toString
  if line.startsWith "V " then
    match parseHier (line.drop 2).toString with
    | some H => stepV H
    | none => "bad-hier"
  else if line.startsWith "D " then
    match (line.drop 2).toString.splitOn "|" with
    | [hs, q] =>
      match parseHier hs, (q.trimAscii.toString.splitOn " ").filterMap (·.toNat?) with
      | some H, [c, d, m] =>
        let tbl := computeAll same H
        let e := match dispatch H tbl c d m with | some e => showEntry e | none => "none"
        let py := match getMethod H c m with | some (k, _) => toString k | none => "none"
        s!"e={e} py={py}"
      | _, _ => "bad-query"
    | _ => "bad-query"
  else if line.startsWith "Z " then
    let lens := ((line.drop 2).toString.splitOn " ").filterMap (·.toNat?)
    let r := ForZip.run (ForZip.minLen lens + 2) lens
    s!"body={r.1} taken={",".intercalate (r.2.map toString)}"
  else if line.startsWith "E " then stepE (line.drop 2).toString
  else if line.startsWith "R " then
    match ((line.drop 2).toString.splitOn " ").filter (· ≠ "") with
    | [st, et, stp, a, b, n] =>
      match parseTy st, parseTy et, stp.toInt?, a.toInt?, b.toInt?, n.toNat? with
      | some st, some et, some stp, some a, some b, some n =>
        let s := emit st et stp
        let init := match coerceStart s.idx a with | some v => toString v | none => "raise"
        let vis := match coerceStart s.idx a with | some v => visitN s b n v | none => []
        let len := rangeLen a b stp
        let py := rangeFrom (min n len) a stp
        let cmp := match s.cmp with | .lt => "lt" | .gt => "gt"
        let add := match s.add with | .intOp => "intop" | .taggedAdd => "tagged"
        s!"idx={showTy s.idx} cmp={cmp} add={add} lit={s.stepLit} init={init} visit={showInts vis} py={showInts py}|len={len}"
      | _, _, _, _, _, _ => "bad-range"
    | _ => "bad-range"
  else "bad-op"

partial def loopIO (h : IO.FS.Stream) : IO Unit := do
  let line ← h.getLine
  if line.isEmpty then return ()
  IO.println (step line)
  loopIO h

def main : IO Unit := do loopIO (← IO.getStdin)
