import MypyVerif.Model.Layout
/-!
Line-protocol driver for the C18 model (model file only).

One case per line, space-separated `key=value` fields (names never contain space , : = | ; # or /):

  ns=<0|1> epb=<0|1> cwd=<abs path> mp=<abs path>:<abs path>… ent=<f|d>:<abs path>,… args=<abs path>,… fuel=<n> pkg=<name[,name…]|->

Output, sections separated by ` # `:

  S <path>|<module>|<base or ->;…      or   E bad:<name> / E empty:<path>     (create_source_list)
  D <module or ->                         first duplicate module id (load_graph)
  R <root>;…                              mypy_path + python_path derived from the sources
  F <module>=><path or -><:d if a directory>;…      find_module(source.module) per source
  H gr=<0|1>,re=<0|1>,dup=<0|1>           goodRoots, rootsExplicit, hasDuplicate (global side conditions / first disjunct)
  C <path>|f=,i=,s=,n=,b=,l=,t=,ok=,rt=;… per source: isFile, importable, spells, noInnerBase, noBareDir, foundListed, topOK,
                                          cellOK (their conjunction) and roundTrips (the conclusion)
  P <path>|<module>;…                     find_modules_recursive(pkg) with roots mypy_path + [cwd]   (only when pkg given)
-/
open Layout

def nm (s : String) : Name := s.toList
def showName (n : Name) : String := String.ofList n

def parsePath (s : String) : Path := ((s.splitOn "/").filter (· ≠ "")).map nm
def showPath (p : Path) : String := "/" ++ "/".intercalate (p.map showName)
def showMod (m : List Name) : String := ".".intercalate (m.map showName)

def field (fields : List String) (key : String) : String :=
  match fields.find? (fun f => f.startsWith (key ++ "=")) with
  | some f => (f.drop (key.length + 1)).toString
  | none => ""

def parseList (s : String) (sep : String) : List String := (s.splitOn sep).filter (· ≠ "")

def parseEntry (s : String) : Option (Path × Kind) :=
  if s.startsWith "f:" then some (parsePath (s.drop 2).toString, Kind.file)
  else if s.startsWith "d:" then some (parsePath (s.drop 2).toString, Kind.dir)
  else none

def showSrc (s : Src) : String :=
  showPath s.path ++ "|" ++ showMod s.srcModule ++ "|" ++ (match s.base with | some b => showPath b | none => "-")

def showFound (fs : FS) (r : Option Path) : String :=
  match r with
  | none => "-"
  | some p => showPath p ++ (if fs.isDir p then ":d" else "")

def b2s (b : Bool) : String := if b then "1" else "0"

def step (line : String) : String :=
  let fields := (line.trimAscii.toString.splitOn " ").filter (· ≠ "")
  let o : Opts := { ns := field fields "ns" == "1", epb := field fields "epb" == "1",
                    mypyPath := (parseList (field fields "mp") ":").map parsePath,
                    cwd := parsePath (field fields "cwd") }
  let fs := FS.ofEntries ((parseList (field fields "ent") ",").filterMap parseEntry)
  let args := (parseList (field fields "args") ",").map parsePath
  let fuel := (field fields "fuel").toNat?.getD 12
  let pkg := field fields "pkg"
  let pkgOut :=
    if pkg == "" || pkg == "-" then ""
    else " # P " ++ ";".intercalate (((pkg.splitOn ",").filter (· ≠ "")).flatMap fun one =>
          (findModulesRecursive fs o.ns (packageRoots o) fuel ((one.splitOn ".").map nm)).map
            fun (p, m) => showPath p ++ (if fs.isDir p then ":d" else "") ++ "|" ++ showMod m)
  let main :=
    match createSourceList fs o fuel args with
    | .error (.badPackage n) => "E bad:" ++ showName n
    | .error (.emptyDir p) => "E empty:" ++ showPath p
    | .ok srcs =>
      "S " ++ ";".intercalate (srcs.map showSrc) ++
      " # D " ++ (match firstDuplicate srcs [] with | some m => showMod m | none => "-") ++
      " # R " ++ ";".intercalate ((searchRoots o srcs).map showPath) ++
      " # F " ++ ";".intercalate (srcs.map fun s => showMod s.srcModule ++ "=>" ++ showFound fs (findSrc fs o srcs s)) ++
      " # H gr=" ++ b2s (goodRoots fs o) ++ ",re=" ++ b2s (rootsExplicit o (searchRoots o srcs)) ++
        ",dup=" ++ b2s (hasDuplicate srcs) ++
      " # C " ++ ";".intercalate (srcs.map fun s =>
        let roots := searchRoots o srcs
        let B := s.base.getD []
        showPath s.path ++ "|" ++
          "f=" ++ b2s (fs.isFile s.path) ++ ",i=" ++ b2s (importable s.module) ++
          ",s=" ++ b2s (s.base.isSome && spells B s.module s.path) ++
          ",n=" ++ b2s (noInnerBase o roots s.module) ++ ",b=" ++ b2s (noBareDir fs o roots B s.module) ++
          ",l=" ++ b2s (foundListed fs o srcs s) ++ ",t=" ++ b2s (topOK fs o roots s.module) ++
          ",ok=" ++ b2s (cellOK fs o srcs s) ++
          ",rt=" ++ b2s (roundTrips fs o srcs s))
  main ++ pkgOut

partial def loop (h : IO.FS.Stream) : IO Unit := do
  let line ← h.getLine
  if line.isEmpty then return ()
  IO.println (step line)
  loop h

def main : IO Unit := do loop (← IO.getStdin)
