import MypyVerif.Model.Codec
import MypyVerif.Gen.Schemas
/-!
Line-protocol driver for the C11 model (model + generated schemas only).

  EI <int>            → hex of `encInt`                | REJECT (writer raises)
  DI <hex>            → ok <int> <rest hex>            | err
  ES <hex>            → hex of `encStr` (payload hex)  | REJECT
  DS <hex>            → ok <payload hex> <rest hex>    | err
  DB <hex>            → ok <0|1> <rest hex>            | err
  DF <hex>            → ok <8 bytes hex> <rest hex>    | err
  PF <bits>           → packed int of `write_flags`     (bits = string of 0/1, flag 0 first)
  UF <n> <int>        → bits of `read_flags(data, n)`
  RT <cls> <fuel> <hex>
      decode <hex> with the *read* codec extracted for <cls> (its tag first if it has one), re-encode the
      value with the *write* codec → ok used=<n> left=<m> reenc=same | ok … reenc=diff@<i> | fail
  XS <fuel> <hex>     → `extract_symbol`: ok <bytes extracted> <bytes left> | err
  FD <cls> <fuel> <hexA> <hexB>
      decode both with the read codec of <cls>; path (field names, dict keys, list indices) of the first slot in
      which the two values differ, and the two leaves → diff <path> :: <a> :: <b> | same | fail
-/
open Codec Codec.K

def hexDigit (c : Char) : Nat :=
  if '0' ≤ c ∧ c ≤ '9' then c.toNat - 48 else if 'a' ≤ c ∧ c ≤ 'f' then c.toNat - 87 else 0

def parseHex (s : String) : List Nat :=
  let rec go : List Char → List Nat → List Nat
    | a :: b :: r, acc => go r ((hexDigit a * 16 + hexDigit b) :: acc)
    | _, acc => acc.reverse
  go s.toList []

def hexChar (n : Nat) : Char := if n < 10 then Char.ofNat (48 + n) else Char.ofNat (87 + n)

def toHex (bs : List Nat) : String :=
  String.ofList (bs.foldr (fun b acc => hexChar (b / 16 % 16) :: hexChar (b % 16) :: acc) [])

def hx (bs : List Nat) : String := if bs.isEmpty then "-" else toHex bs

def envWd : Env := envOfW Gen.schemas
def envRd : Env := envOfR Gen.schemas

def topCodec (cls : String) : C :=
  match Gen.classTag.find? (fun e => e.1 == cls) with
  | some (_, t) => C.table [(t, .ref cls)]
  | none => .ref cls

def firstDiff : List Nat → List Nat → Nat → Option Nat
  | [], [], _ => none
  | a :: as, b :: bs, i => if a = b then firstDiff as bs (i + 1) else some i
  | _, _, i => some i

def bits (bs : List Bool) : String := String.ofList (bs.map fun b => if b then '1' else '0')

def asText (b : List Nat) : String :=
  String.ofList (b.map fun x => if 32 ≤ x ∧ x < 127 then Char.ofNat x else '?')

def leaf : Val → String
  | .str s => "str'" ++ asText s ++ "'"
  | .bytes s => "bytes:" ++ hx s
  | .int i => s!"int:{i}"
  | .bool b => s!"bool:{b}"
  | .flags bs => "flags:" ++ bits bs
  | .float b => "float:" ++ hx b
  | .unit => "unit"
  | .nil => "[]"
  | .variant t _ => s!"variant-tag:{t}"
  | .fld n _ => s!"field:{n}"
  | .cons _ _ => "list…"
  | .pair _ _ => "record…"

/-- path to the first difference between two decoded values -/
partial def vdiff : Val → Val → Nat → Option (List String × String × String)
  | .fld n a, .fld m b, _ =>
    if n != m then some ([], s!"field:{n}", s!"field:{m}") else (vdiff a b 0).map fun (p, x, y) => (n :: p, x, y)
  | .pair (.str k1) r1, .pair (.str k2) r2, _ =>
    if k1 != k2 then some ([], "str'" ++ asText k1 ++ "'", "str'" ++ asText k2 ++ "'")
    else (vdiff r1 r2 0).map fun (p, x, y) => (("'" ++ asText k1 ++ "'") :: p, x, y)
  | .pair a b, .pair c d, _ =>
    match vdiff a c 0 with
    | some r => some r
    | none => vdiff b d 0
  | .cons a b, .cons c d, i =>
    match vdiff a c 0 with
    | some (p, x, y) => some (s!"[{i}]" :: p, x, y)
    | none => vdiff b d (i + 1)
  | .variant t a, .variant u b, _ =>
    if t != u then some ([], s!"tag:{t}", s!"tag:{u}") else vdiff a b 0
  | a, b, i => if a == b then none else some ((if i > 0 then [s!"[{i}]"] else []), leaf a, leaf b)

def step (line : String) : String :=
  let ws := (line.trimAscii.toString.splitOn " ").filter (· ≠ "")
  match ws with
  | ["EI", v] =>
    match v.toInt? with
    | some i => if decide (IntOk i) then toHex (encInt i) else "REJECT"
    | none => "bad-op"
  | ["DI", h] =>
    match decInt (parseHex h) with
    | some (i, r) => s!"ok {i} {hx r}"
    | none => "err"
  | ["DI"] => "err"
  | ["ES", h] => let s := if h = "-" then [] else parseHex h
                 if decide (StrOk s) then toHex (encStr s) else "REJECT"
  | ["DS", h] =>
    match decStr (parseHex h) with
    | some (s, r) => s!"ok {hx s} {hx r}"
    | none => "err"
  | ["DS"] => "err"
  | ["DB", h] =>
    match decBool (parseHex h) with
    | some (b, r) => s!"ok {if b then 1 else 0} {hx r}"
    | none => "err"
  | ["DB"] => "err"
  | ["DF", h] =>
    match decFloat (parseHex h) with
    | some (b, r) => s!"ok {hx b} {hx r}"
    | none => "err"
  | ["DF"] => "err"
  | ["PF", b] => toString (packFlags (b.toList.map (· == '1')))
  | ["PF"] => "0"
  | ["UF", n, v] =>
    match n.toNat?, v.toInt? with
    | some n, some v => "f" ++ bits (unpackFlags n v)
    | _, _ => "bad-op"
  | ["RT", cls, fuel, h] =>
    let bs := parseHex h
    let f := fuel.toNat?.getD 64
    match dec envRd f (topCodec cls) bs with
    | none => "fail"
    | some (v, rest) =>
      let used := bs.length - rest.length
      let re := enc envWd f (topCodec cls) v
      match firstDiff re (bs.take used) 0 with
      | none => s!"ok used={used} left={rest.length} reenc=same"
      | some i => s!"ok used={used} left={rest.length} reenc=diff@{i}"
  | ["FD", cls, fuel, ha, hb] =>
    let f := fuel.toNat?.getD 64
    match dec envRd f (topCodec cls) (parseHex ha), dec envRd f (topCodec cls) (parseHex hb) with
    | some (a, _), some (b, _) =>
      match vdiff a b 0 with
      | none => "same"
      | some (p, x, y) => "diff " ++ "/".intercalate p ++ " :: " ++ x ++ " :: " ++ y
    | _, _ => "fail"
  | ["XS", fuel, h] =>
    match extractSymbol (fuel.toNat?.getD 64) (parseHex h) with
    | some (b, r) => s!"ok {b.length} {r.length}"
    | none => "err"
  | ["XS", _] => "err"
  | _ => "bad-op"

partial def loop (h : IO.FS.Stream) : IO Unit := do
  let line ← h.getLine
  if line.isEmpty then return ()
  IO.println (step line)
  loop h

def main : IO Unit := do loop (← IO.getStdin)
