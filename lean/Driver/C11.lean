import MypyVerif.Model.Codec
import MypyVerif.Gen.Schemas
/-!
Line-protocol driver for the C11 model (model + generated schemas only).

  EI <int>            → hex of `encInt`                | REJECT (writer raises)
  DI <hex>            → ok <int> <rest hex>            | err
  ES <hex>            → hex of `encStr` (payload hex)  | REJECT
  DS <hex>            → ok <payload hex> <rest hex>    | err
  DB <hex>            → ok <0|1> <rest hex>            | err
  DF <hex>            → ok <8 bytes hex> <rest hex>    | err
  PF <bits>           → packed int of `write_flags`     (bits = string of 0/1, flag 0 first)
  UF <n> <int>        → bits of `read_flags(data, n)`
  RT <cls> <fuel> <hex>
      decode <hex> with the *read* codec extracted for <cls> (its tag first if it has one), re-encode the
      value with the *write* codec → ok used=<n> left=<m> reenc=same | ok … reenc=diff@<i> | fail
  XS <fuel> <hex>     → `extract_symbol`: ok <bytes extracted> <bytes left> | err
-/
open Codec Codec.K

def hexDigit (c : Char) : Nat :=
  if '0' ≤ c ∧ c ≤ '9' then c.toNat - 48 else if 'a' ≤ c ∧ c ≤ 'f' then c.toNat - 87 else 0

def parseHex (s : String) : List Nat :=
  let rec go : List Char → List Nat → List Nat
    | a :: b :: r, acc => go r ((hexDigit a * 16 + hexDigit b) :: acc)
    | _, acc => acc.reverse
  go s.toList []

def hexChar (n : Nat) : Char := if n < 10 then Char.ofNat (48 + n) else Char.ofNat (87 + n)

def toHex (bs : List Nat) : String :=
  String.ofList (bs.foldr (fun b acc => hexChar (b / 16 % 16) :: hexChar (b % 16) :: acc) [])

def hx (bs : List Nat) : String := if bs.isEmpty then "-" else toHex bs

def envWd : Env := envOfW Gen.schemas
def envRd : Env := envOfR Gen.schemas

def topCodec (cls : String) : C :=
  match Gen.classTag.find? (fun e => e.1 == cls) with
  | some (_, t) => C.table [(t, .ref cls)]
  | none => .ref cls

def firstDiff : List Nat → List Nat → Nat → Option Nat
  | [], [], _ => none
  | a :: as, b :: bs, i => if a = b then firstDiff as bs (i + 1) else some i
  | _, _, i => some i

def bits (bs : List Bool) : String := String.ofList (bs.map fun b => if b then '1' else '0')

def step (line : String) : String :=
  let ws := (line.trimAscii.toString.splitOn " ").filter (· ≠ "")
  match ws with
  | ["EI", v] =>
    match v.toInt? with
    | some i => if decide (IntOk i) then toHex (encInt i) else "REJECT"
    | none => "bad-op"
  | ["DI", h] =>
    match decInt (parseHex h) with
    | some (i, r) => s!"ok {i} {hx r}"
    | none => "err"
  | ["DI"] => "err"
  | ["ES", h] => let s := if h = "-" then [] else parseHex h
                 if decide (StrOk s) then toHex (encStr s) else "REJECT"
  | ["DS", h] =>
    match decStr (parseHex h) with
    | some (s, r) => s!"ok {hx s} {hx r}"
    | none => "err"
  | ["DS"] => "err"
  | ["DB", h] =>
    match decBool (parseHex h) with
    | some (b, r) => s!"ok {if b then 1 else 0} {hx r}"
    | none => "err"
  | ["DB"] => "err"
  | ["DF", h] =>
    match decFloat (parseHex h) with
    | some (b, r) => s!"ok {hx b} {hx r}"
    | none => "err"
  | ["DF"] => "err"
  | ["PF", b] => toString (packFlags (b.toList.map (· == '1')))
  | ["PF"] => "0"
  | ["UF", n, v] =>
    match n.toNat?, v.toInt? with
    | some n, some v => "f" ++ bits (unpackFlags n v)
    | _, _ => "bad-op"
  | ["RT", cls, fuel, h] =>
    let bs := parseHex h
    let f := fuel.toNat?.getD 64
    match dec envRd f (topCodec cls) bs with
    | none => "fail"
    | some (v, rest) =>
      let used := bs.length - rest.length
      let re := enc envWd f (topCodec cls) v
      match firstDiff re (bs.take used) 0 with
      | none => s!"ok used={used} left={rest.length} reenc=same"
      | some i => s!"ok used={used} left={rest.length} reenc=diff@{i}"
  | ["XS", fuel, h] =>
    match extractSymbol (fuel.toNat?.getD 64) (parseHex h) with
    | some (b, r) => s!"ok {b.length} {r.length}"
    | none => "err"
  | ["XS", _] => "err"
  | _ => "bad-op"

partial def loop (h : IO.FS.Stream) : IO Unit := do
  let line ← h.getLine
  if line.isEmpty then return ()
  IO.println (step line)
  loop h

def main : IO Unit := do loop (← IO.getStdin)
