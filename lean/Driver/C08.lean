import MypyVerif.Model.Types
/-!
Line-protocol driver for the C08 model (model file only).  One output line per input line.

  K <id> g=<0|1> v=<i|c|n> m=<mroLen> tl=<0|1> b=<id,id,…|-> s=<d:kind,…|->      one class of the hierarchy
        kind = n (superclass has no parameter) | p (own argument passed through) | c<a> (instantiated with `inst a`)
        → `ok`
  X object=<id> tuple=<id> function=<id> type=<id>                               special classes → `ok`
  Q hok                                   → `1`/`0`: the hierarchy hypotheses of the theorems (`Hier.ok`)
  Q wf <t>                                → `1`/`0`: `Ty.wf`
  Q hyp <t>                               → three digits: `Ty.wf`, `Ty.noFunc`, `Ty.latOk` (the theorems' hypotheses)
  Q sub <l> | <r>   Q psub <l> | <r>      → `1`/`0`
  Q join <s> | <t>  Q meet <s> | <t>      → term
  Q simp <t> | <t> | …                    → term

Terms:  N never, O None, (I c), (G c t), (U t …), (T t …), (C (t …) r), (L c v), (Y t)
-/
open Types

structure ClassRow where
  id : Nat
  generic : Bool
  variance : Variance
  mroLen : Nat
  tupleLike : Bool
  bases : List Nat
  sup : List (Nat × BaseArg)

structure DState where
  rows : List ClassRow := []
  objectC : Nat := 0
  tupleC : Nat := 0
  functionC : Nat := 0
  typeC : Nat := 0

def DState.row (st : DState) (c : Nat) : Option ClassRow := st.rows.find? (fun r => r.id == c)

def DState.hier (st : DState) : Hier where
  classes := st.rows.map (·.id)
  generic c := match st.row c with | some r => r.generic | none => false
  sup c d := match st.row c with
    | some r => (r.sup.find? (fun p => p.1 == d)).map (·.2)
    | none => none
  variance c := match st.row c with | some r => r.variance | none => .inv
  bases c := match st.row c with | some r => r.bases | none => []
  mroLen c := match st.row c with | some r => r.mroLen | none => 0
  tupleLike c := match st.row c with | some r => r.tupleLike | none => false
  objectC := st.objectC
  tupleC := st.tupleC
  functionC := st.functionC
  typeC := st.typeC

/-! ### term syntax -/

def tokenize (s : String) : List String :=
  let s := (s.replace "(" " ( ").replace ")" " ) "
  (s.splitOn " ").filter (fun t => !t.isEmpty)

mutual
partial def parseTy : List String → Option (Ty × List String)
  | "N" :: r => some (.never, r)
  | "O" :: r => some (.none, r)
  | "(" :: "I" :: c :: ")" :: r => c.toNat?.map (fun c => (.inst c, r))
  | "(" :: "L" :: c :: v :: ")" :: r => do
      let c ← c.toNat?; let v ← v.toNat?; pure (.lit c v, r)
  | "(" :: "G" :: c :: r => do
      let c ← c.toNat?
      let (a, r) ← parseTy r
      match r with | ")" :: r => pure (.gen c a, r) | _ => none
  | "(" :: "Y" :: r => do
      let (a, r) ← parseTy r
      match r with | ")" :: r => pure (.typeType a, r) | _ => none
  | "(" :: "U" :: r => do let (xs, r) ← parseList r; pure (.union xs, r)
  | "(" :: "T" :: r => do let (xs, r) ← parseList r; pure (.tuple xs, r)
  | "(" :: "C" :: "(" :: r => do
      let (xs, r) ← parseList r
      let (ret, r) ← parseTy r
      match r with | ")" :: r => pure (.callable xs ret, r) | _ => none
  | _ => none
/-- items up to and including the closing parenthesis -/
partial def parseList : List String → Option (List Ty × List String)
  | ")" :: r => some ([], r)
  | toks => do
      let (t, r) ← parseTy toks
      let (ts, r) ← parseList r
      pure (t :: ts, r)
end

partial def showTy : Ty → String
  | .never => "N"
  | .none => "O"
  | .inst c => s!"(I {c})"
  | .gen c a => s!"(G {c} {showTy a})"
  | .union xs => "(U" ++ String.join (xs.map (fun x => " " ++ showTy x)) ++ ")"
  | .tuple xs => "(T" ++ String.join (xs.map (fun x => " " ++ showTy x)) ++ ")"
  | .callable xs r => "(C (" ++ " ".intercalate (xs.map showTy) ++ ") " ++ showTy r ++ ")"
  | .lit c v => s!"(L {c} {v})"
  | .typeType a => s!"(Y {showTy a})"

def parseTerms (s : String) : Option (List Ty) :=
  (s.splitOn "|").mapM fun part =>
    match parseTy (tokenize part) with
    | some (t, []) => some t
    | _ => none

/-! ### hierarchy lines -/

def kv (toks : List String) (key : String) : Option String :=
  toks.findSome? fun t => if t.startsWith (key ++ "=") then some (t.drop (key.length + 1)).toString else none

def parseNatList (s : String) : List Nat :=
  if s == "-" then [] else (s.splitOn ",").filterMap (·.toNat?)

def parseSup (s : String) : List (Nat × BaseArg) :=
  if s == "-" then [] else
  (s.splitOn ",").filterMap fun item =>
    match item.splitOn ":" with
    | [d, k] =>
      match d.toNat? with
      | some d =>
        if k == "n" then some (d, .na)
        else if k == "p" then some (d, .param)
        else if k.startsWith "c" then ((k.drop 1).toString.toNat?).map (fun a => (d, .const a))
        else none
      | none => none
    | _ => none

def parseClass (toks : List String) : Option ClassRow := do
  let id ← (toks.head?).bind (·.toNat?)
  let g ← kv toks "g"
  let v ← kv toks "v"
  let m ← (kv toks "m").bind (·.toNat?)
  let tl ← kv toks "tl"
  let b ← kv toks "b"
  let s ← kv toks "s"
  let var := if v == "c" then Variance.co else if v == "n" then Variance.contra else Variance.inv
  pure { id := id, generic := g == "1", variance := var, mroLen := m, tupleLike := tl == "1",
         bases := parseNatList b, sup := parseSup s }

def b2s (b : Bool) : String := if b then "1" else "0"

def answer (H : Hier) (op : String) (rest : String) : String :=
  if op == "hok" then b2s H.ok else
  match parseTerms rest with
  | none => "bad-term"
  | some ts =>
    match op, ts with
    | "wf", [t] => b2s (t.wf H)
    | "hyp", [t] => b2s (t.wf H) ++ b2s (t.noFunc H) ++ b2s (t.latOk H)
    | "sub", [l, r] => b2s (isSubtype H l r)
    | "psub", [l, r] => b2s (isProperSubtype H l r)
    | "join", [s, t] => showTy (join H s t)
    | "meet", [s, t] => showTy (meet H s t)
    | "simp", ts => showTy (simplifyUnion H ts)
    | _, _ => "bad-op"

def step (st : DState) (line : String) : DState × String :=
  let line := line.trimAscii.toString
  if line.startsWith "K " then
    match parseClass (tokenize (line.drop 2).toString) with
    | some r => ({ st with rows := st.rows ++ [r] }, "ok")
    | none => (st, "bad-class")
  else if line.startsWith "X " then
    let toks := tokenize (line.drop 2).toString
    let g := fun k => ((kv toks k).bind (·.toNat?)).getD 0
    ({ st with objectC := g "object", tupleC := g "tuple", functionC := g "function", typeC := g "type" }, "ok")
  else if line.startsWith "Q " then
    let body := (line.drop 2).toString
    match body.splitOn " " with
    | op :: rest => (st, answer st.hier op (" ".intercalate rest))
    | _ => (st, "bad-op")
  else (st, "bad-op")

partial def loop (h : IO.FS.Stream) (st : DState) : IO Unit := do
  let line ← h.getLine
  if line.isEmpty then return ()
  let (st', out) := step st line
  IO.println out
  loop h st'

def main : IO Unit := do loop (← IO.getStdin) {}
