import MypyVerif.Model.Sched
/-!
Driver for the coordinator model (C07).
  line: `<graph> | <trace>`   graph = `s:d,d;s:;…`  trace = space-separated events
        F<s> fresh walk · S<s+s+…>@<w> submit batch to worker · I<w> interface reply · M<w> implementation reply
  → `accepted started=<n> complete=<n>` or `rejected <k> <event>`
-/
open Sched

def parseGraph (s : String) : Graph :=
  let rows := (s.splitOn ";").filterMap fun r =>
    match r.trimAscii.toString.splitOn ":" with
    | [a, ds] => match a.toNat? with
      | some a => some (a, (ds.splitOn ",").filterMap (·.trimAscii.toString.toNat?))
      | none => none
    | _ => none
  { size := (rows.map (·.1)).foldl (fun a b => max a (b + 1)) 0,
    deps := fun x => match rows.find? (·.1 == x) with | some r => r.2 | none => [] }

def parseEvent (t : String) : Option Event :=
  let body := (t.drop 1).toString
  if t.startsWith "F" then body.toNat?.map Event.fresh
  else if t.startsWith "I" then body.toNat?.map Event.ifaceDone
  else if t.startsWith "M" then body.toNat?.map Event.implDone
  else if t.startsWith "S" then
    match body.splitOn "@" with
    | [b, w] => match w.toNat? with
      | some w => some (Event.submit ((b.splitOn "+").filterMap (·.toNat?)) w)
      | none => none
    | _ => none
  else none

def step1 (line : String) : String :=
  match line.splitOn " | " with
  | [gs, ts] =>
    let g := parseGraph gs
    let toks := (ts.trimAscii.toString.splitOn " ").filter (· ≠ "")
    let evs := toks.filterMap parseEvent
    if evs.length ≠ toks.length then "bad-op" else
    let F : Nat → Env → Val := fun s e => s + ((g.deps s).map (fun d => (e d).getD 0)).foldl (· + ·) 0
    match firstRejected g F St.init evs 0 with
    | some k => s!"rejected {k} {toks.getD k "?"}"
    | none =>
      match run g F St.init evs with
      | some st => s!"accepted started={st.started.length} inflight={st.inflight.length} busy={st.busy.length}"
      | none => "rejected ? ?"
  | _ => "bad-op"

partial def loop (h : IO.FS.Stream) : IO Unit := do
  let line ← h.getLine
  if line.isEmpty then return ()
  IO.println (step1 line)
  loop h

def main : IO Unit := do loop (← IO.getStdin)
