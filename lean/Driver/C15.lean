import MypyVerif.Gen.CFast
/-!
Line-protocol driver for C15 (generated definitions only — no proofs needed at run time).

  F <function> <word> <word> …     evaluate a generated C function (`Gen/CFast.lean`) on machine words
                                    (unsigned decimals) → `val n` | `fast n` | `slow f neg args…` |
                                    `raise Exc n`, then ` ub=0|1`
-/

def step (line : String) : String :=
  let ws := (line.trimAscii.toString.splitOn " ").filter (· ≠ "")
  match ws with
  | "F" :: f :: args =>
    match args.mapM String.toNat? with
    | some ns => CFast.dispatch f ns
    | none => "bad-args"
  | _ => "bad-op"

partial def loop (h : IO.FS.Stream) : IO Unit := do
  let line ← h.getLine
  if line.isEmpty then return ()
  IO.println (step line)
  loop h

def main : IO Unit := do loop (← IO.getStdin)
