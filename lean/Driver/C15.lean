import MypyVerif.Gen.CFast
import MypyVerif.Model.FixedWidth
import MypyVerif.Model.FloatConv
/-!
Line-protocol driver for C15 (generated definitions and model files only — no proofs needed at run time).

  F <function> <word> …          a generated C function (`Gen/CFast.lean`) on machine words (unsigned decimals)
                                  → `val n` | `fast n` | `slow f neg args…` | `raise Exc n`, then ` ub=0|1`
  M cmp <op> <l> <r>             `compare_tagged` with the regenerated table row of <op>
  M op <w> <s> <name> <a> <b>    `IntOp` on w-bit registers (s = 1 signed); name ∈ add sub mul and or xor shl shr
  M neg|inv <w> <a>              unary minus / invert
  M idiv|imod <w> <a> <c>        inline_fixed_width_divide / _mod
  M u8div|u8mod <a> <b>
  M toI64 <src> | M toNarrow <w> <s> <src> | M i64ToInt <src> | M narrowToInt <w> <s> <src>
                                  → same result syntax (registers printed as unsigned decimals)
  M tdiv <sa> <|a|> <sb> <|b|>   true division (s = 1: negative) → `tdiv c <neg> <m> <eoff> p <neg> <m> <eoff>`:
                                  c = compiled fast path, p = CPython; value = (-1)^neg · m · 2^(eoff-1200)
  M i2f <sa> <|a|>               `(double)a` as an integer → `val <neg> <n>`
  S <op> <sa> <|a|> <sb> <|b|>   the *specification* side (what the theorems say Python computes), on unbounded
                                  integers: op ∈ and or xor fdiv fmod shl shr → `val <neg> <|n|>`
-/
open FixedWidth CSem

def parseOp : String → Option Op
  | "add" => some .add | "sub" => some .sub | "mul" => some .mul | "and" => some .and
  | "or" => some .or | "xor" => some .xor | "shl" => some .shl | "shr" => some .shr
  | _ => none

def withWidth (w : Nat) (k : (w : Nat) → String) : String :=
  match w with
  | 64 => k 64 | 32 => k 32 | 16 => k 16 | 8 => k 8
  | _ => "bad-width"

def model (ws : List String) : String :=
  match ws with
  | ["cmp", op, l, r] =>
    match l.toNat?, r.toNat?, CFast.intComparisonOpMapping.find? (fun row => row.1 == op) with
    | some l, some r, some row => showResBool (compareTagged row (BitVec.ofNat 64 l) (BitVec.ofNat 64 r))
    | _, _, _ => "bad-args"
  | ["op", w, s, name, a, b] =>
    match w.toNat?, parseOp name, a.toNat?, b.toNat? with
    | some w, some op, some a, some b =>
      withWidth w fun w => "val " ++ showBV (intOp (s == "1") op (BitVec.ofNat w a) (BitVec.ofNat w b))
    | _, _, _, _ => "bad-args"
  | ["neg", w, a] =>
    match w.toNat?, a.toNat? with
    | some w, some a => withWidth w fun w => "val " ++ showBV (neg (BitVec.ofNat w a))
    | _, _ => "bad-args"
  | ["inv", w, a] =>
    match w.toNat?, a.toNat? with
    | some w, some a => withWidth w fun w => "val " ++ showBV (invert (BitVec.ofNat w a))
    | _, _ => "bad-args"
  | ["idiv", w, a, c] =>
    match w.toNat?, a.toNat?, c.toNat? with
    | some w, some a, some c => withWidth w fun w => "val " ++ showBV (inlineDivide (BitVec.ofNat w a) (BitVec.ofNat w c))
    | _, _, _ => "bad-args"
  | ["imod", w, a, c] =>
    match w.toNat?, a.toNat?, c.toNat? with
    | some w, some a, some c => withWidth w fun w => "val " ++ showBV (inlineMod (BitVec.ofNat w a) (BitVec.ofNat w c))
    | _, _, _ => "bad-args"
  | ["u8div", a, b] =>
    match a.toNat?, b.toNat? with
    | some a, some b => showResBV (u8Divide (BitVec.ofNat 8 a) (BitVec.ofNat 8 b))
    | _, _ => "bad-args"
  | ["u8mod", a, b] =>
    match a.toNat?, b.toNat? with
    | some a, some b => showResBV (u8Mod (BitVec.ofNat 8 a) (BitVec.ofNat 8 b))
    | _, _ => "bad-args"
  | ["toI64", src] =>
    match src.toNat? with
    | some s => showResBV (intToI64 (BitVec.ofNat 64 s))
    | none => "bad-args"
  | ["toNarrow", w, s, src] =>
    match w.toNat?, src.toNat? with
    | some w, some x => withWidth w fun w => showResBV (intToNarrow w (s == "1") (BitVec.ofNat 64 x))
    | _, _ => "bad-args"
  | ["i64ToInt", src] =>
    match src.toNat? with
    | some s => showResBV (i64ToInt (BitVec.ofNat 64 s))
    | none => "bad-args"
  | ["narrowToInt", w, s, src] =>
    match w.toNat?, src.toNat? with
    | some w, some x => withWidth w fun w => "val " ++ showBV (narrowToInt (s == "1") (BitVec.ofNat w x))
    | _, _ => "bad-args"
  | ["tdiv", sa, a, sb, b] =>
    match a.toNat?, b.toNat? with
    | some a, some b =>
      let ai : Int := if sa == "1" then -(a : Int) else a
      let bi : Int := if sb == "1" then -(b : Int) else b
      let c := FloatConv.compiledTrueDiv ai bi
      let p := FloatConv.cpythonTrueDiv ai bi
      s!"tdiv c {showBool c.neg} {c.m} {c.eoff} p {showBool p.neg} {p.m} {p.eoff}"
    | _, _ => "bad-args"
  | ["i2f", sa, a] =>
    match a.toNat? with
    | some a =>
      let ai : Int := if sa == "1" then -(a : Int) else a
      let d := FloatConv.toDouble ai
      s!"val {showBool (decide (d < 0))} {d.natAbs}"
    | none => "bad-args"
  | _ => "bad-op"

def specOp (op : String) (a b : Int) : Option Int :=
  match op with
  | "and" => some (Tagged.pyAnd a b)
  | "or" => some (Tagged.pyOr a b)
  | "xor" => some (Tagged.pyXor a b)
  | "fdiv" => some (a.fdiv b)
  | "fmod" => some (a.fmod b)
  | "shl" => some (Tagged.pyShl a b.toNat)
  | "shr" => some (Tagged.pyShr a b.toNat)
  | _ => none

def spec (ws : List String) : String :=
  match ws with
  | [op, sa, a, sb, b] =>
    match a.toNat?, b.toNat? with
    | some a, some b =>
      let ai : Int := if sa == "1" then -(a : Int) else a
      let bi : Int := if sb == "1" then -(b : Int) else b
      match specOp op ai bi with
      | some r => s!"val {showBool (decide (r < 0))} {r.natAbs}"
      | none => "bad-op"
    | _, _ => "bad-args"
  | _ => "bad-op"

def step (line : String) : String :=
  let ws := (line.trimAscii.toString.splitOn " ").filter (· ≠ "")
  match ws with
  | "F" :: f :: args =>
    match args.mapM String.toNat? with
    | some ns => CFast.dispatch f ns
    | none => "bad-args"
  | "M" :: rest => model rest ++ " ub=0"
  | "S" :: rest => spec rest
  | _ => "bad-op"

partial def loop (h : IO.FS.Stream) : IO Unit := do
  let line ← h.getLine
  if line.isEmpty then return ()
  IO.println (step line)
  loop h

def main : IO Unit := do loop (← IO.getStdin)
