import MypyVerif.Model.Load
import MypyVerif.Gen.LoadCfg
/-!
Line-protocol driver for the graph-loading model (C02, graph part).

One line = one run:   `<roots> | <found> | <ancestors> | <imports> | <cached>`
  roots, found : comma separated module ids (`-` = none)
  ancestors,
  imports      : `m=a,b;m=c` (modules without an entry have none)
  cached       : `m=d:i,d:i/s:i,s:i;…`  usable cache entries: dependencies / suppressed, `i` = 1 for PRI_INDIRECT
Output: `warm=<sorted ids> cold=<sorted ids> filtered=<0|1>` — the modules built with / without the cache,
using the configuration regenerated from build.py.
-/
open Load

def nats (s : String) : List Nat :=
  if s.trimAscii.toString == "-" then [] else (s.splitOn ",").filterMap fun t => t.trimAscii.toString.toNat?

def parseDeps (s : String) : List Dep :=
  if s.trimAscii.toString == "-" || s.trimAscii.toString == "" then [] else
  (s.splitOn ",").filterMap fun t =>
    match t.trimAscii.toString.splitOn ":" with
    | [d, i] => match d.toNat?, i.toNat? with
      | some d, some i => some { m := d, indirect := i != 0 }
      | _, _ => none
    | _ => none

def parseImports (s : String) : List (Nat × List Nat) :=
  if s.trimAscii.toString == "-" then [] else
  (s.splitOn ";").filterMap fun t =>
    match t.trimAscii.toString.splitOn "=" with
    | [m, l] => m.toNat?.map fun m => (m, nats l)
    | _ => none

def parseCached (s : String) : List (Nat × CMeta) :=
  if s.trimAscii.toString == "-" then [] else
  (s.splitOn ";").filterMap fun t =>
    match t.trimAscii.toString.splitOn "=" with
    | [m, l] => match l.splitOn "/" with
      | [d, sp] => m.toNat?.map fun m => (m, { deps := parseDeps d, supp := parseDeps sp })
      | _ => none
    | _ => none

def insertSorted (x : Nat) : List Nat → List Nat
  | [] => [x]
  | y :: r => if x ≤ y then x :: y :: r else y :: insertSorted x r

def sortNats (l : List Nat) : List Nat := l.foldr insertSorted []

def showNats (l : List Nat) : String := if l.isEmpty then "-" else ",".intercalate (l.map toString)

def answer (line : String) : String :=
  match line.splitOn " | " with
  | [r, f, a, i, c] =>
    let roots := nats r
    let found := nats f
    let ancs := parseImports a
    let imps := parseImports i
    let cached := parseCached c
    let v : View :=
      { found := fun m => found.contains m,
        ancestors := fun m => ((ancs.find? (·.1 == m)).map (·.2)).getD [],
        imports := fun m => ((imps.find? (·.1 == m)).map (·.2)).getD [],
        cached := fun m => (cached.find? (·.1 == m)).map (·.2) }
    let fuel := 4 * (found.length + roots.length + 1) * (found.length + roots.length + 1) + 64
    let w := sortNats (bfs (succWarm Gen.LoadCfg.cfg v) fuel roots [])
    let cd := sortNats (bfs (succCold v) fuel roots [])
    s!"warm={showNats w} cold={showNats cd} filtered={if Gen.LoadCfg.cfg.suppFiltered then 1 else 0}"
  | _ => "bad-line"

partial def loop (h : IO.FS.Stream) : IO Unit := do
  let line ← h.getLine
  if line.isEmpty then return ()
  IO.println (answer (line.dropEndWhile (· == '\n')).toString)
  loop h

def main : IO Unit := do loop (← IO.getStdin)
