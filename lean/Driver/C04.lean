import MypyVerif.Model.Store
/-!
Line-protocol driver for the store-update model (C04).

  U <new 0|1> <changed 0|1> <t> <cur|-> <fails: 4 bits data,rm,meta,metaEx> <data|-> <meta t,dt|-> <metaEx|->
      → `ops=<op;op;…> states=<trusted:safe,…>`   (one state per crash point, the last = completed run)
-/
open Store

def showOp : Op → String
  | .wData _ => "write:data"
  | .rmMetaEx => "remove:meta_ex"
  | .wMeta _ _ => "write:meta"
  | .wMetaEx _ => "write:meta_ex"

def optNat (s : String) : Option Nat := if s == "-" then none else s.toNat?

def b (s : String) (i : Nat) : Bool := (s.toList.drop i).head? == some '1'

def step (line : String) : String :=
  match (line.trimAscii.toString.splitOn " ").filter (· ≠ "") with
  | ["U", new, changed, t, cur, fails, d, m, e] =>
    match t.toNat? with
    | some t =>
      let f : Fails := { data := b fails 0, rm := b fails 1, metaR := b fails 2, metaEx := b fails 3 }
      let mt : Option (Nat × Nat) := match m.splitOn "," with
        | [a, c] => match a.toNat?, c.toNat? with
          | some a, some c => some (a, c)
          | _, _ => none
        | _ => none
      let p : Phys := { data := optNat d, metaR := mt, metaEx := optNat e }
      let ops := updateOps (new == "1") (changed == "1") t (optNat cur) f
      let sts := crashStates p ops
      let showSt := fun (q : Phys) => (if trusted q then "T" else "U") ++ ":" ++ (if decide (Safe q) then "safe" else "UNSAFE")
      s!"ops={";".intercalate (ops.map showOp)} states={",".intercalate (sts.map showSt)}"
    | none => "bad-op"
  | _ => "bad-op"

partial def loop (h : IO.FS.Stream) : IO Unit := do
  let line ← h.getLine
  if line.isEmpty then return ()
  IO.println (step line)
  loop h

def main : IO Unit := do loop (← IO.getStdin)
