"""C06 translator: final mypyc IR (dump of `translate/ir_export.py`) -> ownership micro-ops of `Model/IR.lean`.

Every refcounted IR value (registers and op results whose `type.is_refcounted`, literals excluded) becomes one
variable; every IR op is flattened into micro-ops that each look at / change ONE variable (`move` two):

    define d k    k ∈ owned | maybe | borrowed | maybeBorrowed | null | imm     (result of an op / literal assignment)
    incref v      decref v x      steal v      stealMaybe v      use v      useMaybe v
    move d s      (Assign d := s — Assign.stolen() = [src])
    assumeNull v  assumeOk v      (on the edges of `Branch IS_ERROR`, and where a C contract says so)
    clobber v                     (borrow safety, see below)

Rules (taken from the exported metadata — `sources()`, `stolen()`, `is_borrowed`, `error_kind`, `is_xdec`,
`returns_null` of mypyc/ir/ops.py — i.e. what `mypyc/transform/refcount.py` itself relies on):

  * generic op: `use` every non-stolen refcounted source (it is read by the emitted C and must be a live
    object), `steal` every element of `stolen()` (with multiplicity), then `define` the result:
    borrowed iff `is_borrowed`; "maybe" (may be the error value) iff `error_kind` is ERR_MAGIC(_OVERLAPPING),
    or `CallC.returns_null`, or the function itself tests the value with `Branch IS_ERROR`
    (calls whose `error_kind` was forced to ERR_NEVER can still return NULL and the IR then tests them);
  * `LoadErrorValue` defines null; `Assign d, <int literal>` defines an immediate (tagged short int: inc/dec are
    no-ops); `Assign d, s` is `move d s`; a native `Call`/`MethodCall` argument whose parameter is optional,
    the stored operand of `SetAttr` (storing the error value is how attributes are *undefined*) and `Return`'s
    operand may be the error value (`useMaybe` / `stealMaybe` / the return rule);
  * `Branch IS_ERROR v`: `assumeNull v` on the error edge, `assumeOk v` on the other;
  * **side condition on `GetAttr`** (decided against the ClassIR tables exported with the op, not against what the
    exception transform concluded): a `GetAttr` whose `error_kind` is ERR_NEVER (no error branch follows) may be
    taken as non-NULL only if the attribute is in `_always_initialized_attrs` AND not `__deletable__` anywhere in
    the MRO (or it is a spill slot / `allow_error_value` read that the IR tests itself); otherwise its result is
    `maybe` and every dereferencing use of it is stuck;
  * **borrow safety**: a value borrowed from the heap (`GetAttr` / `LoadMem` / `CallC` with `is_borrowed`, and
    borrowed `Cast`s of such values) stays valid only as long as its owner cannot have been rebound: every op that
    may run arbitrary code (`Call`, `MethodCall`, `CallC` outside `NON_REBINDING_CALLC`, a non-initialising
    `SetAttr` of a refcounted attribute) emits `clobber v` for every such value `v` of the function: afterwards
    `v` is usable only through references the frame itself owns;
  * out-parameters (`LoadAddress` of a refcounted register) are modelled only for the C contracts in
    `OUT_PARAM_CONTRACTS`; any other consumer of such an address makes the function UNMODELLED (counted as
    `skipped`, never accepted). The same for op classes outside `MODELLED_OPS` and odd `Assign` shapes.

Line protocol (`encode`): all naturals, see `Driver/C06.lean`.
"""
from __future__ import annotations

from typing import Any

ERR_NEVER, ERR_MAGIC, ERR_FALSE, ERR_ALWAYS, ERR_MAGIC_OVERLAPPING = 0, 1, 2, 3, 4

# define kinds
OWNED, MAYBE, BORROWED, MAYBE_BORROWED, NULL, IMM = range(6)
KIND_NAMES = ["owned", "maybe", "borrowed", "maybeBorrowed", "null", "imm"]
# micro-op codes (must agree with Driver/C06.lean)
DEFINE, INCREF, DECREF, STEAL, STEAL_MAYBE, USE, USE_MAYBE, MOVE, ASSUME_NULL, ASSUME_OK, CLOBBER = range(11)
OP_NAMES = ["define", "incref", "decref", "steal", "stealMaybe", "use", "useMaybe", "move", "assumeNull", "assumeOk",
            "clobber"]
# argument kinds
ARG_BORROWED, ARG_OPTIONAL = 0, 1

MODELLED_OPS = {
    "Assign", "AssignMulti", "Goto", "Branch", "Return", "Unreachable", "IncRef", "DecRef", "Call", "MethodCall",
    "LoadErrorValue", "LoadLiteral", "GetAttr", "SetAttr", "LoadStatic", "InitStatic", "TupleSet", "TupleGet",
    "Cast", "Box", "Unbox", "RaiseStandardError", "CallC", "Truncate", "Extend", "LoadGlobal", "IntOp",
    "ComparisonOp", "FloatOp", "FloatNeg", "FloatComparisonOp", "LoadMem", "SetMem", "GetElement", "GetElementPtr",
    "SetElement", "LoadAddress", "Unborrow",
}

# C contracts for out-parameters: consumer (op class, function/method name, index in sources()) ->
#   "null_iff_error": the callee first stores NULL, and stores an owned reference exactly when it does not
#                     return its error value (CPy_YieldFromErrorHandle, mypyc/lib-rt/misc_ops.c);
#   "set_only_if_result_error": the callee (a generated generator helper, `stop_iter_ptr` parameter) stores an
#                     owned reference only when it returns NULL (mypyc/irbuild/nonlocalcontrol.py gen_return:
#                     `SetMem stop_iter_ptr, value; return 0`); the register holds NULL before the call.
OUT_PARAM_CONTRACTS = {
    ("CallC", "CPy_YieldFromErrorHandle", 1): "null_iff_error",
    ("MethodCall", "__mypyc_generator_helper__", 4): "set_only_if_result_error",
}


# CallC arguments that the C function accepts as NULL (read from mypyc/lib-rt/misc_ops.c)
NULLABLE_CALLC_ARGS = {
    ("CPyType_FromTemplate", 1),                 # orig_bases: `if (orig_bases) …`
    ("CPySingledispatch_RegisterFunction", 2),   # func: `if (func == NULL) { one argument case`
}
# op classes whose result can be the error value even when `error_kind` says ERR_NEVER (then the IR tests it)
CAN_BE_NULL_WHEN_TESTED = {"Call", "MethodCall", "CallC", "GetAttr", "LoadStatic", "LoadMem", "LoadGlobal", "GetElement"}
SPILL_ATTR_PREFIX = "__mypyc_temp__2_"          # mypyc/transform/spill.py: f"{TEMP_ATTR_NAME}2_{i}"


# ops with `is_borrowed` whose result points into the heap (an attribute slot, a container item)
HEAP_BORROW_OPS = {"GetAttr", "LoadMem", "CallC"}
# borrowed results that stay valid only while their (tracked) source operands keep their references
KEPT_BY_SOURCE_OPS = {"TupleGet", "GetAttr", "Cast", "CallC", "GetElement", "Box"}
# C primitives that cannot run arbitrary Python code / rebind attributes or container items while they run
# (int / float / str arithmetic and comparisons on exact built-in types, pure inspectors)
NON_REBINDING_CALLC_PREFIXES = ("CPyTagged_", "CPyFloat_", "CPyLong_", "CPyStr_", "CPyBytes_", "CPyBool_")
NON_REBINDING_CALLC: set[str] = {
    "CPyList_GetItemShortBorrow", "CPyList_GetItemBorrow", "CPyList_GetItemInt64Borrow", "CPyList_GetItemUnsafe",
    "CPySequenceTuple_GetItemUnsafe", "CPy_NoErrOccurred", "CPy_KeepPropagating",
}
# borrowed CallC results that do not point into a rebindable slot (a type object computed from live types)
NON_SLOT_BORROW_CALLC = {"CPy_CalculateMetaclass"}


def may_rebind(op: dict) -> bool:
    """May this op run arbitrary code (and so rebind the owner of a reference borrowed from the heap)?"""
    c = op["op"]
    if c in ("Call", "MethodCall"):
        return True
    if c == "SetAttr":
        return not op.get("is_init") and op.get("attr_rc", True)
    if c == "CallC":
        f = op.get("function") or ""
        return not (f in NON_REBINDING_CALLC or f.startswith(NON_REBINDING_CALLC_PREFIXES))
    return False


# ---- error contracts of C primitives declared `error_kind=ERR_NEVER` ---------------------------------------------
# A CallC without error branch may be taken as non-NULL only if the C function cannot return NULL.  Derived from the
# C sources of the checked tree (mypyc/lib-rt/*.c, *.h): a `PyObject *` function can return NULL if its body contains
# `return NULL`, or returns the result of a function that can (transitively, depth 4), or of a fallible CPython API call.
_FALLIBLE_API = None
_C_TEXT: dict[str, dict[str, str]] = {}
_C_MEMO: dict[str, dict[str, Any]] = {}
# can return NULL only when memory is exhausted / a str is not "ready" (impossible since 3.12): accepted as non-failing
OOM_ONLY_PRIMITIVES = {"CPyStr_Strip", "CPyStr_LStrip", "CPyStr_RStrip", "PyUnicode_Splitlines"}
# iteration protocol: NULL means "exhausted"; irbuild tests the result wherever exhaustion is possible (then the
# `tested` rule applies), the only untested use is `next(iter(<TypeVarTuple>))` in PEP 695 class headers
ITERATION_PROTOCOL_PRIMITIVES = {"PyIter_Next", "CPyIter_Next", "CPyIter_Send"}


def c_can_return_null(name: str, repo: str | None = None, depth: int = 0) -> str | None:
    """Why the C function `name` can return NULL (None: no way found)."""
    import glob
    import os
    import re
    global _FALLIBLE_API
    if repo is None:
        try:
            from harness.vlib.core import REPO as repo          # type: ignore[no-redef]
        except Exception:
            repo = os.environ.get("VERIF_REPO", "/repo")
    if _FALLIBLE_API is None:
        _FALLIBLE_API = re.compile(
            r"^(PyObject_(?!GC|Init|New\b)\w+|PyNumber_\w+|PySequence_\w+|PyMapping_\w+|PyDict_GetItemWithError|PyDict_GetItemRef|"
            r"PyIter_Next|PyImport_Import\w*|PyUnicode_(Join|Format|Split|RSplit|Splitlines|Replace|Concat|FromFormat|AsUTF8\w*|"
            r"Decode\w*|AsEncodedString)|PyLong_As\w+|PyTuple_GetSlice|PyList_GetSlice|_PyObject_\w+|PyEval_\w+|PyType_\w+)$")
    text = _C_TEXT.get(repo)
    if text is None:
        text = {f: open(f, errors="replace").read() for f in sorted(glob.glob(os.path.join(repo, "mypyc", "lib-rt", "*.[ch]")))}
        _C_TEXT[repo] = text
    memo = _C_MEMO.setdefault(repo, {})
    if name in memo:
        return memo[name]
    memo[name] = None
    pat = re.compile(r"^((?:static\s+|inline\s+|CPy_NOINLINE\s+)*[A-Za-z_][\w\s]*?[\s\*]+)\b" + re.escape(name) + r"\s*\(([^;{}]*)\)\s*\{", re.M)
    found = None
    for t in text.values():
        m = pat.search(t)
        if m:
            i, d = m.end(), 1
            while i < len(t) and d:
                d += (t[i] == "{") - (t[i] == "}")
                i += 1
            found = (m.group(1), t[m.end():i])
            break
    if found is None:
        memo[name] = ("fallible C-API call " + name) if _FALLIBLE_API.match(name) else None
        return memo[name]
    rtype, body = found
    if "*" not in rtype:
        return None
    body = re.sub(r"//[^\n]*", "", re.sub(r"/\*.*?\*/", "", body, flags=re.S))
    why = None
    for r in re.findall(r"return\s+([^;]+);", body):
        r = r.strip()
        if r in ("NULL", "0"):
            why = "`return NULL`"
            break
        m = re.match(r"^\(?\s*(\w+)\s*\(", r)
        if m and depth < 4:
            w = c_can_return_null(m.group(1), repo, depth + 1)
            if w:
                why = f"returns {m.group(1)}(): {w}"
                break
    memo[name] = why
    return why


class Unmodelled(Exception):
    pass


def is_rc(v: dict) -> bool:
    return bool(v["type"]["rc"]) and v["kind"] in ("reg", "op")


class Micro:
    """Flattened function: variables, micro-op blocks, provenance (which IR op each micro-op came from)."""

    def __init__(self) -> None:
        self.name = ""
        self.nvars = 0
        self.var_of: dict[int, int] = {}       # IR value id -> var
        self.val_of: list[int] = []            # var -> IR value id
        self.args: list[tuple[int, int]] = []  # (var, kind)
        self.blocks: list[dict] = []           # {"ops": [(code, a, b, src_op_index)], "term": (...)}
        self.unmodelled: str | None = None
        self.idioms: dict[str, int] = {}       # trusted idioms applied (counted into the evidence)
        self.slot_names: dict[int, str] = {}   # pseudo-variables for attribute slots initialised by the function


def flatten(fd: dict) -> Micro:
    """fd: a `final` dump of ir_export.export_func."""
    m = Micro()
    m.name = fd.get("fullname", "?")
    if "export_error" in fd:
        m.unmodelled = "export-error"
        return m
    if fd.get("keepalive_lost"):
        m.unmodelled = "a consumed KeepAlive(steal) could not be located in the final IR"
        return m
    vals = fd["values"]

    def idiom(name: str) -> None:
        m.idioms[name] = m.idioms.get(name, 0) + 1
    for v in vals:
        if is_rc(v):
            m.var_of[v["id"]] = len(m.val_of)
            m.val_of.append(v["id"])
    var = m.var_of
    # attribute slots that this function initialises (`SetAttr(is_init=True)`: the emitted C does not release an old
    # value): one pseudo-variable per (object value, attribute) = the reference the function has put into that slot.
    reassigned = {op["dest"] for b in fd["blocks"] for op in b["ops"] if op["op"] in ("Assign", "AssignMulti")}
    slots: dict[tuple[int, str], int] = {}
    for b in fd["blocks"]:
        for op in b["ops"]:
            if op["op"] == "SetAttr" and op.get("is_init") and op.get("attr_rc", True) and op["obj"] not in reassigned:
                key = (op["obj"], op["attr"])
                if key not in slots:
                    slots[key] = len(m.val_of) + len(slots)
    def_op = {op["dest"]: op["op"] for b in fd["blocks"] for op in b["ops"]
              if op.get("dest") is not None and op["op"] not in ("Assign", "AssignMulti")}
    m.slot_names = {sv: f"slot {vals[o]['name'] or 'v%d' % o}.{a}" for (o, a), sv in slots.items()}
    m.nvars = len(m.val_of) + len(slots)
    slot_objs: dict[int, list[int]] = {}
    for (o, a), sv in slots.items():
        slot_objs.setdefault(o, []).append(sv)
    for a in fd["args"]:
        if a["v"] in var:
            m.args.append((var[a["v"]], ARG_OPTIONAL if a["optional"] else ARG_BORROWED))

    # values tested by Branch IS_ERROR; addresses of refcounted registers
    tested: set[int] = set()
    addr_of: dict[int, int] = {}
    for b in fd["blocks"]:
        for op in b["ops"]:
            if op["op"] == "Branch" and op["kind"] == "IS_ERROR":
                tested.add(op["value"])
            if op["op"] == "LoadAddress" and op.get("src_kind") == "reg" and op["src"] in var:
                addr_of[op["dest"]] = op["src"]
    # every consumer of such an address must be covered by a contract
    out_calls: dict[int, tuple[str, int]] = {}     # id of consuming op's dest -> (contract, out register value id)
    for b in fd["blocks"]:
        for op in b["ops"]:
            for i, s in enumerate(op["srcs"]):
                if s in addr_of:
                    key = (op["op"], op.get("function") or op.get("method"), i)
                    c = OUT_PARAM_CONTRACTS.get(key)
                    if c is None or op.get("dest") is None:
                        m.unmodelled = f"address-of-register passed to {key[0]} {key[1]} arg {i}"
                        return m
                    if op["dest"] in out_calls:
                        m.unmodelled = "two out-parameters in one call"
                        return m
                    out_calls[op["dest"]] = (c, addr_of[s])

    # values borrowed from the heap, where they are used, and which ops may rebind their owners
    heap_borrowed: set[int] = set()
    type_ptrs = {op["dest"] for b in fd["blocks"] for op in b["ops"]
                 if op["op"] == "GetElementPtr" and op.get("field") == "ob_type"}
    for _ in range(4):
        for b in fd["blocks"]:
            for op in b["ops"]:
                d = op.get("dest")
                if d not in var or not op.get("borrowed") or d in heap_borrowed:
                    continue
                c = op["op"]
                if c == "GetAttr":
                    # a Final attribute has no setter: the borrow lasts as long as the object, which the frame keeps
                    # alive (KeepAlive) — unless the object itself is only borrowed from the heap
                    if not op.get("attr_final") or op["obj"] in heap_borrowed:
                        heap_borrowed.add(d)
                elif c == "LoadMem":
                    if op["srcs"] and op["srcs"][0] not in type_ptrs:      # Py_TYPE(x) lives as long as x
                        heap_borrowed.add(d)
                elif c == "CallC":
                    if op.get("function") not in NON_SLOT_BORROW_CALLC:
                        heap_borrowed.add(d)
                elif c == "Cast" and any(x in heap_borrowed for x in op["srcs"]):
                    heap_borrowed.add(d)
    used_at: dict[int, list[tuple[int, int]]] = {v: [] for v in heap_borrowed}
    if heap_borrowed:
        for bi, b in enumerate(fd["blocks"]):
            for oi, op in enumerate(b["ops"]):
                for x in op["srcs"]:
                    if x in heap_borrowed:
                        used_at[x].append((bi, oi))

    # keep-alive rule: a borrowed result lives only as long as the values it was borrowed from (the tuple of a
    # borrowed TupleGet, the object of a borrowed GetAttr, the source of a borrowed Cast, the container argument of
    # a borrowing C primitive): when such a source gives up a reference (DecRef / stolen operand) the borrowed value
    # has lost its keeper.  (The refcount pass delays that DecRef behind the last use iff irbuild emitted a KeepAlive.)
    borrow_src: dict[int, list[int]] = {}
    for b in fd["blocks"]:
        for op in b["ops"]:
            d = op.get("dest")
            if d in var and op.get("borrowed") and op["op"] in KEPT_BY_SOURCE_OPS \
                    and op.get("function") not in NON_SLOT_BORROW_CALLC:
                srcs = [x for x in op["srcs"] if x in var]
                if srcs:
                    borrow_src[d] = srcs
    dependants: dict[int, list[int]] = {}
    for d, srcs in borrow_src.items():
        for x in srcs:
            dependants.setdefault(x, []).append(d)
    dep_used_at: dict[int, list[tuple[int, int]]] = {d: [] for d in borrow_src}
    if borrow_src:
        for bi, b in enumerate(fd["blocks"]):
            for oi, op in enumerate(b["ops"]):
                for x in op["srcs"]:
                    if x in dep_used_at and op["op"] != "Unborrow":
                        dep_used_at[x].append((bi, oi))

    def released(src: int, bi: int, oi: int) -> list[int]:
        """borrowed values kept alive by `src` that may still be read after op (bi, oi)"""
        return sorted(d for d in dependants.get(src, ())
                      if any((ub != bi) or (uo > oi) for ub, uo in dep_used_at[d]))

    def clobbered_by(bi: int, oi: int) -> list[int]:
        """heap-borrowed values that may still be read after op (bi, oi) (coarse: any later use in this block or any
        use in another block)"""
        return sorted(v for v in heap_borrowed
                      if any((ub != bi) or (uo > oi) for ub, uo in used_at[v]))

    try:
        for bi_cur, b in enumerate(fd["blocks"]):
            ops: list[tuple[int, int, int, int]] = []
            term: Any = None
            blk_ops = b["ops"]
            pending_after: dict[int, list[int]] = {}
            if bi_cur == 0:
                for sv in slots.values():
                    ops.append((DEFINE, sv, NULL, 0))          # a slot nobody has written yet holds NULL
            for oi, op in enumerate(blk_ops):
                c = op["op"]
                if c == "Return":
                    for sv in slots.values():
                        ops.append((DECREF, sv, 1, oi))        # the reference stays in the heap: not the frame's any more
                for s in pending_after.pop(oi, []):
                    if s in var:
                        ops.append((STEAL, var[s], 0, oi))
                        idiom("keepalive-steal")
                if c in ("Goto", "Unreachable", "Return", "Branch", "IncRef", "DecRef", "Assign", "LoadAddress") \
                        and (op.get("ka_steal_before") or op.get("ka_steal_after")):
                    if op.get("ka_steal_after"):
                        raise Unmodelled("KeepAlive(steal) anchored after a " + c)
                    for s in op["ka_steal_before"]:
                        if s in var:
                            ops.append((STEAL, var[s], 0, oi))
                            idiom("keepalive-steal")
                if c not in MODELLED_OPS:
                    raise Unmodelled("op class " + c)
                if (c == "Goto" and op["label"] < 0) or (c == "Branch" and (op["true"] < 0 or op["false"] < 0)):
                    raise Unmodelled("branch to a block that is not part of the function")
                if c == "Goto":
                    term = ("br", [([], op["label"])])
                elif c == "Unreachable":
                    term = ("unreachable",)
                elif c == "Return":
                    term = ("ret", var.get(op["value"]))
                elif c == "Branch":
                    t_ops: list = []
                    f_ops: list = []
                    v = op["value"]
                    if op["kind"] == "IS_ERROR":
                        if v in var:
                            err, ok = [(ASSUME_NULL, var[v], 0, oi)], [(ASSUME_OK, var[v], 0, oi)]
                        else:
                            err, ok = [], []
                        oc = out_calls.get(v)
                        if oc is not None:
                            contract, reg = oc
                            if contract == "null_iff_error":
                                err = err + [(ASSUME_NULL, var[reg], 0, oi)]
                                ok = ok + [(ASSUME_OK, var[reg], 0, oi)]
                            else:  # set_only_if_result_error
                                ok = ok + [(ASSUME_NULL, var[reg], 0, oi)]
                        if op["negated"]:
                            t_ops, f_ops = ok, err
                        else:
                            t_ops, f_ops = err, ok
                    else:
                        # `c = (p == 0)` / `(p != 0)` on a tracked pointer p, defined in this block, then `if c`:
                        # the same refinement as IS_ERROR (this is how `propagate_if_error` is lowered)
                        cmp = next((x for x in blk_ops[:oi] if x.get("dest") == v and x["op"] == "ComparisonOp"), None)
                        if cmp is not None and cmp.get("opcode") in ("==", "!=") and len(cmp["srcs"]) == 2:
                            a, bb = cmp["srcs"]
                            if vals[a]["kind"] == "int":
                                a, bb = bb, a
                            if a in var and vals[bb]["kind"] == "int" and vals[bb]["value"] == 0:
                                ci = blk_ops.index(cmp)
                                stable = all(not (x.get("dest") == a or (x["op"] == "Assign" and x["src"] == a)
                                                  or a in x.get("stolen", [])) for x in blk_ops[ci + 1:oi])
                                if stable:
                                    isnull, nonnull = [(ASSUME_NULL, var[a], 0, oi)], [(ASSUME_OK, var[a], 0, oi)]
                                    eq = cmp["opcode"] == "=="
                                    if op["negated"]:
                                        eq = not eq
                                    t_ops, f_ops = (isnull, nonnull) if eq else (nonnull, isnull)
                                    idiom("null-comparison-branch")
                    term = ("br", [(t_ops, op["true"]), (f_ops, op["false"])])
                elif c == "IncRef":
                    if op["src"] in var:
                        ops.append((INCREF, var[op["src"]], 0, oi))
                elif c == "DecRef":
                    if op["src"] in var:
                        ops.append((DECREF, var[op["src"]], 1 if op["xdec"] else 0, oi))
                        for hv in released(op["src"], bi_cur, oi):
                            ops.append((CLOBBER, var[hv], 0, oi))
                            idiom("borrow-source-released")
                elif c == "Assign":
                    d, s = op["dest"], op["src"]
                    sv = vals[s]
                    if d in var:
                        if s in var:
                            if s != d:
                                ops.append((MOVE, var[d], var[s], oi))
                        elif sv["kind"] == "int" and vals[d]["type"]["name"] in ("int", "short_int"):
                            ops.append((DEFINE, var[d], IMM, oi))
                        elif sv["kind"] == "int" and sv["value"] == 0:
                            ops.append((DEFINE, var[d], NULL, oi))      # NULL pointer literal
                        elif sv["kind"] in ("op", "reg") and not sv["type"]["rc"] and vals[d]["type"]["name"] == "int" \
                                and sv["type"]["name"] in ("short_int", "bool", "bit"):
                            ops.append((DEFINE, var[d], IMM, oi))
                        else:
                            raise Unmodelled(f"Assign {vals[d]['type']['name']} := {sv['kind']} {sv['type']['name']}")
                    elif s in var:
                        ops.append((USE, var[s], 0, oi))
                elif c == "LoadAddress":
                    # &reg reads nothing; the address of a global object (e.g. _Py_NoneStruct) is a borrowed reference
                    if op["dest"] in var:
                        ops.append((DEFINE, var[op["dest"]], BORROWED, oi))
                else:
                    for s in op.get("ka_steal_before", []):
                        if s in var:
                            ops.append((STEAL, var[s], 0, oi))
                            idiom("keepalive-steal")
                    stolen = list(op["stolen"])
                    seen: list[int] = []
                    for i, s in enumerate(op["srcs"]):
                        if s in seen or s not in var:
                            continue
                        seen.append(s)
                        if s in stolen:
                            continue
                        code = USE
                        if c in ("ComparisonOp",):
                            code = USE_MAYBE                           # pointer comparison: no dereference
                        elif c == "CallC" and all((op["function"], j) in NULLABLE_CALLC_ARGS
                                                  for j, x in enumerate(op["srcs"]) if x == s):
                            code = USE_MAYBE
                        elif c in ("Call", "MethodCall"):
                            # positions of s among the arguments (MethodCall.sources() = args + [obj])
                            pos = [j for j, x in enumerate(op["srcs"]) if x == s]
                            opt = op.get("arg_optional", [])
                            if all(0 <= p < len(opt) and opt[p] for p in pos):
                                code = USE_MAYBE
                        ops.append((code, var[s], 0, oi))
                    for s in stolen:
                        if s in var:
                            ops.append((STEAL_MAYBE if c == "SetAttr" else STEAL, var[s], 0, oi))
                            for hv in released(s, bi_cur, oi):
                                if hv != op.get("dest"):
                                    ops.append((CLOBBER, var[hv], 0, oi))
                                    idiom("borrow-source-released")
                    if c == "SetAttr" and (op["obj"], op["attr"]) in slots:
                        sv = slots[(op["obj"], op["attr"])]
                        if not op.get("is_init"):
                            ops.append((DECREF, sv, 1, oi))    # a normal store releases the old value first
                        # stuck if the slot already owns a reference: leak.  Constants (int literals, static literal
                        # objects) are immortal: overwriting them loses nothing
                        src_def = def_op.get(op["src"])
                        const = op["src"] not in var or (src_def in ("LoadLiteral", "LoadAddress", "LoadStatic", "LoadGlobal"))
                        ops.append((DEFINE, sv, IMM if const else OWNED, oi))
                        idiom("init-slot")
                    if op.get("dest") in slot_objs:
                        for sv in slot_objs[op["dest"]]:        # a new object: its slots are empty again
                            ops.append((DECREF, sv, 1, oi))
                            ops.append((DEFINE, sv, NULL, oi))
                    if heap_borrowed and may_rebind(op):
                        for hv in clobbered_by(bi_cur, oi):
                            ops.append((CLOBBER, var[hv], 0, oi))
                            idiom("borrow-clobber")
                    d = op.get("dest")
                    if d is not None and d in var:
                        if c == "LoadErrorValue":
                            kind = NULL
                        else:
                            maybe = op["error_kind"] in (ERR_MAGIC, ERR_MAGIC_OVERLAPPING) or \
                                (c == "CallC" and op["returns_null"]) or (d in tested and c in CAN_BE_NULL_WHEN_TESTED)
                            if c == "GetAttr" and op["attr"].startswith(SPILL_ATTR_PREFIX) and d not in tested:
                                # read-back of a spill slot (spill.py inserts it after the exception transform,
                                # without an error branch): the slot holds the spilled value — heap invariant, trusted
                                maybe = False
                                idiom("spill-read")
                            elif c == "GetAttr" and op["error_kind"] == ERR_NEVER and not op.get("allow_error_value") \
                                    and "attr_always_initialized" in op \
                                    and not (op["attr_always_initialized"] and not op["attr_deletable"]):
                                # side condition: no error branch follows, but the ClassIR does not guarantee that
                                # the slot is non-NULL (not always initialised, or deletable)
                                maybe = True
                                idiom("getattr-nonfailing-without-guarantee")
                            elif c == "CallC" and op["error_kind"] == ERR_NEVER and not maybe and d not in tested \
                                    and op["function"] not in OOM_ONLY_PRIMITIVES \
                                    and op["function"] not in ITERATION_PROTOCOL_PRIMITIVES:
                                why = c_can_return_null(op["function"])
                                if why:
                                    # declared never-failing (no error branch follows) but the C function can return NULL
                                    maybe = True
                                    idiom("never-failing-primitive-can-return-null:" + op["function"])
                            takeover = False
                            if c == "LoadMem" and op["borrowed"]:
                                # `old = borrow *p; dec_ref old; … *p = new` (irbuild/vec.py vec_set_item): the
                                # slot's own reference is taken over and released before the slot is overwritten
                                rest = blk_ops[oi + 1:]
                                k = 0
                                while k < len(rest) and rest[k]["op"] in ("IncRef", "DecRef"):
                                    k += 1
                                if rest and rest[0]["op"] == "DecRef" and rest[0]["src"] == d and k < len(rest) \
                                        and rest[k]["op"] == "SetMem" and rest[k]["srcs"][-1] == op["srcs"][0] \
                                        and sum(1 for bb2 in fd["blocks"] for x in bb2["ops"] if d in x["srcs"]) == 1:
                                    takeover = True
                                    idiom("slot-takeover")
                            if takeover:
                                kind = OWNED
                            elif op["borrowed"]:
                                kind = MAYBE_BORROWED if maybe else BORROWED
                            else:
                                kind = MAYBE if maybe else OWNED
                        ops.append((DEFINE, var[d], kind, oi))
                    if op.get("ka_steal_after"):
                        # the consumed KeepAlive came after this op and the refcount ops inserted behind it
                        k = oi + 1
                        while k < len(blk_ops) and blk_ops[k]["op"] in ("IncRef", "DecRef"):
                            k += 1
                        pending_after.setdefault(k, []).extend(op["ka_steal_after"])
                    oc = out_calls.get(d) if d is not None else None
                    if oc is not None:
                        contract, reg = oc
                        last = blk_ops[-1]
                        between = blk_ops[oi + 1:-1]
                        if not (last["op"] == "Branch" and last["kind"] == "IS_ERROR" and last["value"] == d
                                and all(x["op"] in ("IncRef", "DecRef") and x["src"] != reg for x in between)):
                            raise Unmodelled("out-parameter call not followed by its error branch")
                        idiom("out-parameter:" + contract)
                        # the callee writes through the pointer: an owned reference or NULL
                        ops.append((DEFINE, var[reg], MAYBE, oi))
            if term is None:
                raise Unmodelled("block without terminator")
            m.blocks.append({"ops": ops, "term": term})
    except Unmodelled as e:
        m.unmodelled = str(e)
    return m


def line_check(m: Micro) -> str:
    """driver request: verify this function"""
    return "0 " + encode(m)


def line_replay(m: Micro, w: dict) -> str:
    """driver request: replay the witness `w` (of concrete_witness) in the Lean semantics"""
    out = [1, len(w["null_args"])] + list(w["null_args"]) + [len(w["choices"])]
    for a, b, c in w["choices"]:
        out += [a, b, c]
    return " ".join(map(str, out)) + " " + encode(m)


def encode(m: Micro) -> str:
    """One line of naturals:
       nvars nargs (var kind)* nblocks ( nops (code a b)* term )*
       term: 0 = unreachable | 1 = return nothing tracked | 2 v = return v | 3 nedges ( nops (code a b)* target )*"""
    out: list[int] = [m.nvars, len(m.args)]
    for v, k in m.args:
        out += [v, k]
    out.append(len(m.blocks))
    for b in m.blocks:
        out.append(len(b["ops"]))
        for code, a, bb, _ in b["ops"]:
            out += [code, a, bb]
        t = b["term"]
        if t[0] == "unreachable":
            out.append(0)
        elif t[0] == "ret":
            if t[1] is None:
                out.append(1)
            else:
                out += [2, t[1]]
        else:
            out += [3, len(t[1])]
            for eops, tgt in t[1]:
                out.append(len(eops))
                for code, a, bb, _ in eops:
                    out += [code, a, bb]
                out.append(tgt)
    return " ".join(map(str, out))


def show_op(m: Micro, fd: dict, mop: tuple) -> str:
    code, a, b, _ = mop
    vals = fd["values"]

    def nm(v: int) -> str:
        if v >= len(m.val_of):
            return m.slot_names.get(v, f"slot{v}")
        x = vals[m.val_of[v]]
        return x["name"] or f"v{x['id']}"
    if code == DEFINE:
        return f"define {nm(a)} {KIND_NAMES[b]}"
    if code == DECREF:
        return f"{'xdecref' if b else 'decref'} {nm(a)}"
    if code == MOVE:
        return f"move {nm(a)} := {nm(b)}"
    return f"{OP_NAMES[code]} {nm(a)}"


def lean_term(m: Micro) -> str:
    """The same function as a Lean term of type `Own.FuncIR` (for Gen/C06Sample.lean)."""
    def mo(t: tuple) -> str:
        code, a, b, _ = t
        if code == DEFINE:
            return f".define {a} .{KIND_NAMES[b]}"
        if code == DECREF:
            return f".decref {a} {'true' if b else 'false'}"
        if code == MOVE:
            return f".move {a} {b}"
        return f".{OP_NAMES[code]} {a}"

    def term(t: tuple) -> str:
        if t[0] == "unreachable":
            return ".unreachable"
        if t[0] == "ret":
            return ".ret none" if t[1] is None else f".ret (some {t[1]})"
        return ".br [" + ", ".join("⟨[" + ", ".join(mo(x) for x in eo) + f"], {tg}⟩" for eo, tg in t[1]) + "]"
    blocks = ",\n      ".join("⟨[" + ", ".join(mo(x) for x in b["ops"]) + "], " + term(b["term"]) + "⟩" for b in m.blocks)
    args = ", ".join(f"({v}, {'.optional' if k else '.borrowed'})" for v, k in m.args)
    return f"{{ nvars := {m.nvars}, args := [{args}],\n    blocks := #[\n      {blocks}] }}"


# ======================================================================================================
# Reference implementation (Python) of Model/IR.lean + Model/Ownership.lean.
# Used for *diagnostics only*: the verdict on a function is the Lean driver's `checkFunc`; this code finds the
# first failing micro-op (to name the IR op / value in reports) and a concrete witness path whose choice
# indices follow the order of the successor lists of `runOps` in Model/IR.lean, so that `replayFrom` (Lean)
# can re-check it.
# Concrete values: "U" undef, "N" null, "I" imm, (owned, kept).
# ======================================================================================================
MAX_OWNED = 4
KIND_VALS = {OWNED: [(1, False)], MAYBE: [(1, False), "N"], BORROWED: [(0, True)], MAYBE_BORROWED: [(0, True), "N"],
             NULL: ["N"], IMM: ["I"]}


def owns(c: Any) -> bool:
    return isinstance(c, tuple) and c[0] > 0


def usable(c: Any) -> bool:
    return c == "I" or (isinstance(c, tuple) and (c[0] > 0 or c[1]))


def step_steal(c: Any) -> list | None:
    if c == "I":
        return ["I"]
    if isinstance(c, tuple) and c[0] > 0:
        return [(c[0] - 1, c[1])]
    return None


def step_val(code: int, b: int, c: Any) -> list | None:
    """`stepVal` of Model/IR.lean."""
    if code == DEFINE:
        return None if owns(c) else list(KIND_VALS[b])
    if code == INCREF:
        if c == "I":
            return ["I"]
        if isinstance(c, tuple) and (c[0] > 0 or c[1]):
            return [(c[0] + 1, c[1])]
        return None
    if code == DECREF:
        if c == "I":
            return ["I"]
        if isinstance(c, tuple):
            return [(c[0] - 1, c[1])] if c[0] > 0 else None
        if c == "N":
            return ["N"] if b else None
        return None
    if code == STEAL:
        return step_steal(c)
    if code == STEAL_MAYBE:
        return ["N"] if c == "N" else step_steal(c)
    if code == USE:
        return [c] if usable(c) else None
    if code == USE_MAYBE:
        return [c] if usable(c) or c == "N" else None
    if code == ASSUME_NULL:
        if c == "U":
            return None
        return ["N"] if c == "N" else []
    if code == ASSUME_OK:
        if c == "U":
            return None
        return [] if c == "N" else [c]
    if code == CLOBBER:
        return [(c[0], False)] if isinstance(c, tuple) else [c]
    return None


def move_src(c: Any) -> tuple | None:
    if c == "I":
        return ("I", "I")
    if c == "N":
        return ("N", "N")
    if isinstance(c, tuple) and c[0] > 0:
        return ((1, c[1]), (c[0] - 1, c[1]))
    return None


def ret_val(c: Any) -> Any:
    if c in ("I", "N"):
        return c
    if isinstance(c, tuple) and c[0] > 0:
        return (c[0] - 1, c[1])
    return None


def in_bound(c: Any) -> bool:
    return not isinstance(c, tuple) or c[0] <= MAX_OWNED


class _Bad(Exception):
    pass


def _a_op(st: list, mop: tuple, where: Any) -> None:
    code, a, b, _ = mop
    if code == MOVE:
        if a == b:
            raise _Bad((where, mop, a, "self-move"))
        for cd in st[a]:
            if owns(cd):
                raise _Bad((where, mop, a, cd))
        nd, ns = set(), set()
        for cs in st[b]:
            r = move_src(cs)
            if r is None:
                raise _Bad((where, mop, b, cs))
            nd.add(r[0])
            ns.add(r[1])
        if not all(in_bound(x) for x in nd | ns):
            raise _Bad((where, mop, b, "overflow"))
        st[b] = frozenset(ns)
        st[a] = frozenset(nd)
        return
    new = set()
    for c in st[a]:
        r = step_val(code, b, c)
        if r is None:
            raise _Bad((where, mop, a, c))
        for x in r:
            if not in_bound(x):
                raise _Bad((where, mop, a, "overflow"))
            new.add(x)
    st[a] = frozenset(new)


def init_sets(m: Micro) -> list:
    init = [frozenset(["U"])] * m.nvars
    for v, k in m.args:
        if v < m.nvars and init[v] == frozenset(["U"]):   # first listing wins, like argKindOf
            init[v] = frozenset([(0, True)]) if k == ARG_BORROWED else frozenset([(0, True), "N"])
    return init


def check(m: Micro) -> tuple | None:
    """`checkFunc` (same domain, same worklist order).  None = accepted, else
    (where, micro-op or pseudo-op, variable, offending value)."""
    nb = len(m.blocks)
    if nb == 0:
        return (("entry",), ("noblocks",), 0, None)
    ann: list = [None] * nb
    ann[0] = init_sets(m)
    work = [0]
    fuel = 64 + nb * 40
    try:
        while work and fuel > 0:
            fuel -= 1
            bi = min(work)
            work.remove(bi)
            st = list(ann[bi])
            blk = m.blocks[bi]
            for i, mop in enumerate(blk["ops"]):
                _a_op(st, mop, (bi, i))
            t = blk["term"]
            if t[0] == "unreachable":
                continue
            if t[0] == "ret":
                if t[1] is not None:
                    new = set()
                    for c in st[t[1]]:
                        r = ret_val(c)
                        if r is None:
                            raise _Bad(((bi, "ret"), ("ret", t[1]), t[1], c))
                        new.add(r)
                    st[t[1]] = frozenset(new)
                for v in range(m.nvars):
                    for c in st[v]:
                        if owns(c):
                            raise _Bad(((bi, "ret"), ("leak", v), v, c))
                continue
            for ei, (eops, tgt) in enumerate(t[1]):
                s2 = list(st)
                for j, mop in enumerate(eops):
                    _a_op(s2, mop, (bi, ("edge", ei, j)))
                if any(not s2[mop[1]] for mop in eops):
                    continue
                if tgt >= nb:
                    raise _Bad(((bi, "term"), ("badtarget", tgt), 0, None))
                if ann[tgt] is None:
                    ann[tgt] = s2
                    if tgt not in work:
                        work.append(tgt)
                else:
                    cur = ann[tgt]
                    ch = False
                    for v in range(m.nvars):
                        if not s2[v] <= cur[v]:
                            cur[v] = cur[v] | s2[v]
                            ch = True
                    if ch and tgt not in work:
                        work.append(tgt)
        if work:
            return (("infer",), ("fuel",), 0, None)
    except _Bad as e:
        return e.args[0]
    return None


# ---- concrete semantics with the successor-list order of Model/IR.lean ---------------------------------------
def step_op(mop: tuple, s: tuple) -> list | None:
    code, a, b, _ = mop
    if code == MOVE:
        if a == b or owns(s[a]):
            return None
        r = move_src(s[b])
        if r is None:
            return None
        t = list(s)
        t[b] = r[1]
        t[a] = r[0]
        return [tuple(t)]
    r = step_val(code, b, s[a])
    if r is None:
        return None
    out = []
    for c in r:
        t = list(s)
        t[a] = c
        out.append(tuple(t))
    return out


def run_ops(ops: list, s: tuple) -> list | None:
    """`runOps`: list of successor states in Lean's order, None = stuck somewhere."""
    cur = [s]
    for mop in ops:
        nxt: list = []
        for x in cur:
            r = step_op(mop, x)
            if r is None:
                return None
            nxt += r
        cur = nxt
    return cur


def _run_ops_lean_order(ops: list, s: tuple) -> list | None:
    # runOps (op :: rest) s = bindAll (runOps rest) (stepOp op s): depth-first concatenation — the same order as
    # the breadth-wise expansion above (both enumerate choices lexicographically), kept for clarity
    return run_ops(ops, s)


def term_unsafe(m: Micro, s: tuple, t: tuple) -> bool:
    if t[0] == "unreachable":
        return False
    if t[0] == "ret":
        if t[1] is not None:
            r = ret_val(s[t[1]])
            if r is None:
                return True
            s = s[:t[1]] + (r,) + s[t[1] + 1:]
        return any(owns(c) for c in s)
    return any(tgt >= len(m.blocks) or run_ops(eops, s) is None for eops, tgt in t[1])


def block_unsafe(m: Micro, l: int, s: tuple) -> bool:
    if l >= len(m.blocks):
        return True
    ss = run_ops(m.blocks[l]["ops"], s)
    if ss is None:
        return True
    return any(term_unsafe(m, x, m.blocks[l]["term"]) for x in ss)


def init_states(m: Micro) -> list[tuple[list[int], tuple]]:
    """[(optional arguments passed as the error value, initial state)]: none, each single one, all."""
    kinds: dict[int, int] = {}
    for v, k in m.args:
        kinds.setdefault(v, k)
    opt = [v for v, k in kinds.items() if k == ARG_OPTIONAL]
    combos: list[list[int]] = [[]] + [[v] for v in opt] + ([opt] if len(opt) > 1 else [])
    out = []
    for nulls in combos:
        s = ["U"] * m.nvars
        for v in kinds:
            if v < m.nvars:
                s[v] = "N" if v in nulls else (0, True)
        out.append((nulls, tuple(s)))
    return out


def concrete_witness(m: Micro, cap: int = 60000) -> dict | None:
    """Breadth-first search in the concrete semantics for a shortest path from an initial state to an unsafe
    block entry.  Returns {"null_args": [...], "choices": [(afterOps, edge, afterEdge)], "labels": [...]} whose
    indices are valid for `replayFrom` of Model/IR.lean, or None (cap reached / none exists)."""
    from collections import deque
    seen = set()
    q: deque = deque()
    parent: dict = {}
    for nulls, s in init_states(m):
        key = (0, s)
        if key not in seen:
            seen.add(key)
            parent[key] = (None, None, tuple(nulls))
            q.append(key)
    n = 0
    while q:
        key = q.popleft()
        l, s = key
        n += 1
        if n > cap:
            return None
        if block_unsafe(m, l, s):
            choices, labels = [], [l]
            k = key
            while parent[k][0] is not None:
                pk, ch, _ = parent[k]
                choices.append(ch)
                labels.append(pk[0])
                k = pk
            return {"null_args": list(parent[k][2]), "choices": choices[::-1], "labels": labels[::-1]}
        blk = m.blocks[l]
        if blk["term"][0] != "br":
            continue
        ss = run_ops(blk["ops"], s)
        assert ss is not None
        for i, s1 in enumerate(ss):
            for j, (eops, tgt) in enumerate(blk["term"][1]):
                ss2 = run_ops(eops, s1)
                assert ss2 is not None
                for k2, s2 in enumerate(ss2):
                    nk = (tgt, s2)
                    if nk not in seen:
                        seen.add(nk)
                        parent[nk] = (key, (i, j, k2), None)
                        q.append(nk)
    return None


def describe_failure(m: Micro, fd: dict, bad: tuple) -> dict:
    """Name the IR op / value a rejection is about."""
    where, mop, v, c = bad
    out: dict[str, Any] = {"where": list(where) if isinstance(where, tuple) else where, "value": str(c)}
    vals = fd["values"]
    if isinstance(mop, tuple) and len(mop) == 4:
        out["micro_op"] = show_op(m, fd, mop)
        out["micro_kind"] = OP_NAMES[mop[0]]
        bi = where[0]
        irop = fd["blocks"][bi]["ops"][mop[3]]
        out["ir_op"] = irop["op"]
        out["ir_function"] = irop.get("function") or irop.get("method") or irop.get("callee")
        out["ir_line"] = irop.get("line")
    else:
        out["micro_kind"] = mop[0]
    if isinstance(v, int) and v >= len(m.val_of) and v in m.slot_names:
        out["var"] = m.slot_names[v]
        out["var_kind"] = "init-slot"
    if isinstance(v, int) and v < len(m.val_of):
        x = vals[m.val_of[v]]
        out["var"] = x["name"] or f"v{x['id']}"
        out["var_kind"] = x["kind"]
        out["var_named"] = bool(x.get("pyname"))
        # how the value is produced
        for b in fd["blocks"]:
            for op in b["ops"]:
                if op.get("dest") == x["id"] and op["op"] not in ("Assign",):
                    out["var_def"] = {"op": op["op"], "function": op.get("function"),
                                      "args": [_operand_desc(fd, s) for s in op["srcs"]],
                                      "error_kind": op.get("error_kind"), "borrowed": op.get("borrowed")}
                    if op["op"] == "CallC" and op.get("error_kind") == ERR_NEVER:
                        out["var_def"]["c_can_return_null"] = c_can_return_null(op.get("function") or "")
                    if op["op"] == "GetAttr":
                        out["var_def"].update({k: op.get(k) for k in ("attr", "class_name", "error_kind", "borrowed",
                                                                      "attr_always_initialized", "attr_deletable",
                                                                      "attr_has_default", "attr_final")})
    return out


def _operand_desc(fd: dict, vid: int) -> str:
    for b in fd["blocks"]:
        for op in b["ops"]:
            if op.get("dest") == vid:
                if op["op"] == "LoadStatic":
                    return f"static:{op.get('namespace')}:{op.get('identifier')}"
                if op["op"] == "LoadLiteral":
                    return f"literal:{op.get('value')}"
                return op["op"]
    v = fd["values"][vid]
    return v["kind"]


# ---------------------------------------------------------------------------------------------------------------
# Gen/C06Sample.lean: real final IR as Lean data, checked by the kernel (`sample_accepted_safe`,
# `sample_rejected_unsafe` in Props/C06.lean)
# ---------------------------------------------------------------------------------------------------------------
SAMPLE_FILES = ["refcount.test", "exceptions.test"]
SAMPLE_MAX_MICRO_OPS = 60
SAMPLE_MAX_ACCEPTED = 40
SAMPLE_MAX_REJECTED_OPS = 800
KNOWN_BAD_PROGRAMS = {
    # F14: close() of a generated generator class
    "f14": "from typing import Iterator\ndef gen(n: int) -> Iterator[int]:\n    for i in range(n):\n        yield i\n",
    # temp register (result of the first await) live across the second await
    "await_temp": "from typing import Any\nasync def one(x: Any) -> Any:\n    return x\n"
                  "async def both(a: Any, b: Any) -> Any:\n    return await one(a) + await one(b)\n",
}


def micro_size(m: Micro) -> int:
    n = 0
    for b in m.blocks:
        n += len(b["ops"]) + 1
        if b["term"][0] == "br":
            n += sum(len(e[0]) for e in b["term"][1])
    return n


def _sample_job(job: tuple) -> tuple:
    """(key, [(fullname, name, Micro)] or None) — runs in a worker process."""
    import os
    import shutil
    from translate import ir_export as X
    i, key, case, workdir = job
    wd = os.path.join(workdir, f"p{os.getpid()}", f"s{i}")
    try:
        mods, side = X.compile_case(case, wd, want_pre=False)
        return key, [(r["final"].get("fullname", "?"), r["final"].get("name"), flatten(r["final"]))
                     for r in X.export_modules(mods, side)]
    except X.CompileFailure:
        return key, None
    finally:
        shutil.rmtree(wd, ignore_errors=True)


def build_sample(workdir: str, procs: int = 4) -> dict:
    """Compile the sample programs with the checked tree's mypyc and split their functions."""
    import os
    from multiprocessing import Pool
    from translate import ir_export as X
    accepted: list[tuple[str, Micro]] = []
    rejected: list[tuple[str, Micro, dict]] = []
    stats = {"compiled": 0, "failed": 0, "functions": 0, "too_big": 0, "unmodelled": 0}
    cases = []
    d = os.path.join(X.REPO, "mypyc", "test-data")
    for f in SAMPLE_FILES:
        p = os.path.join(d, f)
        if os.path.exists(p):
            cases += X.parse_test_file(p)
    jobs: list[tuple] = [(c.key, c) for c in cases[::2]]      # every second case: enough small functions
    for name, src in KNOWN_BAD_PROGRAMS.items():
        jobs.append((name, X.Case("<known>", name, src, {}, "known")))
    X.fixture_lib_dir(workdir)
    args = [(i, key, case, workdir) for i, (key, case) in enumerate(jobs)]
    if procs > 1:
        with Pool(procs) as pool:
            results = pool.map(_sample_job, args, chunksize=4)
    else:
        results = [_sample_job(a) for a in args]
    for key, funcs in results:
        if funcs is None:
            stats["failed"] += 1
            continue
        stats["compiled"] += 1
        for fullname, name, m in funcs:
            stats["functions"] += 1
            if m.unmodelled:
                stats["unmodelled"] += 1
                continue
            bad = check(m)
            if bad is None:
                if micro_size(m) <= SAMPLE_MAX_MICRO_OPS and name != "__top_level__":
                    accepted.append((f"{key}:{fullname}", m))
                else:
                    stats["too_big"] += 1
            else:
                w = concrete_witness(m, cap=20000)
                if w is not None and not w["null_args"] and micro_size(m) <= SAMPLE_MAX_REJECTED_OPS:
                    rejected.append((f"{key}:{fullname}", m, w))
    # deterministic thinning of the accepted list
    if len(accepted) > SAMPLE_MAX_ACCEPTED:
        step = len(accepted) / SAMPLE_MAX_ACCEPTED
        accepted = [accepted[int(k * step)] for k in range(SAMPLE_MAX_ACCEPTED)]
    return {"accepted": accepted, "rejected": rejected, "stats": stats}


def render_sample(sample: dict) -> str:
    out = ["-- GENERATED by translate/c06_micro.py from the checked tree's mypyc — do not edit.",
           "import MypyVerif.Model.IR", "namespace Own.C06Sample", ""]
    names = []
    for i, (name, m) in enumerate(sample["accepted"]):
        out.append(f"/-- {name} -/")
        out.append(f"def acc{i} : FuncIR :=\n  {lean_term(m)}\n")
        names.append(f"acc{i}")
    out.append("def accepted : List FuncIR := [" + ", ".join(names) + "]\n")
    rnames = []
    for i, (name, m, w) in enumerate(sample["rejected"]):
        out.append(f"/-- {name} — rejected; witness path through blocks {w['labels']} -/")
        out.append(f"def rej{i} : FuncIR :=\n  {lean_term(m)}\n")
        ch = ", ".join(f"⟨{a}, {b}, {c}⟩" for a, b, c in w["choices"])
        rnames.append(f"(rej{i}, [{ch}])")
    out.append("def rejected : List (FuncIR × List Choice) := [" + ", ".join(rnames) + "]\n")
    out.append("end Own.C06Sample")
    return "\n".join(out) + "\n"


def main() -> int:
    import os
    import shutil
    import tempfile
    try:
        from harness.vlib.core import LEAN
    except Exception:
        LEAN = os.path.join(os.path.dirname(os.path.dirname(os.path.abspath(__file__))), "lean")
    base = os.environ.get("VERIF_SCRATCH", "/var/tmp")
    d = tempfile.mkdtemp(prefix="verif-c06gen-", dir=base)
    try:
        sample = build_sample(d)
    finally:
        shutil.rmtree(d, ignore_errors=True)
    text = render_sample(sample)
    path = os.path.join(LEAN, "MypyVerif", "Gen", "C06Sample.lean")
    os.makedirs(os.path.dirname(path), exist_ok=True)
    old = open(path).read() if os.path.exists(path) else None
    if old != text:
        with open(path, "w") as f:
            f.write(text)
    print(f"c06_micro: {len(sample['accepted'])} accepted + {len(sample['rejected'])} rejected functions "
          f"-> Gen/C06Sample.lean ({sample['stats']})")
    return 0


if __name__ == "__main__":
    import sys
    sys.exit(main())
