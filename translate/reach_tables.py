"""Translator for C12 (reachability): the finite tables of mypy/reachability.py -> lean/MypyVerif/Gen/ReachTables.lean.

Read from the module object (data):   the five truth-value constants, `inverted_truth_mapping`, `reverse_op`.
Tabulated by running the real code:   the `or` / `and` branches of `infer_condition_value` on all 5 × 5 pairs of
                                      operand values, `fixed_comparison` on the three orderings × six operators,
                                      the special names (PY2, PY3, MYPY, TYPE_CHECKING, always_true, always_false).
Which consider_sys_version_info is in the tree (with or without the open-ended-slice rule of
harness/c12/proposed_fix_F4.diff) is determined by running it on `sys.version_info == (3, 12)` for target 3.12
(`openSliceFix`); a grid of probes around that rule (open-ended and closed slices × 6 operators × equal / unequal
literal × both operand orders) is emitted with the values the real function returns.
Props/C12Reach proves (by `decide` over exactly these regenerated tables) that the hand-written model functions
`invert`, `reverseOp`, `orTable`, `andTable`, `opHolds`/`ofBool`, `nameValue` agree with every entry.
"""
from __future__ import annotations

import importlib
import os
import sys

VERIF = os.path.dirname(os.path.dirname(os.path.abspath(__file__)))
OUT = os.path.join(VERIF, "lean", "MypyVerif", "Gen", "ReachTables.lean")

OPS = {"==": "Op.eq", "!=": "Op.ne", "<": "Op.lt", "<=": "Op.le", ">": "Op.gt", ">=": "Op.ge"}


MISSING: list[str] = []      # what could not be read / run in this tree (fail closed: the table is emitted empty, so
                             # the obligation over it fails and the harness goes on to its search)


def _table(mod, name: str) -> dict:
    """A dict-valued module attribute; an absent or differently shaped one is an empty table (a broken tie, not a crash)."""
    v = getattr(mod, name, None)
    if not isinstance(v, dict):
        MISSING.append(f"mypy.reachability.{name} is " + ("absent" if v is None else f"a {type(v).__name__}, not a dict"))
        return {}
    return dict(v)


def tables() -> dict:
    r = importlib.import_module("mypy.reachability")
    from mypy.nodes import NameExpr, OpExpr, UnaryExpr
    from mypy.options import Options
    tv = {r.ALWAYS_TRUE: "TV.alwaysTrue", r.MYPY_TRUE: "TV.mypyTrue", r.ALWAYS_FALSE: "TV.alwaysFalse",
          r.MYPY_FALSE: "TV.mypyFalse", r.TRUTH_VALUE_UNKNOWN: "TV.unknown"}
    if len(tv) != 5:
        raise SystemExit("translate/reach_tables: the five truth-value constants are not distinct")
    o = Options()
    o.always_true = ["ATN"]
    o.always_false = ["AFN"]
    # one leaf expression for every truth value (checked below)
    leaf = {r.ALWAYS_TRUE: lambda: NameExpr("PY3"), r.ALWAYS_FALSE: lambda: NameExpr("PY2"),
            r.MYPY_TRUE: lambda: NameExpr("MYPY"), r.MYPY_FALSE: lambda: UnaryExpr("not", NameExpr("MYPY")),
            r.TRUTH_VALUE_UNKNOWN: lambda: NameExpr("some_name")}
    names = {n: r.infer_condition_value(NameExpr(n), o) for n in ("PY2", "PY3", "MYPY", "TYPE_CHECKING", "ATN", "AFN", "some_name")}
    order = [r.ALWAYS_TRUE, r.MYPY_TRUE, r.ALWAYS_FALSE, r.MYPY_FALSE, r.TRUTH_VALUE_UNKNOWN]
    leaves_ok = all(r.infer_condition_value(leaf[v](), o) == v for v in order)
    bool_tables = {}
    for op in ("or", "and"):
        rows = []
        for a in order:
            for b in order:
                rows.append((a, b, r.infer_condition_value(OpExpr(op, leaf[a](), leaf[b]()), o)))
        bool_tables[op] = rows
    fixed = []
    for sym in OPS:
        for (l, rr, ordn) in ((1, 2, "Ordering.lt"), (1, 1, "Ordering.eq"), (2, 1, "Ordering.gt")):
            fixed.append((sym, ordn, r.fixed_comparison(l, sym, rr)))
    return {"tv": tv, "invert": _table(r, "inverted_truth_mapping"), "reverse": _table(r, "reverse_op"), "bool": bool_tables,
            "fixed": fixed, "names": names, "leaves_ok": leaves_ok}


def _version_value(src: str, target=(3, 12)) -> int:
    r = importlib.import_module("mypy.reachability")
    from mypy.errors import Errors
    from mypy.fastparse import parse
    from mypy.options import Options
    o = Options()
    tree = parse(f"if {src}: pass\n", "p.py", "p", Errors(o), o)
    try:
        return r.consider_sys_version_info(tree.defs[0].expr[0], target)
    except Exception as e:                    # the real function fails on this probe: recorded, emitted as an impossible value
        MISSING.append(f"consider_sys_version_info raises {type(e).__name__} on `{src}`")
        return -1


def open_slice_fix() -> bool:
    """Does the tree treat an open-ended slice of sys.version_info as longer than an equal tuple?"""
    r = importlib.import_module("mypy.reachability")
    return _version_value("sys.version_info == (3, 12)") == r.ALWAYS_FALSE


def probes() -> list[tuple[str, str, str, str, int]]:
    """(source, lean left operand, lean op, lean right operand, real value) for target 3.12"""
    forms = [("sys.version_info", ".versionInfo", 0), ("sys.version_info[0:]", ".slice (some (.int 0)) none none", 0),
             ("sys.version_info[1:]", ".slice (some (.int 1)) none none", 1), ("sys.version_info[::1]", ".slice none none (some 1)", 0),
             ("sys.version_info[:2]", ".slice none (some (.int 2)) none", 0), ("sys.version_info[1:2]", ".slice (some (.int 1)) (some (.int 2)) none", 1),
             ("sys.version_info[0]", ".index (.int 0)", None), ("sys.version_info[1]", ".index (.int 1)", None)]
    out = []
    for src, lean, lo in forms:
        for minor in (12, 11):
            if lo is None:                     # an index against an int literal: equal / smaller than the component
                k = (3 if minor == 12 else 2) if src.endswith("[0]") else minor
                lit, lean_lit = str(k), f".lit (.int {k})"
            else:
                items = (3, minor)[lo:]
                lit = "(" + ", ".join(map(str, items)) + ("," if len(items) == 1 else "") + ")"
                lean_lit = ".tuple [" + ", ".join(f".int {x}" for x in items) + "]"
            for sym, lop in OPS.items():
                out.append((f"{src} {sym} {lit}", lean, "." + lop[3:], lean_lit, _version_value(f"{src} {sym} {lit}")))
                out.append((f"{lit} {sym} {src}", lean_lit, "." + lop[3:], lean, _version_value(f"{lit} {sym} {src}")))
    return out


def main() -> int:
    del MISSING[:]
    t = tables()
    tv = t["tv"]

    def T(v):
        return tv.get(v, "TV.unknown /- unexpected value %r -/" % (v,))
    L = ["-- GENERATED by translate/reach_tables.py from mypy/reachability.py — do not edit",
         "import MypyVerif.Model.Reach", "namespace Reach.Gen", "",
         "/-- the leaf expressions used to tabulate the and/or branches had the intended values -/",
         f"def leavesOk : Bool := {str(bool(t['leaves_ok'])).lower()}", "",
         "/-- inverted_truth_mapping -/",
         "def invertPairs : List (TV × TV) := [" + ", ".join(f"({T(a)}, {T(b)})" for a, b in t["invert"].items()) + "]", "",
         "/-- reverse_op -/",
         "def reversePairs : List (Op × Op) := [" + ", ".join(f"({OPS[a]}, {OPS[b]})" for a, b in t["reverse"].items()
                                                            if a in OPS and b in OPS) + "]",
         f"def reverseKeys : Nat := {len(t['reverse'])}", ""]
    for op in ("or", "and"):
        L.append(f"/-- infer_condition_value on `l {op} r` for every pair of operand values -/")
        L.append(f"def {op}Entries : List (TV × TV × TV) := [")
        rows = t["bool"][op]
        L += ["  (%s, %s, %s)%s" % (T(a), T(b), T(v), "," if i < len(rows) - 1 else "") for i, (a, b, v) in enumerate(rows)]
        L.append("]")
        L.append("")
    L.append("/-- fixed_comparison(l, op, r) by the ordering of l and r -/")
    L.append("def fixedEntries : List (Op × Ordering × TV) := [" + ", ".join(f"({OPS[s]}, {o}, {T(v)})" for s, o, v in t["fixed"]) + "]")
    L.append("")
    L.append("/-- infer_condition_value on a bare name, with always_true = [ATN], always_false = [AFN] -/")
    L.append("def nameEntries : List (String × TV) := [" + ", ".join(f'("{n}", {T(v)})' for n, v in t["names"].items()) + "]")
    L.append("")
    L.append("/-- does consider_sys_version_info have the open-ended-slice rule (proposed_fix_F4)? -/")
    L.append(f"def openSliceFix : Bool := {str(open_slice_fix()).lower()}")
    L.append("")
    L.append("/-- consider_sys_version_info for target 3.12 on probes around that rule -/")
    L.append("def openSliceProbes : List (Operand × Op × Operand × TV) := [")
    pr = probes()
    L += ["  (%s, %s, %s, %s)%s  -- %s" % (a, op, b, T(v), "," if i < len(pr) - 1 else "", src) for i, (src, a, op, b, v) in enumerate(pr)]
    L.append("]")
    L.append("")
    L.append("/-- what translate/reach_tables.py could not read or run in this tree (must be empty) -/")
    L.append("def missing : List String := [" + ", ".join('"%s"' % m.replace("\\", "/").replace('"', "'") for m in MISSING) + "]")
    L += ["", "end Reach.Gen", ""]
    text = "\n".join(L)
    os.makedirs(os.path.dirname(OUT), exist_ok=True)
    if not os.path.exists(OUT) or open(OUT).read() != text:
        with open(OUT, "w") as f:
            f.write(text)
    return 0


if __name__ == "__main__":
    sys.exit(main())
