"""Translator for C12 (constant folding): facts about the real folders -> lean/MypyVerif/Gen/FoldCfg.lean.

Tabulated by running the real code (`VERIF_REPO` tree):
  * `unaryPlusOnBoolKeepsBool`  — `mypy.constant_fold.constant_fold_unary_op("+", True)` returns the `bool`
                                  operand itself (finding F25) rather than the `int` CPython computes.
Read from the source (AST of mypy/constant_fold.py and mypyc/irbuild/constant_fold.py, constants cross-checked
against the imported modules):
  * `maxFoldedIntBits`, `maxFoldedStrLength` — the module constants MAX_FOLDED_INT_BITS / MAX_FOLDED_STR_LENGTH
                                  (0 and every guard flag `false` on a tree without them);
  * `guardInt{Mul,Shl,Pow}`, `guardStr{Add,MulR,MulL}`, `guardBytes{Add,MulR,MulL}` — which operator branch
    tests the size of its *operands* before evaluating, and only if the test has exactly the expected form
    (`left.bit_length() + right.bit_length() > MAX_FOLDED_INT_BITS: return None` for `*`, … see EXPECT below).
    A guard of any other form, on any other operator, or a constant that differs between AST and import, is
    recorded in NOTE (the harness reports a broken tie) — nothing is skipped silently.
`Model/Fold.lean` is parametrised by these constants; `Props/C12Fold.lean` proves its theorems for whichever
values are generated, and `guard_config_complete` (a declared bound guards every size-increasing operator).
The correspondence (harness/c12/fold.py, incl. the guard-boundary stream) checks the model against the same code.
"""
from __future__ import annotations

import ast
import importlib
import os
import sys

VERIF = os.path.dirname(os.path.dirname(os.path.abspath(__file__)))
OUT = os.path.join(VERIF, "lean", "MypyVerif", "Gen", "FoldCfg.lean")


NOTE = ""          # set when the probe gives an unexpected answer (the harness reports a broken tie)


def facts() -> dict:
    global NOTE
    NOTE = ""
    cf = importlib.import_module("mypy.constant_fold")
    try:
        r_true = cf.constant_fold_unary_op("+", True)
        r_false = cf.constant_fold_unary_op("+", False)
    except Exception as e:  # noqa: BLE001 - never fail here: the correspondence run decides
        r_true = r_false = f"{type(e).__name__}: {e}"
    if r_true is True and r_false is False:
        keeps = True
    elif type(r_true) is int and type(r_false) is int and r_true == 1 and r_false == 0:
        keeps = False
    else:
        keeps = True
        NOTE = (f"translate/c12fold: constant_fold_unary_op('+', bool) returns {r_true!r}/{r_false!r}, neither the "
                "operand nor its int value; Gen/FoldCfg.lean keeps the value for the code as found")
    from harness.vlib.core import REPO
    g, notes = guard_facts(REPO)
    if notes:
        NOTE = (NOTE + " | " if NOTE else "") + "translate/c12fold: " + "; ".join(notes)
    g["unaryPlusOnBoolKeepsBool"] = keeps
    return g


INT_CONST, STR_CONST = "MAX_FOLDED_INT_BITS", "MAX_FOLDED_STR_LENGTH"
# operator -> the only operand-size expression the model knows for it
EXPECT_INT = {"*": ("guardIntMul", "left.bit_length() + right.bit_length()"),
              "<<": ("guardIntShl", "left.bit_length() + right"),
              "**": ("guardIntPow", "left.bit_length() * right")}
# branch test (unparsed) -> (flag, size expression)
EXPECT_STR = {
    "op == '+' and isinstance(left, str) and isinstance(right, str)": ("guardStrAdd", "len(left) + len(right)"),
    "op == '*' and isinstance(left, str) and isinstance(right, int)": ("guardStrMulR", "len(left) * right"),
    "op == '*' and isinstance(left, int) and isinstance(right, str)": ("guardStrMulL", "left * len(right)"),
}
EXPECT_BYTES = {
    "op == '+' and isinstance(left, bytes) and isinstance(right, bytes)": ("guardBytesAdd", "len(left) + len(right)"),
    "op == '*' and isinstance(left, bytes) and isinstance(right, int)": ("guardBytesMulR", "len(left) * right"),
    "op == '*' and isinstance(left, int) and isinstance(right, bytes)": ("guardBytesMulL", "left * len(right)"),
}
FLAGS = [v[0] for d in (EXPECT_INT, EXPECT_STR, EXPECT_BYTES) for v in d.values()]


def _const_value(node: ast.expr):
    """value of a constant expression made of int literals and arithmetic (e.g. `1 << 16`)"""
    for n in ast.walk(node):
        if not isinstance(n, (ast.BinOp, ast.UnaryOp, ast.Constant, ast.operator, ast.unaryop)):
            return None
        if isinstance(n, ast.Constant) and not isinstance(n.value, int):
            return None
    return eval(compile(ast.Expression(node), "<const>", "eval"), {"__builtins__": {}})


def _module_consts(tree: ast.Module) -> dict:
    out = {}
    for st in tree.body:
        tgt = val = None
        if isinstance(st, ast.AnnAssign) and isinstance(st.target, ast.Name):
            tgt, val = st.target.id, st.value
        elif isinstance(st, ast.Assign) and len(st.targets) == 1 and isinstance(st.targets[0], ast.Name):
            tgt, val = st.targets[0].id, st.value
        if tgt in (INT_CONST, STR_CONST) and val is not None:
            out[tgt] = _const_value(val)
    return out


def _is_return_none(body: list) -> bool:
    return len(body) == 1 and isinstance(body[0], ast.Return) and (
        body[0].value is None or (isinstance(body[0].value, ast.Constant) and body[0].value.value is None))


def _size_tests(body: list, const: str) -> list:
    """every `if <expr> > CONST: return None` (negative form) / `if <expr> <= CONST: return …` (positive form)
    inside a branch body: (unparsed size expression, well_formed)"""
    found = []
    for st in body:
        for n in ast.walk(st):
            if isinstance(n, ast.If) and isinstance(n.test, ast.Compare) and any(
                    isinstance(c, ast.Name) and c.id in (INT_CONST, STR_CONST) for c in ast.walk(n.test)):
                t = n.test
                ok = (len(t.ops) == 1 and len(t.comparators) == 1 and isinstance(t.comparators[0], ast.Name)
                      and t.comparators[0].id == const)
                neg = ok and isinstance(t.ops[0], ast.Gt) and _is_return_none(n.body) and not n.orelse
                pos = ok and isinstance(t.ops[0], ast.LtE) and len(n.body) == 1 and isinstance(n.body[0], ast.Return) \
                    and not n.orelse
                found.append((ast.unparse(t.left), bool(neg or pos)))
    return found


def _branches(fn: ast.FunctionDef):
    """(unparsed test, body) of every `if` / `elif` directly in the function's if-chains"""
    for n in ast.walk(fn):
        if isinstance(n, ast.If):
            yield ast.unparse(n.test), n.body


def guard_facts(repo: str) -> tuple[dict, list]:
    notes: list[str] = []
    f = {k: False for k in FLAGS}
    f["maxFoldedIntBits"] = f["maxFoldedStrLength"] = 0
    src = open(os.path.join(repo, "mypy", "constant_fold.py")).read()
    tree = ast.parse(src)
    consts = _module_consts(tree)
    cf = importlib.import_module("mypy.constant_fold")
    for name, key in ((INT_CONST, "maxFoldedIntBits"), (STR_CONST, "maxFoldedStrLength")):
        live = getattr(cf, name, None)
        if name in consts or live is not None:
            if consts.get(name) != live or not isinstance(live, int) or isinstance(live, bool) or live <= 0:
                notes.append(f"{name}: source says {consts.get(name)!r}, the imported module {live!r}")
            f[key] = live if isinstance(live, int) and not isinstance(live, bool) and live > 0 else 0
    fns = {n.name: n for n in tree.body if isinstance(n, ast.FunctionDef)}

    def scan(fn, expect, const, by_op: bool, where: str):
        seen = set()
        for test, body in _branches(fn):
            key = None
            if by_op:
                for op in ("*", "<<", "**", "+", "-", "/", "//", "%", "&", "|", "^", ">>"):
                    if test == f"op == {op!r}":
                        key = op
            else:
                key = test if test.startswith("op == ") and "isinstance" in test else None
            if key is None:
                continue
            tests = _size_tests(body, const)
            # nested branches (e.g. `if right >= 0:`) are walked as part of the operator's body; skip the
            # inner pseudo-branches themselves
            if not tests:
                continue
            if key not in expect:
                notes.append(f"{where}: size test on an operator branch the model does not guard: {key} {tests}")
                continue
            flag, want = expect[key]
            if len(tests) != 1 or tests[0] != (want, True) or f[{INT_CONST: 'maxFoldedIntBits', STR_CONST: 'maxFoldedStrLength'}[const]] == 0:
                notes.append(f"{where}: size test of branch {key} is {tests}, the model knows only `{want}` against {const}")
                continue
            f[flag] = True
            seen.add(flag)

    if "constant_fold_binary_int_op" in fns:
        scan(fns["constant_fold_binary_int_op"], EXPECT_INT, INT_CONST, True, "constant_fold_binary_int_op")
    for nm in ("_constant_fold_binary_op", "constant_fold_binary_op"):
        if nm in fns:
            scan(fns[nm], EXPECT_STR, STR_CONST, False, nm)
    msrc = open(os.path.join(repo, "mypyc", "irbuild", "constant_fold.py")).read()
    mtree = ast.parse(msrc)
    mfns = {n.name: n for n in mtree.body if isinstance(n, ast.FunctionDef)}
    if "constant_fold_binary_op_extended" in mfns:
        scan(mfns["constant_fold_binary_op_extended"], EXPECT_BYTES, STR_CONST, False, "constant_fold_binary_op_extended")
    mc = importlib.import_module("mypyc.irbuild.constant_fold")
    if any(f[k] for k in ("guardBytesAdd", "guardBytesMulR", "guardBytesMulL")) and \
            getattr(mc, STR_CONST, None) != f["maxFoldedStrLength"]:
        notes.append(f"mypyc's {STR_CONST} is {getattr(mc, STR_CONST, None)!r}, mypy's {f['maxFoldedStrLength']!r}")
    return f, notes


def main() -> int:
    f = facts()
    lines = ["-- GENERATED by translate/c12fold.py from mypy/constant_fold.py and mypyc/irbuild/constant_fold.py — do not edit",
             "namespace Fold.Cfg", "",
             "/-- `constant_fold_unary_op(\"+\", <bool>)` returns the bool operand itself (F25) -/",
             f"def unaryPlusOnBoolKeepsBool : Bool := {str(f['unaryPlusOnBoolKeepsBool']).lower()}", "",
             "/-- MAX_FOLDED_INT_BITS / MAX_FOLDED_STR_LENGTH (0 = the tree declares no bound) -/",
             f"def maxFoldedIntBits : Nat := {f['maxFoldedIntBits']}",
             f"def maxFoldedStrLength : Nat := {f['maxFoldedStrLength']}", "",
             "/-- the operator branch tests its operands' size against the bound before evaluating -/"]
    lines += [f"def {k} : Bool := {str(f[k]).lower()}" for k in FLAGS]
    lines += ["", "end Fold.Cfg", ""]
    text = "\n".join(lines)
    os.makedirs(os.path.dirname(OUT), exist_ok=True)
    if not os.path.exists(OUT) or open(OUT).read() != text:
        with open(OUT, "w") as fh:
            fh.write(text)
    return 0


if __name__ == "__main__":
    sys.exit(main())
