"""Translator for C10(d): process-global mutable state in mypy and where it is reset.

Regenerated from /repo on every run (AST walk over mypy/**/*.py, tests and typeshed excluded):
  rows = module-level names that some function body mutates (subscript store, mutating method call, `global`
         rebinding, augmented assignment), class-level attributes that are rebound through the class
         (`Cls.attr = …`, `Cls.attr += …`, `cls.attr …` in a classmethod), module-level singletons of classes
         defined in mypy whose methods mutate `self`, and functions decorated with functools.lru_cache/cache.
  reset = the row's name occurs in the body of a reset root: typestate.reset_global_state, build.build,
          build.build_inner, build.BuildManager.__init__, or a function/method whose name starts with
          `reset` that a root calls.
Output: lean/MypyVerif/Gen/Globals.lean (`GlobalsGen.table : List GlobalsPolicy.Row`).
"""
from __future__ import annotations

import ast
import glob
import os

REPO = os.environ.get("VERIF_REPO", "/repo")
OUT = os.path.join(os.path.dirname(os.path.dirname(os.path.abspath(__file__))), "lean", "MypyVerif", "Gen", "Globals.lean")
MUTATORS = {"append", "add", "update", "clear", "pop", "popitem", "setdefault", "extend", "insert", "remove", "discard", "sort"}
ROOTS = {("typestate", "reset_global_state"), ("build", "build"), ("build", "build_inner")}


def module_files(repo: str):
    for f in sorted(glob.glob(os.path.join(repo, "mypy", "**", "*.py"), recursive=True)):
        rel = os.path.relpath(f, os.path.join(repo, "mypy"))
        if rel.startswith(("test" + os.sep, "typeshed" + os.sep)) or "stubgen" in rel or "stubtest" in rel or rel.startswith("dmypy" + os.sep):
            continue
        yield rel[:-3].replace(os.sep, "."), f


def scan(repo: str):
    rows = []          # (module, name, kind)
    sources = {}
    trees = {}
    for mod, f in module_files(repo):
        src = open(f).read()
        try:
            trees[mod] = ast.parse(src)
        except SyntaxError:
            continue
        sources[mod] = src
    for mod, tree in trees.items():
        top = {}
        classes = {}
        for n in tree.body:
            targets = []
            if isinstance(n, ast.Assign):
                targets = [t for t in n.targets if isinstance(t, ast.Name)]
                val = n.value
            elif isinstance(n, ast.AnnAssign) and isinstance(n.target, ast.Name) and n.value is not None:
                targets = [n.target]
                val = n.value
            for t in targets:
                top[t.id] = val
            if isinstance(n, ast.ClassDef):
                attrs = set()
                for b in n.body:
                    if isinstance(b, ast.Assign):
                        attrs |= {t.id for t in b.targets if isinstance(t, ast.Name)}
                    elif isinstance(b, ast.AnnAssign) and isinstance(b.target, ast.Name) and b.value is not None:
                        attrs.add(b.target.id)
                classes[n.name] = (n, attrs)
            if isinstance(n, (ast.FunctionDef, ast.AsyncFunctionDef)):
                for d in n.decorator_list:
                    s = ast.unparse(d)
                    if "lru_cache" in s or s.endswith("functools.cache") or s == "cache":
                        rows.append((mod, n.name, "lru_cache"))
        mutated = set()
        class_rebound = set()
        for fn in ast.walk(tree):
            if not isinstance(fn, (ast.FunctionDef, ast.AsyncFunctionDef)):
                continue
            for n in ast.walk(fn):
                if isinstance(n, ast.Global):
                    mutated |= {x for x in n.names if x in top}
                if isinstance(n, (ast.Assign, ast.AugAssign, ast.Delete)):
                    tg = n.targets if isinstance(n, (ast.Assign, ast.Delete)) else [n.target]
                    for t in tg:
                        if isinstance(t, ast.Subscript) and isinstance(t.value, ast.Name) and t.value.id in top:
                            mutated.add(t.value.id)
                        if isinstance(t, ast.Attribute) and isinstance(t.value, ast.Name):
                            if t.value.id in classes and t.attr in classes[t.value.id][1]:
                                class_rebound.add((t.value.id, t.attr))
                            if t.value.id == "cls":
                                for cn, (cnode, attrs) in classes.items():
                                    if fn in ast.walk(cnode) and t.attr in attrs:
                                        class_rebound.add((cn, t.attr))
                if isinstance(n, ast.Call) and isinstance(n.func, ast.Attribute) and n.func.attr in MUTATORS \
                        and isinstance(n.func.value, ast.Name) and n.func.value.id in top:
                    v = top[n.func.value.id]
                    if isinstance(v, (ast.Dict, ast.List, ast.Set, ast.Call, ast.ListComp, ast.DictComp, ast.SetComp)):
                        mutated.add(n.func.value.id)
        # class-level mutable containers that methods mutate through `self` without ever rebinding the attribute on
        # the instance: one object shared by every instance, i.e. process-global state
        for cn, (cnode, attrs) in classes.items():
            shared = {}
            for b in cnode.body:
                tgt, val = None, None
                if isinstance(b, ast.Assign) and len(b.targets) == 1 and isinstance(b.targets[0], ast.Name):
                    tgt, val = b.targets[0].id, b.value
                elif isinstance(b, ast.AnnAssign) and isinstance(b.target, ast.Name) and b.value is not None:
                    tgt, val = b.target.id, b.value
                if tgt and (isinstance(val, (ast.List, ast.Dict, ast.Set, ast.ListComp, ast.DictComp, ast.SetComp)) or (
                        isinstance(val, ast.Call) and ast.unparse(val.func).split(".")[-1] in
                        ("set", "dict", "list", "defaultdict", "OrderedDict", "Counter", "deque"))):
                    shared[tgt] = True
            if not shared:
                continue
            rebound, touched = set(), set()
            for m in cnode.body:
                if not isinstance(m, (ast.FunctionDef, ast.AsyncFunctionDef)):
                    continue
                for n in ast.walk(m):
                    if isinstance(n, (ast.Assign, ast.AnnAssign, ast.AugAssign)):
                        for t in (n.targets if isinstance(n, ast.Assign) else [n.target]):
                            if isinstance(t, ast.Attribute) and isinstance(t.value, ast.Name) and t.value.id == "self":
                                rebound.add(t.attr)
                            if isinstance(t, ast.Subscript) and isinstance(t.value, ast.Attribute) and \
                                    isinstance(t.value.value, ast.Name) and t.value.value.id == "self":
                                touched.add(t.value.attr)
                    if isinstance(n, ast.Call) and isinstance(n.func, ast.Attribute) and n.func.attr in MUTATORS:
                        o = n.func.value
                        if isinstance(o, ast.Attribute) and isinstance(o.value, ast.Name) and o.value.id == "self":
                            touched.add(o.attr)
            for a in sorted(shared):
                if a in touched and a not in rebound:
                    rows.append((mod, f"{cn}.{a}", "class-attribute-via-self"))
        for name in sorted(mutated):
            rows.append((mod, name, "module-global"))
        for cn, attr in sorted(class_rebound):
            rows.append((mod, f"{cn}.{attr}", "class-attribute"))
        # module-level singletons of local classes with self-mutating methods
        for name, val in top.items():
            if isinstance(val, ast.Call) and isinstance(val.func, ast.Name) and val.func.id in classes and not val.args:
                cnode = classes[val.func.id][0]
                mut = any(isinstance(x, (ast.Assign, ast.AugAssign)) and any(
                    isinstance(t, (ast.Attribute, ast.Subscript)) and "self" in ast.unparse(t) for t in (x.targets if isinstance(x, ast.Assign) else [x.target]))
                    for m in cnode.body if isinstance(m, ast.FunctionDef) and m.name != "__init__" for x in ast.walk(m))
                if mut:
                    rows.append((mod, name, "singleton"))
    # reset roots: their source text plus that of `reset*` functions they call
    root_text = ""
    for mod, fname in sorted(ROOTS):
        tree = trees.get(mod)
        if tree is None:
            continue
        for n in ast.walk(tree):
            if isinstance(n, ast.FunctionDef) and n.name == fname:
                root_text += ast.unparse(n) + "\n"
    called = set()
    for w in ast.walk(ast.parse(root_text)) if root_text else []:
        if isinstance(w, ast.Call):
            s = ast.unparse(w.func)
            if s.split(".")[-1].startswith(("reset", "clear")):
                called.add(s.split(".")[-1])
    for mod, tree in trees.items():
        for n in ast.walk(tree):
            if isinstance(n, ast.FunctionDef) and n.name in called:
                root_text += ast.unparse(n) + "\n"
    out = []
    for mod, name, kind in sorted(set(rows)):
        short = name.split(".")[-1]
        reset = (name in root_text) or (kind == "singleton" and (name + ".") in root_text) or \
                (kind.startswith("class-attribute") and (name in root_text or ("." + short + " =") in root_text or ("." + short + ".clear()") in root_text))
        out.append((mod, name, kind, reset))
    return out


def emit(rows) -> str:
    q = lambda s: '"' + s + '"'
    body = ",\n".join(f"  {{ modName := {q(m)}, name := {q(n)}, kind := {q(k)}, reset := {'true' if r else 'false'} }}" for m, n, k, r in rows)
    return ("import MypyVerif.Model.GlobalsPolicy\n/-! GENERATED by translate/globals_scan.py from /repo — do not edit. -/\nnamespace GlobalsGen\nopen GlobalsPolicy\n"
            "def table : List Row := [\n" + body + "\n]\nend GlobalsGen\n")


def selftest() -> None:
    a = emit([("m", "X", "module-global", True)])
    b = emit([("m", "X", "module-global", False)])
    assert a != b


def main() -> None:
    rows = scan(REPO)
    text = emit(rows)
    os.makedirs(os.path.dirname(OUT), exist_ok=True)
    if not os.path.exists(OUT) or open(OUT).read() != text:
        open(OUT, "w").write(text)


if __name__ == "__main__":
    selftest()
    main()
    for r in scan(REPO):
        print(r)
