"""C15 translator: the integer fast paths of mypyc's C runtime -> Lean over `BitVec`.

Reads (from `core.REPO`, never a hard-coded path)

  * `mypyc/lib-rt/mypyc_util.h`  — macros (`CPY_INT_TAG`, `CPY_INT_BITS`, `CPY_TAGGED_MIN/MAX`, …), the
    `typedef size_t CPyTagged`, `CPyTagged_ShortFromInt/ShortFromSsize_t/IsNegative`;
  * `mypyc/lib-rt/CPy.h`         — every `static inline` function of the "Int operations" section whose
    signature consists of integer types only (`CPyTagged_Add`, `…_IsAddOverflow`, `…_Rshift`, …);
  * `mypyc/lib-rt/int_ops.c`     — the fixed-width division helpers `CPyInt{64,32,16}_{Divide,Remainder}`;
  * live Python objects          — `mypyc.primitives.registry.binary_ops/unary_ops` (operator -> C function
    for `int` operands), `mypyc.lower.int_ops.int_comparison_op_mapping`, the `c_undefined` error values.

and writes `lean/MypyVerif/Gen/CFast.lean` (+ `Gen/CFast.json`, an inventory for the evidence file).

It is a *typed* mini-C compiler: every expression carries its C type (`int` = signed 32, `unsigned int`,
`Py_ssize_t`/`int64_t` = signed 64, `size_t`/`uint64_t`/`CPyTagged` = unsigned 64, `int32_t`, `int16_t`,
`uint8_t`, `char`, `bool`), integer promotions and the usual arithmetic conversions are applied as C11
6.3.1 prescribes, and the Lean operator is chosen by signedness (`/` -> `BitVec.sdiv` or `/`,
`>>` -> `BitVec.sshiftRight` (arithmetic, as gcc/clang do) or `>>>`, `<` -> `BitVec.slt` or `BitVec.ult`).
Signed overflow wraps (the build uses `-fno-strict-overflow`).  Operations whose behaviour C leaves
undefined even then (division by zero, `INT_MIN / -1`, shift counts outside `[0, width)`) are collected,
path-sensitively, into a companion `<name>_ub : … → Bool`, so "the fast path never executes an undefined
operation" is a theorem too.

Calls to functions that are only *declared* in `CPy.h` (the out-of-line slow paths `CPyTagged_Add_` …)
are allowed in `return f(args)` / `return !f(args)` and become `Res.slow ⟨"f", args, negated⟩`;
`PyErr_SetString(PyExc_X, "…"); return v;` becomes `Res.raise "X" v`.

Fail closed: any construct outside the subset raises `Unsupported` (a broken tie, never a skipped
obligation).  `selftest()` translates a fixed snippet (expected Lean text is checked literally) and
mutated variants (output must change).
"""
from __future__ import annotations

import json
import os
import re
import sys
from dataclasses import dataclass, field
from typing import Any

try:
    from harness.vlib.core import LEAN, REPO
except Exception:  # pragma: no cover - standalone use
    LEAN = os.path.join(os.path.dirname(os.path.dirname(os.path.abspath(__file__))), "lean")
    REPO = os.environ.get("VERIF_REPO", "/repo")

OUT = os.path.join(LEAN, "MypyVerif", "Gen", "CFast.lean")
OUT_JSON = os.path.join(LEAN, "MypyVerif", "Gen", "CFast.json")


class Unsupported(Exception):
    """A construct outside the translated C subset (the tie is broken; nothing is skipped silently)."""


# ------------------------------------------------------------------------------------------- C types
@dataclass(frozen=True)
class CType:
    width: int          # bits; 1 for C `bool`
    signed: bool
    isbool: bool = False

    def __str__(self) -> str:
        return "bool" if self.isbool else ("s" if self.signed else "u") + str(self.width)

    @property
    def lean(self) -> str:
        return "Bool" if self.isbool else f"BitVec {self.width}"


BOOL = CType(1, False, True)
S8, U8 = CType(8, True), CType(8, False)
S16, U16 = CType(16, True), CType(16, False)
S32, U32 = CType(32, True), CType(32, False)
S64, U64 = CType(64, True), CType(64, False)

BASE_TYPES: dict[str, CType] = {
    "int": S32, "unsigned": U32, "unsigned int": U32, "long": S64, "long long": S64,
    "unsigned long": U64, "unsigned long long": U64, "char": S8, "bool": BOOL, "_Bool": BOOL,
    "Py_ssize_t": S64, "ssize_t": S64, "size_t": U64, "intptr_t": S64, "uintptr_t": U64,
    "int64_t": S64, "uint64_t": U64, "int32_t": S32, "uint32_t": U32, "int16_t": S16, "uint16_t": U16,
    "int8_t": S8, "uint8_t": U8,
}
# limits.h / stdint.h constants the sources use (type as in C on LP64)
PREDEF_CONSTS: dict[str, tuple[int, CType]] = {
    "CHAR_BIT": (8, S32),
    "INT64_MIN": (-(1 << 63), S64), "INT64_MAX": ((1 << 63) - 1, S64),
    "INT32_MIN": (-(1 << 31), S32), "INT32_MAX": ((1 << 31) - 1, S32),
    "INT16_MIN": (-(1 << 15), S32), "INT16_MAX": ((1 << 15) - 1, S32),
    "PY_SSIZE_T_MAX": ((1 << 63) - 1, S64), "PY_SSIZE_T_MIN": (-(1 << 63), S64),
}
LEAN_KEYWORDS = {
    "at", "from", "end", "open", "fun", "show", "have", "do", "then", "else", "if", "in", "let", "match",
    "with", "by", "def", "where", "instance", "structure", "class", "theorem", "namespace", "section",
    "variable", "universe", "import", "export", "mutual", "partial", "unsafe", "private", "protected",
    "deriving", "return", "for", "unless", "try", "catch", "finally", "macro", "syntax", "notation",
    "example", "abbrev", "inductive", "extends", "this", "Type", "Prop", "Sort", "using", "calc", "obtain",
    "suffices", "nomatch", "nofun", "infix", "prefix", "postfix", "attribute", "set_option", "true", "false",
}


def norm(v: int, t: CType) -> int:
    """Wrap a Python int to the value range of C type t."""
    if t.isbool:
        return 1 if v else 0
    m = 1 << t.width
    v &= m - 1
    if t.signed and v >= m >> 1:
        v -= m
    return v


def lit(v: int, w: int) -> str:
    """Lean literal of width w for the (possibly negative) value v."""
    return f"{v & ((1 << w) - 1)}#{w}"


# ------------------------------------------------------------------------------------------ tokenizer
TOKEN_RE = re.compile(r"""
    (?P<ws>\s+)
  | (?P<num>0[xX][0-9a-fA-F]+[uUlL]*|\d+[uUlL]*)
  | (?P<float>\d+\.\d*(?:[eE][-+]?\d+)?|\.\d+)
  | (?P<id>[A-Za-z_]\w*)
  | (?P<str>"(?:[^"\\]|\\.)*")
  | (?P<chr>'(?:[^'\\]|\\.)')
  | (?P<op><<=|>>=|\.\.\.|->|\+\+|--|<<|>>|<=|>=|==|!=|&&|\|\||\+=|-=|\*=|/=|%=|&=|\|=|\^=|\#\#|[-+*/%&|^~!<>=?:;,.(){}\[\]\#])
""", re.X)


@dataclass
class Tok:
    kind: str   # num id str chr op
    text: str
    line: int = 0

    def __repr__(self) -> str:
        return self.text


def tokenize(src: str, line0: int = 1) -> list[Tok]:
    out: list[Tok] = []
    pos, line = 0, line0
    while pos < len(src):
        m = TOKEN_RE.match(src, pos)
        if not m:
            raise Unsupported(f"cannot tokenize at line {line}: {src[pos:pos + 30]!r}")
        kind = m.lastgroup
        text = m.group()
        if kind == "float":
            kind = "flt"
        if kind != "ws":
            out.append(Tok(kind, text, line))
        line += text.count("\n")
        pos = m.end()
    return out


def strip_comments(src: str) -> str:
    """Remove /* */ and // comments (keeping newlines) and join backslash-continued lines."""
    out = []
    i, n = 0, len(src)
    while i < n:
        c = src[i]
        if src.startswith("/*", i):
            j = src.find("*/", i + 2)
            if j < 0:
                raise Unsupported("unterminated comment")
            out.append("\n" * src.count("\n", i, j + 2))
            i = j + 2
        elif src.startswith("//", i):
            j = src.find("\n", i)
            i = n if j < 0 else j
        elif c == '"' or c == "'":
            j = i + 1
            while j < n and src[j] != c:
                j += 2 if src[j] == "\\" else 1
            out.append(src[i:j + 1])
            i = j + 1
        else:
            out.append(c)
            i += 1
    text = "".join(out)
    # line continuations: keep the line count by moving the newline after the joined line
    lines = text.split("\n")
    res, buf, pad = [], "", 0
    for ln in lines:
        if ln.endswith("\\"):
            buf += ln[:-1] + " "
            pad += 1
        else:
            res.append(buf + ln)
            res.extend([""] * pad)
            buf, pad = "", 0
    if buf:
        res.append(buf)
    return "\n".join(res)


# --------------------------------------------------------------------------------------- preprocessor
@dataclass
class Macro:
    name: str
    params: list[str] | None      # None: object-like
    body: list[Tok]
    where: str


class Preprocessor:
    """Just enough of cpp: #define (object- and function-like), #undef, #if/#ifdef/#ifndef/#elif/#else/
    #endif with defined(), integer arithmetic and comparisons.  #include / #error / #pragma are ignored
    (an #error in an active region fails closed)."""

    def __init__(self, predefined: dict[str, str]):
        self.macros: dict[str, Macro] = {}
        for k, v in predefined.items():
            self.macros[k] = Macro(k, None, tokenize(v), "<predefined>")

    def run(self, src: str, fname: str) -> list[tuple[int, str]]:
        """Return the active (line number, text) lines of the file; records macros."""
        text = strip_comments(src)
        active: list[tuple[int, str]] = []
        stack: list[list[bool]] = []      # [this branch active, some branch taken, parent active]

        def on() -> bool:
            return all(s[0] for s in stack)

        for ln, line in enumerate(text.split("\n"), 1):
            s = line.strip()
            if not s.startswith("#"):
                if on():
                    active.append((ln, line))
                continue
            m = re.match(r"#\s*(\w+)\s*(.*)$", s)
            if not m:
                continue
            d, rest = m.group(1), m.group(2).strip()
            if d in ("if", "ifdef", "ifndef"):
                parent = on()
                if not parent:
                    stack.append([False, True, False])
                    continue
                if d == "if":
                    c = self.eval_cond(rest, f"{fname}:{ln}")
                else:
                    c = (rest.split()[0] in self.macros) == (d == "ifdef")
                stack.append([c, c, True])
            elif d == "elif":
                if not stack:
                    raise Unsupported(f"{fname}:{ln}: #elif without #if")
                top = stack[-1]
                if not top[2] or top[1]:
                    top[0] = False
                else:
                    c = self.eval_cond(rest, f"{fname}:{ln}")
                    top[0] = c
                    top[1] = c
            elif d == "else":
                top = stack[-1]
                top[0] = top[2] and not top[1]
                top[1] = True
            elif d == "endif":
                stack.pop()
            elif not on():
                continue
            elif d == "define":
                self.define(rest, f"{fname}:{ln}")
            elif d == "undef":
                self.macros.pop(rest.split()[0], None)
            elif d == "error":
                raise Unsupported(f"{fname}:{ln}: active #error {rest}")
            # include / pragma / line: ignored
        if stack:
            raise Unsupported(f"{fname}: unterminated #if")
        return active

    def define(self, rest: str, where: str) -> None:
        m = re.match(r"(\w+)(\(([^)]*)\))?\s*(.*)$", rest)
        if not m:
            raise Unsupported(f"{where}: bad #define")
        name = m.group(1)
        # function-like only if '(' follows the name immediately
        if m.group(2) is not None and rest[len(name):len(name) + 1] == "(":
            params = [p.strip() for p in m.group(3).split(",") if p.strip()]
            body = m.group(4)
        else:
            params = None
            body = rest[len(name):].strip()
        try:
            toks = tokenize(body)
        except Unsupported:
            toks = [Tok("op", "<untokenizable>")]
        self.macros[name] = Macro(name, params, toks, where)

    def eval_cond(self, text: str, where: str) -> bool:
        text = re.sub(r"defined\s*\(\s*(\w+)\s*\)|defined\s+(\w+)",
                      lambda m: "1" if (m.group(1) or m.group(2)) in self.macros else "0", text)
        toks = tokenize(text)
        # identifiers that are not macros evaluate to 0 (C rule); macros are expanded by the parser
        p = Parser(self.expand(toks, where, undefined_zero=True), self, {}, where)
        e = p.expr()
        if p.i != len(p.toks):
            raise Unsupported(f"{where}: trailing tokens in #if")
        tr = Translator.__new__(Translator)
        Translator.__init__(tr, self, {}, {})
        t = tr.expr(e, {})
        if t.const is None:
            raise Unsupported(f"{where}: #if condition is not constant: {text}")
        return t.const != 0

    def expand(self, toks: list[Tok], where: str, undefined_zero: bool = False, depth: int = 0,
               hide: frozenset[str] = frozenset()) -> list[Tok]:
        """Macro-expand a token list (rescanning, with the usual no-self-recursion rule)."""
        if depth > 40:
            raise Unsupported(f"{where}: macro expansion too deep")
        out: list[Tok] = []
        i = 0
        while i < len(toks):
            t = toks[i]
            if t.kind == "id" and t.text in self.macros and t.text not in hide:
                mac = self.macros[t.text]
                if mac.params is None:
                    out.extend(self.expand([Tok(b.kind, b.text, t.line) for b in mac.body], where,
                                           undefined_zero, depth + 1, hide | {t.text}))
                    i += 1
                    continue
                if i + 1 < len(toks) and toks[i + 1].text == "(":
                    args, j = self.macro_args(toks, i + 1, where)
                    if len(args) != len(mac.params) and not (len(mac.params) == 0 and args == [[]]):
                        raise Unsupported(f"{where}: macro {t.text} called with {len(args)} args")
                    amap = {p: self.expand(a, where, undefined_zero, depth + 1, hide)
                            for p, a in zip(mac.params, args)}
                    body: list[Tok] = []
                    for b in mac.body:
                        if b.text in ("#", "##"):
                            raise Unsupported(f"{where}: macro {t.text} uses # / ##")
                        if b.kind == "id" and b.text in amap:
                            body.extend(Tok(x.kind, x.text, t.line) for x in amap[b.text])
                        else:
                            body.append(Tok(b.kind, b.text, t.line))
                    out.extend(self.expand(body, where, undefined_zero, depth + 1, hide | {t.text}))
                    i = j
                    continue
            if undefined_zero and t.kind == "id" and t.text not in BASE_TYPES:
                out.append(Tok("num", "0", t.line))
            else:
                out.append(t)
            i += 1
        return out

    @staticmethod
    def macro_args(toks: list[Tok], i: int, where: str) -> tuple[list[list[Tok]], int]:
        assert toks[i].text == "("
        depth, args, cur = 0, [], []
        j = i
        while j < len(toks):
            t = toks[j]
            if t.text == "(":
                depth += 1
                if depth > 1:
                    cur.append(t)
            elif t.text == ")":
                depth -= 1
                if depth == 0:
                    args.append(cur)
                    return args, j + 1
                cur.append(t)
            elif t.text == "," and depth == 1:
                args.append(cur)
                cur = []
            else:
                cur.append(t)
            j += 1
        raise Unsupported(f"{where}: unterminated macro call")


# ------------------------------------------------------------------------------------------------ AST
@dataclass
class Num:
    value: int
    ctype: CType


@dataclass
class Var:
    name: str


@dataclass
class Unary:
    op: str
    e: Any


@dataclass
class Binary:
    op: str
    a: Any
    b: Any


@dataclass
class Cast:
    ctype: CType
    e: Any


@dataclass
class Call:
    name: str
    args: list[Any]


@dataclass
class Str:
    text: str


@dataclass
class Decl:
    ctype: CType
    name: str
    init: Any
    line: int = 0


@dataclass
class Assign:
    name: str
    op: str       # "=", "+=", …
    e: Any
    line: int = 0


@dataclass
class If:
    cond: Any
    then: list[Any]
    els: list[Any]
    line: int = 0


@dataclass
class Return:
    e: Any
    line: int = 0


@dataclass
class ExprStmt:
    e: Any
    line: int = 0


BINPREC = [
    ["||"], ["&&"], ["|"], ["^"], ["&"], ["==", "!="], ["<", "<=", ">", ">="], ["<<", ">>"], ["+", "-"],
    ["*", "/", "%"],
]


class Parser:
    def __init__(self, toks: list[Tok], pp: Preprocessor, typedefs: dict[str, CType], where: str):
        self.toks = toks
        self.i = 0
        self.pp = pp
        self.typedefs = typedefs
        self.where = where

    # -- helpers
    def peek(self, k: int = 0) -> Tok | None:
        return self.toks[self.i + k] if self.i + k < len(self.toks) else None

    def at(self, text: str, k: int = 0) -> bool:
        t = self.peek(k)
        return t is not None and t.text == text

    def eat(self, text: str) -> Tok:
        t = self.peek()
        if t is None or t.text != text:
            raise Unsupported(f"{self.where}: expected {text!r}, found {t!r} (line {t.line if t else '?'})")
        self.i += 1
        return t

    def fail(self, msg: str) -> Unsupported:
        t = self.peek()
        return Unsupported(f"{self.where}: {msg} at {t!r} (line {t.line if t else '?'})")

    # -- types
    def try_type(self) -> CType | None:
        """Parse a type name at the cursor (consumes it) or return None (consumes nothing).  Pointer,
        struct, floating and unknown types are not integer types: Unsupported if they start here."""
        save = self.i
        words = []
        while True:
            t = self.peek()
            if t is None or t.kind != "id":
                break
            if t.text in ("const", "volatile", "register", "static", "inline"):
                self.i += 1
                continue
            if t.text in ("unsigned", "signed", "long", "short", "int", "char"):
                words.append(t.text)
                self.i += 1
                continue
            if not words and (t.text in BASE_TYPES or t.text in self.typedefs):
                words.append(t.text)
                self.i += 1
                break
            break
        if not words:
            self.i = save
            return None
        key = " ".join(words)
        if key in self.typedefs:
            ty = self.typedefs[key]
        elif key in BASE_TYPES:
            ty = BASE_TYPES[key]
        else:
            sg = "unsigned" in words
            base = [w for w in words if w not in ("unsigned", "signed", "int")] or ["int"]
            k2 = ("unsigned " if sg else "") + " ".join(base)
            if k2 not in BASE_TYPES:
                self.i = save
                return None
            ty = BASE_TYPES[k2]
        if self.at("*"):
            raise self.fail("pointer type")
        return ty

    # -- expressions
    def expr(self) -> Any:
        e = self.binary(0)
        if self.at("?"):
            raise self.fail("conditional operator ?: is outside the subset")
        return e

    def binary(self, level: int) -> Any:
        if level == len(BINPREC):
            return self.unary()
        e = self.binary(level + 1)
        while True:
            t = self.peek()
            if t is not None and t.kind == "op" and t.text in BINPREC[level]:
                self.i += 1
                r = self.binary(level + 1)
                e = Binary(t.text, e, r)
            else:
                return e

    def unary(self) -> Any:
        t = self.peek()
        if t is None:
            raise self.fail("unexpected end of expression")
        if t.kind == "op" and t.text in ("-", "~", "!", "+"):
            self.i += 1
            return Unary(t.text, self.unary())
        if t.kind == "op" and t.text in ("*", "&", "++", "--"):
            raise self.fail(f"operator {t.text} in expression position is outside the subset")
        if t.kind == "id" and t.text == "sizeof":
            self.i += 1
            self.eat("(")
            ty = self.try_type()
            if ty is None:
                raise self.fail("sizeof of a non-type")
            self.eat(")")
            return Num(max(ty.width, 8) // 8, U64)
        if t.text == "(":
            save = self.i
            self.i += 1
            ty = None
            nt = self.peek()
            if nt is not None and nt.kind == "id":
                try:
                    ty = self.try_type()
                except Unsupported:
                    raise
            if ty is not None and self.at(")"):
                self.i += 1
                return Cast(ty, self.unary())
            self.i = save + 1
            if nt is not None and nt.kind == "id" and self.at(")", 1) is False and self.looks_like_cast():
                raise self.fail("cast to a non-integer type")
            e = self.expr()
            self.eat(")")
            return self.postfix(e)
        return self.postfix(self.primary())

    def looks_like_cast(self) -> bool:
        # "(" ident+ "*"* ")" followed by an operand: a cast to a type we do not know
        j = self.i
        n = 0
        while j < len(self.toks) and self.toks[j].kind == "id":
            j += 1
            n += 1
        stars = 0
        while j < len(self.toks) and self.toks[j].text == "*":
            j += 1
            stars += 1
        if j < len(self.toks) and self.toks[j].text == ")" and (n >= 2 or stars):
            return True
        return False

    def postfix(self, e: Any) -> Any:
        t = self.peek()
        if t is not None and t.text in ("[", ".", "->"):
            raise self.fail(f"postfix {t.text} is outside the subset")
        return e

    def primary(self) -> Any:
        t = self.peek()
        assert t is not None
        self.i += 1
        if t.kind == "num":
            return parse_number(t.text)
        if t.kind == "chr":
            body = t.text[1:-1]
            if body.startswith("\\"):
                esc = {"n": 10, "t": 9, "0": 0, "\\": 92, "'": 39, "r": 13}
                if body[1] not in esc:
                    raise self.fail("character escape")
                return Num(esc[body[1]], S32)
            return Num(ord(body), S32)
        if t.kind == "str":
            return Str(t.text)
        if t.kind == "flt":
            raise self.fail("floating constant")
        if t.kind == "id":
            if self.at("("):
                self.i += 1
                args = []
                if not self.at(")"):
                    while True:
                        args.append(self.expr())
                        if self.at(","):
                            self.i += 1
                            continue
                        break
                self.eat(")")
                return Call(t.text, args)
            return Var(t.text)
        self.i -= 1
        raise self.fail("unexpected token")

    # -- statements
    def block(self) -> list[Any]:
        self.eat("{")
        out = []
        while not self.at("}"):
            out.extend(self.statement())
        self.eat("}")
        return out

    def statement(self) -> list[Any]:
        t = self.peek()
        if t is None:
            raise self.fail("unexpected end of body")
        ln = t.line
        if t.text == "{":
            raise self.fail("nested bare block is outside the subset")
        if t.text == ";":
            self.i += 1
            return []
        if t.kind == "id" and t.text == "if":
            self.i += 1
            self.eat("(")
            c = self.expr()
            self.eat(")")
            then = self.block() if self.at("{") else self.statement()
            els: list[Any] = []
            if self.at("else"):
                self.i += 1
                if self.at("{"):
                    els = self.block()
                else:
                    els = self.statement()
            return [If(c, then, els, ln)]
        if t.kind == "id" and t.text == "return":
            self.i += 1
            if self.at(";"):
                raise self.fail("return without a value")
            e = self.expr()
            self.eat(";")
            return [Return(e, ln)]
        if t.kind == "id" and t.text in ("while", "for", "do", "switch", "goto", "break", "continue", "case"):
            raise self.fail(f"statement `{t.text}` is outside the subset")
        if t.kind == "op" and t.text in ("++", "--"):
            self.i += 1
            v = self.peek()
            if v is None or v.kind != "id":
                raise self.fail("++/-- of a non-variable")
            self.i += 1
            self.eat(";")
            return [Assign(v.text, "+=" if t.text == "++" else "-=", Num(1, S32), ln)]
        # declaration?
        save = self.i
        ty = self.try_type()
        if ty is not None:
            nt = self.peek()
            if nt is not None and nt.kind == "id":
                out = []
                while True:
                    name = self.peek()
                    if name is None or name.kind != "id":
                        raise self.fail("declarator")
                    self.i += 1
                    if self.at("["):
                        raise self.fail("array declarator")
                    init = None
                    if self.at("="):
                        self.i += 1
                        init = self.expr()
                    out.append(Decl(ty, name.text, init, ln))
                    if self.at(","):
                        self.i += 1
                        continue
                    break
                self.eat(";")
                return out
            self.i = save
        if t.kind == "id" and self.peek(1) is not None:
            n1 = self.peek(1)
            assert n1 is not None
            if n1.text in ("=", "+=", "-=", "*=", "/=", "%=", "&=", "|=", "^=", "<<=", ">>="):
                self.i += 2
                e = self.expr()
                self.eat(";")
                return [Assign(t.text, n1.text, e, ln)]
            if n1.text in ("++", "--"):
                self.i += 2
                self.eat(";")
                return [Assign(t.text, "+=" if n1.text == "++" else "-=", Num(1, S32), ln)]
            if n1.kind == "id" or n1.text == "*":
                raise self.fail("declaration of a non-integer type")
        e = self.expr()
        self.eat(";")
        return [ExprStmt(e, ln)]


def parse_number(text: str) -> Num:
    m = re.match(r"(0[xX][0-9a-fA-F]+|\d+)([uUlL]*)$", text)
    assert m, text
    digits, suf = m.group(1), m.group(2).lower()
    hexa = digits.lower().startswith("0x")
    octal = len(digits) > 1 and digits[0] == "0" and not hexa
    v = int(digits, 16) if hexa else (int(digits, 8) if octal else int(digits))
    uns = "u" in suf
    longs = suf.count("l")
    # C11 6.4.4.1: first type in the list in which the value fits (LP64)
    if uns:
        cands = [U32, U64] if longs == 0 else [U64]
    elif hexa or octal:
        cands = [S32, U32, S64, U64] if longs == 0 else [S64, U64]
    else:
        cands = [S32, S64] if longs == 0 else [S64]
    for c in cands:
        lo, hi = (-(1 << (c.width - 1)), (1 << (c.width - 1)) - 1) if c.signed else (0, (1 << c.width) - 1)
        if lo <= v <= hi:
            return Num(v, c)
    raise Unsupported(f"integer constant {text} does not fit any type")


# ---------------------------------------------------------------------------------------- translation
@dataclass
class Term:
    ctype: CType           # C type of the expression
    lean: str              # Lean term: `BitVec ctype.width`, or `Bool` when `isbool`
    isbool: bool = False   # Lean term is a Bool (C `bool`, or a 0/1-valued `int` from a logical operator)
    ub: str | None = None  # Lean Bool: evaluating this expression executes an undefined operation
    const: int | None = None


@dataclass
class FuncInfo:
    name: str
    params: list[tuple[str, CType]]
    ret: CType
    effect: str            # "pure" | "res"
    has_ub: bool = False
    src: str = ""
    where: str = ""


@dataclass
class Proto:
    name: str
    params: list[CType | None]     # None: non-integer parameter
    ret: CType | None


def paren(s: str) -> str:
    s = s.strip()
    if re.fullmatch(r"[\w.#']+", s):
        return s
    if s.startswith("(") and s.endswith(")"):
        depth = 0
        for i, c in enumerate(s):
            depth += c == "("
            depth -= c == ")"
            if depth == 0 and i < len(s) - 1:
                break
        else:
            return s
    return "(" + s + ")"


def or_ub(*us: str | None) -> str | None:
    xs: list[str] = []
    for u in us:
        if u is not None and u not in xs:
            xs.append(u)
    if not xs:
        return None
    if len(xs) == 1:
        return xs[0]
    return "(" + " || ".join(paren(x) for x in xs) + ")"


def indent(s: str, n: int = 2) -> str:
    pad = " " * n
    return "\n".join(pad + ln if ln else ln for ln in s.split("\n"))


def lname(name: str) -> str:
    return name + "_" if name in LEAN_KEYWORDS else name


def promote(t: CType) -> CType:
    if t.isbool or t.width < 32:
        return S32
    return t


def common_type(a: CType, b: CType) -> CType:
    a, b = promote(a), promote(b)
    if a == b:
        return a
    if a.signed == b.signed:
        return a if a.width >= b.width else b
    u, s = (a, b) if not a.signed else (b, a)
    if u.width >= s.width:
        return u
    return s   # the signed type is wider: it represents every value of the unsigned one


class Translator:
    def __init__(self, pp: Preprocessor, funcs: dict[str, FuncInfo], protos: dict[str, Proto]):
        self.pp = pp
        self.funcs = funcs
        self.protos = protos

    # -- conversions
    def conv(self, t: Term, to: CType) -> Term:
        src = t.ctype
        if to.isbool:
            if t.isbool:
                return Term(BOOL, t.lean, True, t.ub, None if t.const is None else int(t.const != 0))
            if t.const is not None:
                return Term(BOOL, "true" if t.const != 0 else "false", True, t.ub, int(t.const != 0))
            return Term(BOOL, f"({paren(t.lean)} != {lit(0, src.width)})", True, t.ub)
        if t.const is not None:
            v = norm(t.const, to)
            return Term(to, lit(v, to.width), False, t.ub, v)
        if t.isbool:
            return Term(to, f"(CSem.ofBool {to.width} {paren(t.lean)})", False, t.ub)
        if src.width == to.width:
            return Term(to, t.lean, False, t.ub)
        if src.width < to.width:
            f = "BitVec.signExtend" if src.signed else "BitVec.zeroExtend"
            return Term(to, f"({f} {to.width} {paren(t.lean)})", False, t.ub)
        return Term(to, f"(BitVec.truncate {to.width} {paren(t.lean)})", False, t.ub)

    def truth(self, t: Term) -> Term:
        return self.conv(t, BOOL)

    def materialize(self, t: Term) -> Term:
        """A 0/1 `int` held as Lean Bool, needed as a bit-vector."""
        if t.isbool:
            return self.conv(t, promote(t.ctype))
        return t

    # -- expressions
    def expr(self, e: Any, env: dict[str, CType]) -> Term:
        if isinstance(e, Num):
            v = norm(e.value, e.ctype)
            return Term(e.ctype, lit(v, e.ctype.width), False, None, v)
        if isinstance(e, Var):
            if e.name in env:
                ty = env[e.name]
                return Term(ty, lname(e.name), ty.isbool)
            if e.name in ("true", "false"):
                return Term(S32, "", False, None, int(e.name == "true"))
            if e.name in PREDEF_CONSTS:
                v, ty = PREDEF_CONSTS[e.name]
                return Term(ty, lit(v, ty.width), False, None, v)
            raise Unsupported(f"unknown identifier {e.name}")
        if isinstance(e, Cast):
            return self.conv(self.expr(e.e, env), e.ctype)
        if isinstance(e, Unary):
            return self.unary(e, env)
        if isinstance(e, Binary):
            return self.binary(e, env)
        if isinstance(e, Call):
            return self.call(e, env)
        if isinstance(e, Str):
            raise Unsupported("string literal in expression position")
        raise Unsupported(f"expression {e!r}")

    def unary(self, e: Unary, env: dict[str, CType]) -> Term:
        a = self.expr(e.e, env)
        if e.op == "!":
            b = self.truth(a)
            if b.const is not None:
                return Term(S32, "", False, b.ub, int(not b.const))
            if a.isbool:
                return Term(S32, f"(!{paren(a.lean)})", True, a.ub)
            return Term(S32, f"({paren(a.lean)} == {lit(0, a.ctype.width)})", True, a.ub)
        ty = promote(a.ctype)
        a = self.conv(a, ty)
        if e.op == "+":
            return a
        if a.const is not None:
            v = norm(-a.const if e.op == "-" else ~a.const, ty)
            return Term(ty, lit(v, ty.width), False, a.ub, v)
        if e.op == "-":
            return Term(ty, f"(-{paren(a.lean)})", False, a.ub)
        if e.op == "~":
            return Term(ty, f"(~~~{paren(a.lean)})", False, a.ub)
        raise Unsupported(f"unary operator {e.op}")

    def binary(self, e: Binary, env: dict[str, CType]) -> Term:
        op = e.op
        a, b = self.expr(e.a, env), self.expr(e.b, env)
        if op in ("&&", "||"):
            ta, tb = self.truth(a), self.truth(b)
            if ta.const is not None and tb.const is not None:
                v = int(bool(ta.const) and bool(tb.const)) if op == "&&" else int(bool(ta.const) or bool(tb.const))
                return Term(S32, "", False, or_ub(ta.ub, tb.ub), v)
            if ta.const is not None:
                # constant left operand decides or disappears
                if (op == "&&") == bool(ta.const):
                    return Term(S32, tb.lean, True, or_ub(ta.ub, tb.ub))
                return Term(S32, "", False, ta.ub, int(op == "||"))
            if op == "&&":
                ub = or_ub(ta.ub, None if tb.ub is None else f"({paren(ta.lean)} && {paren(tb.ub)})")
            else:
                ub = or_ub(ta.ub, None if tb.ub is None else f"(!{paren(ta.lean)} && {paren(tb.ub)})")
            return Term(S32, f"({paren(ta.lean)} {op} {paren(tb.lean)})", True, ub)
        if op in ("<<", ">>"):
            return self.shift(op, a, b)
        if op in ("==", "!=") and a.isbool and b.isbool and a.const is None and b.const is None:
            return Term(S32, f"({paren(a.lean)} {op} {paren(b.lean)})", True, or_ub(a.ub, b.ub))
        ty = common_type(a.ctype, b.ctype)
        a, b = self.conv(a, ty), self.conv(b, ty)
        ub = or_ub(a.ub, b.ub)
        w = ty.width
        if a.const is not None and b.const is not None:
            return self.fold(op, a.const, b.const, ty, ub)
        x, y = paren(a.lean), paren(b.lean)
        if op in ("+", "-", "*"):
            return Term(ty, f"({x} {op} {y})", False, ub)
        if op in ("&", "|", "^"):
            lop = {"&": "&&&", "|": "|||", "^": "^^^"}[op]
            return Term(ty, f"({x} {lop} {y})", False, ub)
        if op in ("/", "%"):
            g = f"({y} == {lit(0, w)})"
            if b.const is not None:
                g = None if b.const != 0 else "true"
            if ty.signed:
                if b.const is None or b.const == -1:
                    g2 = f"({x} == {lit(-(1 << (w - 1)), w)} && {y} == {lit(-1, w)})"
                    if b.const == -1:
                        g2 = f"({x} == {lit(-(1 << (w - 1)), w)})"
                    g = or_ub(g, g2)
                f = "BitVec.sdiv" if op == "/" else "BitVec.srem"
                return Term(ty, f"({f} {x} {y})", False, or_ub(ub, g))
            return Term(ty, f"({x} {op} {y})", False, or_ub(ub, g))
        if op in ("<", "<=", ">", ">="):
            if ty.signed:
                f, p, q = {"<": ("BitVec.slt", x, y), "<=": ("BitVec.sle", x, y),
                           ">": ("BitVec.slt", y, x), ">=": ("BitVec.sle", y, x)}[op]
            else:
                f, p, q = {"<": ("BitVec.ult", x, y), "<=": ("BitVec.ule", x, y),
                           ">": ("BitVec.ult", y, x), ">=": ("BitVec.ule", y, x)}[op]
            return Term(S32, f"({f} {p} {q})", True, ub)
        if op in ("==", "!="):
            return Term(S32, f"({x} {op} {y})", True, ub)
        raise Unsupported(f"binary operator {op}")

    def fold(self, op: str, a: int, b: int, ty: CType, ub: str | None) -> Term:
        if op in ("/", "%"):
            if b == 0 or (ty.signed and a == -(1 << (ty.width - 1)) and b == -1):
                raise Unsupported("undefined constant division")
            q = abs(a) // abs(b) * (1 if (a < 0) == (b < 0) else -1)
            v = q if op == "/" else a - q * b
        elif op in ("<", "<=", ">", ">=", "==", "!="):
            v = int({"<": a < b, "<=": a <= b, ">": a > b, ">=": a >= b, "==": a == b, "!=": a != b}[op])
            return Term(S32, "", False, ub, v)
        else:
            v = {"+": a + b, "-": a - b, "*": a * b, "&": a & b, "|": a | b, "^": a ^ b}[op]
        v = norm(v, ty)
        return Term(ty, lit(v, ty.width), False, ub, v)

    def shift(self, op: str, a: Term, b: Term) -> Term:
        ty = promote(a.ctype)
        cty = promote(b.ctype)
        a, b = self.conv(a, ty), self.conv(b, cty)
        w = ty.width
        ub = or_ub(a.ub, b.ub)
        if b.const is not None:
            if not (0 <= b.const < w):
                raise Unsupported(f"constant shift count {b.const} out of range for width {w}")
            if a.const is not None:
                v = norm(a.const << b.const if op == "<<" else a.const >> b.const, ty)
                return Term(ty, lit(v, w), False, ub, v)
            cnt = str(b.const)
            guard = None
        else:
            cnt = f"{paren(b.lean)}.toNat"
            if cty.signed:
                guard = f"(decide ({paren(b.lean)}.toInt < 0) || decide ({w} ≤ {paren(b.lean)}.toInt))"
            else:
                guard = f"(decide ({w} ≤ {paren(b.lean)}.toNat))"
        x = paren(a.lean)
        if op == "<<":
            body = f"({x} <<< {cnt})"
        elif ty.signed:
            body = f"(BitVec.sshiftRight {x} {cnt})"
        else:
            body = f"({x} >>> {cnt})"
        return Term(ty, body, False, or_ub(ub, guard))

    def call(self, e: Call, env: dict[str, CType]) -> Term:
        if e.name == "__builtin_expect":
            if len(e.args) != 2:
                raise Unsupported("__builtin_expect arity")
            return self.expr(e.args[0], env)
        f = self.funcs.get(e.name)
        if f is None:
            if e.name in self.protos:
                raise Unsupported(f"call to out-of-line function {e.name} outside `return f(…)` / `return !f(…)`")
            raise Unsupported(f"call to unknown function {e.name}")
        if f.effect != "pure":
            raise Unsupported(f"call to {e.name}, which has a slow path / raises, inside an expression")
        if len(e.args) != len(f.params):
            raise Unsupported(f"{e.name}: arity")
        args = [self.conv(self.expr(a, env), pt) for a, (_, pt) in zip(e.args, f.params)]
        argtxt = " ".join(paren(a.lean) for a in args)
        ub = or_ub(*[a.ub for a in args], f"({f.name}_ub {argtxt})" if f.has_ub else None)
        return Term(f.ret, f"({f.name} {argtxt})", f.ret.isbool, ub)

    # -- statements
    def slow_call(self, e: Any, env: dict[str, CType]) -> tuple[str, str | None] | None:
        """`f(args)` / `!f(args)` with f declared out of line -> (Lean `Res.slow …`, ub)."""
        neg = False
        if isinstance(e, Unary) and e.op == "!":
            neg, e = True, e.e
        if not (isinstance(e, Call) and e.name in self.protos and e.name not in self.funcs):
            return None
        p = self.protos[e.name]
        if len(p.params) != len(e.args) or any(x is None for x in p.params):
            raise Unsupported(f"slow-path call {e.name}: non-integer parameter")
        args = []
        for a, pt in zip(e.args, p.params):
            assert pt is not None
            t = self.conv(self.expr(a, env), pt)
            # widen to 64 bits by the parameter type's signedness, so one list type fits all
            t = self.conv(t, CType(64, pt.signed))
            args.append(t)
        ub = or_ub(*[a.ub for a in args])
        lst = ", ".join(a.lean for a in args)
        return f'.slow ⟨"{e.name}", [{lst}], {"true" if neg else "false"}⟩', ub

    def contains_extern(self, e: Any) -> bool:
        if isinstance(e, Call):
            if e.name in self.protos and e.name not in self.funcs:
                return True
            return any(self.contains_extern(a) for a in e.args)
        if isinstance(e, Unary):
            return self.contains_extern(e.e)
        if isinstance(e, Cast):
            return self.contains_extern(e.e)
        if isinstance(e, Binary):
            return self.contains_extern(e.a) or self.contains_extern(e.b)
        return False

    def stmts(self, ss: list[Any], env: dict[str, CType], f: FuncInfo,
              kont: tuple[str, str | None] | None) -> tuple[str, str | None]:
        """Translate a statement list followed by `kont` (value text, ub text) — None = end of function."""
        if not ss:
            if kont is None:
                raise Unsupported(f"{f.name}: control can reach the end of a non-void function")
            return kont
        s, rest = ss[0], ss[1:]
        if isinstance(s, Decl):
            if s.name in env or s.name in self.funcs or s.name in self.protos:
                raise Unsupported(f"{f.name}: declaration of {s.name} shadows an existing name")
            if s.init is None:
                raise Unsupported(f"{f.name}: uninitialised local {s.name}")
            t = self.conv(self.expr(s.init, env), s.ctype)
            env2 = dict(env)
            env2[s.name] = s.ctype
            v, u = self.stmts(rest, env2, f, kont)
            return self.let(s.name, t, v, u)
        if isinstance(s, Assign):
            if s.name not in env:
                raise Unsupported(f"{f.name}: assignment to unknown variable {s.name}")
            ty = env[s.name]
            if s.op == "=":
                rhs = s.e
            else:
                rhs = Binary(s.op[:-1], Var(s.name), s.e)
            t = self.conv(self.expr(rhs, env), ty)
            v, u = self.stmts(rest, env, f, kont)
            return self.let(s.name, t, v, u)
        if isinstance(s, If):
            c = self.truth(self.expr(s.cond, env))
            k = self.stmts(rest, env, f, kont) if (rest or kont is not None) else None
            if c.const is not None:
                raise Unsupported(f"{f.name}: constant `if` condition")
            v1, u1 = self.stmts(s.then, env, f, k)
            v2, u2 = self.stmts(s.els, env, f, k)
            val = f"if {c.lean} then\n{indent(v1)}\nelse\n{indent(v2)}"
            if u1 is None and u2 is None:
                ub = c.ub
            else:
                inner = f"(if {c.lean} then\n{indent(u1 or 'false')}\nelse\n{indent(u2 or 'false')})"
                ub = inner if c.ub is None else f"({paren(c.ub)} ||\n{indent(inner)})"
            return val, ub
        if isinstance(s, Return):
            if f.effect == "res":
                sc = self.slow_call(s.e, env)
                if sc is not None:
                    return sc
            if self.contains_extern(s.e):
                raise Unsupported(f"{f.name}: out-of-line call in an unsupported position")
            t = self.conv(self.expr(s.e, env), f.ret)
            val = t.lean if f.effect == "pure" else f".fast {paren(t.lean)}"
            return val, t.ub
        if isinstance(s, ExprStmt):
            e = s.e
            if isinstance(e, Call) and e.name == "PyErr_SetString":
                if (len(e.args) == 2 and isinstance(e.args[0], Var) and e.args[0].name.startswith("PyExc_")
                        and isinstance(e.args[1], Str) and rest and isinstance(rest[0], Return)
                        and f.effect == "res"):
                    t = self.conv(self.expr(rest[0].e, env), f.ret)
                    exc = e.args[0].name[len("PyExc_"):]
                    return f'.raise "{exc}" {paren(t.lean)}', t.ub
                raise Unsupported(f"{f.name}: PyErr_SetString not of the form `PyErr_SetString(PyExc_X, \"…\"); return v;`")
            raise Unsupported(f"{f.name}: expression statement {e!r}")
        raise Unsupported(f"{f.name}: statement {s!r}")

    @staticmethod
    def let(name: str, t: Term, v: str, u: str | None) -> tuple[str, str | None]:
        n = lname(name)
        val = f"let {n} : {t.ctype.lean} := {t.lean}\n{v}"
        if u is None:
            return val, t.ub
        inner = f"(let {n} : {t.ctype.lean} := {t.lean}\n{u})"
        return val, inner if t.ub is None else f"({paren(t.ub)} ||\n{indent(inner)})"


# ------------------------------------------------------------------------------- top-level C scanning
@dataclass
class Chunk:
    toks: list[Tok]
    body: list[Tok] | None     # tokens of `{ … }` for a function definition
    line: int
    text: str


def split_toplevel(toks: list[Tok]) -> list[tuple[list[Tok], list[Tok] | None]]:
    """Split into declarations: (head tokens, body tokens or None).  `extern "C" {` wrappers are entered."""
    out = []
    i, n = 0, len(toks)
    head: list[Tok] = []
    while i < n:
        t = toks[i]
        if t.text == "{":
            # extern "C" { … } : transparent
            if len(head) == 2 and head[0].text == "extern" and head[1].kind == "str":
                head = []
                i += 1
                continue
            depth, j = 0, i
            while j < n:
                depth += toks[j].text == "{"
                depth -= toks[j].text == "}"
                if depth == 0:
                    break
                j += 1
            body = toks[i:j + 1]
            is_func = any(x.text == ")" for x in head[-1:]) and not any(x.text in ("struct", "union", "enum", "typedef", "=") for x in head)
            if is_func:
                out.append((head, body))
                head = []
                i = j + 1
            else:
                head = head + body
                i = j + 1
            continue
        if t.text == "}" and not head:
            i += 1           # closing brace of extern "C"
            continue
        if t.text == ";":
            if head:
                out.append((head, None))
            head = []
            i += 1
            continue
        head.append(t)
        i += 1
    return out


def parse_signature(head: list[Tok], typedefs: dict[str, CType], pp: Preprocessor, where: str
                    ) -> tuple[str, list[tuple[str, CType | None]], CType | None, bool] | None:
    """`[static] [inline] T name(params)` -> (name, [(pname, type or None)], ret type or None, static_inline)."""
    # find the parameter list: last ")" and its matching "("
    if not head or head[-1].text != ")":
        return None
    depth = 0
    k = len(head) - 1
    while k >= 0:
        depth += head[k].text == ")"
        depth -= head[k].text == "("
        if depth == 0:
            break
        k -= 1
    if k <= 0 or head[k - 1].kind != "id":
        return None
    name = head[k - 1].text
    pre, ptoks = head[:k - 1], head[k + 1:-1]
    si = any(t.text == "static" for t in pre) and any(t.text == "inline" for t in pre)

    def integer_type(ts: list[Tok]) -> CType | None:
        if any(t.text in ("*", "[", "(") for t in ts):
            return None
        p = Parser(ts, pp, typedefs, where)
        try:
            ty = p.try_type()
        except Unsupported:
            return None
        if ty is None or p.i != len(ts):
            return None
        return ty

    ret = integer_type([t for t in pre if t.text not in ("static", "inline", "extern", "CPy_NOINLINE")])
    params: list[tuple[str, CType | None]] = []
    if ptoks and not (len(ptoks) == 1 and ptoks[0].text == "void"):
        cur: list[Tok] = []
        groups = []
        d = 0
        for t in ptoks:
            if t.text == "(":
                d += 1
            if t.text == ")":
                d -= 1
            if t.text == "," and d == 0:
                groups.append(cur)
                cur = []
            else:
                cur.append(t)
        groups.append(cur)
        for g in groups:
            if g and g[-1].kind == "id" and len(g) >= 2 and g[-1].text not in BASE_TYPES and g[-1].text not in typedefs:
                params.append((g[-1].text, integer_type(g[:-1])))
            else:
                params.append(("", integer_type(g)))
    return name, params, ret, si


@dataclass
class Source:
    path: str                      # relative to REPO
    mode: str                      # "header": every static inline all-integer function; "list": names
    names: list[str] = field(default_factory=list)
    section: tuple[str, str] | None = None    # (start marker, end marker) comment lines


SOURCES = [
    Source("mypyc/lib-rt/mypyc_util.h", "header"),
    Source("mypyc/lib-rt/CPy.h", "header", section=("// Int operations", "// Float operations")),
    Source("mypyc/lib-rt/int_ops.c", "list",
           names=["CPyInt64_Divide", "CPyInt64_Remainder", "CPyInt32_Divide", "CPyInt32_Remainder",
                  "CPyInt16_Divide", "CPyInt16_Remainder"]),
]
PREDEFINED = {"__GNUC__": "12", "__x86_64__": "1", "__SIZEOF_POINTER__": "8", "__STDC_VERSION__": "201710L",
              "PY_VERSION_HEX": hex(sys.hexversion)}


@dataclass
class Result:
    lean: str
    functions: list[FuncInfo]
    skipped: list[tuple[str, str]]


def section_of(lines: list[str], sec: tuple[str, str] | None, path: str) -> tuple[int, int]:
    """1-based [first, last) line numbers of the section of the file that holds code to translate."""
    if sec is None:
        return 1, len(lines) + 1
    try:
        a = next(i for i, ln in enumerate(lines) if ln.strip() == sec[0])
        b = next(i for i, ln in enumerate(lines) if ln.strip() == sec[1] and i > a)
    except StopIteration:
        raise Unsupported(f"{path}: section markers {sec} not found")
    return a + 1, b + 1


def translate_sources(texts: list[tuple[Source, str]], predefined: dict[str, str] | None = None) -> Result:
    pp = Preprocessor(dict(PREDEFINED if predefined is None else predefined))
    typedefs: dict[str, CType] = {}
    funcs: dict[str, FuncInfo] = {}
    protos: dict[str, Proto] = {}
    tr = Translator(pp, funcs, protos)
    out: list[str] = []
    skipped: list[tuple[str, str]] = []
    order: list[FuncInfo] = []
    for srcinfo, text in texts:
        rawlines = text.split("\n")
        # macros and typedefs come from the whole file, code only from the section
        active_all = pp.run(text, srcinfo.path)
        for ln, line in active_all:
            m = re.match(r"\s*typedef\s+([\w\s]+?)\s+(\w+)\s*;\s*$", line)
            if m:
                base = m.group(1).strip()
                if base in typedefs:
                    typedefs[m.group(2)] = typedefs[base]
                elif base in BASE_TYPES:
                    typedefs[m.group(2)] = BASE_TYPES[base]
        a, b = section_of(rawlines, srcinfo.section, srcinfo.path)
        code_lines = [(ln, line) for ln, line in active_all if a <= ln < b]
        toks: list[Tok] = []
        for ln, line in code_lines:
            toks.extend(tokenize(line, ln))
        found: set[str] = set()
        for head, body in split_toplevel(toks):
            where = f"{srcinfo.path}:{head[0].line if head else 0}"
            sig = parse_signature(head, typedefs, pp, where)
            if sig is None:
                continue
            name, params, ret, static_inline = sig
            if body is None:
                protos.setdefault(name, Proto(name, [t for _, t in params], ret))
                continue
            all_int = ret is not None and params and all(t is not None for _, t in params)
            if srcinfo.mode == "list":
                if name not in srcinfo.names:
                    continue
                if not all_int:
                    raise Unsupported(f"{where}: {name} no longer has an all-integer signature")
            else:
                if not static_inline:
                    continue
                if not all_int:
                    skipped.append((name, "signature has a non-integer type (pointer/void/double)"))
                    continue
            found.add(name)
            assert ret is not None
            ps = [(p, t) for p, t in params if t is not None]
            first, last = head[0].line, body[-1].line
            src_txt = "\n".join(rawlines[first - 1:last])
            info = translate_function(tr, pp, typedefs, name, ps, ret, body, where, src_txt)
            funcs[name] = info[0]
            order.append(info[0])
            out.append(info[1])
        if srcinfo.mode == "list":
            missing = [n for n in srcinfo.names if n not in found]
            if missing:
                raise Unsupported(f"{srcinfo.path}: functions not found: {missing}")
    return Result("\n\n".join(out), order, skipped)


def translate_function(tr: Translator, pp: Preprocessor, typedefs: dict[str, CType], name: str,
                       params: list[tuple[str, CType]], ret: CType, body: list[Tok], where: str,
                       src_txt: str) -> tuple[FuncInfo, str]:
    toks = pp.expand(body, where)
    p = Parser(toks, pp, typedefs, f"{where} ({name})")
    ss = p.block()
    if p.i != len(toks):
        raise Unsupported(f"{where}: trailing tokens after the body of {name}")
    effect = "pure"

    def scan(e: Any) -> None:
        nonlocal effect
        if isinstance(e, Call):
            if e.name == "PyErr_SetString" or (e.name in tr.protos and e.name not in tr.funcs):
                effect = "res"
            for a in e.args:
                scan(a)
        elif isinstance(e, (Unary, Cast)):
            scan(e.e)
        elif isinstance(e, Binary):
            scan(e.a)
            scan(e.b)
        elif isinstance(e, (Decl,)):
            scan(e.init)
        elif isinstance(e, (Assign, Return, ExprStmt)):
            scan(e.e)
        elif isinstance(e, If):
            scan(e.cond)
            for x in e.then + e.els:
                scan(x)

    for s in ss:
        scan(s)
    info = FuncInfo(name, params, ret, effect, False, src_txt, where)
    env = {}
    for pn, pt in params:
        if pn in env or not pn:
            raise Unsupported(f"{where}: parameter names of {name}")
        env[pn] = pt
    val, ub = tr.stmts(ss, env, info, None)
    info.has_ub = ub is not None
    binders = " ".join(f"({lname(pn)} : {pt.lean})" for pn, pt in params)
    rty = ret.lean if effect == "pure" else f"CSem.Res {paren(ret.lean)}"
    doc = src_txt.replace("-/", "- /").replace("/-", "/ -")
    sig = ", ".join(f"{pn}: {pt}" for pn, pt in params)
    text = f"/-- `{where}`  C types: ({sig}) → {ret}\n```c\n{doc}\n```\n-/\n"
    text += f"def {name} {binders} : {rty} :=\n{indent(val)}"
    if ub is not None:
        text += (f"\n\n/-- `{name}` executes an operation that C leaves undefined (division by zero, "
                 f"`INT_MIN / -1`, shift count out of range). -/\n"
                 f"def {name}_ub {binders} : Bool :=\n{indent(ub)}")
    return info, text


# ----------------------------------------------------------------------------- live Python side tables
def python_tables() -> tuple[str, dict]:
    """Operator -> C function for `int` operands, the comparison lowering table, error values."""
    import mypy.build  # noqa: F401  (import order: avoids mypy's types/expandtype import cycle)
    import mypyc.primitives.int_ops  # noqa: F401  (registers the ops)
    from mypyc.ir.ops import ComparisonOp
    import mypyc.primitives.float_ops as _float_ops
    import mypyc.primitives.int_ops as _int_ops
    from mypyc.ir.ops import PrimitiveDescription
    from mypyc.ir.rtypes import (float_rprimitive, int16_rprimitive, int32_rprimitive, int64_rprimitive, int_rprimitive,
                                 is_fixed_width_rtype, is_float_rprimitive, is_int_rprimitive, uint8_rprimitive)
    from mypyc.primitives import registry as _registry
    from mypyc.primitives.registry import CFunctionDescription
    from mypyc.lower.int_ops import int_comparison_op_mapping
    from mypyc.primitives.registry import binary_ops, unary_ops

    def esc(s: str) -> str:
        return s.replace("\\", "\\\\").replace('"', '\\"')

    bin_rows, un_rows = [], []
    for op in sorted(binary_ops):
        for d in binary_ops[op]:
            if len(d.arg_types) == 2 and all(is_int_rprimitive(t) for t in d.arg_types) and d.c_function_name:
                bin_rows.append((op, d.c_function_name, d.error_kind))
    for op in sorted(unary_ops):
        for d in unary_ops[op]:
            if len(d.arg_types) == 1 and is_int_rprimitive(d.arg_types[0]) and d.c_function_name:
                un_rows.append((op, d.c_function_name, d.error_kind))
    names = {getattr(ComparisonOp, n): n for n in ("EQ", "NEQ", "SLT", "SGT", "SLE", "SGE", "ULT", "UGT", "ULE", "UGE")}
    cmp_rows = []
    for op in sorted(int_comparison_op_mapping):
        d = int_comparison_op_mapping[op]
        cmp_rows.append((op, names[d.binary_op_variant], d.c_func_description.c_function_name,
                         bool(d.c_func_negated), bool(d.c_func_swap_operands)))
    errs = [("int", int_rprimitive.c_undefined), ("i64", int64_rprimitive.c_undefined),
            ("i32", int32_rprimitive.c_undefined), ("i16", int16_rprimitive.c_undefined),
            ("u8", uint8_rprimitive.c_undefined), ("float", float_rprimitive.c_undefined)]
    # numeric primitives whose result type has an *overlapping* error value (every bit pattern is a legitimate result)
    tname = {"builtins.float": "float"}
    native_rows: dict[tuple[str, str], tuple[str, int]] = {}

    def native(t: object) -> bool:
        return is_fixed_width_rtype(t) or is_float_rprimitive(t)      # type: ignore[arg-type]

    for mod in (_int_ops, _float_ops):
        for k, v in vars(mod).items():
            if isinstance(v, (CFunctionDescription, PrimitiveDescription)) and native(v.return_type) and v.c_function_name:
                native_rows[(k, v.c_function_name)] = (tname.get(v.return_type.name, v.return_type.name), v.error_kind)
    for regname in ("binary_ops", "unary_ops", "function_ops", "method_call_ops"):
        for k, lst in getattr(_registry, regname, {}).items():
            for v in lst:
                c = v.c_function_name or ""
                if native(v.return_type) and c.startswith(("CPyTagged_", "CPyFloat_", "CPyInt", "CPyLong_As")):
                    native_rows[(regname + ":" + k, c)] = (tname.get(v.return_type.name, v.return_type.name), v.error_kind)
    native_list = sorted((k[0], k[1], v[0], v[1]) for k, v in native_rows.items())
    lines = ["/-- `mypyc.primitives.registry.binary_ops` restricted to `(int, int)` operands with a C function:",
             "    (Python operator, C function, error kind). -/",
             "def intBinaryOps : List (String × String × Nat) := ["]
    lines.append(",\n".join(f'  ("{esc(a)}", "{esc(b)}", {c})' for a, b, c in bin_rows) + "]")
    lines += ["", "/-- `unary_ops` restricted to an `int` operand. -/",
              "def intUnaryOps : List (String × String × Nat) := ["]
    lines.append(",\n".join(f'  ("{esc(a)}", "{esc(b)}", {c})' for a, b, c in un_rows) + "]")
    lines += ["", "/-- `mypyc.lower.int_ops.int_comparison_op_mapping`: operator ↦ (ComparisonOp variant for two",
              "    short operands, out-of-line C function, negate its result, swap its operands). -/",
              "def intComparisonOpMapping : List (String × String × String × Bool × Bool) := ["]
    lines.append(",\n".join(f'  ("{a}", "{b}", "{c}", {str(d).lower()}, {str(e).lower()})' for a, b, c, d, e in cmp_rows) + "]")
    lines += ["", "/-- `RPrimitive.c_undefined`: the error value of each native type as C text. -/",
              "def cUndefined : List (String × String) := ["]
    lines.append(",\n".join(f'  ("{a}", "{esc(b)}")' for a, b in errs) + "]")
    lines += ["", "/-- Numeric primitives (mypyc.primitives.int_ops / float_ops and the CPyTagged_/CPyFloat_/CPyInt*/CPyLong_As*",
              "    entries of the registries) whose result type is a native int or float: (description, C function, result",
              "    type, error kind).  For these types the error value overlaps with ordinary results. -/",
              "def nativeResultOps : List (String × String × String × Nat) := ["]
    lines.append(",\n".join(f'  ("{esc(a)}", "{esc(b)}", "{c}", {d})' for a, b, c, d in native_list) + "]")
    meta = {"binary": bin_rows, "unary": un_rows, "comparison": cmp_rows, "c_undefined": errs, "native_result_ops": native_list}
    return "\n".join(lines), meta


def dispatch_table(funcs: list[FuncInfo]) -> str:
    """`dispatch name args` evaluates a generated function on concrete words (for the Lean driver)."""
    lines = ["/-- Evaluate a generated function on concrete words; output `val n` / `fast n` / `slow f neg args…` /",
             "    `raise Exc n`, followed by ` ub=0|1`. -/",
             "def dispatch (f : String) (a : List Nat) : String :=",
             "  match f, a with"]
    for fn in funcs:
        xs = [f"x{i}" for i in range(len(fn.params))]
        args = " ".join(
            (f"(decide ({x} ≠ 0))" if t.isbool else f"(BitVec.ofNat {t.width} {x})") for x, (_, t) in zip(xs, fn.params))
        call = f"({fn.name} {args})"
        if fn.effect == "pure":
            shown = f"\"val \" ++ CSem.showBool {call}" if fn.ret.isbool else f"\"val \" ++ CSem.showBV {call}"
        else:
            shown = f"CSem.showResBool {call}" if fn.ret.isbool else f"CSem.showResBV {call}"
        ub = f"CSem.showBool ({fn.name}_ub {args})" if fn.has_ub else '"0"'
        lines.append(f'  | "{fn.name}", [{", ".join(xs)}] => {shown} ++ " ub=" ++ {ub}')
    lines.append('  | _, _ => "unknown-function"')
    return "\n".join(lines)


# ------------------------------------------------------------------------------------------- assembly
HEADER = """import MypyVerif.Model.CSem
/-!
GENERATED by translate/cfast.py from {files} — do not edit.

The integer fast paths of mypyc's C runtime as total functions over `BitVec`; see the translator's
docstring for the typing and signedness rules.  `*_ub` = the function executes an operation C leaves
undefined on these arguments.
-/
set_option linter.unusedVariables false
namespace CFast
"""


def generate(repo: str = REPO) -> tuple[str, dict]:
    texts = []
    for s in SOURCES:
        with open(os.path.join(repo, s.path), encoding="utf-8") as f:
            texts.append((s, f.read()))
    res = translate_sources(texts)
    tables, meta = python_tables()
    lean = HEADER.format(files=", ".join(s.path for s in SOURCES)) + "\n" + res.lean + "\n\n" + tables + "\n\n" + dispatch_table(res.functions) + "\n\nend CFast\n"
    inv = {
        "functions": [{"name": f.name, "where": f.where, "effect": f.effect, "has_ub": f.has_ub,
                       "params": [[p, str(t)] for p, t in f.params], "ret": str(f.ret)} for f in res.functions],
        "skipped": res.skipped, "tables": meta,
    }
    return lean, inv


def main() -> int:
    selftest()
    lean, inv = generate()
    os.makedirs(os.path.dirname(OUT), exist_ok=True)
    old = open(OUT).read() if os.path.exists(OUT) else None
    if old != lean:                      # keep the mtime (and lake's cache) when nothing changed
        with open(OUT, "w") as f:
            f.write(lean)
    with open(OUT_JSON, "w") as f:
        json.dump(inv, f, indent=1)
    return 0


# ------------------------------------------------------------------------------------------- self-test
SELFTEST_C = """
typedef size_t CPyTagged;
#define CPY_INT_TAG 1
#define likely(x)       __builtin_expect((x),1)
#define CPY_INT_BITS (CHAR_BIT * sizeof(CPyTagged))
CPyTagged T_Slow_(CPyTagged left, CPyTagged right);
static inline int T_CheckShort(CPyTagged x) {
    return !(x & CPY_INT_TAG);
}
static inline bool T_Ovf(CPyTagged sum, CPyTagged left, CPyTagged right) {
    return (Py_ssize_t)(sum ^ left) < 0 && (Py_ssize_t)(sum ^ right) < 0;
}
static inline CPyTagged T_Add(CPyTagged left, CPyTagged right) {
    if (likely(T_CheckShort(left) && T_CheckShort(right))) {
        CPyTagged sum = left + right;
        if (likely(!T_Ovf(sum, left, right))) {
            return sum;
        }
    }
    return T_Slow_(left, right);
}
static inline CPyTagged T_Div(CPyTagged left, CPyTagged right) {
    Py_ssize_t result = ((Py_ssize_t)left >> 1) / (Py_ssize_t)right;
    if ((Py_ssize_t)left < 0) {
        result--;
    }
    return (result << 1) & ~CPY_INT_TAG;
}
static inline bool T_Big(CPyTagged left) {
    return left >= (1U << (CPY_INT_BITS/2 - 1));
}
"""

SELFTEST_EXPECT = '''def T_CheckShort (x : BitVec 64) : BitVec 32 :=
  (CSem.ofBool 32 ((x &&& 1#64) == 0#64))

def T_Ovf (sum : BitVec 64) (left : BitVec 64) (right : BitVec 64) : Bool :=
  ((BitVec.slt (sum ^^^ left) 0#64) && (BitVec.slt (sum ^^^ right) 0#64))

def T_Add (left : BitVec 64) (right : BitVec 64) : CSem.Res (BitVec 64) :=
  if (((T_CheckShort left) != 0#32) && ((T_CheckShort right) != 0#32)) then
    let sum : BitVec 64 := (left + right)
    if (!(T_Ovf sum left right)) then
      .fast sum
    else
      .slow ⟨"T_Slow_", [left, right], false⟩
  else
    .slow ⟨"T_Slow_", [left, right], false⟩

def T_Div (left : BitVec 64) (right : BitVec 64) : BitVec 64 :=
  let result : BitVec 64 := (BitVec.sdiv (BitVec.sshiftRight left 1) right)
  if (BitVec.slt left 0#64) then
    let result : BitVec 64 := (result - 1#64)
    ((result <<< 1) &&& 18446744073709551614#64)
  else
    ((result <<< 1) &&& 18446744073709551614#64)

def T_Div_ub (left : BitVec 64) (right : BitVec 64) : Bool :=
  ((right == 0#64) || ((BitVec.sshiftRight left 1) == 9223372036854775808#64 && right == 18446744073709551615#64))

def T_Big (left : BitVec 64) : Bool :=
  (BitVec.ule 2147483648#64 left)'''

SELFTEST_MUTATIONS = [
    ("(Py_ssize_t)(sum ^ right) < 0;", "(Py_ssize_t)(sum ^ left) < 0;"),        # wrong operand
    ("(Py_ssize_t)(sum ^ left) < 0 &&", "(sum ^ left) < 0 &&"),                   # dropped cast: unsigned <
    ("((Py_ssize_t)left >> 1) /", "(left >> 1) /"),                                # logical instead of arithmetic shift
    ("CPyTagged sum = left + right;", "CPyTagged sum = left - right;"),
    ("return T_Slow_(left, right);", "return T_Slow_(right, left);"),
    ("#define CPY_INT_TAG 1", "#define CPY_INT_TAG 2"),
    ("result--;", "result++;"),
    ("(1U << (CPY_INT_BITS/2 - 1))", "(1U << (CPY_INT_BITS/2))"),                 # would be 1U << 32: rejected
    ("if (likely(!T_Ovf(sum, left, right))) {", "if (likely(T_Ovf(sum, left, right))) {"),
]
SELFTEST_REJECT = [
    "static inline CPyTagged T_Bad(CPyTagged a) { while (a) { a--; } return a; }",
    "static inline CPyTagged T_Bad(CPyTagged a) { return a ? 1 : 2; }",
    "static inline CPyTagged T_Bad(CPyTagged a) { CPyTagged *p = &a; return *p; }",
    "static inline CPyTagged T_Bad(CPyTagged a) { if (a) { return 1; } }",
    "static inline CPyTagged T_Bad(CPyTagged a) { return T_Slow_(a, a) + 1; }",
    "static inline CPyTagged T_Bad(CPyTagged a) { CPyTagged a = 1; return a; }",
    "static inline CPyTagged T_Bad(CPyTagged a) { return undefined_fn(a); }",
    "static inline CPyTagged T_Bad(CPyTagged a) { return a << 64; }",
    "static inline CPyTagged T_Bad(CPyTagged a) { double d = 1.5; return a; }",
]


def _strip_docs(lean: str) -> str:
    return re.sub(r"/--.*?-/\n", "", lean, flags=re.S).strip()


def selftest() -> None:
    src = Source("<selftest>", "header")
    got = _strip_docs(translate_sources([(src, SELFTEST_C)]).lean)
    if got != SELFTEST_EXPECT.strip():
        import difflib
        d = "\n".join(difflib.unified_diff(SELFTEST_EXPECT.strip().split("\n"), got.split("\n"), "expected", "got", lineterm=""))
        raise Unsupported("cfast self-test: translation of the fixed snippet changed:\n" + d)
    for a, b in SELFTEST_MUTATIONS:
        if a not in SELFTEST_C:
            raise Unsupported(f"cfast self-test: mutation anchor missing: {a}")
        try:
            m = _strip_docs(translate_sources([(src, SELFTEST_C.replace(a, b))]).lean)
        except Unsupported:
            continue          # rejected is also "not silently the same"
        if m == got:
            raise Unsupported(f"cfast self-test: mutation {a!r} -> {b!r} did not change the output")
    for bad in SELFTEST_REJECT:
        try:
            translate_sources([(src, SELFTEST_C + bad + "\n")])
        except Unsupported:
            continue
        raise Unsupported(f"cfast self-test: unsupported construct was accepted: {bad}")


if __name__ == "__main__":
    sys.exit(main())
