"""C15 translator #2: final mypyc IR of one-operation functions -> Lean (`Gen/IrOps.lean`).

The harness catalogue (`harness/c15/gen.py`) is compiled *to IR* in process (mypy build + `compile_modules_to_ir`
of the checked tree), and the IR of every integer function is emitted as a Lean function over `BitVec`, so that
the Python-side lowering (`mypyc/lower/int_ops.py` `compare_tagged`, `mypyc/irbuild/ll_builder.py`
`fixed_width_int_op`, `inline_fixed_width_divide/mod`, `check_for_zero_division`, `coerce_int_to_fixed_width`,
`coerce_fixed_width_to_int`) is tied to the hand model `Model/FixedWidth.lean` by theorems (`Props/C15.lean`,
section "IR ties"), not only by running the compiled code.

IR subset: `IntOp`, `ComparisonOp`, `Extend`, `Truncate`, `Assign`, `Branch` (bool / is_error), `Goto`, `Return`,
`CallC`, `RaiseStandardError`, `LoadErrorValue`, `Unreachable` (only behind a statically false branch), `KeepAlive`,
`IncRef`/`DecRef` (ignored: reference counts are C06's business).  Control flow must be a DAG (it is expanded into
nested `if`s; registers are resolved per path, so no phi nodes are needed).

Semantics of the emitted C (`mypyc/codegen/emitfunc.py`): an `IntOp` is the C operator on the C types of the
registers — `CPyTagged`/pointers unsigned 64 (right shift of a tagged value is cast to `Py_ssize_t`), `native_int`,
`i64`, `i32`, `i16` signed, `u8` unsigned; signed comparison variants cast tagged operands to `Py_ssize_t`; `u8`
operands are promoted to (non-negative) `int`, so even the "signed" variants compare them as unsigned.

Calls: functions translated by `translate/cfast.py` are called as such (`CFast.*`; a function with a slow path or
an exception result is bound by `match`, and its exception becomes the pending exception that `PyErr_Occurred()`
reports); `void` functions whose body is `PyErr_SetString(PyExc_X, …)` set the pending exception; every other C
function is opaque — its result may only flow (through `Assign` and `^ 1` on a bit) into `return`, which becomes
`Res.slow ⟨name, args, negated⟩`; an `is_error` test of an opaque result follows the success edge (failures of
opaque calls are outside the model).

Fail closed: `REQUIRED` functions must translate (else `Unsupported`); the others are translated when possible and
listed with the reason otherwise.
"""
from __future__ import annotations

import json
import os
import re
import sys
from dataclasses import dataclass
from typing import Any

try:
    from harness.vlib.core import LEAN, REPO
except Exception:  # pragma: no cover
    LEAN = os.path.join(os.path.dirname(os.path.dirname(os.path.abspath(__file__))), "lean")
    REPO = os.environ.get("VERIF_REPO", "/repo")

from translate.cfast import Unsupported, lit, paren, indent

OUT = os.path.join(LEAN, "MypyVerif", "Gen", "IrOps.lean")
OUT_JSON = os.path.join(LEAN, "MypyVerif", "Gen", "IrOps.json")

# functions the theorems of Props/C15.lean (section "IR ties") are about
REQUIRED = [
    "lt_int", "le_int", "gt_int", "ge_int", "eq_int", "ne_int",
    "add_int", "sub_int", "mul_int", "and__int", "or__int", "xor_int", "neg_int", "inv_int", "fdiv_int", "mod_int",
    "lsh_int", "rsh_int", "iadd_int", "isub_int", "imul_int", "ifdiv_int", "imod_int", "iand_int", "ior_int", "ixor_int",
    "ilsh_int", "irsh_int",
    "add_i64", "sub_i64", "mul_i64", "and__i64", "or__i64", "xor_i64", "lsh_i64", "rsh_i64", "fdiv_i64", "mod_i64",
    "neg_i64", "inv_i64", "lt_i64", "eq_i64",
    "add_i32", "mul_i32", "rsh_i32", "fdiv_i32", "mod_i32", "neg_i32", "le_i32",
    "add_i16", "sub_i16", "mul_i16", "fdiv_i16", "mod_i16", "inv_i16", "gt_i16",
    "add_u8", "sub_u8", "mul_u8", "rsh_u8", "fdiv_u8", "mod_u8", "neg_u8", "inv_u8", "lt_u8", "ge_u8",
    "fdiv_i64_c3", "fdiv_i64_cm3", "mod_i64_c3", "mod_i64_cm3", "fdiv_i32_c7", "mod_i32_cm7", "fdiv_i16_c3", "mod_i16_cm3",
    "conv_i64", "conv_i32", "conv_i16", "conv_u8", "back_i64", "back_i32", "back_i16", "back_u8",
]


@dataclass
class SV:
    kind: str                 # "bv" | "bool" | "opaque" | "err" | "pending" | "unit"
    lean: str = ""
    width: int = 0
    signed: bool = False      # C signedness of the register's type
    tagged: bool = False
    call: tuple | None = None  # opaque: (name, [64-bit arg terms], negated)
    const: int | None = None


class IrTranslator:
    def __init__(self, cfast_inv: dict):
        self.cfuncs = {f["name"]: f for f in cfast_inv["functions"]}
        self.raisers: dict[str, str] = dict(cfast_inv.get("raisers", {}))

    # -- types
    def typeinfo(self, t: Any) -> tuple[str, int, bool, bool]:
        """(kind, width, signed, tagged)"""
        from mypyc.ir import rtypes as R
        if R.is_tagged(t):
            return "bv", 64, False, True
        if R.is_bool_or_bit_rprimitive(t):
            return "bool", 1, False, False
        if R.is_int64_rprimitive(t):
            return "bv", 64, True, False
        if R.is_int32_rprimitive(t):
            return "bv", 32, True, False
        if R.is_int16_rprimitive(t):
            return "bv", 16, True, False
        if R.is_uint8_rprimitive(t):
            return "bv", 8, False, False
        name = getattr(t, "name", "")
        if name == "native_int" or getattr(t, "_ctype", "") == "Py_ssize_t":
            return "bv", 64, True, False
        if name in ("ptr", "c_ptr"):
            return "bv", 64, False, False
        if R.is_float_rprimitive(t):
            raise Unsupported("float register")
        if R.is_object_rprimitive(t) or name == "builtins.object":
            return "obj", 64, False, False
        raise Unsupported(f"register type {t!r}")

    def value(self, v: Any, env: dict) -> SV:
        from mypyc.ir.ops import Float, Integer
        if isinstance(v, Integer):
            kind, w, sg, tg = self.typeinfo(v.type)
            if kind == "bool":
                return SV("bool", "true" if v.value else "false", 1, const=int(bool(v.value)))
            if kind == "obj":
                raise Unsupported("object literal")
            return SV("bv", lit(v.value, w), w, sg, tg, const=v.value)
        if isinstance(v, Float):
            raise Unsupported("float literal")
        if v not in env:
            raise Unsupported(f"use of an undefined register {getattr(v, 'name', v)!r}")
        return env[v]

    # -- straight-line ops -> SV
    def int_op(self, op: Any, env: dict) -> SV:
        from mypyc.ir.ops import IntOp
        kind, w, sg, tg = self.typeinfo(op.type)
        a, b = self.value(op.lhs, env), self.value(op.rhs, env)
        if a.kind == "opaque" or b.kind == "opaque":
            o, other = (a, b) if a.kind == "opaque" else (b, a)
            if kind == "bool" and op.op == IntOp.XOR and other.const == 1 and o.call is not None:
                return SV("opaque", call=(o.call[0], o.call[1], not o.call[2]))
            raise Unsupported("operation on the result of an opaque call")
        if kind == "bool":
            sym = {IntOp.XOR: "^^", IntOp.AND: "&&", IntOp.OR: "||"}.get(op.op)
            if sym is None or a.kind != "bool" or b.kind != "bool":
                raise Unsupported("IntOp on bits other than & | ^")
            return SV("bool", f"({paren(a.lean)} {sym} {paren(b.lean)})", 1)
        if a.kind != "bv" or b.kind != "bv":
            raise Unsupported("IntOp on non-integer registers")
        shift = op.op in (IntOp.LEFT_SHIFT, IntOp.RIGHT_SHIFT)
        if a.width != w or (b.width != w and not shift):
            raise Unsupported(f"IntOp operand widths {a.width},{b.width} differ from the result width {w}")
        x, y = paren(a.lean), paren(b.lean)
        simple = {IntOp.ADD: "+", IntOp.SUB: "-", IntOp.MUL: "*", IntOp.AND: "&&&", IntOp.OR: "|||", IntOp.XOR: "^^^"}
        if op.op in simple:
            return SV("bv", f"({x} {simple[op.op]} {y})", w, sg, tg)
        if op.op in (IntOp.DIV, IntOp.MOD):
            if tg:
                raise Unsupported("division of tagged values")
            if sg:
                f = "BitVec.sdiv" if op.op == IntOp.DIV else "BitVec.srem"
                return SV("bv", f"({f} {x} {y})", w, sg, tg)
            return SV("bv", f"({x} {'/' if op.op == IntOp.DIV else '%'} {y})", w, sg, tg)
        cnt = str(b.const) if b.const is not None and b.const >= 0 else f"{y}.toNat"
        if op.op == IntOp.LEFT_SHIFT:
            return SV("bv", f"({x} <<< {cnt})", w, sg, tg)
        if op.op == IntOp.RIGHT_SHIFT:
            if sg or tg:      # tagged: cast to Py_ssize_t
                return SV("bv", f"(BitVec.sshiftRight {x} {cnt})", w, sg, tg)
            return SV("bv", f"({x} >>> {cnt})", w, sg, tg)
        raise Unsupported(f"IntOp {op.op}")

    def comparison(self, op: Any, env: dict) -> SV:
        from mypyc.ir.ops import ComparisonOp as C
        a, b = self.value(op.lhs, env), self.value(op.rhs, env)
        if (a.kind == "opaque" and b.const is not None) or (b.kind == "opaque" and a.const is not None):
            if op.op == C.EQ:
                return SV("opaque_errcheck")      # `r == <error magic>` of an opaque call's result
            raise Unsupported("comparison of the result of an opaque call")
        if a.kind == "bool" and b.kind == "bool":
            if op.op == C.EQ:
                return SV("bool", f"({paren(a.lean)} == {paren(b.lean)})", 1)
            if op.op == C.NEQ:
                return SV("bool", f"({paren(a.lean)} != {paren(b.lean)})", 1)
            raise Unsupported("ordering comparison of bits")
        if a.kind != "bv" or b.kind != "bv" or a.width != b.width:
            raise Unsupported("comparison of non-integer or differently sized registers")
        x, y = paren(a.lean), paren(b.lean)
        if op.op == C.EQ:
            return SV("bool", f"({x} == {y})", 1)
        if op.op == C.NEQ:
            return SV("bool", f"({x} != {y})", 1)
        signed_variant = op.op in (C.SLT, C.SGT, C.SLE, C.SGE)
        small_unsigned = (not a.signed and not a.tagged and a.width < 32)
        if signed_variant:
            as_signed = not small_unsigned      # u8: promoted to a non-negative int
        else:
            if a.width < 32 and a.signed:
                raise Unsupported("unsigned comparison of i16 registers (no cast is emitted)")
            as_signed = False
        base = {C.SLT: "lt", C.ULT: "lt", C.SLE: "le", C.ULE: "le", C.SGT: "gt", C.UGT: "gt", C.SGE: "ge", C.UGE: "ge"}[op.op]
        fn = {"lt": "slt", "le": "sle", "gt": "slt", "ge": "sle"}[base] if as_signed else \
            {"lt": "ult", "le": "ule", "gt": "ult", "ge": "ule"}[base]
        p, q = (x, y) if base in ("lt", "le") else (y, x)
        return SV("bool", f"(BitVec.{fn} {p} {q})", 1)

    # -- control flow
    def emit(self, block: Any, start: int, env: dict, pending: str | None, ret: tuple, depth: int) -> str:
        """Lean term (of type `CSem.Res τ`) for the execution from op `start` of `block`."""
        from mypyc.ir import ops as O
        if depth > 60:
            raise Unsupported("control flow too deep (loop?)")
        env = dict(env)
        i = start
        while i < len(block.ops):
            op = block.ops[i]
            i += 1
            if isinstance(op, (O.KeepAlive, O.IncRef, O.DecRef)):
                continue
            if isinstance(op, O.IntOp):
                env[op] = self.int_op(op, env)
            elif isinstance(op, O.ComparisonOp):
                env[op] = self.comparison(op, env)
            elif isinstance(op, O.Assign):
                env[op.dest] = self.value(op.src, env)
            elif isinstance(op, O.Extend):
                s = self.value(op.src, env)
                kind, w, sg, tg = self.typeinfo(op.type)
                if s.kind == "bool":
                    env[op] = SV("bv", f"(CSem.ofBool {w} {paren(s.lean)})", w, sg, tg)
                elif s.kind == "bv" and s.width <= w:
                    f = "BitVec.signExtend" if op.signed else "BitVec.zeroExtend"
                    env[op] = SV("bv", f"({f} {w} {paren(s.lean)})" if s.width < w else s.lean, w, sg, tg)
                else:
                    raise Unsupported("Extend of a non-integer")
            elif isinstance(op, O.Truncate):
                s = self.value(op.src, env)
                kind, w, sg, tg = self.typeinfo(op.type)
                if s.kind != "bv" or s.width < w:
                    raise Unsupported("Truncate of a non-integer / to a wider type")
                env[op] = SV("bv", f"(BitVec.truncate {w} {paren(s.lean)})" if s.width > w else s.lean, w, sg, tg)
            elif isinstance(op, O.LoadErrorValue):
                env[op] = SV("err")
            elif isinstance(op, O.RaiseStandardError):
                pending = f'"{op.class_name}"'
                env[op] = SV("bool", "false", 1, const=0)
            elif isinstance(op, O.CallC):
                name = op.function_name
                if name == "PyErr_Occurred":
                    env[op] = SV("pending")
                elif name in self.raisers:
                    pending = f'"{self.raisers[name]}"'
                    env[op] = SV("unit")
                elif name in self.cfuncs:
                    f = self.cfuncs[name]
                    args = [self.value(a, env) for a in op.args]
                    if len(args) != len(f["params"]) or any(a.kind not in ("bv", "bool") for a in args):
                        raise Unsupported(f"call of {name}: arguments")
                    for a, (_, pt) in zip(args, f["params"]):
                        pw = 1 if pt == "bool" else int(pt[1:])
                        if a.width != pw:
                            raise Unsupported(f"call of {name}: argument width {a.width} for parameter {pt}")
                    call = f"(CFast.{name} {' '.join(paren(a.lean) for a in args)})"
                    rt = f["ret"]
                    kind, w, sg, tg = self.typeinfo(op.type)
                    if f["effect"] == "pure":
                        env[op] = SV("bool", call, 1) if rt == "bool" else SV("bv", call, w, sg, tg)
                        if rt != "bool" and int(rt[1:]) != w:
                            raise Unsupported(f"call of {name}: result width")
                    else:
                        n = depth * 10 + i
                        v, e = f"v{n}", f"e{n}"
                        sv = SV("bool", v, 1) if rt == "bool" else SV("bv", v, w, sg, tg)
                        env1 = dict(env)
                        env1[op] = sv
                        ok = self.emit(block, i, env1, pending, ret, depth + 1)
                        bad = self.emit(block, i, env1, e, ret, depth + 1)
                        return (f"match {call} with\n| .fast {v} =>\n{indent(ok)}\n| .raise {e} {v} =>\n{indent(bad)}\n"
                                f"| .slow c => .slow c")
                else:
                    args = [self.value(a, env) for a in op.args]
                    terms = []
                    for a in args:
                        if a.kind != "bv":
                            raise Unsupported(f"opaque call {name}: non-integer argument")
                        t = a.lean
                        if a.width < 64:
                            t = f"(BitVec.{'signExtend' if a.signed else 'zeroExtend'} 64 {paren(a.lean)})"
                        terms.append(t)
                    env[op] = SV("opaque", call=(name, terms, False))
            elif isinstance(op, O.Goto):
                return self.emit(op.label, 0, env, pending, ret, depth + 1)
            elif isinstance(op, O.Branch):
                v = self.value(op.value, env)
                if op.op == O.Branch.IS_ERROR:
                    if v.kind == "pending":
                        cond: Any = pending is None          # is_error(PyErr_Occurred()) = no exception pending
                    elif v.kind == "opaque":
                        cond = False                         # success edge (documented scope)
                    elif v.kind == "bv":
                        und = getattr(op.value.type, "c_undefined", None)
                        if und == "CPY_INT_TAG":
                            errv = 1
                        else:
                            try:
                                errv = int(und)
                            except (TypeError, ValueError):
                                raise Unsupported(f"is_error of a register of type {op.value.type!r}")
                        cond = f"({paren(v.lean)} == {lit(errv, v.width)})"
                    else:
                        raise Unsupported("is_error of this value")
                elif v.kind == "opaque_errcheck":
                    cond = False                             # the opaque call did not return its error magic
                else:
                    if v.kind != "bool":
                        raise Unsupported("branch on a non-bit")
                    cond = bool(v.const) if v.const is not None else v.lean
                if op.negated:
                    cond = (not cond) if isinstance(cond, bool) else f"(!{paren(cond)})"
                if isinstance(cond, bool):
                    return self.emit(op.true if cond else op.false, 0, env, pending, ret, depth + 1)
                t = self.emit(op.true, 0, env, pending, ret, depth + 1)
                f2 = self.emit(op.false, 0, env, pending, ret, depth + 1)
                return f"if {cond} then\n{indent(t)}\nelse\n{indent(f2)}"
            elif isinstance(op, O.Return):
                v = self.value(op.value, env)
                rkind, rw, errv = ret
                if v.kind == "err":
                    zero = "false" if rkind == "bool" else lit(errv, rw)
                    return f".raise {pending if pending is not None else '\"<no exception set>\"'} {zero}"
                if v.kind == "opaque":
                    name, terms, neg = v.call
                    return f'.slow ⟨"{name}", [{", ".join(terms)}], {"true" if neg else "false"}⟩'
                if v.kind in ("bv", "bool"):
                    return f".fast {paren(v.lean)}"
                raise Unsupported("return of this value")
            elif isinstance(op, O.Unreachable):
                raise Unsupported("`unreachable` is reachable")
            else:
                raise Unsupported(f"IR op {type(op).__name__}")
        raise Unsupported("block without terminator")

    def function(self, fn: Any) -> tuple[str, dict]:
        params = []
        env: dict = {}
        for a in fn.arg_regs:
            kind, w, sg, tg = self.typeinfo(a.type)
            if kind == "obj":
                raise Unsupported("object parameter")
            nm = a.name
            env[a] = SV("bool", nm, 1) if kind == "bool" else SV("bv", nm, w, sg, tg)
            params.append((nm, "Bool" if kind == "bool" else f"BitVec {w}"))
        rkind, rw, _, _ = self.typeinfo(fn.decl.sig.ret_type)
        if rkind == "obj":
            raise Unsupported("object result")
        und = getattr(fn.decl.sig.ret_type, "c_undefined", "0")
        try:
            errv = 1 if und == "CPY_INT_TAG" else int(und)
        except ValueError:
            errv = 0
        body = self.emit(fn.blocks[0], 0, env, None, (rkind, rw, errv), 0)
        rty = "Bool" if rkind == "bool" else f"(BitVec {rw})"
        binders = " ".join(f"({n} : {t})" for n, t in params)
        text = f"def {fn.name} {binders} : CSem.Res {rty} :=\n{indent(body)}"
        return text, {"name": fn.name, "params": params, "ret": rty}


def module_ir(src: str, modname: str = "c15h") -> Any:
    import mypy.build  # noqa: F401
    from mypy import build
    from mypy.build import BuildSource
    from mypy.options import Options
    from mypyc.codegen.emitmodule import compile_modules_to_ir
    from mypyc.errors import Errors
    from mypyc.irbuild.mapper import Mapper
    from mypyc.options import CompilerOptions
    o = Options()
    o.export_types = True
    o.preserve_asts = True
    o.per_module_options[modname] = {"mypyc": True}
    o.incremental = False
    o.python_version = sys.version_info[:2]
    try:
        res = build.build([BuildSource(modname + ".py", modname, src)], o)
        if res.errors:
            raise Unsupported("mypy rejects the harness module: " + "; ".join(res.errors[:5]))
        mods = compile_modules_to_ir(res, Mapper({modname: None}), CompilerOptions(capi_version=sys.version_info[:2]), Errors(o))
    except Unsupported:
        raise
    except BaseException as e:  # noqa: BLE001  (mypyc may sys.exit)
        raise Unsupported(f"mypyc could not build the IR of the harness module: {type(e).__name__}: {e}")
    return mods[modname]


def raisers_from_c(repo: str) -> dict[str, str]:
    """`void f() { PyErr_SetString(PyExc_X, "…"); }` in int_ops.c -> {f: X}."""
    text = open(os.path.join(repo, "mypyc/lib-rt/int_ops.c"), encoding="utf-8").read()
    out = {}
    for m in re.finditer(r"^void\s+(\w+)\s*\(\s*(?:void)?\s*\)\s*\{\s*PyErr_SetString\(\s*PyExc_(\w+)\s*,\s*\"[^\"]*\"\s*\)\s*;\s*\}", text, re.M):
        out[m.group(1)] = m.group(2)
    return out


# self-test functions are compiled together with the harness module (one mypyc build), translated, compared with the
# literal expected Lean text, and dropped; each has a mutant whose translation must differ
SELFTEST_SRC = """
def st_add(a: i64, b: i64) -> i64:
    return a + b
def st_add_mut(a: i64, b: i64) -> i64:
    return a - b
def st_lt(a: int, b: int) -> bool:
    return a < b
def st_lt_mut(a: int, b: int) -> bool:
    return a <= b
def st_div8(a: u8, b: u8) -> u8:
    return a // b
def st_div8_mut(a: u8, b: u8) -> u8:
    return a % b
def st_conv(a: int) -> i16:
    return i16(a)
def st_conv_mut(a: int) -> i32:
    return i32(a)
"""
SELFTEST_EXPECT = {
    "st_add": """def st_add (a : BitVec 64) (b : BitVec 64) : CSem.Res (BitVec 64) :=
  .fast (a + b)""",
    "st_lt": """def st_lt (a : BitVec 64) (b : BitVec 64) : CSem.Res Bool :=
  if ((a &&& 1#64) != 0#64) then
    .slow ⟨"CPyTagged_IsLt_", [a, b], false⟩
  else
    if ((b &&& 1#64) != 0#64) then
      .slow ⟨"CPyTagged_IsLt_", [a, b], false⟩
    else
      .fast (BitVec.slt a b)""",
    "st_div8": """def st_div8 (a : BitVec 8) (b : BitVec 8) : CSem.Res (BitVec 8) :=
  if (b == 0#8) then
    .raise "ZeroDivisionError" 239#8
  else
    .fast (a / b)""",
    "st_conv": """def st_conv (a : BitVec 64) : CSem.Res (BitVec 16) :=
  if ((a &&& 1#64) == 0#64) then
    if (BitVec.slt a 65536#64) then
      if (BitVec.sle 18446744073709486080#64 a) then
        .fast (BitVec.truncate 16 (BitVec.sshiftRight a 1))
      else
        .raise "ValueError" 65423#16
    else
      .raise "ValueError" 65423#16
  else
    .raise "ValueError" 65423#16""",
}


def selftest(texts: dict[str, str]) -> None:
    for name, want in SELFTEST_EXPECT.items():
        got = texts.get(name)
        if got is None or got.strip() != want.strip():
            raise Unsupported(f"irops self-test: translation of `{name}` changed:\n{got}\n-- expected --\n{want}")
        mut = texts.get(name + "_mut")
        if mut is None or mut.replace(name + "_mut", name).strip() == got.strip():
            raise Unsupported(f"irops self-test: the mutant of `{name}` translates to the same Lean text")


HEADER = """import MypyVerif.Gen.CFast
/-!
GENERATED by translate/irops.py from the final mypyc IR of the C15 harness functions — do not edit.
See the translator's docstring for the semantics of the IR subset.
-/
set_option linter.unusedVariables false
namespace IrOps
"""


def generate(repo: str = REPO) -> tuple[str, dict]:
    from harness.c15 import gen
    from translate import cfast
    inv = json.load(open(cfast.OUT_JSON))
    inv["raisers"] = raisers_from_c(repo)
    tr = IrTranslator(inv)
    fns = gen.functions()
    wanted = {f.name for f in fns if f.group in ("int", "const", "fixed", "fixedconst", "conv", "mixed", "convfixed", "norm")}
    mod = module_ir(gen.source(fns) + SELFTEST_SRC)
    out, done, skipped = [], [], []
    st_texts: dict[str, str] = {}
    for fn in mod.functions:
        if fn.name.startswith("st_"):
            try:
                st_texts[fn.name] = tr.function(fn)[0]
            except Unsupported as e:
                raise Unsupported(f"irops self-test: `{fn.name}` is not translatable: {e}")
            continue
        if fn.name not in wanted:
            continue
        try:
            text, meta = tr.function(fn)
        except Unsupported as e:
            if fn.name in REQUIRED:
                raise Unsupported(f"IR of required function {fn.name}: {e}")
            skipped.append((fn.name, str(e)))
            continue
        out.append(text)
        done.append(meta)
    selftest(st_texts)
    missing = [n for n in REQUIRED if n not in {d["name"] for d in done}]
    if missing:
        raise Unsupported(f"required harness functions missing from the IR: {missing}")
    lean = HEADER + "\n" + "\n\n".join(out) + "\n\nend IrOps\n"
    return lean, {"functions": done, "skipped": skipped, "raisers": inv["raisers"]}


def main() -> int:
    lean, inv = generate()
    os.makedirs(os.path.dirname(OUT), exist_ok=True)
    old = open(OUT).read() if os.path.exists(OUT) else None
    if old != lean:
        with open(OUT, "w") as f:
            f.write(lean)
    with open(OUT_JSON, "w") as f:
        json.dump(inv, f, indent=1)
    return 0


if __name__ == "__main__":
    sys.exit(main())
