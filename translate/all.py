"""Run every translator against /repo's current working tree (writes lean/MypyVerif/Gen/*.lean)."""
import importlib, sys
TRANSLATORS: list[str] = ["options", "optreads", "reach_tables", "c12fold", "c12bind", "codec_consts", "schemas", "globals_scan", "cfast", "irops", "errorcodes", "exitrule", "c06_micro", "driver_caps", "c18consts", "loadcfg", "plugcfg", "c19cfg"]
def main() -> int:
    for name in TRANSLATORS:
        importlib.import_module(f"translate.{name}").main()
    return 0
if __name__ == "__main__":
    sys.exit(main())
