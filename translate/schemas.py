"""C11 translator (2/2): serializer schemas of mypy's cache formats.

For every class in mypy/nodes.py, mypy/types.py, mypy/cache.py that defines `write`/`read` (binary, fixed
format) and/or `serialize`/`deserialize` (JSON) this module extracts, with `ast` only (mypy is not imported):

* the **write codec** – what `write(self, data)` emits, as a term of the codec algebra of
  lean/MypyVerif/Model/Codec.lean (`C`): the ordered slots, each wrapped in `field <attribute>`;
* the **read codec** – what `read(cls, data)` consumes, in evaluation order, each slot wrapped in
  `field <destination>` (constructor parameter / assigned attribute);
* module-level helpers (`write_int`, `read_type_opt`, `read_literal(data, tag)` …) are inlined; recursive
  helpers (`write_json_value`) and classes become `ref`s into an environment;
* JSON: the keys written by `serialize` and read by `deserialize`, and the set of `self.<attr>` each format
  serialises.

Output: lean/MypyVerif/Gen/Schemas.lean (+ a JSON side file with the same data for diagnostics).  Every class
is in exactly one of {extracted, hand-modelled, uncovered}; nothing is dropped silently.

Codec terms here are tuples:  ("int",) ("str",) ("bytes",) ("float",) ("bool",) ("unit",) ("fail",)
("lit", TAGNAME) ("flags", n, [names]) ("field", name, c) ("seq", [c…]) ("list", c)
("table", [(TAGNAME, c)…]) ("ref", name) ("any",)  — `any` is the table of all tagged classes (`x.write(data)`
on an object whose class is not known statically).
"""
from __future__ import annotations

import ast
import json
import os
import sys
from typing import Any

from harness.vlib.core import LEAN, REPO
from translate.codec_consts import all_tags

MODULES = ["cache", "nodes", "types"]
PRIMS_W = {"write_int_bare": "int", "write_str_bare": "str", "write_bytes_bare": "bytes",
           "write_float_bare": "float", "write_bool": "bool"}
PRIMS_R = {"read_int_bare": "int", "read_str_bare": "str", "read_bytes_bare": "bytes",
           "read_float_bare": "float", "read_bool": "bool"}
# attribute spellings that denote the same serialised field on the two sides (reviewed, tiny)
ALIASES = {"mro_refs": "mro", "type.fullname": "type_ref", "alias.fullname": "type_ref", "node_bytes": "node"}
# classes whose write/read use a hand-optimised shape the extractor does not normalise: the codec is given
# here by hand (and validated against the real code by the correspondence on real cache files)
HAND: dict[str, dict[str, Any]] = {}


class Unsupported(Exception):
    pass


# ------------------------------------------------------------------------------------------- helpers
def strip_us(n: str) -> str:
    return ".".join(p.lstrip("_") for p in n.split("."))


def norm_name(n: str | None) -> str:
    if not n:
        return ""
    n = strip_us(n)
    return ALIASES.get(n, n)


def attr_chain(e: ast.AST) -> str | None:
    """self.a.b → "a.b" ; ret.a → "a" (first component dropped)."""
    parts = []
    while isinstance(e, ast.Attribute):
        parts.append(e.attr)
        e = e.value
    if isinstance(e, ast.Name) and parts:
        return ".".join(reversed(parts))
    return None


def uses_name(node: ast.AST, name: str) -> bool:
    return any(isinstance(n, ast.Name) and n.id == name for n in ast.walk(node))


def call_name(c: ast.Call) -> str | None:
    f = c.func
    if isinstance(f, ast.Name):
        return f.id
    if isinstance(f, ast.Attribute):       # mypy.types.write_type_opt → write_type_opt
        chain = []
        while isinstance(f, ast.Attribute):
            chain.append(f.attr)
            f = f.value
        if isinstance(f, ast.Name) and f.id in ("mypy",) and len(chain) >= 2:
            return chain[0]
    return None


def tagname(e: ast.AST) -> str | None:
    if isinstance(e, ast.Name):
        return e.id
    if isinstance(e, ast.Attribute):       # mypy.types.INSTANCE
        return e.attr
    return None


# ------------------------------------------------------------------------------------------- codec ops
def seq(items: list) -> tuple:
    flat: list = []
    for it in items:
        if it[0] == "seq":
            flat.extend(it[1])
        elif it[0] == "unit":
            continue
        else:
            flat.append(it)
    if not flat:
        return ("unit",)
    if len(flat) == 1:
        return flat[0]
    return ("seq", flat)


def field(name: str | None, c: tuple) -> tuple:
    return ("field", norm_name(name), c)


def names_in(c: tuple) -> set[str]:
    k = c[0]
    if k == "field":
        return {c[1]} | names_in(c[2])
    if k == "seq":
        return set().union(*[names_in(x) for x in c[1]]) if c[1] else set()
    if k == "list":
        return names_in(c[1])
    if k == "table":
        return set().union(*[names_in(x) for _, x in c[1]]) if c[1] else set()
    if k == "flags":
        return set()
    return set()


def strip_fields(c: tuple) -> tuple:
    k = c[0]
    if k == "field":
        return strip_fields(c[2])
    if k == "seq":
        return seq([strip_fields(x) for x in c[1]])
    if k == "list":
        return ("list", strip_fields(c[1]))
    if k == "table":
        return ("table", [(t, strip_fields(x)) for t, x in c[1]])
    return c


def drop_anon(c: tuple) -> tuple:
    k = c[0]
    if k == "field":
        inner = drop_anon(c[2])
        return inner if c[1] == "" else ("field", c[1], inner)
    if k == "seq":
        return seq([drop_anon(x) for x in c[1]])
    if k == "list":
        return ("list", drop_anon(c[1]))
    if k == "table":
        return ("table", [(t, drop_anon(x)) for t, x in c[1]])
    return c


def hoist(c: tuple) -> tuple:
    return _hoist(drop_anon(c))


def _hoist(c: tuple) -> tuple:
    """Normal form for names: a `list`/`table` whose inner slots all carry the same name is wrapped in one
    `field` (inner wrappers removed); nested `field a (field a x)` collapses; un-named inner structure
    stays as it is."""
    k = c[0]
    if k == "field":
        inner = _hoist(c[2])
        while inner[0] == "field" and (inner[1] == c[1] or inner[1] == "" or c[1] == ""):
            c = ("field", c[1] or inner[1], inner[2])
            inner = c[2]
        ns = names_in(inner) - {""}
        if ns <= {c[1]}:
            inner = strip_fields(inner)
        if inner[0] == "seq":          # constant tags carry no data: `field n [lit T, x]` = `[lit T, field n x]`
            return seq([x if x[0] == "lit" else _hoist(("field", c[1], x)) for x in inner[1]])
        if inner[0] in ("lit", "unit"):
            return inner
        return ("field", c[1], inner)
    if k == "seq":
        return seq([_hoist(x) for x in c[1]])
    if k in ("list", "table"):
        inner = ("list", _hoist(c[1])) if k == "list" else ("table", [(t, _hoist(x)) for t, x in c[1]])
        ns = names_in(inner) - {""}
        if len(ns) == 1:
            return ("field", next(iter(ns)), strip_fields(inner))
        return inner
    return c


def merge_tag_refs(c: tuple, tag_of: dict[str, str]) -> tuple:
    """`lit T, ref X` with tag(X) = T (possibly with a field around the ref)  →  table [(T, ref X)]."""
    k = c[0]
    if k == "seq":
        items = [merge_tag_refs(x, tag_of) for x in c[1]]
        out: list = []
        i = 0
        while i < len(items):
            it = items[i]
            if it[0] == "lit" and i + 1 < len(items):
                nxt = items[i + 1]
                name = None
                core = nxt
                if core[0] == "field":
                    name, core = core[1], core[2]
                if core[0] == "ref" and tag_of.get(core[1]) == it[1]:
                    t = ("table", [(it[1], core)])
                    out.append(("field", name, t) if name is not None else t)
                    i += 2
                    continue
            out.append(it)
            i += 1
        return seq(out)
    if k == "field":
        return ("field", c[1], merge_tag_refs(c[2], tag_of))
    if k == "list":
        return ("list", merge_tag_refs(c[1], tag_of))
    if k == "table":
        return ("table", [(t, merge_tag_refs(x, tag_of)) for t, x in c[1]])
    return c


def distribute(c: tuple) -> tuple:
    """field n (seq xs) → seq [field n x …] with constant tags left bare (one level, leading position matters)"""
    if c[0] == "field" and c[2][0] == "seq":
        return seq([x if x[0] == "lit" else distribute(("field", c[1], x)) for x in c[2][1]])
    if c[0] == "field" and c[2][0] == "lit":
        return c[2]
    return c


def head_entries(items: list, what: str) -> list[tuple[str, tuple]]:
    """A branch of a tag-dispatching conditional → table entries."""
    c = seq([distribute(x) for x in items])
    its = c[1] if c[0] == "seq" else ([] if c[0] == "unit" else [c])
    if not its:
        raise Unsupported(f"{what}: empty branch in a tag dispatch")
    first, rest = its[0], its[1:]
    name = None
    if first[0] == "field":
        name, first = first[1], first[2]

    def wrap(x: tuple) -> tuple:
        return ("field", name, x) if name is not None else x
    if first[0] == "lit":
        return [(first[1], seq(rest))]
    if first[0] == "table":
        return [(t, seq([wrap(x)] + rest)) for t, x in first[1]]
    if first[0] == "any":
        return [("*any*", seq([wrap(("anyref",))] + rest))]
    if first[0] == "bool":
        return [("LITERAL_FALSE", seq([wrap(("unit",))] + rest)), ("LITERAL_TRUE", seq([wrap(("unit",))] + rest))]
    raise Unsupported(f"{what}: branch does not start with a tag ({first[0]})")


# ------------------------------------------------------------------------------------------- source model
class Src:
    def __init__(self, repo: str):
        self.repo = repo
        self.trees: dict[str, ast.Module] = {}
        self.funcs: dict[str, tuple[str, ast.FunctionDef]] = {}      # module-level functions by name
        self.classes: dict[str, tuple[str, ast.ClassDef]] = {}
        self.tags = all_tags(repo)
        self.consts: dict[str, ast.AST] = {}
        for m in MODULES:
            t = ast.parse(open(os.path.join(repo, "mypy", m + ".py")).read())
            self.trees[m] = t
            for n in t.body:
                if isinstance(n, ast.FunctionDef):
                    self.funcs.setdefault(n.name, (m, n))
                elif isinstance(n, ast.ClassDef):
                    self.classes.setdefault(n.name, (m, n))
                elif isinstance(n, (ast.Assign, ast.AnnAssign)):
                    tgt = n.targets[0] if isinstance(n, ast.Assign) else n.target
                    if isinstance(tgt, ast.Name) and n.value is not None:
                        self.consts[tgt.id] = n.value

    def method(self, cls: str, name: str) -> ast.FunctionDef | None:
        if cls not in self.classes:
            return None
        for n in self.classes[cls][1].body:
            if isinstance(n, ast.FunctionDef) and n.name == name:
                return n
        return None

    def init_params(self, cls: str) -> list[str] | None:
        """positional parameter names of cls.__init__ (searching base classes defined in these modules)"""
        seen = set()
        while cls in self.classes and cls not in seen:
            seen.add(cls)
            m = self.method(cls, "__init__")
            if m is not None:
                a = m.args
                return [x.arg for x in a.posonlyargs + a.args][1:]
            bases = self.classes[cls][1].bases
            cls = bases[0].id if bases and isinstance(bases[0], ast.Name) else ""
        return None

    def param_attr(self, cls: str, param: str) -> str:
        """the attribute __init__ stores parameter `param` in (`self.x = param` / `self.x = f(param)`)"""
        seen = set()
        while cls in self.classes and cls not in seen:
            seen.add(cls)
            m = self.method(cls, "__init__")
            if m is not None:
                for exact in (True, False):
                    for st in ast.walk(m):
                        if isinstance(st, (ast.Assign, ast.AnnAssign)):
                            tgt = st.targets[0] if isinstance(st, ast.Assign) else st.target
                            val = st.value
                            if (isinstance(tgt, ast.Attribute) and isinstance(tgt.value, ast.Name)
                                    and tgt.value.id == "self" and val is not None and
                                    ((isinstance(val, ast.Name) and val.id == param) if exact else uses_name(val, param))):
                                return tgt.attr
                # passed on to super().__init__(…): look there (same parameter name), else keep the name
                bases = self.classes[cls][1].bases
                nxt = bases[0].id if bases and isinstance(bases[0], ast.Name) else ""
                if nxt in self.classes and nxt not in seen and param in (self.init_params(nxt) or []):
                    cls = nxt
                    continue
                return param
            bases = self.classes[cls][1].bases
            cls = bases[0].id if bases and isinstance(bases[0], ast.Name) else ""
        return param


# ------------------------------------------------------------------------------------------- write side
class WriteX:
    def __init__(self, src: Src, cls: str | None, stack: tuple[str, ...] = ()):
        self.src, self.cls, self.stack = src, cls, stack
        self.bind: dict[str, str | None] = {}       # local name → field name it stands for
        self.last_opt: tuple[str, int] | None = None   # (local var, index of its *_opt item) for dependent writes

    # -- names
    def name_of(self, e: ast.AST) -> str | None:
        for n in ast.walk(e):
            if isinstance(n, ast.Attribute):
                ch = attr_chain(n)
                root = n
                while isinstance(root, ast.Attribute):
                    root = root.value
                if ch and isinstance(root, ast.Name) and root.id == "self":
                    # take the outermost chain starting at self
                    return self._outer_chain(e)
            if isinstance(n, ast.Name) and n.id in self.bind and self.bind[n.id] is not None:
                return self.bind[n.id]
        if isinstance(e, ast.Name) and e.id == "self":
            return ""
        if uses_name(e, "self"):
            return ""
        if isinstance(e, ast.Name) and e.id not in self.bind:
            return e.id
        return None

    def _outer_chain(self, e: ast.AST) -> str | None:
        best = None
        called = {id(n.func) for n in ast.walk(e) if isinstance(n, ast.Call)}
        for n in ast.walk(e):
            if isinstance(n, ast.Attribute) and id(n) not in called:
                root = n
                while isinstance(root, ast.Attribute):
                    root = root.value
                if isinstance(root, ast.Name) and root.id == "self":
                    ch = attr_chain(n)
                    if ch and (best is None or len(ch) > len(best)) and (best is None or ch.startswith(best)):
                        best = ch
                    elif ch and best is not None and not best.startswith(ch) and not ch.startswith(best):
                        pass
        # strip derived suffixes that are not part of the stored field (`.value` of an enum item …)
        return best

    # -- statements
    def block(self, stmts: list[ast.stmt]) -> list:
        out: list = []
        i = 0
        while i < len(stmts):
            st = stmts[i]
            nxt = stmts[i + 1] if i + 1 < len(stmts) else None
            # write_int_bare(data, <n>) ; for … : body      → list
            if (self._is_call(st, "write_int_bare") and isinstance(nxt, ast.For)):
                arg = st.value.args[1]  # type: ignore[attr-defined]
                out.append(self.loop(nxt, arg))
                i += 2
                continue
            # `if c: …; return` followed by the rest of the block  ≡  `if c: … else: <rest>`
            if (isinstance(st, ast.If) and not st.orelse and st.body and isinstance(st.body[-1], ast.Return)
                    and st.body[-1].value is None and uses_name(st, "data")):
                st2 = ast.If(test=st.test, body=st.body[:-1], orelse=stmts[i + 1:])
                out.extend(self.stmt(st2, out))
                return out
            out.extend(self.stmt(st, out))
            i += 1
        return out

    def _is_call(self, st: ast.stmt | None, fname: str) -> bool:
        return (isinstance(st, ast.Expr) and isinstance(st.value, ast.Call)
                and call_name(st.value) == fname)

    def loop(self, f: ast.For, count_expr: ast.AST) -> tuple:
        it = f.iter
        src_name = self.name_of(it)
        where = self.cls or (self.stack[-1] if self.stack else "?")
        ITER_ORDER.append((where, norm_name(src_name if src_name is not None else self.name_of(count_expr)), iter_kind(it)))
        if src_name is None:
            src_name = self.name_of(count_expr)
        saved = dict(self.bind)
        for n in ast.walk(f.target):
            if isinstance(n, ast.Name):
                self.bind[n.id] = src_name
        # `value = self[key]` style rebinding inside the loop body keeps the same name
        body = [s for s in f.body if not (isinstance(s, ast.If) and all(isinstance(x, ast.Continue) for x in s.body))]
        for s in body:
            if isinstance(s, ast.Assign) and isinstance(s.targets[0], ast.Name) and not uses_name(s, "data"):
                self.bind[s.targets[0].id] = src_name
        items = self.block(body)
        self.bind = saved
        return ("list", seq(items))

    def stmt(self, st: ast.stmt, sofar: list) -> list:
        if isinstance(st, ast.Expr) and isinstance(st.value, ast.Call):
            return self.call(st.value)
        if isinstance(st, ast.Expr) and isinstance(st.value, ast.Constant):
            return []
        if isinstance(st, ast.If):
            return self.cond(st, sofar)
        if isinstance(st, ast.Return) and st.value is None:
            raise Unsupported("early return in write")
        if isinstance(st, (ast.Assert, ast.Pass)):
            if isinstance(st, ast.Assert) and uses_name(st, "data"):
                raise Unsupported("assert involving data in write")
            return []
        if isinstance(st, (ast.Assign, ast.AnnAssign, ast.AugAssign)):
            if uses_name(st, "data"):
                raise Unsupported("assignment involving data in write")
            tgt = st.targets[0] if isinstance(st, ast.Assign) else st.target
            val = st.value
            if isinstance(tgt, ast.Name) and val is not None and not isinstance(val, ast.Constant):
                self.bind[tgt.id] = self.name_of(val)
            return []
        if isinstance(st, ast.For):
            if uses_name(st, "data"):
                raise Unsupported("for loop writing data without a preceding bare length")
            return []
        raise Unsupported(f"statement {type(st).__name__} in write")

    def call(self, c: ast.Call) -> list:
        fn = call_name(c)
        f = c.func
        # obj.write(data, …)
        if isinstance(f, ast.Attribute) and f.attr == "write" and c.args and isinstance(c.args[0], ast.Name) \
                and c.args[0].id == "data":
            nm = self.name_of(f.value)
            extra = len(c.args) - 1
            if extra == 0:
                return [field(nm, ("any",))]
            cands = [k for k in self.src.classes
                     if (m := self.src.method(k, "write")) is not None and len(m.args.args) == 2 + extra]
            if len(cands) != 1:
                raise Unsupported(f"cannot resolve .write with {extra} extra args: {cands}")
            return [field(nm, ("ref!", cands[0]))]
        if fn is None:
            if uses_name(c, "data"):
                raise Unsupported(f"call {ast.unparse(c.func)} with data in write")
            return []
        if fn == "write_tag":
            t = tagname(c.args[1])
            if t is None:
                raise Unsupported("write_tag with a computed tag")
            return [("lit", t)]
        if fn in PRIMS_W:
            return [field(self.name_of(c.args[1]), (PRIMS_W[fn],))]
        if fn == "write_flags":
            lst = c.args[1]
            if not isinstance(lst, ast.List):
                raise Unsupported("write_flags with a non-literal list")
            names = [norm_name(self.name_of(e)) for e in lst.elts]
            return [("flags", len(names), names)]
        if fn in self.src.funcs and fn.startswith("write_"):
            if len(c.args) < 2:
                raise Unsupported(f"{fn}: unexpected arity")
            nm = self.name_of(c.args[1])
            if fn.endswith("_list") and self.cls is not None:
                ITER_ORDER.append((self.cls, norm_name(nm), iter_kind(c.args[1])))
            self._last_opt_var = c.args[1].id if isinstance(c.args[1], ast.Name) else None
            return [field(nm, helper_codec(self.src, fn, self.stack))]
        if uses_name(c, "data"):
            raise Unsupported(f"call {fn} with data in write")
        return []

    def cond(self, st: ast.If, sofar: list) -> list:
        if not uses_name(st, "data"):
            return []
        # dependent write: `write_str_opt(data, x)` just before `if x is None: …`
        dep = self._dependent(st, sofar)
        if dep is not None:
            return dep
        # every branch must start with a tag: build a table
        branches: list[list[ast.stmt]] = []
        cur: ast.stmt = st
        nm = None
        while isinstance(cur, ast.If):
            nm = nm or self.name_of(cur.test)
            # walrus in the test binds a local
            for n in ast.walk(cur.test):
                if isinstance(n, ast.NamedExpr) and isinstance(n.target, ast.Name):
                    self.bind[n.target.id] = self.name_of(n.value)
            branches.append(cur.body)
            if len(cur.orelse) == 1 and isinstance(cur.orelse[0], ast.If):
                cur = cur.orelse[0]
            else:
                if cur.orelse:
                    branches.append(cur.orelse)
                else:
                    raise Unsupported("conditional write without else")
                break
        entries: list = []
        for b in branches:
            if len(b) == 1 and isinstance(b[0], ast.Assert):
                continue                          # `assert False, …`
            items = WriteX.block(self, b)
            entries.extend(head_entries(items, "write"))
        t = ("table", entries)
        return [field(nm, t) if nm and not (names_in(t) - {""}) else t]

    def _dependent(self, st: ast.If, sofar: list) -> list | None:
        test = st.test
        if not (isinstance(test, ast.Compare) and isinstance(test.left, ast.Name) and len(test.ops) == 1
                and isinstance(test.ops[0], (ast.Is, ast.IsNot)) and isinstance(test.comparators[0], ast.Constant)
                and test.comparators[0].value is None):
            return None
        var = test.left.id
        if not sofar:
            return None
        last = sofar[-1]
        core = last[2] if last[0] == "field" else last
        if not (last[0] == "field" and core[0] == "table" and getattr(self, "_last_opt_var", None) == var):
            return None
        none_body = st.body if isinstance(test.ops[0], ast.Is) else st.orelse
        some_body = st.orelse if isinstance(test.ops[0], ast.Is) else st.body
        nb = self.block(none_body) if none_body else []
        sb = self.block(some_body) if some_body else []
        new_entries = []
        for t, x in core[1]:
            if t == "LITERAL_NONE":
                new_entries.append((t, seq([x] + nb)))
            else:
                new_entries.append((t, seq([("field", last[1], x)] + sb)))
        sofar.pop()
        return [("table", new_entries)]


def helper_codec(src: Src, fn: str, stack: tuple[str, ...]) -> tuple:
    """codec of a module-level write_*/read_* helper applied to one value (field names inside are dropped)"""
    base = fn.split("_", 1)[1]
    if fn in stack:
        return ("ref", "fn:" + base)
    _, f = src.funcs[fn]
    if fn.startswith("write_"):
        x = WriteX(src, None, stack + (fn,))
        for a in f.args.args[1:]:
            x.bind[a.arg] = None
        c = seq(x.block(f.body))
    else:
        c = ReadX(src, None, stack + (fn,)).function(f)
    c = strip_fields(c)
    if contains_ref(c, "fn:" + base):
        RECURSIVE[fn] = c
        return ("ref", "fn:" + base)
    return c


RECURSIVE: dict[str, tuple] = {}
ITER_ORDER: list[tuple[str, str, str]] = []     # (class or helper, field, "sorted" | "insertion" | "sequence")


def iter_kind(e: ast.AST) -> str:
    if isinstance(e, ast.Call) and isinstance(e.func, ast.Name) and e.func.id == "sorted":
        return "sorted"
    if isinstance(e, ast.Call) and isinstance(e.func, ast.Attribute) and e.func.attr in ("items", "keys", "values"):
        return "insertion"
    if isinstance(e, ast.Name) and e.id == "self":
        return "insertion"
    return "sequence"


def contains_ref(c: tuple, name: str) -> bool:
    k = c[0]
    if k == "ref":
        return c[1] == name
    if k == "field":
        return contains_ref(c[2], name)
    if k == "seq":
        return any(contains_ref(x, name) for x in c[1])
    if k == "list":
        return contains_ref(c[1], name)
    if k == "table":
        return any(contains_ref(x, name) for _, x in c[1])
    return False


# ------------------------------------------------------------------------------------------- read side
class Item:
    """one read slot whose destination may be learnt later (a local used afterwards)"""
    def __init__(self, codec: tuple, dest: str | None):
        self.codec, self.dest = codec, dest

    def done(self) -> tuple:
        c = self.codec
        if c[0] == "flags":
            return ("flags", c[1], [norm_name(n.dest if isinstance(n, Item) else n) for n in c[2]])
        if c[0] == "lit":
            return c
        return field(self.dest, resolve(c))


def resolve(c: Any) -> tuple:
    if isinstance(c, Item):
        return c.done()
    k = c[0]
    if k == "seq":
        return seq([resolve(x) for x in c[1]])
    if k == "list":
        return ("list", resolve(c[1]))
    if k == "table":
        return ("table", [(t, resolve(x)) for t, x in c[1]])
    if k == "field":
        return ("field", c[1], resolve(c[2]))
    return c


class ReadX:
    def __init__(self, src: Src, cls: str | None, stack: tuple[str, ...] = ()):
        self.src, self.cls, self.stack = src, cls, stack
        self.locals: dict[str, list[Item]] = {}
        self.result_vars: set[str] = set()
        self.tagvar: str | None = None

    # ---- top level
    def function(self, f: ast.FunctionDef) -> tuple:
        params = [a.arg for a in f.args.args]
        if "tag" in params:
            self.tagvar = "tag"
        body = f.body
        items = self.block(body)
        return seq([resolve(x) for x in items])

    # ---- destinations
    def set_dest(self, name: str, dest: str | None) -> None:
        for it in self.locals.get(name, []):
            if it.dest is None or it.dest.startswith("?"):
                it.dest = dest

    # ---- expressions: list of items in evaluation order
    def expr(self, e: ast.AST, dest: str | None) -> list:
        if isinstance(e, ast.Name):
            if e.id in self.locals:
                self.set_dest(e.id, dest)
            return []
        if isinstance(e, ast.Constant):
            return []
        if isinstance(e, ast.NamedExpr):
            items = self.expr(e.value, None)
            if isinstance(e.target, ast.Name):
                self.locals[e.target.id] = [x for x in items if isinstance(x, Item)]
                for it in self.locals[e.target.id]:
                    it.dest = it.dest or ("?" + e.target.id)
            return items
        if isinstance(e, ast.Call):
            return self.call(e, dest)
        if isinstance(e, (ast.ListComp, ast.SetComp, ast.GeneratorExp, ast.DictComp)):
            gen = e.generators[0]
            cnt = self._range_count(gen.iter)
            if cnt:
                if isinstance(e, ast.DictComp):
                    inner = self.expr(e.key, dest) + self.expr(e.value, dest)
                else:
                    inner = self.expr(e.elt, dest)
                return [Item(("list", seq_items(inner)), dest)]
            items = self.expr(gen.iter, dest)
            inner = (self.expr(e.key, dest) + self.expr(e.value, dest)) if isinstance(e, ast.DictComp) else self.expr(e.elt, dest)
            if inner:
                raise Unsupported("reads inside a comprehension over a non-counted iterable")
            return items
        if isinstance(e, ast.Dict):
            out: list = []
            for k, v in zip(e.keys, e.values):
                d = k.value if isinstance(k, ast.Constant) and isinstance(k.value, str) else dest
                if k is not None:
                    out += self.expr(k, dest)
                out += self.expr(v, d)
            return out
        if isinstance(e, (ast.List, ast.Tuple, ast.Set)):
            out = []
            for x in e.elts:
                out += self.expr(x, dest)
            return out
        if isinstance(e, ast.IfExp):
            if uses_name(e, "data"):
                raise Unsupported("conditional expression reading data")
            for sub in (e.body, e.orelse, e.test):
                self.expr(sub, dest)
            return []
        if isinstance(e, (ast.Compare, ast.BoolOp, ast.BinOp, ast.UnaryOp, ast.Subscript, ast.Attribute, ast.Starred,
                          ast.JoinedStr, ast.FormattedValue, ast.Slice)):
            out = []
            for sub in ast.iter_child_nodes(e):
                if isinstance(sub, (ast.expr,)):
                    out += self.expr(sub, dest)
            return out
        if isinstance(e, ast.Lambda):
            return []
        raise Unsupported(f"expression {type(e).__name__} in read")

    def _range_count(self, it: ast.AST) -> bool:
        if not (isinstance(it, ast.Call) and isinstance(it.func, ast.Name) and it.func.id == "range"
                and len(it.args) == 1):
            return False
        a = it.args[0]
        if isinstance(a, ast.Call) and call_name(a) == "read_int_bare":
            return True
        if isinstance(a, ast.Name) and a.id in self.locals and len(self.locals[a.id]) == 1 \
                and self.locals[a.id][0].codec in (("int",), ("unit",)) and getattr(self.locals[a.id][0], "is_count", False):
            item = self.locals[a.id][0]
            item.codec = ("unit",)          # the bare length belongs to the list codec
            item.dest = "?count"
            return True
        return False

    def call(self, c: ast.Call, dest: str | None) -> list:
        fn = call_name(c)
        f = c.func
        has_data = any(isinstance(a, ast.Name) and a.id == "data" for a in c.args)
        # K.read(data)
        if isinstance(f, ast.Attribute) and f.attr == "read" and has_data:
            k = tagname(f.value)
            if k == "cls":
                k = self.cls
            if k not in self.src.classes:
                raise Unsupported(f"{ast.unparse(f)}: unknown class")
            return [Item(("ref!", k), dest)]
        if fn == "read_tag" and has_data:
            raise Unsupported("read_tag in an unexpected position")
        if fn in PRIMS_R and has_data:
            return [Item((PRIMS_R[fn],), dest)]
        if fn == "read_flags" and has_data:
            n = None
            for kw in c.keywords:
                if kw.arg == "num_flags":
                    n = kw.value
            if n is None and len(c.args) > 1:
                n = c.args[1]
            if not isinstance(n, ast.Constant):
                raise Unsupported("read_flags with a computed count")
            return [Item(("flags", n.value, [None] * n.value), dest)]
        if fn == "extract_symbol" and has_data:
            # lazily deserialised symbol: the bytes are parsed later by read_symbol(data, tag)
            return [Item(("splice", "read_symbol"), dest)]
        if fn is not None and fn in self.src.funcs and fn.startswith("read_") and has_data:
            hf = self.src.funcs[fn][1]
            takes_tag = "tag" in [a.arg for a in hf.args.args]
            passes_tag = len(c.args) > 1 or any(kw.arg == "tag" for kw in c.keywords)
            hc = helper_codec(self.src, fn, self.stack)
            if takes_tag and passes_tag:
                return [Item(("splice", fn), dest)]
            return [Item(hc, dest)]
        # constructor of a known class: parameters give the destinations
        k = fn if fn in self.src.classes else (self.cls if fn == "cls" else None)
        if isinstance(f, ast.Attribute) and isinstance(f.value, ast.Name) and f.value.id in self.src.classes \
                and f.attr not in ("read",):
            # classmethod constructor such as TypeType.make_normalized(item, is_type_form=…)
            m = self.src.method(f.value.id, f.attr)
            if m is not None and uses_name(c, "data"):
                static = any(isinstance(d, ast.Name) and d.id == "staticmethod" for d in m.decorator_list)
                params = [a.arg for a in m.args.args][0 if static else 1:] + [a.arg for a in m.args.kwonlyargs]
                return self._ctor_args(c, params, dest, f.value.id, top=(dest == "<result>"))
        if k is not None:
            params = self.src.init_params(k) or []
            return self._ctor_args(c, params, dest, k, top=(dest == "<result>"))
        # anything else: evaluate arguments in order with the same destination
        out: list = []
        if isinstance(f, ast.Attribute):
            out += self.expr(f.value, dest)
        for a in c.args:
            out += self.expr(a, dest)
        for kw in c.keywords:
            out += self.expr(kw.value, dest)
        return out

    def _ctor_args(self, c: ast.Call, params: list[str], dest: str | None, k: str, top: bool) -> list:
        out: list = []
        for i, a in enumerate(c.args):
            p = params[i] if i < len(params) else ""
            p = self.src.param_attr(k, p) if k in self.src.classes else p
            d = p if top else (f"{dest}.{p}" if dest else p)
            out += self.expr(a, d)
        for kw in c.keywords:
            p = kw.arg or "kw"
            p = self.src.param_attr(k, p) if k in self.src.classes else p
            d = p if top else (f"{dest}.{p}" if dest else p)
            out += self.expr(kw.value, d)
        return out

    # ---- statements
    def block(self, stmts: list[ast.stmt]) -> list:
        out: list = []
        i = 0
        while i < len(stmts):
            st = stmts[i]
            consumed, items = self.tag_dispatch(stmts, i)
            if consumed:
                out += items
                i += consumed
                continue
            out += self.stmt(st)
            i += 1
        return out

    def is_result_ctor(self, v: ast.AST) -> bool:
        if isinstance(v, ast.Call):
            fn = call_name(v)
            if fn and (fn == self.cls or fn == "cls"):
                return True
            f = v.func
            if isinstance(f, ast.Attribute) and isinstance(f.value, ast.Name) and f.value.id == self.cls and f.attr != "read":
                return True
        return False

    def stmt(self, st: ast.stmt) -> list:
        if isinstance(st, ast.Expr) and isinstance(st.value, ast.Constant):
            return []
        if isinstance(st, ast.Assert):
            t = st.test
            if (isinstance(t, ast.Compare) and isinstance(t.left, ast.Call) and call_name(t.left) == "read_tag"
                    and isinstance(t.ops[0], ast.Eq)):
                tn = tagname(t.comparators[0])
                if tn is None:
                    raise Unsupported("assert read_tag == <computed>")
                return [("lit", tn)]
            if uses_name(st, "data"):
                raise Unsupported("assert reading data")
            return []
        if isinstance(st, (ast.Assign, ast.AnnAssign)):
            tgt = st.targets[0] if isinstance(st, ast.Assign) else st.target
            val = st.value
            if val is None:
                return []
            if isinstance(tgt, ast.Name):
                if self.is_result_ctor(val):
                    self.result_vars.add(tgt.id)
                    return self.expr(val, "<result>")
                items = self.expr(val, None)
                mine = [x for x in items if isinstance(x, Item)]
                if isinstance(val, ast.Call) and call_name(val) == "read_int_bare" and len(mine) == 1:
                    mine[0].is_count = True  # type: ignore[attr-defined]
                if uses_name(val, "data"):
                    self.locals[tgt.id] = mine
                    for it in mine:
                        if it.dest is None:
                            it.dest = "?" + tgt.id
                elif any(isinstance(n, ast.Name) and n.id in self.locals for n in ast.walk(val)):
                    # derived local (e.g. `x = list(zip(a, b))`): it stands for the same items
                    self.locals[tgt.id] = [it for n in ast.walk(val) if isinstance(n, ast.Name) and n.id in self.locals
                                           for it in self.locals[n.id]]
                elif isinstance(val, (ast.List, ast.Dict)) and not getattr(val, "elts", getattr(val, "keys", None)):
                    self.locals[tgt.id] = []       # accumulator filled by a loop
                return items
            if isinstance(tgt, ast.Attribute):
                ch = attr_chain(tgt)
                return self.expr(val, ch)
            if isinstance(tgt, ast.Subscript):
                key = tgt.slice
                d = key.value if isinstance(key, ast.Constant) and isinstance(key.value, str) else None
                return self.expr(val, d)
            if isinstance(tgt, ast.Tuple):
                items = self.expr(val, None)
                if len(items) == 1 and isinstance(items[0], Item) and items[0].codec[0] == "flags":
                    names: list = []
                    for el in tgt.elts:
                        if isinstance(el, ast.Attribute):
                            names.append(attr_chain(el))
                        elif isinstance(el, ast.Name):
                            ph = Item(("unit",), "?" + el.id)
                            self.locals[el.id] = [ph]
                            names.append(ph)
                        else:
                            raise Unsupported("flag target")
                    fl = items[0].codec
                    if fl[1] != len(names):
                        names = names + [f"?missing{j}" for j in range(fl[1] - len(names))]
                    items[0].codec = ("flags", fl[1], names)
                    return items
                raise Unsupported("tuple assignment from data")
            raise Unsupported("assignment target")
        if isinstance(st, ast.Expr) and isinstance(st.value, ast.Call):
            c = st.value
            f = c.func
            if isinstance(f, ast.Attribute) and f.attr in ("append", "add", "update", "extend"):
                d = attr_chain(f.value)
                if d is None and isinstance(f.value, ast.Name):
                    items = self.expr(c.args[0], None) if c.args else []
                    self.locals.setdefault(f.value.id, []).extend(x for x in items if isinstance(x, Item))
                    for it in items:
                        if isinstance(it, Item) and it.dest is None:
                            it.dest = "?" + f.value.id
                    return items
                return self.expr(c.args[0], d) if c.args else []
            if uses_name(c, "data"):
                return self.expr(c, None)
            return []
        if isinstance(st, ast.Return):
            if st.value is None:
                return []
            if self.is_result_ctor(st.value):
                return self.expr(st.value, "<result>")
            return self.expr(st.value, "<return>")
        if isinstance(st, ast.For):
            if self._range_count(st.iter):
                inner = self.block(st.body)
                return [("list", seq_items(inner))]
            if uses_name(st, "data"):
                raise Unsupported("for loop reading data over a non-counted iterable")
            return []
        if isinstance(st, ast.If):
            if not uses_name(st, "data") and not self._mentions_tag(st):
                # no reads inside: only destinations of locals may be assigned here
                for sub in st.body + st.orelse:
                    try:
                        self.stmt(sub)
                    except Unsupported:
                        pass
                return []
            return self.cond_on_value(st)
        if isinstance(st, ast.Try):
            return self.block(st.body)
        if isinstance(st, (ast.Delete, ast.Pass, ast.Import, ast.ImportFrom)):
            return []
        raise Unsupported(f"statement {type(st).__name__} in read")

    def _mentions_tag(self, st: ast.AST) -> bool:
        return self.tagvar is not None and uses_name(st, self.tagvar)

    def cond_on_value(self, st: ast.If) -> list:
        """`x = read_str_opt(data)` … `if x is None: A else: B`  → continuation pushed into the option's
        branches (the reader analogue of WriteX._dependent)."""
        test = st.test
        var = None
        if isinstance(test, ast.Compare) and len(test.ops) == 1 and isinstance(test.ops[0], (ast.Is, ast.IsNot)) \
                and isinstance(test.comparators[0], ast.Constant) and test.comparators[0].value is None:
            left = test.left
            pre: list = []
            if isinstance(left, ast.NamedExpr):
                pre = self.expr(left, None)
                var = left.target.id if isinstance(left.target, ast.Name) else None
            elif isinstance(left, ast.Name):
                var = left.id
            its = self.locals.get(var or "", [])
            if var and len(its) == 1 and its[0].codec[0] == "table":
                it = its[0]
                none_body = st.body if isinstance(test.ops[0], ast.Is) else st.orelse
                some_body = st.orelse if isinstance(test.ops[0], ast.Is) else st.body
                nb = self.block(none_body) if none_body else []
                sb = self.block(some_body) if some_body else []
                new = []
                inner_dest = it.dest
                for t, x in it.codec[1]:
                    if t == "LITERAL_NONE":
                        new.append((t, seq_items([x] + nb)))
                    else:
                        new.append((t, seq_items([Item(x, None) if not isinstance(x, Item) else x] + sb)))
                # the Some-branch payload keeps the destination learnt for `var`
                holder = []
                for t, x in new:
                    holder.append((t, x))
                it.codec = ("table*", holder, var)
                return pre
        raise Unsupported("conditional read that does not dispatch on a tag")

    # ---- tag dispatch
    def tag_dispatch(self, stmts: list[ast.stmt], i: int) -> tuple[int, list]:
        """Recognise `tag = read_tag(data)` (or a walrus in the `if`) followed by the statements that dispatch
        on it.  Returns (number of statements consumed, items)."""
        st = stmts[i]
        tv = None
        consumed = 0
        if (isinstance(st, ast.Assign) and isinstance(st.targets[0], ast.Name) and isinstance(st.value, ast.Call)
                and call_name(st.value) == "read_tag"):
            tv = st.targets[0].id
            consumed = 1
        elif (isinstance(st, ast.If) and isinstance(st.test, ast.Compare) and isinstance(st.test.left, ast.Name)
              and st.test.left.id == self.tagvar and isinstance(st.test.ops[0], ast.Is)):
            tv = self.tagvar
            consumed = 1
        elif isinstance(st, ast.If):
            for n in ast.walk(st.test):
                if isinstance(n, ast.NamedExpr) and isinstance(n.value, ast.Call) and call_name(n.value) == "read_tag":
                    tv = n.target.id  # type: ignore[union-attr]
            if tv is None and self.tagvar is not None and uses_name(st.test, self.tagvar) and self._tag_test(st.test, self.tagvar):
                tv = self.tagvar
            if tv is None:
                return 0, []
        elif self.tagvar is not None and isinstance(st, ast.If) is False and self._uses_tag_call(st, self.tagvar):
            tv = self.tagvar
        else:
            return 0, []
        old = self.tagvar
        self.tagvar = tv
        entries: list = []
        j = i + consumed
        # sequential `if tag == K: return …` chains and if/elif/else on the tag
        while j < len(stmts):
            s = stmts[j]
            if isinstance(s, ast.If) and self._tag_test(s.test, tv):
                done = self._if_on_tag(s, tv, entries)
                j += 1
                if done:
                    break
                continue
            if isinstance(s, ast.If) and isinstance(s.test, ast.Compare) and isinstance(s.test.left, ast.Name) \
                    and s.test.left.id == tv and isinstance(s.test.ops[0], ast.Is):
                j += 1          # `if tag is None: tag = read_tag(data)`
                continue
            if isinstance(s, ast.Assert) and not uses_name(s, tv):
                j += 1
                continue
            if isinstance(s, ast.Assert) and isinstance(s.test, ast.Constant):
                j += 1
                break
            # a statement that passes the tag on: `x = read_literal(data, tag)` / `assert tag == K` + rest
            rest_entries, used = self._branch_entries2(stmts[j:], tv)
            entries.extend(rest_entries)
            j += used
            break
        self.tagvar = old
        return j - i, [("table", entries)]

    def _uses_tag_call(self, st: ast.stmt, tv: str) -> bool:
        return uses_name(st, tv) and uses_name(st, "data")

    def _tag_test(self, t: ast.AST, tv: str) -> bool:
        if isinstance(t, ast.Compare) and len(t.ops) == 1 and isinstance(t.ops[0], (ast.Eq, ast.NotEq)):
            left = t.left
            if isinstance(left, ast.NamedExpr):
                left = left.target
            return isinstance(left, ast.Name) and left.id == tv and tagname(t.comparators[0]) is not None
        return False

    def _if_on_tag(self, s: ast.If, tv: str, entries: list) -> bool:
        """returns True when the conditional is exhaustive (has a final else / ends the dispatch)"""
        t = s.test
        k = tagname(t.comparators[0])  # type: ignore[attr-defined]
        if isinstance(t.ops[0], ast.Eq):  # type: ignore[attr-defined]
            entries.append((k, seq_items(self.block(s.body))))
            returns = any(isinstance(x, ast.Return) for x in s.body)
            if len(s.orelse) == 1 and isinstance(s.orelse[0], ast.If) and self._tag_test(s.orelse[0].test, tv):
                return self._if_on_tag(s.orelse[0], tv, entries)
            if s.orelse:
                entries.extend(self._branch_entries(s.orelse, tv))
                return True
            return not returns
        # tag != K: body handles the other tags, else handles K
        entries.append((k, seq_items(self.block(s.orelse)) if s.orelse else ("unit",)))
        entries.extend(self._branch_entries(s.body, tv))
        return True

    def _branch_entries(self, stmts: list[ast.stmt], tv: str) -> list:
        ents, used = self._branch_entries2(stmts, tv)
        real = [s for s in stmts if not (isinstance(s, ast.Expr) and isinstance(s.value, ast.Constant))]
        if used < len(real):
            tail = self.block(real[used:])
            ents = [(k, seq_items([c] + tail)) for k, c in ents]
        return ents

    def _branch_entries2(self, stmts: list[ast.stmt], tv: str) -> tuple[list, int]:
        """statements executed with the tag still undecided → (table entries, statements consumed)"""
        stmts = [s for s in stmts if not (isinstance(s, ast.Expr) and isinstance(s.value, ast.Constant))]
        if stmts:
            s0 = stmts[0]
            if not isinstance(s0, (ast.Assert, ast.If)) or (isinstance(s0, ast.If) and not self._tag_test(s0.test, tv)):
                items = self.stmt(s0)
                spl = [x for x in items if isinstance(x, Item) and x.codec[0] == "splice"]
                if len(spl) != 1 or items[0] is not spl[0]:
                    raise Unsupported(f"tag used in an unexpected way: {ast.unparse(s0)[:60]}")
                it = spl[0]
                table = helper_table(self.src, it.codec[1], self.stack)
                out = []
                for k, c in table:
                    payload = Item(c, it.dest)
                    link(it, payload)
                    out.append((k, seq_items([payload] + items[1:])))
                it.codec = ("unit",)
                it.dest = it.dest or "?spliced"
                return out, 1
        return self._branch_entries_old(stmts, tv), len(stmts)

    def _branch_entries_old(self, stmts: list[ast.stmt], tv: str) -> list:
        """statements executed with the tag still undecided → table entries"""
        stmts = [s for s in stmts if not (isinstance(s, ast.Expr) and isinstance(s.value, ast.Constant))]
        if not stmts:
            return []
        s0 = stmts[0]
        if isinstance(s0, ast.Assert):
            t = s0.test
            if isinstance(t, ast.Constant) and not t.value:
                return []
            if isinstance(t, ast.Compare) and isinstance(t.left, ast.Name) and t.left.id == tv \
                    and isinstance(t.ops[0], ast.Eq):
                k = tagname(t.comparators[0])
                return [(k, seq_items(self.block(stmts[1:])))]
            raise Unsupported("assert on the tag of an unexpected shape")
        if isinstance(s0, ast.If) and self._tag_test(s0.test, tv):
            entries: list = []
            self._if_on_tag(s0, tv, entries)
            if len(stmts) > 1:
                tail = self.block(stmts[1:])
                entries = [(k, seq_items([c] + tail)) for k, c in entries]
            return entries
        # first statement passes the tag to a helper: splice the helper's table, continue with the rest
        items = self.stmt(s0)
        spl = [x for x in items if isinstance(x, Item) and x.codec[0] == "splice"]
        if len(spl) != 1 or items[0] is not spl[0]:
            raise Unsupported(f"tag used in an unexpected way: {ast.unparse(s0)[:60]}")
        it = spl[0]
        table = helper_table(self.src, it.codec[1], self.stack)
        tail = items[1:] + self.block(stmts[1:])
        out = []
        for k, c in table:
            payload = Item(c, it.dest)
            link(it, payload)
            out.append((k, seq_items([payload] + tail)))
        return out


def link(src_item: Item, payload: Item) -> None:
    """payload takes the destination of src_item whenever that is learnt later"""
    payload._src = src_item  # type: ignore[attr-defined]
    lst = getattr(src_item, "_linked", None)
    if lst is None:
        lst = []
        src_item._linked = lst  # type: ignore[attr-defined]
    lst.append(payload)


def seq_items(items: list) -> Any:
    return ("seq", list(items))


def helper_table(src: Src, fn: str, stack: tuple[str, ...]) -> list:
    c = helper_codec(src, fn, stack)
    if c[0] != "table":
        raise Unsupported(f"{fn}(data, tag) is not a tag dispatch")
    return c[1]


def finish_read(items: list) -> tuple:
    # propagate destinations through links and table* holders
    def prop(x: Any) -> None:
        if isinstance(x, Item):
            for p in getattr(x, "_linked", []):
                if p.dest is None or str(p.dest).startswith("?"):
                    p.dest = x.dest
                prop(p)
            c = x.codec
            if c[0] == "table*":
                for _, y in c[1]:
                    prop(y)
            elif c[0] in ("seq",):
                for y in c[1]:
                    prop(y)
            elif c[0] == "list":
                prop(c[1])
            elif c[0] == "table":
                for _, y in c[1]:
                    prop(y)
        elif isinstance(x, tuple):
            if x[0] == "seq":
                for y in x[1]:
                    prop(y)
            elif x[0] == "list":
                prop(x[1])
            elif x[0] in ("table",):
                for _, y in x[1]:
                    prop(y)
    for it in items:
        prop(it)

    def res(x: Any) -> tuple:
        if isinstance(x, Item):
            srcit = getattr(x, "_src", None)
            while srcit is not None and (x.dest is None or str(x.dest).startswith("?")):
                x.dest = srcit.dest
                srcit = getattr(srcit, "_src", None)
            c = x.codec
            if c[0] == "table*":
                # dependent option: Some-branch payload keeps x.dest, continuation items keep their own
                ents = []
                for t, y in c[1]:
                    ys = y[1] if isinstance(y, tuple) and y[0] == "seq" else [y]
                    rs = []
                    for idx, z in enumerate(ys):
                        if idx == 0 and isinstance(z, Item) and z.dest is None:
                            z.dest = x.dest
                        rs.append(res(z))
                    ents.append((t, seq(rs)))
                return ("table", ents)
            if c[0] == "flags":
                return ("flags", c[1], [norm_name(n.dest if isinstance(n, Item) else n) for n in c[2]])
            if c[0] == "unit" and (x.dest or "").startswith("?"):
                return ("unit",)
            return field(x.dest if not (x.dest or "").startswith("<") else "", res(c))
        if x[0] == "seq":
            return seq([res(y) for y in x[1]])
        if x[0] == "list":
            return ("list", res(x[1]))
        if x[0] == "table":
            return ("table", [(t, res(y)) for t, y in x[1]])
        if x[0] == "field":
            return ("field", x[1], res(x[2]))
        if x[0] == "splice":
            raise Unsupported(f"{x[1]}(data, tag) used outside a tag dispatch")
        return x
    return seq([res(i) for i in items])


# patch ReadX.function to use finish_read
def _function(self: ReadX, f: ast.FunctionDef) -> tuple:
    params = [a.arg for a in f.args.args]
    if "tag" in params:
        self.tagvar = "tag"
    return finish_read(self.block(f.body))


ReadX.function = _function  # type: ignore[method-assign]


# ------------------------------------------------------------------------------------------- JSON side
def self_attrs(f: ast.FunctionDef) -> set[str]:
    """top-level attributes of `self` a method reads (method calls on self excluded)"""
    called = {id(n.func) for n in ast.walk(f) if isinstance(n, ast.Call)}
    out = set()
    for n in ast.walk(f):
        if isinstance(n, ast.Attribute) and isinstance(n.value, ast.Name) and n.value.id == "self":
            if id(n) in called:
                continue
            out.add(n.attr.lstrip("_"))
    return out


def json_side(src: Src, cls: str) -> dict[str, Any] | None:
    ser, de = src.method(cls, "serialize"), src.method(cls, "deserialize")
    if ser is None and de is None:
        return None
    wkeys: list[str] = []
    wattrs: set[str] = set()
    flag_consts: list[str] = []
    if ser is not None:
        wattrs = self_attrs(ser)
        dicts = [n for n in ast.walk(ser) if isinstance(n, ast.Dict)]
        mine = [d for d in dicts if any(isinstance(k, ast.Constant) and k.value == ".class" and isinstance(v, ast.Constant)
                                        and v.value == cls for k, v in zip(d.keys, d.values))]
        top = mine[:1] or dicts[:1]
        for d in top:
            for k in d.keys:
                if isinstance(k, ast.Constant) and isinstance(k.value, str) and k.value != ".class":
                    wkeys.append(k.value)
        for n in ast.walk(ser):
            if isinstance(n, ast.Assign) and isinstance(n.targets[0], ast.Subscript):
                sb = n.targets[0]
                if isinstance(sb.slice, ast.Constant) and isinstance(sb.slice.value, str) and isinstance(sb.value, ast.Name) \
                        and sb.value.id == "data":
                    wkeys.append(sb.slice.value)
            if isinstance(n, ast.Call) and call_name(n) == "get_flags" and len(n.args) == 2:
                flag_consts.append(ast.unparse(n.args[1]))
    rkeys: list[str] = []
    if de is not None:
        for n in ast.walk(de):
            if isinstance(n, ast.Subscript) and isinstance(n.value, ast.Name) and n.value.id in ("data", "meta") \
                    and isinstance(n.slice, ast.Constant) and isinstance(n.slice.value, str) and n.slice.value != ".class":
                rkeys.append(n.slice.value)
            if isinstance(n, ast.Call) and isinstance(n.func, ast.Attribute) and n.func.attr == "get" \
                    and isinstance(n.func.value, ast.Name) and n.func.value.id in ("data", "meta") and n.args \
                    and isinstance(n.args[0], ast.Constant):
                rkeys.append(n.args[0].value)
            if isinstance(n, ast.Compare) and isinstance(n.left, ast.Constant) and isinstance(n.left.value, str) \
                    and isinstance(n.ops[0], ast.In) and isinstance(n.comparators[0], ast.Name) and n.comparators[0].id == "data":
                rkeys.append(n.left.value)
    w = src.method(cls, "write")
    return {"write_keys": sorted(set(wkeys)), "read_keys": sorted(set(rkeys)), "attrs": sorted(wattrs),
            "flag_consts": flag_consts, "bin_self_attrs": sorted(self_attrs(w)) if w is not None else None}


def flag_list(src: Src, expr: str) -> list[str] | None:
    """evaluate FUNCDEF_FLAGS-style constants: list literals and `A + [..]` concatenations"""
    try:
        node = ast.parse(expr, mode="eval").body
    except SyntaxError:
        return None

    def ev(n: ast.AST) -> list[str] | None:
        if isinstance(n, ast.List):
            return [e.value for e in n.elts if isinstance(e, ast.Constant)]
        if isinstance(n, ast.Name) and n.id in src.consts:
            return ev(src.consts[n.id])
        if isinstance(n, ast.Attribute):          # TypeInfo.FLAGS
            if isinstance(n.value, ast.Name) and n.value.id in src.classes:
                for st in src.classes[n.value.id][1].body:
                    if isinstance(st, (ast.Assign, ast.AnnAssign)):
                        tgt = st.targets[0] if isinstance(st, ast.Assign) else st.target
                        if isinstance(tgt, ast.Name) and tgt.id == n.attr and st.value is not None:
                            return ev(st.value)
            return None
        if isinstance(n, ast.BinOp) and isinstance(n.op, ast.Add):
            a, b = ev(n.left), ev(n.right)
            return None if a is None or b is None else a + b
        return None
    return ev(node)


# ------------------------------------------------------------------------------------------- driver
def write_attrs(c: tuple) -> set[str]:
    out = set()
    k = c[0]
    if k == "field":
        if c[1]:
            out.add(c[1])
        out |= write_attrs(c[2])
    elif k == "flags":
        out |= {n for n in c[2] if n}
    elif k == "seq":
        for x in c[1]:
            out |= write_attrs(x)
    elif k == "list":
        out |= write_attrs(c[1])
    elif k == "table":
        for _, x in c[1]:
            out |= write_attrs(x)
    return out


def extract(repo: str = REPO) -> dict[str, Any]:
    RECURSIVE.clear()
    ITER_ORDER.clear()
    src = Src(repo)
    res: dict[str, Any] = {"classes": {}, "uncovered": {}, "hand": sorted(HAND), "json": {}, "tags": src.tags}
    tag_of: dict[str, str] = {}
    cands = [k for k, (m, cd) in src.classes.items()
             if any(isinstance(n, ast.FunctionDef) and n.name in ("write", "read", "serialize", "deserialize") for n in cd.body)]
    raw: dict[str, tuple[tuple | None, tuple | None, str | None]] = {}
    for k in cands:
        w, r = src.method(k, "write"), src.method(k, "read")
        j = json_side(src, k)
        if j is not None:
            res["json"][k] = j
        if w is None and r is None:
            continue
        if _is_stub(w) and _is_stub(r):
            continue                     # abstract bases raising NotImplementedError
        if k in HAND:
            raw[k] = (HAND[k]["write"], HAND[k]["read"], None)
            continue
        try:
            if w is None or r is None:
                raise Unsupported("only one of write/read is defined")
            wx = WriteX(src, k)
            wc = seq(wx.block(w.body))
            rc = ReadX(src, k).function(r)
            raw[k] = (wc, rc, None)
        except Unsupported as e:
            raw[k] = (None, None, str(e))
        except Exception as e:  # a shape the extractor never met: report, do not crash the check
            raw[k] = (None, None, f"extractor error {type(e).__name__}: {e}")
    # class tags: the constant of the leading `write_tag(data, T)` of `write` (class tags are ≥ 50)
    for k in cands:
        w = src.method(k, "write")
        if w is None:
            continue
        body = [s_ for s_ in w.body if not (isinstance(s_, ast.Expr) and isinstance(s_.value, ast.Constant))]
        if body and isinstance(body[0], ast.Expr) and isinstance(body[0].value, ast.Call) and call_name(body[0].value) == "write_tag":
            t = tagname(body[0].value.args[1])
            if t is not None and src.tags.get(t, 0) >= 50:
                tag_of[k] = t
    for k, (wc, rc, err) in raw.items():
        if wc is None:
            continue
        its = wc[1] if wc[0] == "seq" else [wc]
        pass
    for k, (wc, rc, err) in raw.items():
        if wc is None or rc is None:
            res["uncovered"][k] = err
            continue
        wits = list(wc[1]) if wc[0] == "seq" else [wc]
        rits = list(rc[1]) if rc[0] == "seq" else [rc]
        reads_own_tag = False
        if k in tag_of:
            wits = wits[1:]
            if rits and rits[0] == ("lit", tag_of[k]):
                rits = rits[1:]
                reads_own_tag = True
        wn = hoist(merge_tag_refs(fix_refs(seq(wits), tag_of), tag_of))
        rn = hoist(merge_tag_refs(fix_refs(seq(rits), tag_of), tag_of))
        res["classes"][k] = {"module": src.classes[k][0], "tag": tag_of.get(k), "reads_own_tag": reads_own_tag,
                             "write": wn, "read": rn, "bin_attrs": sorted(write_attrs(wn))}
    res["helpers"] = {}
    for fn, c in RECURSIVE.items():
        base = fn.split("_", 1)[1]
        side = "write" if fn.startswith("write_") else "read"
        res["helpers"].setdefault("fn:" + base, {})[side] = hoist(merge_tag_refs(fix_refs(c, tag_of), tag_of))
    res["tag_of"] = tag_of
    try:
        tab = helper_codec(src, "read_symbol", ())
        res["lazy_classes"] = [c[1] for _, c in tab[1] if c[0] in ("ref", "ref!")] if tab[0] == "table" else []
    except Exception:
        res["lazy_classes"] = []
    res["iter_order"] = sorted(set(ITER_ORDER))
    # flags constants for the JSON side
    for k, j in res["json"].items():
        fl: list[str] = []
        for e in j.pop("flag_consts"):
            v = flag_list(src, e)
            if v is not None:
                fl += v
        j["flags"] = fl
    return res


def _is_stub(f: ast.FunctionDef | None) -> bool:
    if f is None:
        return True
    body = [s for s in f.body if not (isinstance(s, ast.Expr) and isinstance(s.value, ast.Constant))]
    return len(body) == 1 and isinstance(body[0], (ast.Raise, ast.Pass))


def fix_refs(c: tuple, tag_of: dict[str, str]) -> tuple:
    """("ref!", X): a direct call of X.write / X.read → `table [(T_X, ref X)]` for X.write of a tagged class
    (its write emits the tag), plain `ref X` otherwise (X.read does not read the tag)."""
    k = c[0]
    if k == "ref!":
        return ("ref", c[1])
    if k == "field":
        return ("field", c[1], fix_refs(c[2], tag_of))
    if k == "seq":
        return seq([fix_refs(x, tag_of) for x in c[1]])
    if k == "list":
        return ("list", fix_refs(c[1], tag_of))
    if k == "table":
        return ("table", [(t, fix_refs(x, tag_of)) for t, x in c[1]])
    return c


# ------------------------------------------------------------------------------------------- Lean output
def lean_c(c: tuple, tag_of: dict[str, str], side: str, reads_own: set[str]) -> str:
    k = c[0]
    if k in ("int", "str", "bytes", "float", "bool", "unit", "fail"):
        return "." + k
    if k == "lit":
        return f"(.lit T_{c[1]})"
    if k == "flags":
        return f"(.flags {c[1]})"
    if k == "field":
        return f'(.field "{c[1]}" {lean_c(c[2], tag_of, side, reads_own)})'
    if k == "seq":
        return "(C.seq [" + ", ".join(lean_c(x, tag_of, side, reads_own) for x in c[1]) + "])"
    if k == "list":
        return f"(.list {lean_c(c[1], tag_of, side, reads_own)})"
    if k == "table":
        ents = []
        for t, x in c[1]:
            if t == "*any*":
                for n, tt in tag_of.items():
                    if n in reads_own:
                        continue
                    ents.append(f"(T_{tt}, {lean_c(subst_anyref(x, ('rawref', n)), tag_of, side, reads_own)})")
                continue
            ents.append(f"(T_{t}, {lean_c(x, tag_of, side, reads_own)})")
        return "(C.table [" + ", ".join(ents) + "])"
    if k == "ref":
        n = c[1]
        if side == "write" and n in tag_of:
            return f'(C.table [(T_{tag_of[n]}, .ref "{n}")])'
        if side == "read" and n in reads_own:
            return f'(C.table [(T_{tag_of[n]}, .ref "{n}")])'
        return f'(.ref "{n}")'
    if k == "rawref":
        return f'(.ref "{c[1]}")'
    if k == "any":
        return "anyW"
    raise Unsupported(f"cannot render {k}")


def flag_names(c: tuple) -> list[list[str]]:
    out = []
    k = c[0]
    if k == "flags":
        out.append(list(c[2]))
    elif k == "field":
        out += flag_names(c[2])
    elif k == "seq":
        for x in c[1]:
            out += flag_names(x)
    elif k == "list":
        out += flag_names(c[1])
    elif k == "table":
        for _, x in c[1]:
            out += flag_names(x)
    return out


def render(res: dict[str, Any]) -> str:
    tag_of = res["tag_of"]
    reads_own = {k for k, v in res["classes"].items() if v["reads_own_tag"]}
    L = ["/- GENERATED by translate/schemas.py from mypy/{cache,nodes,types}.py — do not edit. -/",
         "import MypyVerif.Model.Codec", "namespace Codec.Gen", "open Codec Codec.K", ""]
    tagged = [(k, tag_of[k]) for k in res["classes"] if k in tag_of and k not in reads_own]
    L.append("/-- `x.write(data)` on an object of statically unknown class: tag, then that class's body.  Classes whose")
    L.append("    `read` consumes its own tag (MypyFile, SymbolTableNode) never appear in a union (mypy/cache.py docstring). -/")
    L.append("def anyW : C := C.table [" + ", ".join(f'(T_{t}, .ref "{k}")' for k, t in tagged) + "]")
    L.append("")
    ok: list[str] = []
    render_fail: dict[str, str] = {}
    for k, v in res["classes"].items():
        try:
            w = lean_c(v["write"], tag_of, "write", reads_own)
            r = lean_c(v["read"], tag_of, "read", reads_own)
        except Unsupported as e:
            render_fail[k] = str(e)
            continue
        L.append(f"def W_{k} : C := {w}")
        L.append(f"def R_{k} : C := {r}")
        ok.append(k)
    for k in render_fail:
        res["uncovered"][k] = render_fail[k]
        del res["classes"][k]
    helpers = []
    for h, v in res["helpers"].items():
        if "write" in v and "read" in v:
            nm = h.replace("fn:", "fn_")
            L.append(f"def W_{nm} : C := {lean_c(v['write'], tag_of, 'write', reads_own)}")
            L.append(f"def R_{nm} : C := {lean_c(v['read'], tag_of, 'read', reads_own)}")
            helpers.append((h, nm))
    L.append("")
    L.append("/-- (class, write codec of the body after the class tag, read codec) -/")
    L.append("def schemas : List (String × C × C) := [" +
             ", ".join([f'("{k}", W_{k}, R_{k})' for k in ok] + [f'("{h}", W_{nm}, R_{nm})' for h, nm in helpers]) + "]")
    L.append("")
    L.append("/-- names of the flags packed by `write_flags` / unpacked from `read_flags`, slot by slot -/")
    wf = [(k, flag_names(res["classes"][k]["write"])) for k in ok]
    rf = [(k, flag_names(res["classes"][k]["read"])) for k in ok]

    def fl(x: list) -> str:
        return "[" + ", ".join('("%s", [%s])' % (k, ", ".join("[" + ", ".join(f'"{n}"' for n in g) + "]" for g in gs))
                               for k, gs in x if gs) + "]"
    L.append(f"def writeFlags : List (String × List (List String)) := {fl(wf)}")
    L.append(f"def readFlags : List (String × List (List String)) := {fl(rf)}")
    L.append("")
    L.append("/-- JSON format: keys written by `serialize` / read by `deserialize`; attributes each format serialises -/")

    def sl(xs: list[str]) -> str:
        return "[" + ", ".join(f'"{x}"' for x in xs) + "]"
    js = res["json"]
    L.append("def jsonWriteKeys : List (String × List String) := [" +
             ", ".join(f'("{k}", {sl(v["write_keys"])})' for k, v in js.items()) + "]")
    L.append("def jsonReadKeys : List (String × List String) := [" +
             ", ".join(f'("{k}", {sl(v["read_keys"])})' for k, v in js.items()) + "]")
    L.append("def jsonAttrs : List (String × List String) := [" +
             ", ".join(f'("{k}", {sl(sorted(set(v["attrs"]) | set(v["flags"])))})' for k, v in js.items() if k in ok) + "]")
    L.append("def binAttrs : List (String × List String) := [" +
             ", ".join(f'("{k}", {sl(v["bin_self_attrs"] or [])})' for k, v in js.items() if k in ok) + "]")
    L.append("")
    L.append("/-- how each write-side loop / list helper argument is ordered: sorted(...) | insertion (dict) | sequence -/")
    L.append("def iterOrder : List (String × String × String) := [" +
             ", ".join(f'("{a}", "{b}", "{c}")' for a, b, c in res["iter_order"]) + "]")
    kinds = []
    for k in ok:
        if k == "Instance":
            kinds.append((k, "inst"))
        elif k in tag_of and k != "MypyFile":
            kinds.append((k, "body"))
        elif k == "SymbolTable":
            kinds.append((k, "one"))
        else:
            kinds.append((k, "other"))
    kinds += [(h, "one") for h, _ in helpers]
    L.append("/-- how the skipper (`extract_symbol`) meets each entry: class body / one tagged object / after INSTANCE / not claimed -/")
    L.append("def kinds : List (String × Kind) := [" + ", ".join(f'("{k}", .{v})' for k, v in kinds) + "]")
    L.append("/-- classes deserialised lazily: `SymbolTableNode.read` keeps `extract_symbol(data)` and parses it later with `read_symbol` -/")
    L.append("def lazyClasses : List String := " + sl(res.get("lazy_classes", [])))
    L.append("def classTag : List (String × Nat) := [" + ", ".join(f'("{k}", T_{tag_of[k]})' for k in ok if k in tag_of) + "]")
    L.append("def extracted : List String := " + sl(ok))
    L.append("def handModelled : List String := " + sl(res["hand"]))
    L.append("def uncovered : List String := " + sl(sorted(res["uncovered"])))
    L.append("")
    L.append("end Codec.Gen")
    return "\n".join(L) + "\n"


def main() -> None:
    res = extract()
    text = render(res)
    out = os.path.join(LEAN, "MypyVerif", "Gen", "Schemas.lean")
    os.makedirs(os.path.dirname(out), exist_ok=True)
    old = open(out).read() if os.path.exists(out) else None
    if old != text:
        with open(out, "w") as f:
            f.write(text)


if __name__ == "__main__":
    r = extract()
    for k, v in r["classes"].items():
        print("==", k, v["tag"], "own-tag" if v["reads_own_tag"] else "")
        print("  W", v["write"])
        print("  R", v["read"])
    print("uncovered:", json.dumps(r["uncovered"], indent=1))
    print("helpers:", r["helpers"])
    if "--write" in sys.argv:
        main()


# ------------------------------------------------------------------------------------------- diagnostics
def expand_any(c: tuple, tag_of: dict[str, str], side: str, reads_own: set[str]) -> tuple:
    """the term the Lean file denotes (refs of tagged classes become one-entry tables, `any` the full table)"""
    k = c[0]
    if k == "any":
        return ("table", [(t, ("ref", n)) for n, t in tag_of.items() if n not in reads_own])
    if k == "ref":
        n = c[1]
        if (side == "write" and n in tag_of) or (side == "read" and n in reads_own):
            return ("table", [(tag_of[n], ("ref", n))])
        return c
    if k == "field":
        return ("field", c[1], expand_any(c[2], tag_of, side, reads_own))
    if k == "seq":
        return ("seq", [expand_any(x, tag_of, side, reads_own) for x in c[1]])
    if k == "list":
        return ("list", expand_any(c[1], tag_of, side, reads_own))
    if k == "table":
        ents = []
        for t, x in c[1]:
            x2 = expand_any(x, tag_of, side, reads_own)
            if t == "*any*":
                for n, tt in tag_of.items():
                    if n not in reads_own:
                        ents.append((tt, subst_anyref(x2, ("ref", n))))
            else:
                ents.append((t, x2))
        return ("table", ents)
    return c


def subst_anyref(c: tuple, r: tuple) -> tuple:
    k = c[0]
    if k == "anyref":
        return r
    if k == "field":
        return ("field", c[1], subst_anyref(c[2], r))
    if k == "seq":
        return ("seq", [subst_anyref(x, r) for x in c[1]])
    if k == "list":
        return ("list", subst_anyref(c[1], r))
    if k == "table":
        return ("table", [(t, subst_anyref(x, r)) for t, x in c[1]])
    return c


def py_sub(r: tuple, w: tuple, path: str = "") -> str | None:
    """Python replica of Lean's `sub` (diagnostics only): None = ok, else a description of the first mismatch"""
    def items(c: tuple) -> list:
        return list(c[1]) if c[0] == "seq" else ([] if c[0] == "unit" else [c])
    kr, kw = r[0], w[0]
    if kr in ("seq", "unit") or kw in ("seq", "unit"):
        ri, wi = items(r), items(w)
        for i, (a, b) in enumerate(zip(ri, wi)):
            e = py_sub(a, b, f"{path}/slot{i}")
            if e:
                return e
        if len(ri) != len(wi):
            return f"{path}: reader has {len(ri)} slots, writer {len(wi)} (first extra: {(ri + wi)[min(len(ri), len(wi))][:2]})"
        return None
    if kr == "field" or kw == "field":
        if kr != "field" or kw != "field":
            return f"{path}: named slot on one side only (reader {r[:2]}, writer {w[:2]})"
        if r[1] != w[1]:
            return f"{path}: reader stores this slot as '{r[1]}', writer writes '{w[1]}'"
        return py_sub(r[2], w[2], f"{path}<{r[1]}>")
    if kr == "table":
        if kw != "table":
            return f"{path}: reader dispatches on a tag, writer emits {kw}"
        wd: dict[str, tuple] = {}
        for t, x in w[1]:
            wd.setdefault(t, x)
        for t, x in r[1]:
            if t not in wd:
                return f"{path}: reader accepts tag {t} which the writer never emits here"
            e = py_sub(x, wd[t], f"{path}[{t}]")
            if e:
                return e
        return None
    if kr != kw:
        return f"{path}: reader expects {kr}, writer emits {kw}"
    if kr == "lit" and r[1] != w[1]:
        return f"{path}: reader expects tag {r[1]}, writer emits {w[1]}"
    if kr == "flags":
        if r[1] != w[1]:
            return f"{path}: read_flags unpacks {r[1]} flags, write_flags packs {w[1]}"
        for i, (a, b) in enumerate(zip(r[2], w[2])):
            if a != b:
                return f"{path}: flag bit {i} is written from '{b}' but read into '{a}'"
    if kr == "list":
        return py_sub(r[1], w[1], path + "[]")
    if kr == "ref" and r[1] != w[1]:
        return f"{path}: reader recurses into {r[1]}, writer into {w[1]}"
    return None


def diagnose(res: dict[str, Any]) -> dict[str, str]:
    tag_of = res["tag_of"]
    reads_own = {k for k, v in res["classes"].items() if v["reads_own_tag"]}
    out = {}
    for k, v in res["classes"].items():
        e = py_sub(expand_any(v["read"], tag_of, "read", reads_own), expand_any(v["write"], tag_of, "write", reads_own))
        if e:
            out[k] = e
    for h, v in res["helpers"].items():
        if "write" in v and "read" in v:
            e = py_sub(expand_any(v["read"], tag_of, "read", reads_own), expand_any(v["write"], tag_of, "write", reads_own))
            if e:
                out[h] = e
    return out


def count_slots(c: tuple) -> int:
    k = c[0]
    if k in ("int", "str", "bytes", "float", "bool", "flags", "ref", "any", "anyref"):
        return 1
    if k == "field":
        return max(1, count_slots(c[2]))
    if k == "seq":
        return sum(count_slots(x) for x in c[1])
    if k == "list":
        return count_slots(c[1])
    if k == "table":
        return max([count_slots(x) for _, x in c[1]] + [1])
    return 0
