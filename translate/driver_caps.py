"""Translator for C20: the caps and the shape of the cap checks of mypy's bounded fix-point loops, the exits of
the driver, and whether the constant folder bounds the size of what it computes
-> lean/MypyVerif/Gen/DriverCaps.lean   (consumed by Props/C20.lean: `Gen.caps`, `caps_wf` by `decide`)

Read from the tree under VERIF_REPO (never hard-coded):
  * values: `semanal_main.MAX_ITERATIONS`, `CORE_WARMUP`, `len(core_modules)`, `checker.DEFAULT_LAST_PASS`,
    `server.update.MAX_ITER`, the literal in `reprocess_nodes: checker.last_pass = N` — taken from the source
    text with `ast` and cross-checked against the imported modules when those come from the same tree;
  * structure (normalised AST patterns; anything unrecognised yields `CapOp.none` / `false`, which makes the
    proof obligation `caps_wf` / `exits_recognised` fail):
      - `process_top_levels`:          `while worklist: iteration += 1; if iteration <op> MAX_ITERATIONS: …report_hang()…; break`
      - `process_top_level_function`:  `while deferred: iteration += 1; if iteration <op> MAX_ITERATIONS: …; break`
      - every `self.defer_node(...)` call in checker.py is in the body of an `if` testing
        `self.pass_num < self.last_pass`; `deferred_nodes` is appended to only in `defer_node`;
        `TypeChecker.last_pass = DEFAULT_LAST_PASS`; no other assignment to `.last_pass` than the one in
        `reprocess_nodes`; `check_second_pass` returns False on an empty todo and increments `pass_num`
      - `process_stale_scc`: `while unfinished_modules:` discards a module exactly when its
        `type_check_second_pass()` returned False
      - `propagate_changes_using_dependencies`: `while …: num_iter += 1; if num_iter <op> MAX_ITER: raise RuntimeError`
      - exits: `report_internal_error` ends in `raise SystemExit(2)`; `main.fail` ends in `sys.exit(2)`;
        `State.wrap_context` re-raises `CompileError` and turns every other `Exception` into
        `report_internal_error`; `console_entry` does the same for what escapes `main`; the status computation
        at the end of `main`
  * a probe of the real folder: the largest `k` for which `constant_fold_binary_op("**", 2, k)` is folded
    (`foldGuard`; `none` when even 2**(2**22) is computed)
Also returns the line numbers of the counter increments (for the harness's line-event observers).
"""
from __future__ import annotations

import ast
import importlib
import os
import sys

VERIF = os.path.dirname(os.path.dirname(os.path.abspath(__file__)))
OUT = os.path.join(VERIF, "lean", "MypyVerif", "Gen", "DriverCaps.lean")

OPS = {ast.Gt: "gt", ast.GtE: "ge", ast.Eq: "eq"}


def repo() -> str:
    return os.environ.get("VERIF_REPO", "/repo")


def _tree(rel: str) -> ast.Module:
    with open(os.path.join(repo(), rel), encoding="utf8") as f:
        return ast.parse(f.read())


def _func(tree: ast.AST, name: str) -> ast.FunctionDef | None:
    for n in ast.walk(tree):
        if isinstance(n, ast.FunctionDef) and n.name == name:
            return n
    return None


def _const(tree: ast.Module, name: str):
    """module-level `NAME: Final = <literal>` / `NAME = <literal>`"""
    for s in tree.body:
        tgt = val = None
        if isinstance(s, ast.AnnAssign) and isinstance(s.target, ast.Name):
            tgt, val = s.target.id, s.value
        elif isinstance(s, ast.Assign) and len(s.targets) == 1 and isinstance(s.targets[0], ast.Name):
            tgt, val = s.targets[0].id, s.value
        if tgt == name and val is not None:
            try:
                return ast.literal_eval(val)
            except ValueError:
                return None
    return None


def _is_name(n: ast.AST, name: str) -> bool:
    return isinstance(n, ast.Name) and n.id == name


def _is_self_attr(n: ast.AST, attr: str) -> bool:
    return isinstance(n, ast.Attribute) and n.attr == attr and _is_name(n.value, "self")


def _calls(n: ast.AST, attr: str) -> bool:
    return any(isinstance(c, ast.Call) and isinstance(c.func, ast.Attribute) and c.func.attr == attr for c in ast.walk(n))


def capped_while(fn: ast.FunctionDef | None, test_name: str | None, counter: str, cap_name: str,
                 leave: str) -> tuple[str, int]:
    """Recognise, among the `while` statements directly in `fn`'s body,
           while <test>: <counter> += 1; if <counter> <op> <cap_name>: … <leave>
       where the increment and the test are the first two statements of the loop body and the `if` body ends
       in `break` (leave='break') or is a `raise` (leave='raise').  Returns (op, line of the increment)."""
    if fn is None:
        return "none", 0
    for st in fn.body:
        if not isinstance(st, ast.While) or st.orelse:
            continue
        if test_name is not None and not _is_name(st.test, test_name):
            continue
        body = st.body
        if len(body) < 2:
            continue
        inc, chk = body[0], body[1]
        if not (isinstance(inc, ast.AugAssign) and isinstance(inc.op, ast.Add) and _is_name(inc.target, counter)
                and isinstance(inc.value, ast.Constant) and inc.value.value == 1):
            continue
        if not (isinstance(chk, ast.If) and not chk.orelse and isinstance(chk.test, ast.Compare)
                and len(chk.test.ops) == 1 and _is_name(chk.test.left, counter)
                and _is_name(chk.test.comparators[0], cap_name) and type(chk.test.ops[0]) in OPS):
            return "none", inc.lineno
        last = chk.body[-1]
        if leave == "break" and not isinstance(last, ast.Break):
            return "none", inc.lineno
        if leave == "raise" and not isinstance(last, ast.Raise):
            return "none", inc.lineno
        # the counter must not be reset or decremented elsewhere in the loop
        for n in ast.walk(st):
            if n is inc:
                continue
            if isinstance(n, (ast.Assign, ast.AugAssign, ast.AnnAssign)):
                tg = n.targets if isinstance(n, ast.Assign) else [n.target]
                if any(_is_name(t, counter) for t in tg):
                    return "none", inc.lineno
        return OPS[type(chk.test.ops[0])], inc.lineno
    return "none", 0


def defer_sites(checker: ast.Module, sites: list | None = None) -> tuple[int, int, bool]:
    """(number of `self.defer_node(...)` calls, how many are guarded, deferred_nodes appended only in defer_node);
    `sites` (if given) receives one `{"function", "line", "guarded"}` record per call site"""
    parents: dict[ast.AST, ast.AST] = {}
    for p in ast.walk(checker):
        for c in ast.iter_child_nodes(p):
            parents[c] = p

    def guard(test: ast.AST) -> bool:
        for n in ast.walk(test):
            if isinstance(n, ast.Compare) and len(n.ops) == 1 and isinstance(n.ops[0], ast.Lt) \
                    and _is_self_attr(n.left, "pass_num") and _is_self_attr(n.comparators[0], "last_pass"):
                # the comparison must be a conjunct of the test (not under `or` / `not`)
                q, ok = n, True
                while q is not test:
                    q = parents[q]
                    if not (isinstance(q, ast.BoolOp) and isinstance(q.op, ast.And)):
                        ok = False
                        break
                if ok:
                    return True
        return False

    total = guarded = 0
    for n in ast.walk(checker):
        if isinstance(n, ast.Call) and isinstance(n.func, ast.Attribute) and n.func.attr == "defer_node":
            total += 1
            child, p, ok = n, parents.get(n), False
            while p is not None and not isinstance(p, (ast.FunctionDef, ast.Lambda)):
                if isinstance(p, ast.If) and any(child is b or _within(child, b) for b in p.body) and guard(p.test):
                    ok = True
                    break
                child, p = p, parents.get(p)
            guarded += ok
            if sites is not None:
                q = parents.get(n)
                while q is not None and not isinstance(q, ast.FunctionDef):
                    q = parents.get(q)
                sites.append({"function": q.name if q is not None else None, "line": n.lineno, "guarded": bool(ok)})
    # deferred_nodes only grows in defer_node (assignments `= []` / `= todo` elsewhere are resets)
    only = True
    for fn in ast.walk(checker):
        if isinstance(fn, ast.FunctionDef) and fn.name != "defer_node":
            for n in ast.walk(fn):
                if isinstance(n, ast.Call) and isinstance(n.func, ast.Attribute) and n.func.attr in ("append", "extend", "insert") \
                        and _is_self_attr(n.func.value, "deferred_nodes"):
                    only = False
    return total, guarded, only


def _within(node: ast.AST, root: ast.AST) -> bool:
    return any(n is node for n in ast.walk(root))


def last_pass_assignments() -> tuple[bool, int | None, list[str]]:
    """(`TypeChecker.last_pass = DEFAULT_LAST_PASS` in the class body, the literal assigned in reprocess_nodes,
        other assignments to `.last_pass` anywhere in mypy/)"""
    checker = _tree("mypy/checker.py")
    cls_ok = False
    for c in checker.body:
        if isinstance(c, ast.ClassDef) and c.name == "TypeChecker":
            for s in c.body:
                if isinstance(s, ast.Assign) and len(s.targets) == 1 and _is_name(s.targets[0], "last_pass") \
                        and _is_name(s.value, "DEFAULT_LAST_PASS"):
                    cls_ok = True
    fg = None
    others: list[str] = []
    for root, _dirs, files in os.walk(os.path.join(repo(), "mypy")):
        if "/test" in root or "typeshed" in root:
            continue
        for fn in files:
            if not fn.endswith(".py"):
                continue
            path = os.path.join(root, fn)
            src = open(path, encoding="utf8").read()
            if "last_pass" not in src:
                continue
            rel = os.path.relpath(path, repo())
            tree = ast.parse(src)
            for f in ast.walk(tree):
                if not isinstance(f, ast.FunctionDef):
                    continue
                for n in ast.walk(f):
                    if isinstance(n, (ast.Assign, ast.AugAssign)):
                        tg = n.targets if isinstance(n, ast.Assign) else [n.target]
                        for t in tg:
                            if isinstance(t, ast.Attribute) and t.attr == "last_pass":
                                if rel == "mypy/server/update.py" and f.name == "reprocess_nodes" and isinstance(n, ast.Assign) \
                                        and isinstance(n.value, ast.Constant) and isinstance(n.value.value, int) and fg is None:
                                    fg = n.value.value
                                else:
                                    others.append(f"{rel}:{n.lineno}")
    return cls_ok, fg, sorted(set(others))


def second_pass_recognised(checker: ast.Module) -> bool:
    fn = _func(checker, "check_second_pass")
    if fn is None:
        return False
    early = incs = 0
    for n in ast.walk(fn):
        if isinstance(n, ast.If) and len(n.body) == 1 and isinstance(n.body[0], ast.Return) \
                and isinstance(n.body[0].value, ast.Constant) and n.body[0].value.value is False:
            t = ast.unparse(n.test)
            if t == "not todo and (not self.deferred_nodes)":
                early += 1
        if isinstance(n, ast.AugAssign) and _is_self_attr(n.target, "pass_num") and isinstance(n.op, ast.Add) \
                and isinstance(n.value, ast.Constant) and n.value.value == 1:
            incs += 1
    # pass_num is changed nowhere else in the class except resets to 0
    bad = 0
    for f in ast.walk(checker):
        if isinstance(f, ast.FunctionDef) and f.name != "check_second_pass":
            for n in ast.walk(f):
                if isinstance(n, ast.AugAssign) and _is_self_attr(n.target, "pass_num"):
                    bad += 1
                if isinstance(n, ast.Assign) and any(_is_self_attr(t, "pass_num") for t in n.targets) \
                        and not (isinstance(n.value, ast.Constant) and n.value.value == 0):
                    bad += 1
    return early == 1 and incs == 1 and bad == 0


SCC_LOOP = '''
while unfinished_modules:
    for id in stale:
        if id not in unfinished_modules:
            continue
        if not graph[id].type_check_second_pass():
            unfinished_modules.discard(id)
            graph[id].detect_possibly_undefined_vars()
            graph[id].finish_passes()
'''


def scc_loop_recognised(build: ast.Module) -> bool:
    fn = _func(build, "process_stale_scc")
    if fn is None:
        return False
    want = ast.dump(ast.parse(SCC_LOOP).body[0])
    return any(isinstance(s, ast.While) and ast.dump(s) == want for s in fn.body)


MAIN_STATUS = '''
code = 0
(n_errors, n_notes, n_files) = util.count_stats(messages)
if messages and n_notes < len(messages):
    code = 2 if blockers else 1
'''


def exits() -> dict[str, bool]:
    out: dict[str, bool] = {}
    errors = _tree("mypy/errors.py")
    rie = _func(errors, "report_internal_error")
    out["internalErrorExits2"] = bool(rie and isinstance(rie.body[-1], ast.Raise)
                                      and ast.unparse(rie.body[-1]) == "raise SystemExit(2)")
    out["internalErrorPrintsMarker"] = bool(rie and any(isinstance(n, ast.Constant) and isinstance(n.value, str)
                                                        and "INTERNAL ERROR" in n.value for n in ast.walk(rie)))
    main = _tree("mypy/main.py")
    fail = _func(main, "fail")
    out["failExits2"] = bool(fail and ast.unparse(fail.body[-1]) == "sys.exit(2)")
    want = [ast.dump(s) for s in ast.parse(MAIN_STATUS).body]
    mfn = _func(main, "main")
    ok = False
    if mfn:
        body = [ast.dump(s) for s in mfn.body]
        ok = any(body[i:i + len(want)] == want for i in range(len(body)))
        tail = [ast.unparse(s) for s in mfn.body[-3:]]
        ok = ok and any("util.hard_exit(code)" in t and "sys.exit(code)" in t for t in tail)
    out["mainStatusRecognised"] = ok
    build = _tree("mypy/build.py")
    wc = _func(build, "wrap_context")
    ok = False
    if wc:
        for n in ast.walk(wc):
            if isinstance(n, ast.Try) and len(n.handlers) == 2:
                h0, h1 = n.handlers
                ok = (_is_name(h0.type, "CompileError") and len(h0.body) == 1 and isinstance(h0.body[0], ast.Raise)
                      and h0.body[0].exc is None and _is_name(h1.type, "Exception")
                      and len(h1.body) == 1 and "report_internal_error(" in ast.unparse(h1.body[0]))
    out["wrapContextRecognised"] = ok
    chk = _tree("mypy/checker.py")
    acc = None
    for c in chk.body:
        if isinstance(c, ast.ClassDef) and c.name == "TypeChecker":
            acc = next((f for f in c.body if isinstance(f, ast.FunctionDef) and f.name == "accept"), None)
    ok = False
    if acc:
        for n in ast.walk(acc):
            if isinstance(n, ast.Try) and len(n.handlers) == 1 and _is_name(n.handlers[0].type, "Exception") \
                    and "report_internal_error(" in ast.unparse(n.handlers[0].body[0]):
                ok = True
    out["checkerAcceptRecognised"] = ok
    mm = _tree("mypy/__main__.py")
    ce = _func(mm, "console_entry")
    ok = False
    if ce and isinstance(ce.body[0], ast.Try):
        for h in ce.body[0].handlers:
            if _is_name(h.type, "Exception"):
                txt = ast.unparse(h)
                ok = "report_internal_error(" in txt and txt.rstrip().endswith("sys.exit(2)")
    out["consoleEntryRecognised"] = ok
    sm = _tree("mypy/semanal.py")
    rh = _func(sm, "report_hang")
    out["reportHangIsBlocker"] = bool(rh and any(
        isinstance(n, ast.Call) and any(k.arg == "blocker" and isinstance(k.value, ast.Constant) and k.value.value is True
                                        for k in n.keywords) for n in ast.walk(rh)))
    df = _func(sm, "defer")
    out["deferAssertsNotFinal"] = bool(df and any(
        isinstance(n, ast.Assert) and ast.unparse(n.test) == "not self.final_iteration" for n in df.body))
    return out


def fold_probe() -> int | None:
    """largest k (power of two ≤ 2**22, refined by bisection) such that the real folder folds 2**k"""
    cf = importlib.import_module("mypy.constant_fold")

    def folds(k: int) -> bool:
        try:
            return cf.constant_fold_binary_op("**", 2, k) is not None
        except Exception:  # noqa: BLE001
            return False
    top = 1 << 22
    if folds(top):
        return None
    lo, hi = 0, top           # folds(lo) assumed, not folds(hi)
    if not folds(1):
        return 0
    lo = 1
    while hi - lo > 1:
        mid = (lo + hi) // 2
        if folds(mid):
            lo = mid
        else:
            hi = mid
    return lo


def collect() -> dict:
    sm = _tree("mypy/semanal_main.py")
    chk = _tree("mypy/checker.py")
    upd = _tree("mypy/server/update.py")
    bld = _tree("mypy/build.py")
    top_op, top_line = capped_while(_func(sm, "process_top_levels"), "worklist", "iteration", "MAX_ITERATIONS", "break")
    fn_op, fn_line = capped_while(_func(sm, "process_top_level_function"), "deferred", "iteration", "MAX_ITERATIONS", "break")
    ptl = _func(sm, "process_top_levels")
    if ptl is not None and not _calls(ptl, "report_hang"):
        top_op = "none"
    ptf = _func(sm, "process_top_level_function")
    if ptf is not None and not _calls(ptf, "report_hang"):
        fn_op = "none"
    fg_op, fg_line = capped_while(_func(upd, "propagate_changes_using_dependencies"), None, "num_iter", "MAX_ITER", "raise")
    site_list: list = []
    total, guarded, only = defer_sites(chk, site_list)
    cls_ok, fg_last, others = last_pass_assignments()
    core = _const(sm, "core_modules")
    vals = {
        "maxIterations": _const(sm, "MAX_ITERATIONS"),
        "coreWarmup": _const(sm, "CORE_WARMUP"),
        "nCore": len(core) if isinstance(core, list) else None,
        "defaultLastPass": _const(chk, "DEFAULT_LAST_PASS"),
        "maxIter": _const(upd, "MAX_ITER"),
        "fgLastPass": fg_last,
    }
    notes = []
    for k, v in vals.items():
        if not isinstance(v, int) or isinstance(v, bool) or v < 0:
            notes.append(f"{k} is not a literal natural number in the source ({v!r})")
            vals[k] = 0
    # cross-check with the imported modules when they come from this tree
    try:
        m = importlib.import_module("mypy.semanal_main")
        if os.path.realpath(m.__file__).startswith(os.path.realpath(repo()) + os.sep):
            c = importlib.import_module("mypy.checker")
            u = importlib.import_module("mypy.server.update")
            live = {"maxIterations": m.MAX_ITERATIONS, "coreWarmup": m.CORE_WARMUP, "nCore": len(m.core_modules),
                    "defaultLastPass": c.DEFAULT_LAST_PASS, "maxIter": u.MAX_ITER}
            for k, v in live.items():
                if vals[k] != v:
                    notes.append(f"{k}: source text says {vals[k]}, imported module says {v}")
                    vals[k] = 0
            if c.TypeChecker.last_pass != c.DEFAULT_LAST_PASS:
                cls_ok = False
    except Exception as e:  # noqa: BLE001
        notes.append(f"import cross-check failed: {type(e).__name__}: {e}")
    defer_guarded = total >= 1 and guarded == total and only and cls_ok and not others and second_pass_recognised(chk)
    ex = exits()
    return {
        **vals, "topOp": top_op, "funcOp": fn_op, "fgOp": fg_op,
        "deferSites": total, "deferSitesGuarded": guarded, "deferredOnlyInDeferNode": only, "deferSiteList": site_list,
        "lastPassClassAttr": cls_ok, "otherLastPassAssignments": others,
        "secondPassRecognised": second_pass_recognised(chk), "deferGuarded": defer_guarded,
        "sccLoopRecognised": scc_loop_recognised(bld), "exits": ex, "foldGuard": fold_probe(),
        "lines": {"process_top_levels": top_line, "process_top_level_function": fn_line,
                  "propagate_changes_using_dependencies": fg_line},
        "notes": notes,
    }


def lean_bool(b: bool) -> str:
    return "true" if b else "false"


def render(d: dict) -> str:
    ex = d["exits"]
    L = ["-- GENERATED by translate/driver_caps.py from mypy/semanal_main.py, checker.py, build.py, server/update.py,",
         "-- errors.py, main.py, __main__.py, semanal.py and a probe of mypy/constant_fold.py — do not edit",
         "import MypyVerif.Model.Driver",
         "namespace Driver.Gen", "",
         "def caps : Caps :=",
         f"  {{ maxIterations := {d['maxIterations']}, topOp := .{d['topOp']}, funcOp := .{d['funcOp']},",
         f"    coreWarmup := {d['coreWarmup']}, nCore := {d['nCore']},",
         f"    defaultLastPass := {d['defaultLastPass']}, fgLastPass := {d['fgLastPass']},",
         f"    deferGuarded := {lean_bool(d['deferGuarded'])},",
         f"    maxIter := {d['maxIter']}, fgOp := .{d['fgOp']} }}", "",
         f"/-- `self.defer_node(...)` call sites in checker.py / those under `if self.pass_num < self.last_pass` -/",
         f"def deferSites : Nat := {d['deferSites']}",
         f"def deferSitesGuarded : Nat := {d['deferSitesGuarded']}", "",
         "/-- `process_stale_scc`'s `while unfinished_modules` loop has the transcribed shape -/",
         f"def sccLoopRecognised : Bool := {lean_bool(d['sccLoopRecognised'])}", "",
         "/-- the exits of the driver have the transcribed shape -/"]
    for k in sorted(ex):
        L.append(f"def {k} : Bool := {lean_bool(ex[k])}")
    L += ["", "def exitsRecognised : Bool :=", "  " + " && ".join(sorted(ex)), "",
          "/-- largest `k` for which the real folder computes `2 ** k` (`none`: no bound below 2^22 — finding F6) -/",
          "def foldGuard : Option Nat := " + ("none" if d["foldGuard"] is None else f"some {d['foldGuard']}"), ""]
    for n in d["notes"]:
        L.append(f"-- NOTE: {n}")
    L += ["end Driver.Gen", ""]
    return "\n".join(L)


def main() -> int:
    d = collect()
    text = render(d)
    os.makedirs(os.path.dirname(OUT), exist_ok=True)
    if not os.path.exists(OUT) or open(OUT).read() != text:
        with open(OUT, "w") as f:
            f.write(text)
    return 0


if __name__ == "__main__":
    sys.exit(main())
