"""Translator: the option tables of the *imported, live* mypy (the tree named by VERIF_REPO)
→ lean/MypyVerif/Gen/Options.lean.

Emitted (all values are taken from the imported objects, never parsed from source text):
  * `attrs`            every attribute assigned in `Options.__init__` (``vars(Options())``) with the type
                       of its default and the default itself;
  * `otherNames`       names `getattr(Options(), n, None)` finds that are not instance attributes
                       (methods / class attributes): `parse_section` resolves keys with getattr/hasattr;
  * `perModule`        `PER_MODULE_OPTIONS`;          `affectingCache`  `OPTIONS_AFFECTING_CACHE`;
  * `flags`            the argparse table of `mypy.main.define_options()` (option strings, dest, action,
                       const, default, nargs, whether a `type=`/`choices=` is attached);
  * `strictFlags`      `strict_flag_assignments` (dest, value);
  * `iniKeys/tomlKeys` keys of `ini_config_types` / `toml_config_types`, each with "the converter is `bool`";
  * `reporterNames`    `defaults.REPORTER_NAMES`;  `flagPrefixPairs` `main.flag_prefix_pairs`.

The file is self-contained (no imports) so that C09 and C17 can both build on it.  Strings are emitted as
`List Char` literals (kernel-friendly for `decide`), with the readable text in a comment.

`main()` writes the file only when its content changed (lake then rebuilds only what depends on it).
`selftest()` re-renders with a perturbed in-memory table and checks the rendering reacts.
"""
from __future__ import annotations

import argparse
import os
import sys

VERIF = os.path.dirname(os.path.dirname(os.path.abspath(__file__)))
OUT = os.path.join(VERIF, "lean", "MypyVerif", "Gen", "Options.lean")
REPO = os.environ.get("VERIF_REPO", "/repo")


# ------------------------------------------------------------------------------------------ collect
def collect() -> dict:
    """Everything the Lean file is rendered from, as plain Python data (also used by harness/c17)."""
    import mypy
    import mypy.main as mm
    from mypy import defaults
    from mypy.config_parser import ini_config_types, toml_config_types
    from mypy.options import OPTIONS_AFFECTING_CACHE, PER_MODULE_OPTIONS, Options

    src = os.path.realpath(os.path.dirname(os.path.dirname(mypy.__file__)))
    if src != os.path.realpath(REPO):
        raise RuntimeError(f"translate.options: mypy imported from {src}, expected {REPO}")

    o = Options()
    inst = vars(o)
    attrs = []
    for name in sorted(inst):
        v = inst[name]
        attrs.append({"name": name, "ty": ty_of(v), "bool": v if isinstance(v, bool) else None,
                      "repr": default_repr(name, v)})
    other = sorted(n for n in dir(o) if n not in inst and not n.startswith("__"))

    parser, strict_names, strict_assign = mm.define_options()
    flags = []
    for a in parser._actions:
        kind = {
            "_StoreTrueAction": "storeTrue", "_StoreFalseAction": "storeFalse", "_StoreAction": "store",
            "_AppendAction": "append", "_CountAction": "count", "_HelpAction": "help",
        }.get(type(a).__name__, "other")
        dest = a.dest
        special = dest.startswith("special-opts:")
        flags.append({
            "strings": list(a.option_strings), "dest": dest[len("special-opts:"):] if special else dest,
            "special": special, "act": kind,
            "const": a.const if isinstance(a.const, bool) else None,
            "default": "SUPPRESS" if a.default is argparse.SUPPRESS else repr(a.default),
            "nargs": "" if a.nargs is None else str(a.nargs),
            "typed": a.type is not None, "choices": sorted(map(str, a.choices)) if a.choices else [],
        })
    return {
        "attrs": attrs, "other": other,
        "per_module": sorted(PER_MODULE_OPTIONS), "affecting_cache": sorted(OPTIONS_AFFECTING_CACHE),
        "flags": flags, "strict": [(d, bool(v)) for d, v in strict_assign], "strict_names": list(strict_names),
        "ini": sorted((k, v is bool) for k, v in ini_config_types.items()),
        "toml": sorted((k, v is bool) for k, v in toml_config_types.items()),
        "reporters": sorted(defaults.REPORTER_NAMES),
        "prefix_pairs": [tuple(p) for p in mm.flag_prefix_pairs],
    }


def ty_of(v: object) -> str:
    if isinstance(v, bool):
        return "bool"
    for t, n in ((int, "int"), (str, "str"), (list, "list"), (tuple, "tuple"), (dict, "dict"), (set, "set")):
        if isinstance(v, t):
            return n
    return "none" if v is None else "other"


def default_repr(name: str, v: object) -> str:
    # machine-dependent defaults are scrubbed so that the generated file is stable across machines
    if name in ("python_executable", "platform", "python_version"):
        return "<machine>"
    return repr(v) if not isinstance(v, (set, dict)) or not v else repr(sorted(v))


# ------------------------------------------------------------------------------------------ render
def chars(s: str) -> str:
    def one(c: str) -> str:
        if c == "'":
            return "'\\''"
        if c == "\\":
            return "'\\\\'"
        if not (32 <= ord(c) < 127):
            return "Char.ofNat %d" % ord(c)
        return "'%s'" % c
    return "[" + ",".join(one(c) for c in s) + "]"


def lstr(s: str) -> str:
    return '"' + s.replace("\\", "\\\\").replace('"', '\\"') + '"'


def blist(items: list[str], indent: str = "  ") -> str:
    """A Lean list literal, one item per line; an item may end in `  -- comment` (kept after the comma)."""
    if not items:
        return "[]"
    out = []
    for n, it in enumerate(items):
        code, sep, com = it.partition("  -- ")
        last = n == len(items) - 1
        out.append(indent + code + ("]" if last else ",") + (("  -- " + com) if sep else ""))
    return "[\n" + "\n".join(out)


def optb(b: bool | None) -> str:
    return "none" if b is None else ("some true" if b else "some false")


def render(t: dict) -> str:
    L: list[str] = []
    w = L.append
    w("/-! GENERATED by translate/options.py from the imported mypy of VERIF_REPO — do not edit.")
    w("Strings are `List Char` literals; the readable text follows in a comment. -/")
    w("namespace Gen.Options")
    w("abbrev Str := List Char")
    w("/-- type of the default assigned in `Options.__init__` -/")
    w("inductive Ty | bool | int | str | list | tuple | dict | set | none | other")
    w("  deriving DecidableEq, Repr")
    w("structure Attr where")
    w("  name : Str")
    w("  ty : Ty")
    w("  boolDefault : Option Bool")
    w("  defaultRepr : String")
    w("inductive Act | storeTrue | storeFalse | store | append | count | help | other")
    w("  deriving DecidableEq, Repr")
    w("structure Flag where")
    w("  strings : List Str")
    w("  dest : Str")
    w("  special : Bool      -- dest was `special-opts:<dest>` (processed by hand in process_options)")
    w("  act : Act")
    w("  const : Option Bool")
    w("  defaultRepr : String")
    w("  nargs : String")
    w("  typed : Bool")
    w("  choices : List String")
    w("")
    w("/-- every attribute assigned in `Options.__init__`, with its default -/")
    w("def attrs : List Attr := " + blist([
        "{ name := %s, ty := .%s, boolDefault := %s, defaultRepr := %s }  -- %s"
        % (chars(a["name"]), a["ty"], optb(a["bool"]), lstr(a["repr"]), a["name"]) for a in t["attrs"]]))
    w("")
    w("/-- names found by getattr/hasattr on an `Options` instance that are not instance attributes -/")
    w("def otherNames : List Str := " + blist(["%s  -- %s" % (chars(n), n) for n in t["other"]]))
    w("")
    w("def perModule : List Str := " + blist(["%s  -- %s" % (chars(n), n) for n in t["per_module"]]))
    w("")
    w("def affectingCache : List Str := " + blist(["%s  -- %s" % (chars(n), n) for n in t["affecting_cache"]]))
    w("")
    w("/-- the argparse table of `mypy.main.define_options()` in definition order -/")
    w("def flags : List Flag := " + blist([
        "{ strings := [%s], dest := %s, special := %s, act := .%s, const := %s, defaultRepr := %s, nargs := %s, "
        "typed := %s, choices := [%s] }  -- %s → %s"
        % (", ".join(chars(s) for s in f["strings"]), chars(f["dest"]), str(f["special"]).lower(), f["act"],
           optb(f["const"]), lstr(f["default"]), lstr(f["nargs"]), str(f["typed"]).lower(),
           ", ".join(lstr(c) for c in f["choices"]), " ".join(f["strings"]) or "<positional>", f["dest"])
        for f in t["flags"]]))
    w("")
    w("/-- `strict_flag_assignments` -/")
    w("def strictFlags : List (Str × Bool) := " + blist([
        "(%s, %s)  -- %s" % (chars(d), str(v).lower(), d) for d, v in t["strict"]]))
    w("")
    w("/-- keys of `ini_config_types`, with \"the converter is the type `bool`\" -/")
    w("def iniKeys : List (Str × Bool) := " + blist([
        "(%s, %s)  -- %s" % (chars(k), str(b).lower(), k) for k, b in t["ini"]]))
    w("")
    w("def tomlKeys : List (Str × Bool) := " + blist([
        "(%s, %s)  -- %s" % (chars(k), str(b).lower(), k) for k, b in t["toml"]]))
    w("")
    w("def reporterNames : List Str := " + blist(["%s  -- %s" % (chars(n), n) for n in t["reporters"]]))
    w("")
    w("def flagPrefixPairs : List (Str × Str) := [" + ", ".join(
        "(%s, %s)" % (chars(a), chars(b)) for a, b in t["prefix_pairs"]) + "]")
    w("")
    w("end Gen.Options")
    return "\n".join(L) + "\n"


def write_if_changed(path: str, text: str) -> bool:
    try:
        if open(path).read() == text:
            return False
    except OSError:
        pass
    os.makedirs(os.path.dirname(path), exist_ok=True)
    tmp = path + ".tmp%d" % os.getpid()
    with open(tmp, "w") as f:
        f.write(text)
    os.replace(tmp, path)
    return True


def selftest(t: dict | None = None) -> None:
    """The rendering must react to a change of each table (a translator that ignores its input is no tie)."""
    import copy
    t = t or collect()
    base = render(t)
    assert len(t["flags"]) > 100 and len(t["attrs"]) > 100 and len(t["per_module"]) > 20, "tables too small"
    probes = []
    m = copy.deepcopy(t); m["per_module"] = m["per_module"][1:]; probes.append(m)
    m = copy.deepcopy(t); m["affecting_cache"] = m["affecting_cache"][:-1]; probes.append(m)
    m = copy.deepcopy(t); m["flags"][10]["dest"] += "x"; probes.append(m)
    m = copy.deepcopy(t); m["flags"][10]["const"] = not m["flags"][10]["const"]; probes.append(m)
    m = copy.deepcopy(t); m["attrs"][5]["ty"] = "other"; probes.append(m)
    m = copy.deepcopy(t); m["ini"] = m["ini"][1:]; probes.append(m)
    m = copy.deepcopy(t); m["toml"] = m["toml"][1:]; probes.append(m)
    m = copy.deepcopy(t); m["strict"] = m["strict"][1:]; probes.append(m)
    for i, p in enumerate(probes):
        assert render(p) != base, f"translate.options selftest: perturbation {i} did not change the output"


def main() -> int:
    t = collect()
    selftest(t)
    changed = write_if_changed(OUT, render(t))
    print(f"translate.options: {len(t['flags'])} argparse actions, {len(t['attrs'])} Options attributes, "
          f"{len(t['ini'])} ini keys, {len(t['per_module'])} per-module options → {OUT}"
          f"{' (updated)' if changed else ' (unchanged)'}")
    return 0


if __name__ == "__main__":
    sys.exit(main())
