"""IR exporter (DESIGN §2.3): the real mypyc front half, in process, no C compilation.

`compile_to_ir(sources, compiled, …)` runs mypy + `mypyc.irbuild` + the whole pass pipeline of
`mypyc.codegen.emitmodule.compile_scc_to_ir` (uninit → exceptions → refcount → spill → lower → copy
propagation → flag elimination) of the *checked* tree (`harness.vlib.core.REPO`, first on `sys.path` under
`./check`) and returns, per function, two plain-data dumps (JSON-able dicts, see `export_func`):

  * ``pre``   — the FuncIR as it enters `insert_ref_count_opcodes` (after uninit + exception transforms);
  * ``final`` — the FuncIR that the C backend would emit.

The ``pre`` snapshot is taken by wrapping the name `insert_ref_count_opcodes` inside
`mypyc.codegen.emitmodule` from outside (no change to /repo).

Per op: class name, dest value id, line, `sources()`, `stolen()`, `is_borrowed`, `error_kind`, and the
class-specific fields (`is_xdec`; branch kind / targets / `negated`; `IntOp`/`ComparisonOp` opcode; `CallC`
function name, `returns_null`, `steals`; `LoadAddress` source kind; `Call`/`MethodCall` callee and which
parameters are optional; `GetAttr`/`SetAttr` attribute, class, `allow_error_value`/`is_init`; …).
Per value: kind (reg/op/int/float/cstr/undef), name as printed by `mypyc.ir.pprint`, and the result type
(`is_refcounted`, `is_unboxed`, `error_overlap`, C type, size/signedness for primitives, item types of tuples).

Also here: a splitter for the mypyc data-driven test files (`mypyc/test-data/*.test`) and `corpus_cases`, the
list of programs of `run-*.test`, `irbuild-*.test`, `refcount.test`, `exceptions.test`; they are compiled the
way `mypyc/test/test_run.py` does (builtins fixture `fixtures/ir.py`, lib-stub typing, `native` + `other*`
modules compiled, the rest interpreted).

Nothing here is specific to one property (C06 flattens the dump into ownership micro-ops in
`translate/c06_micro.py`; C05 can read the same dump).
"""
from __future__ import annotations

import glob
import os
import re
import shutil
import sys
from typing import Any

try:
    from harness.vlib.core import REPO
except Exception:  # pragma: no cover - standalone use
    REPO = os.environ.get("VERIF_REPO", "/repo")

CORPUS_GLOBS = ["run-*.test", "irbuild-*.test", "refcount.test", "exceptions.test"]


# ----------------------------------------------------------------------------------------- test-data files
class Case:
    __slots__ = ("file", "name", "main", "files", "kind")

    def __init__(self, file: str, name: str, main: str, files: dict[str, str], kind: str):
        self.file, self.name, self.main, self.files, self.kind = file, name, main, files, kind

    @property
    def key(self) -> str:
        return f"{self.file}:{self.name}"


def parse_test_file(path: str) -> list[Case]:
    """Split a data-driven `.test` file into cases: main program + `[file x]` sections."""
    text = open(path, encoding="utf-8").read()
    base = os.path.basename(path)
    kind = "run" if base.startswith("run-") else base.split("-")[0].split(".")[0]
    cases: list[Case] = []
    parts = re.split(r"^\[case ([^\]\n]+)\]\n", text, flags=re.M)
    for i in range(1, len(parts), 2):
        name, body = parts[i], parts[i + 1]
        # sections: [file path], [out], [typing fixtures/…], [builtins …] …
        secs = re.split(r"^\[([a-zA-Z][^\]\n]*)\]\n", body, flags=re.M)
        main = secs[0]
        files: dict[str, str] = {}
        for j in range(1, len(secs), 2):
            hdr, content = secs[j], secs[j + 1]
            if hdr.startswith("file "):
                files[hdr[5:].strip()] = content
            elif hdr.startswith("typing ") or hdr.startswith("builtins "):
                # alternative stub for typing / builtins, relative to mypyc/test-data (mypy/test/data.py)
                fx = os.path.join(os.path.dirname(path), hdr.split(None, 1)[1].strip())
                if os.path.exists(fx):
                    files[hdr.split()[0] + ".pyi"] = open(fx, encoding="utf-8").read()
        cases.append(Case(base, name, main, files, kind))
    return cases


def corpus_cases(repo: str = REPO) -> list[Case]:
    out: list[Case] = []
    d = os.path.join(repo, "mypyc", "test-data")
    for pat in CORPUS_GLOBS:
        for f in sorted(glob.glob(os.path.join(d, pat))):
            out += parse_test_file(f)
    return out


# ----------------------------------------------------------------------------------------- value / op dump
def _type_info(t: Any) -> dict:
    from mypyc.ir import rtypes as R
    d: dict[str, Any] = {
        "name": str(t), "cls": type(t).__name__, "rc": bool(t.is_refcounted),
        "unboxed": bool(t.is_unboxed), "overlap": bool(getattr(t, "error_overlap", False)),
        "ctype": getattr(t, "_ctype", None),
    }
    if isinstance(t, R.RPrimitive):
        d["size"] = t.size
        d["signed"] = bool(getattr(t, "is_signed", False))
        d["native_int"] = bool(getattr(t, "is_native_int", False))
    elif isinstance(t, R.RTuple):
        d["items"] = [_type_info(x) for x in t.types]
    elif isinstance(t, R.RInstance):
        d["class"] = t.class_ir.fullname
    elif isinstance(t, R.RUnion):
        d["items"] = [str(x) for x in t.items]
    return d


class _Numbering:
    """Value ids: arguments first, then registers/ops in order of first appearance (like pprint's names)."""

    def __init__(self, fn: Any):
        from mypyc.ir.pprint import generate_names_for_ir
        self.ids: dict[Any, int] = {}
        self.values: list[dict] = []
        self.names = generate_names_for_ir(fn.arg_regs, fn.blocks)

    def get(self, v: Any) -> int:
        from mypyc.ir import ops as O
        i = self.ids.get(v)
        if i is not None:
            return i
        i = len(self.values)
        self.ids[v] = i
        if isinstance(v, O.Register):
            kind = "reg"
        elif isinstance(v, O.Integer):
            kind = "int"
        elif isinstance(v, O.Float):
            kind = "float"
        elif isinstance(v, O.CString):
            kind = "cstr"
        elif isinstance(v, O.Undef):
            kind = "undef"
        else:
            kind = "op"
        d: dict[str, Any] = {"id": i, "kind": kind, "name": self.names.get(v, ""), "type": _type_info(v.type)}
        if kind == "reg":
            d["is_arg"] = bool(v.is_arg)
            d["pyname"] = v.name
        elif kind == "int":
            d["value"] = v.value
        elif kind == "float":
            d["value"] = repr(v.value)
        elif kind == "op":
            d["opclass"] = type(v).__name__
        d["borrowed"] = bool(v.is_borrowed)
        self.values.append(d)
        return i


def _sig_optional(sig: Any, n: int) -> list[bool]:
    try:
        opt = [bool(a.optional) for a in sig.args]
    except Exception:
        opt = []
    # bitmap arguments trail the declared ones; they are plain ints
    return (opt + [False] * n)[:n]


def _attr_facts(cl: Any, attr: str) -> dict:
    """Facts about a native attribute read straight from the ClassIR tables (not through the helper methods that
    the transforms call): `attr_always_initialized` (attrdefined analysis), `attr_deletable` (`__deletable__`
    anywhere in the MRO), `attr_has_default` (class-body default), `attr_final` (`final_attributes`: no setter), `attr_rc` (the attribute type is refcounted)."""
    try:
        mro = list(cl.mro) or [cl]
    except Exception:
        mro = [cl]
    try:
        rc = bool(cl.attr_type(attr).is_refcounted)
    except Exception:
        rc = True
    return {"attr_always_initialized": attr in getattr(cl, "_always_initialized_attrs", ()),
            "attr_deletable": any(attr in getattr(ir, "deletable", ()) for ir in mro),
            "attr_has_default": any(attr in getattr(ir, "attrs_with_defaults", ()) for ir in mro),
            "attr_final": any(attr in getattr(ir, "final_attributes", ()) for ir in mro),
            "attr_rc": rc}


def export_op(op: Any, num: _Numbering, labels: dict[Any, int]) -> dict:
    from mypyc.ir import ops as O
    cls = type(op).__name__
    d: dict[str, Any] = {"op": cls, "line": op.line}
    if isinstance(op, O.BaseAssign):
        d["dest"] = num.get(op.dest)
    elif isinstance(op, O.ControlOp) or op.is_void:
        d["dest"] = None
    else:
        d["dest"] = num.get(op)
    d["srcs"] = [num.get(s) for s in op.sources()]
    d["stolen"] = [num.get(s) for s in op.stolen()]
    d["borrowed"] = bool(op.is_borrowed)
    d["error_kind"] = int(getattr(op, "error_kind", 0))
    if isinstance(op, O.Goto):
        d["label"] = labels.get(op.label, -1)       # -1: target is not a block of the function
    elif isinstance(op, O.Branch):
        d.update(kind="IS_ERROR" if op.op == O.Branch.IS_ERROR else "BOOL", value=num.get(op.value),
                 true=labels.get(op.true, -1), false=labels.get(op.false, -1), negated=bool(op.negated), rare=bool(op.rare),
                 traceback=op.traceback_entry is not None)
    elif isinstance(op, O.Return):
        d["value"] = num.get(op.value)
    elif isinstance(op, O.DecRef):
        d.update(src=num.get(op.src), xdec=bool(op.is_xdec))
    elif isinstance(op, O.IncRef):
        d["src"] = num.get(op.src)
    elif isinstance(op, O.Assign):
        d["src"] = num.get(op.src)
    elif isinstance(op, O.AssignMulti):
        d["src"] = [num.get(s) for s in op.src]
    elif isinstance(op, O.CallC):
        d.update(function=op.function_name, returns_null=bool(op.returns_null),
                 steals=op.steals if isinstance(op.steals, bool) else list(op.steals),
                 var_arg_idx=op.var_arg_idx, is_pure=bool(getattr(op, "is_pure", False)))
    elif isinstance(op, O.PrimitiveOp):
        d.update(function=op.desc.name, steals=op.desc.steals if isinstance(op.desc.steals, bool) else list(op.desc.steals))
    elif isinstance(op, O.Call):
        d.update(callee=op.fn.fullname, callee_shortname=op.fn.shortname,
                 arg_optional=_sig_optional(op.fn.sig, len(op.args)))
    elif isinstance(op, O.MethodCall):
        d.update(method=op.method, receiver_type=str(op.receiver_type), obj=num.get(op.obj))
        try:
            decl = op.receiver_type.class_ir.method_decl(op.method)
            # emit_method_call passes obj / type(obj) / nothing first, then op.args: they bind to bound_sig
            sig = decl.bound_sig if decl.bound_sig is not None else decl.sig
            d["arg_optional"] = _sig_optional(sig, len(op.args))
            d["method_kind"] = int(decl.kind)
        except Exception:
            d["arg_optional"] = [True] * len(op.args)
    elif isinstance(op, O.GetAttr):
        d.update(attr=op.attr, obj=num.get(op.obj), class_name=op.class_type.class_ir.fullname,
                 allow_error_value=bool(getattr(op, "allow_error_value", False)))
        d.update(_attr_facts(op.class_type.class_ir, op.attr))
    elif isinstance(op, O.SetAttr):
        d.update(attr=op.attr, obj=num.get(op.obj), src=num.get(op.src), class_name=op.class_type.class_ir.fullname,
                 is_init=bool(op.is_init))
        d.update(_attr_facts(op.class_type.class_ir, op.attr))
    elif isinstance(op, (O.IntOp, O.ComparisonOp, O.FloatOp, O.FloatComparisonOp)):
        d["opcode"] = op.op_str[op.op] if hasattr(op, "op_str") else op.op
        d["opnum"] = op.op
    elif isinstance(op, O.LoadErrorValue):
        d["undefines"] = bool(op.undefines)
    elif isinstance(op, O.LoadAddress):
        if isinstance(op.src, O.Register):
            d.update(src_kind="reg", src=num.get(op.src))
        elif isinstance(op.src, O.LoadStatic):
            d.update(src_kind="static", src=op.src.identifier)
        else:
            d.update(src_kind="name", src=str(op.src))
    elif isinstance(op, O.LoadStatic):
        d.update(identifier=op.identifier, namespace=op.namespace, module_name=op.module_name)
    elif isinstance(op, O.InitStatic):
        d.update(identifier=op.identifier, namespace=op.namespace, module_name=op.module_name)
    elif isinstance(op, O.LoadLiteral):
        d["value"] = repr(op.value)
    elif isinstance(op, O.LoadGlobal):
        d["identifier"] = op.identifier
    elif isinstance(op, O.TupleGet):
        d["index"] = op.index
    elif isinstance(op, O.RaiseStandardError):
        d.update(class_name=op.class_name, value=None if op.value is None or isinstance(op.value, O.Value) else str(op.value))
    elif isinstance(op, O.KeepAlive):
        d["steal"] = bool(op.steal)
    elif isinstance(op, (O.Truncate, O.Extend)):
        d["signed"] = bool(getattr(op, "signed", False))
    elif isinstance(op, (O.GetElementPtr, O.SetElement)):
        d["field"] = op.field
    elif isinstance(op, O.Cast):
        d["unchecked"] = bool(getattr(op, "is_unchecked", False))
    return d


def export_func(fn: Any, module: str = "", keepalive: Any = None) -> dict:
    """Plain-data dump of one FuncIR (blocks are numbered by position; entry = 0).

    `keepalive` (from the pre-refcount hook): the `KeepAlive(steal=True)` ops that the refcount pass consumed
    and stripped.  Their effect (the listed values give up one reference, e.g. a tuple whose items were taken
    over by `Unborrow`) is not visible in the final ops any more, so it is attached to the neighbouring op
    that survived: `ka_steal_before` (the op that followed the KeepAlive) or `ka_steal_after` (the op that
    preceded it).  `keepalive_lost` is set when neither anchor / a stolen value cannot be found any more."""
    num = _Numbering(fn)
    labels = {b: i for i, b in enumerate(fn.blocks)}
    args = []
    try:
        sig_args = list(fn.decl.sig.args)
    except Exception:
        sig_args = []
    for i, r in enumerate(fn.arg_regs):
        ra = sig_args[i] if i < len(sig_args) else None
        args.append({"v": num.get(r), "name": r.name, "optional": bool(ra.optional) if ra is not None else False,
                     "pos_only": bool(getattr(ra, "pos_only", False)) if ra is not None else False})
    blocks = []
    for b in fn.blocks:
        eh = labels.get(b.error_handler) if b.error_handler is not None else None
        blocks.append({"label": labels[b], "error_handler": eh,
                       "ops": [export_op(op, num, labels) for op in b.ops]})
    lost = keepalive == "error"
    if keepalive and not lost:
        steals, single_assign = keepalive
        where = {}
        present = set()
        for bi, b in enumerate(fn.blocks):
            for oi, op in enumerate(b.ops):
                where[id(op)] = (bi, oi)
                present.add(id(op))
                for sv in op.sources():
                    present.add(id(sv))
                if hasattr(op, "dest"):
                    present.add(id(op.dest))
        for srcs, prev, nxt in steals:
            ids = []
            for v in srcs:
                hops = 0
                while id(v) not in present and v in single_assign and hops < 50:
                    v = single_assign[v]
                    hops += 1
                if id(v) not in present:
                    lost = True
                    continue
                ids.append(num.get(v))
            if nxt is not None and id(nxt) in where:
                bi, oi = where[id(nxt)]
                blocks[bi]["ops"][oi].setdefault("ka_steal_before", []).extend(ids)
            elif prev is not None and id(prev) in where:
                bi, oi = where[id(prev)]
                blocks[bi]["ops"][oi].setdefault("ka_steal_after", []).extend(ids)
            else:
                lost = True
    return {
        "keepalive_lost": lost,
        "module": module, "name": fn.name, "class_name": fn.class_name, "fullname": fn.fullname,
        "shortname": fn.decl.shortname, "line": fn.line, "kind": int(fn.decl.kind),
        "is_generator": bool(getattr(fn.decl, "is_generator", False)),
        "is_coroutine": bool(getattr(fn.decl, "is_coroutine", False)),
        "ret_type": _type_info(fn.decl.sig.ret_type),
        "args": args, "values": num.values, "blocks": blocks,
    }


def pretty(fn_dump: dict) -> str:
    """Readable rendering of a dump (for replays and evidence samples)."""
    vals = fn_dump["values"]

    def nm(i: int) -> str:
        v = vals[i]
        if v["kind"] == "int":
            return str(v["value"])
        if v["kind"] == "undef":
            return "<undef>"
        return v["name"] or f"v{i}"

    out = [f"def {fn_dump['fullname']}({', '.join(nm(a['v']) + ('?' if a['optional'] else '') for a in fn_dump['args'])}):"]
    for b in fn_dump["blocks"]:
        out.append(f"L{b['label']}:")
        for op in b["ops"]:
            c = op["op"]
            dest = (nm(op["dest"]) + " = ") if op.get("dest") is not None else ""
            extra = ""
            if c == "Branch":
                extra = f" {'not ' if op['negated'] else ''}{op['kind']} {nm(op['value'])} ? L{op['true']} : L{op['false']}"
            elif c == "Goto":
                extra = f" L{op['label']}"
            elif c == "DecRef":
                extra = " x" if op["xdec"] else ""
            elif c in ("CallC", "PrimitiveOp"):
                extra = " " + str(op.get("function"))
            elif c == "Call":
                extra = " " + op["callee"]
            elif c == "MethodCall":
                extra = " ." + op["method"]
            elif c in ("GetAttr", "SetAttr"):
                extra = " ." + op["attr"]
            elif c == "LoadAddress" and op["src_kind"] != "reg":
                extra = " " + str(op["src"])
            srcs = ", ".join(nm(s) for s in op["srcs"]) if c not in ("Branch",) else ""
            st = (" steals[" + ", ".join(nm(s) for s in op["stolen"]) + "]") if op["stolen"] else ""
            bor = " borrow" if op["borrowed"] and op.get("dest") is not None else ""
            out.append(f"    {dest}{c}{extra} ({srcs}){st}{bor}")
    return "\n".join(out)


# ----------------------------------------------------------------------------------------- compilation
class CompileFailure(Exception):
    pass


_side: dict[str, Any] | None = None     # {"pre": {id(fn): dump} | None, "keepalive": {id(fn): …}} while compiling


def _keepalive_steals(fn: Any) -> Any:
    """([(stolen values, previous surviving op, next surviving op)], {register assigned exactly once: its source})."""
    from mypyc.ir import ops as O
    steals = []
    counts: dict[Any, int] = {}
    srcs: dict[Any, Any] = {}
    for a in fn.arg_regs:
        counts[a] = 1
    for b in fn.blocks:
        ops = b.ops
        for i, op in enumerate(ops):
            if isinstance(op, O.Assign):
                counts[op.dest] = counts.get(op.dest, 0) + 1
                srcs[op.dest] = op.src
            if isinstance(op, O.KeepAlive) and op.steal:
                prev = next((o for o in reversed(ops[:i]) if not isinstance(o, O.KeepAlive)), None)
                nxt = next((o for o in ops[i + 1:] if not isinstance(o, O.KeepAlive)), None)
                steals.append((list(op.src), prev, nxt))
    return steals, {r: v for r, v in srcs.items() if counts.get(r) == 1}


def _install_pre_hook() -> None:
    """Wrap `insert_ref_count_opcodes` as seen by compile_scc_to_ir so that the IR entering it is dumped."""
    import mypyc.codegen.emitmodule as em
    if getattr(em.insert_ref_count_opcodes, "_verif_wrapped", False):
        return
    real = em.insert_ref_count_opcodes

    def wrapper(fn: Any) -> None:
        if _side is not None:
            if _side["pre"] is not None:
                try:
                    _side["pre"][id(fn)] = export_func(fn)
                except Exception as e:  # an op the exporter cannot describe: keep going, mark it
                    _side["pre"][id(fn)] = {"export_error": f"{type(e).__name__}: {e}"}
            try:
                _side["keepalive"][id(fn)] = _keepalive_steals(fn)
            except Exception:
                _side["keepalive"][id(fn)] = "error"     # resolves to keepalive_lost
        real(fn)

    wrapper._verif_wrapped = True  # type: ignore[attr-defined]
    em.insert_ref_count_opcodes = wrapper  # type: ignore[assignment]


def fixture_lib_dir(workdir: str, repo: str = REPO) -> str:
    """Directory with `builtins.pyi` = mypyc/test-data/fixtures/ir.py (what the mypyc tests type-check against)."""
    d = os.path.join(workdir, "_fixture_lib")
    if not os.path.isdir(d):
        os.makedirs(d)
        shutil.copyfile(os.path.join(repo, "mypyc", "test-data", "fixtures", "ir.py"), os.path.join(d, "builtins.pyi"))
    return d


def compile_to_ir(files: dict[str, str], compiled: list[str], workdir: str, *, fixtures: bool = True,
                  want_pre: bool = True, repo: str = REPO, cache_dir: str | None = None) -> tuple[Any, dict[str, Any]]:
    """Type-check `files` (relative path -> text, written under `workdir`) and run the mypyc IR pipeline on
    the modules named in `compiled`.  Returns (ModuleIRs, side) with side = {"pre": {id(FuncIR): pre-refcount
    dump} or None, "keepalive": {id(FuncIR): consumed KeepAlive(steal) ops}}; pass both to `export_modules`.

    fixtures=True: builtins = mypyc's `fixtures/ir.py`, typing etc. from mypy's `lib-stub` (as the mypyc test
    suite does); fixtures=False: real typeshed.
    Raises CompileFailure when mypy or mypyc reports errors or mypyc bails out in any way."""
    global _side
    from mypy import build
    from mypy.errors import CompileError
    from mypy.options import Options
    from mypyc.codegen.emitmodule import compile_modules_to_ir
    from mypyc.errors import Errors
    from mypyc.irbuild.mapper import Mapper
    from mypyc.options import CompilerOptions

    os.makedirs(workdir, exist_ok=True)
    for rel, text in files.items():
        p = os.path.join(workdir, rel)
        os.makedirs(os.path.dirname(p), exist_ok=True)
        with open(p, "w", encoding="utf-8") as f:
            f.write(text)
    tu = os.path.join(repo, "mypyc", "test-data", "fixtures", "testutil.py")
    if "testutil.py" not in files and os.path.exists(tu):
        shutil.copyfile(tu, os.path.join(workdir, "testutil.py"))

    o = Options()
    o.show_traceback = True
    o.strict_optional = True
    o.strict_bytes = True
    o.disable_bytearray_promotion = True
    o.disable_memoryview_promotion = True
    o.python_version = sys.version_info[:2]
    o.export_types = True
    o.preserve_asts = True
    o.allow_empty_bodies = True
    o.check_untyped_defs = True
    o.per_module_options["unchecked.*"] = {"follow_imports": "error"}
    o.per_module_options["skipped"] = {"follow_imports": "skip"}
    o.per_module_options["skipped.*"] = {"follow_imports": "skip"}
    o.mypy_path = [workdir]
    if cache_dir is None:
        o.incremental = False
        o.cache_dir = os.devnull
    else:
        o.incremental = True
        o.cache_dir = cache_dir
    alt = None
    if fixtures:
        o.use_builtins_fixtures = True
        alt = fixture_lib_dir(os.path.dirname(workdir.rstrip("/")) or workdir, repo)
    sources = []
    for m in compiled:
        rel = m.replace(".", "/") + ".py"
        if rel not in files:
            rel = m.replace(".", "/") + "/__init__.py"
        sources.append(build.BuildSource(os.path.join(workdir, rel), m, None))
        o.per_module_options.setdefault(m, {})["mypyc"] = True
    _install_pre_hook()
    side: dict[str, Any] = {"pre": {} if want_pre else None, "keepalive": {}}
    _side = side
    cwd = os.getcwd()
    result = None
    try:
        os.chdir(workdir)
        try:
            result = build.build(sources=sources, options=o, alt_lib_path=alt)
            if result.errors:
                raise CompileFailure("mypy: " + "; ".join(result.errors[:3]))
            errors = Errors(o)
            mods = compile_modules_to_ir(result, Mapper({m: None for m in compiled}),
                                         CompilerOptions(capi_version=sys.version_info[:2]), errors)
            if errors.num_errors:
                raise CompileFailure("mypyc: " + "; ".join(errors.new_messages()[:3]))
        except CompileFailure:
            raise
        except CompileError as e:
            raise CompileFailure("mypy: " + "; ".join(e.messages[:3]))
        except BaseException as e:  # noqa: BLE001 — mypyc may sys.exit / assert on odd inputs
            if isinstance(e, KeyboardInterrupt):
                raise
            raise CompileFailure(f"{type(e).__name__}: {str(e)[:200]}")
        return mods, side
    finally:
        os.chdir(cwd)
        _side = None
        if result is not None:
            try:
                result.manager.metastore.close()
            except Exception:
                pass


def compile_case(case: Case, workdir: str, **kw: Any) -> tuple[Any, dict[str, Any]]:
    """Compile one test-data case the way test_run.py does: `native` + `other*` modules."""
    files = {"native.py": case.main}
    compiled = ["native"]
    for fn, text in case.files.items():
        if fn.startswith("tmp/"):
            fn = fn[4:]
        if not (fn.endswith(".py") or fn.endswith(".pyi")):
            continue
        if fn in ("driver.py", "native.py"):
            if fn == "driver.py":
                continue
        files[fn] = text
        base = os.path.basename(fn)
        if base.startswith("other") and fn.endswith(".py") and "/" not in fn:
            compiled.append(fn[:-3])
        elif fn.endswith("__init__.py") and os.path.basename(os.path.dirname(fn)).startswith("other"):
            compiled.append(os.path.dirname(fn).replace("/", "."))
    return compile_to_ir(files, compiled, workdir, **kw)


def export_modules(mods: Any, side: dict[str, Any]) -> list[dict]:
    """[{module, function dumps: final + pre}] for every FuncIR of every compiled module."""
    pre = side.get("pre") or {}
    keepalives = side.get("keepalive") or {}
    out = []
    for mname, m in mods.items():
        for fn in m.functions:
            rec: dict[str, Any] = {"module": mname, "fullname": fn.fullname}
            try:
                rec["final"] = export_func(fn, mname, keepalives.get(id(fn)))
            except Exception as e:
                rec["final"] = {"export_error": f"{type(e).__name__}: {e}", "fullname": fn.fullname}
            p = pre.get(id(fn))
            if p is not None:
                p["module"] = mname
            rec["pre"] = p
            out.append(rec)
    return out


def main() -> int:
    """Self-test (translator round trip): a fixed snippet must export, and a mutated snippet must change the dump."""
    import json
    import tempfile
    a = "def f(x: list[int]) -> int:\n    s = 0\n    for y in x:\n        s += y\n    return s\n"
    b = a.replace("s += y", "s -= y")
    base = os.environ.get("VERIF_SCRATCH", "/var/tmp")
    d = tempfile.mkdtemp(prefix="verif-irexport-", dir=base)
    try:
        r = []
        for i, src in enumerate((a, b)):
            mods, pre = compile_to_ir({"native.py": src}, ["native"], os.path.join(d, f"w{i}"))
            r.append(export_modules(mods, pre))
        fa = [x for x in r[0] if x["fullname"].endswith("f")][0]
        fb = [x for x in r[1] if x["fullname"].endswith("f")][0]
        assert fa["pre"] is not None and fa["final"]["blocks"], "no dump"
        assert any(op["op"] in ("IncRef", "DecRef") for blk in fa["final"]["blocks"] for op in blk["ops"])
        assert not any(op["op"] in ("IncRef", "DecRef") for blk in fa["pre"]["blocks"] for op in blk["ops"])
        assert json.dumps(fa["final"]) != json.dumps(fb["final"]), "mutated snippet gave the same dump"
        print(f"ir_export self-test ok: {len(r[0])} functions, f has {len(fa['final']['blocks'])} blocks")
    finally:
        shutil.rmtree(d, ignore_errors=True)
    return 0


if __name__ == "__main__":
    sys.exit(main())
