#!/bin/bash
# Offline setup after a fresh restore: regenerate Gen/ from /repo, build the whole Lean development.
set -e
cd "$(dirname "$0")"
export PYTHONDONTWRITEBYTECODE=1
/venv/bin/python -m translate.all
cd lean
lake build 2>&1 | tail -40
