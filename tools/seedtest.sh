#!/bin/bash
# tools/seedtest.sh <seeded-dir> <PROP> [tier]   — confirm a seeded breaking change and run the check against it
# (private worktree; /repo is never modified)
d="$(cd "$1" && pwd)"; prop="$2"; tier="${3:-quick}"
wt="/var/tmp/wt_seed_$$"
git -C /repo worktree add -q "$wt" HEAD || exit 3
trap 'git -C /repo worktree remove --force "$wt" >/dev/null 2>&1' EXIT
demo="$d/demo.py"
if [ -f "$demo" ]; then
  (cd /var/tmp && PYTHONPATH=/repo timeout 600 /venv/bin/python "$demo" >/dev/null 2>&1); echo "demo on unchanged tree: exit $?"
fi
(cd "$wt" && (git apply "$d/patch.diff" 2>/dev/null || git apply --3way "$d/patch.diff")) || { echo "patch does not apply"; exit 3; }
if [ -f "$demo" ]; then
  (cd /var/tmp && PYTHONPATH="$wt" timeout 600 /venv/bin/python "$demo" >/dev/null 2>&1); echo "demo on changed tree: exit $?"
fi
ev="/verif/evidence/$prop.json"
[ -f "$ev" ] && cp "$ev" "$ev.clean-backup"      # evidence files must come from runs against /repo itself
cd /verif && VERIF_REPO="$wt" ./check "$prop" --tier "$tier" 2>&1 | grep -E "^(VIOLATION|KNOWN-FINDING|OK|TOOL-FAILURE)|^  \(" | head -8
echo "check exit: ${PIPESTATUS[0]}"
[ -f "$ev.clean-backup" ] && mv "$ev.clean-backup" "$ev"
