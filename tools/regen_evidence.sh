#!/bin/bash
# tools/regen_evidence.sh — rewrite every evidence/<id>.json from a run of the committed checks against /repo itself
# (three lanes in parallel; per-check verdict lines go to /var/tmp/regen/<id>.log)
cd "$(dirname "$0")/.." || exit 2
mkdir -p /var/tmp/regen
lane() { for p in "$@"; do ./check "$p" > /var/tmp/regen/$p.log 2>&1; echo "$p exit $? $(grep -E '^(OK|VIOLATION|TOOL-FAILURE)' /var/tmp/regen/$p.log | head -2 | cut -c1-160)"; done; }
lane C02 C04 C07 C09 C10 C16 &
lane C03 C01 C20 C19 C05 C06 &
lane C08 C11 C12 C13 C14 C15 C17 C18 &
wait
tools/validate.py
