#!/opt/veriftools/pyvenv/bin/python
"""Validate MANIFEST.json and every evidence/*.json against the schemas in /root/.vp."""
import json, glob, sys, os, jsonschema
V = os.path.dirname(os.path.dirname(os.path.abspath(__file__)))
bad = 0
m = json.load(open(f"{V}/MANIFEST.json"))
jsonschema.validate(m, json.load(open("/root/.vp/MANIFEST.schema.json")))
es = json.load(open("/root/.vp/EVIDENCE.schema.json"))
claimed = {c["property_id"] for c in m["checks"]}
na = {x["property_id"] if isinstance(x, dict) else x for x in m.get("not_applicable", [])}
print("claimed", len(claimed), "not_applicable", sorted(na), "missing", sorted({f"C{i:02d}" for i in range(1, 21)} - claimed - na))
for p in sorted(claimed):
    f = f"{V}/evidence/{p}.json"
    try:
        e = json.load(open(f)); jsonschema.validate(e, es)
        c = e.get("coverage", {})
        note = ""
        if e.get("violations"): note += " VIOLATIONS!"
        if c.get("obligations") != c.get("discharged"): note += f" obligations {c.get('discharged')}/{c.get('obligations')}"
        print(p, "ok", e.get("tier"), "seed", e.get("seed"), e.get("level"), note)
        bad += bool(note)
    except Exception as ex:
        print(p, "INVALID", str(ex)[:200]); bad += 1
sys.exit(1 if bad else 0)
