#!/usr/bin/env python3
"""Move the entries of harness/<prop>/known_findings.json into /verif/known_findings.json (replace by
(property, id)); the slice file is left with an empty list so that a stale copy cannot suppress anything.
Usage: tools/merge_findings.py C20 [--fixed ID=COMMIT ...]"""
import json, os, sys
V = os.path.dirname(os.path.dirname(os.path.abspath(__file__)))
prop = sys.argv[1]
fixed = dict(a.split("=", 1) for a in sys.argv[3:]) if len(sys.argv) > 2 and sys.argv[2] == "--fixed" else {}
root_p = os.path.join(V, "known_findings.json")
slice_p = os.path.join(V, "harness", prop.lower(), "known_findings.json")
root = json.load(open(root_p))
sl = json.load(open(slice_p)) if os.path.exists(slice_p) else {"findings": []}
by = {(e["property"], e["id"]): i for i, e in enumerate(root["findings"])}
for e in sl.get("findings", []):
    k = (e["property"], e["id"])
    if k in by:
        root["findings"][by[k]] = e
    else:
        by[k] = len(root["findings"]); root["findings"].append(e)
for e in root["findings"]:
    if e["property"] == prop and e["id"] in fixed and e.get("kind") != "fixed":
        c = fixed[e["id"]]
        old = e.get("text", "")
        for pre in ("known: property=%s " % prop,):
            if old.startswith(pre): old = old[len(pre):]
        e["kind"] = "fixed"; e["commit"] = c
        e["was_match"] = e.pop("match", None)
        e["text"] = "fixed: property=%s %s %s" % (prop, c, old)
json.dump(root, open(root_p, "w"), indent=1, ensure_ascii=False); open(root_p, "a").write("\n")
if os.path.exists(slice_p):
    sl["findings"] = []
    json.dump(sl, open(slice_p, "w"), indent=1, ensure_ascii=False); open(slice_p, "a").write("\n")
print(prop, "entries now:", sum(1 for e in root["findings"] if e["property"] == prop),
      "fixed:", sum(1 for e in root["findings"] if e["property"] == prop and e.get("kind") == "fixed"))
