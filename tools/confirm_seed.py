#!/usr/bin/env python3
"""tools/confirm_seed.py <seed-id> <result text>  — record the lead's confirmation in seeded/<id>/meta.json"""
import json, os, sys, datetime
V = os.path.dirname(os.path.dirname(os.path.abspath(__file__)))
sid, text = sys.argv[1], sys.argv[2]
p = os.path.join(V, "seeded", sid, "meta.json")
m = json.load(open(p))
m["confirmed_by_lead"] = {"when": datetime.datetime.utcnow().strftime("%Y-%m-%d %H:%M UTC"),
                          "how": "tools/seedtest.sh (private worktree of /repo HEAD + patch; demo exit 0 on the unchanged tree, non-zero on the changed tree; ./check with VERIF_REPO)",
                          "result": text}
json.dump(m, open(p, "w"), indent=1, ensure_ascii=False)
print(sid, "recorded")
