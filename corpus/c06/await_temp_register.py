# F29: the result of the first await lives in an unspilled Register across the second await
from typing import Any

async def one(x: Any) -> Any:
    return x

async def both(a: Any, b: Any) -> Any:
    return await one(a) + await one(b)

async def assign_multi() -> Any:
    _, x = int(), await one(1)
    return x
