# F-C06d (known): a subclass overrides a non-constant class-level default: both stores in
# Derived.__mypyc_defaults_setup are initialising stores, the first value is never released
def make() -> object:
    return [1]


class Base:
    tag: object = make()


class Derived(Base):
    tag = make()
