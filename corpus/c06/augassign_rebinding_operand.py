# `obj.attr += f(obj)` where f rebinds obj.attr: the old value is read first and must stay alive until the
# addition (no borrowed read of the target across an arbitrary right operand)
class Account:
    def __init__(self, total: int, owner: object) -> None:
        self.total = total
        self.owner = owner


def replace_total(a: Account, new_total: int) -> int:
    a.total = new_total
    return 1


def add_after_replace(a: Account, new_total: int) -> int:
    a.total += replace_total(a, new_total)
    return a.total


def sub_after_replace(a: Account, new_total: int) -> int:
    a.total -= replace_total(a, new_total) + replace_total(a, new_total + 1)
    return a.total


def add_simple(a: Account, n: int) -> int:
    a.total += n
    return a.total
