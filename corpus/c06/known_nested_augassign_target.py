# F-C06c (known): `o.inner.n += swap(o, v)` — the target object `o.inner` is borrowed across the right operand
class Inner:
    def __init__(self, n: int) -> None:
        self.n = n


class Outer:
    def __init__(self, inner: Inner) -> None:
        self.inner = inner


def swap(o: Outer, new: int) -> int:
    o.inner = Inner(new)
    return 1


def bump(o: Outer, new: int) -> int:
    o.inner.n += swap(o, new)
    return o.inner.n
