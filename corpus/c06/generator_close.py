# F14 (fixed in /repo 056ac7e): close() of a generated generator class must be accepted now
from typing import Iterator

def gen(n: int) -> Iterator[int]:
    for i in range(n):
        yield i
