import gc, sys
import native

class T: pass

def balanced(f, *args, exc=()):
    objs = [a for a in args if isinstance(a, T)]
    gc.collect(); base = [sys.getrefcount(o) for o in objs]
    for _ in range(300):
        try:
            r = f(*args)
        except exc:
            pass
        r = None
    gc.collect()
    after = [sys.getrefcount(o) for o in objs]
    if after != base:
        print("PROBLEM: refcounts", base, "->", after, f.__name__, [a for a in args if not isinstance(a, T)]); sys.exit(1)

o = T()
for flag in (True, False):
    for n in (1, -1):
        balanced(native.pick, flag, o, n, exc=(UnboundLocalError,))
        for m in (1, -1):
            balanced(native.pick2, flag, o, n, m, exc=(UnboundLocalError, ValueError))
a, b = T(), T()
for n in (2, 1, 0, -1):
    for oo in (a, None):
        xs = [a, b, a]
        for _ in range(200):
            try:
                native.pick3(xs, oo, n)
            except UnboundLocalError:
                pass
print("ok")
