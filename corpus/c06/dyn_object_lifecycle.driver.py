import gc, sys
import native

class T: pass

def steady(label, f, objs, reps=400):
    gc.collect()
    base = [sys.getrefcount(o) for o in objs]
    for _ in range(reps):
        try:
            r = f()
        except native.Bad:
            pass
        r = None
    gc.collect()
    after = [sys.getrefcount(o) for o in objs]
    if after != base:
        print("PROBLEM:", label, "refcounts", base, "->", after); sys.exit(1)

a, b = T(), T()
for n in (1, -1):
    steady("compiled Holder n=%d" % n, lambda: native.build_holder(a, n), [a])
    steady("compiled Holder propagating n=%d" % n, lambda: native.build_propagating(a, n), [a])
    steady("interpreted Holder n=%d" % n, lambda: native.Holder(a, n), [a])
    steady("compiled Child n=%d" % n, lambda: native.build_child(a, n, b), [a, b])
    steady("interpreted Child n=%d" % n, lambda: native.Child(a, n, b), [a, b])
    steady("compiled TraitChild n=%d" % n, lambda: native.build_trait_child(a, n), [a])
    steady("interpreted TraitChild n=%d" % n, lambda: native.TraitChild(a, n), [a])
    steady("compiled WithDefault n=%d" % n, lambda: native.build_with_default(a, n), [a])
    steady("interpreted WithDefault n=%d" % n, lambda: native.WithDefault(a, n), [a])
    log = []
    steady("compiled WithDel n=%d" % n, lambda: native.build_with_del(a, log, n), [a], reps=200)
    if len(log) != 200:
        print("PROBLEM: __del__ ran", len(log), "times for 200 constructions (n=%d)" % n); sys.exit(1)
    log2 = []
    steady("interpreted WithDel n=%d" % n, lambda: native.WithDel(a, log2, n), [a], reps=200)
    if len(log2) != 200:
        print("PROBLEM: __del__ ran", len(log2), "times for 200 interpreted constructions (n=%d)" % n); sys.exit(1)
print("ok")
