import sys
import native
BIG = 1 << 80
o = object()
for i in range(1500):
    old = BIG * 3 + i
    a = native.Account(int(str(old)), o)
    got = native.add_after_replace(a, BIG * 7 + i)
    if got != old + 1:
        print("PROBLEM: wrong result"); sys.exit(1)
    a = native.Account(int(str(old)), o)
    got = native.sub_after_replace(a, BIG * 9 + i)
    if got != old - 2:
        print("PROBLEM: wrong result (sub)"); sys.exit(1)
    if native.add_simple(a, BIG) != old - 2 + BIG:
        print("PROBLEM: wrong sum"); sys.exit(1)
print("ok")
