# F14: close() of a generated generator class uses a possibly-NULL `GeneratorExit` lookup
from typing import Iterator

def gen(n: int) -> Iterator[int]:
    for i in range(n):
        yield i
