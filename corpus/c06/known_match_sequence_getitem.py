# F-C06f (known): a sequence pattern reads the items with PySequence_GetItem, declared error_kind=ERR_NEVER
from typing import Any


def first(x: Any) -> Any:
    match x:
        case [a, b]:
            return a
        case _:
            return None
