# object lifecycle (always compiled and driven): constructors / defaults that raise for some input, from compiled and
# from interpreted code; __del__; inheritance and traits; what a failed construction must give back
from typing import List, Optional
from mypy_extensions import trait


class Bad(Exception):
    pass


def check(n: int) -> int:
    if n < 0:
        raise Bad(n)
    return n


class Holder:
    def __init__(self, item: object, n: int) -> None:
        self.item = item
        self.items = [item, item]
        self.n = check(n)


class Child(Holder):
    def __init__(self, item: object, n: int, other: object) -> None:
        self.other = other
        super().__init__(item, n)
        self.late = [other]


@trait
class Named:
    def name(self) -> str:
        return "named"


class TraitChild(Holder, Named):
    def __init__(self, item: object, n: int) -> None:
        super().__init__(item, n + 0)
        self.tag: object = item


class WithDel:
    def __init__(self, item: object, log: List[object], n: int) -> None:
        self.item = item
        self.log = log
        self.n = check(n)

    def __del__(self) -> None:
        self.log.append(1)


class WithDefault:
    stamp: int = 7

    def __init__(self, item: object, n: int) -> None:
        self.item = item
        self.n = check(n)


def build_holder(item: object, n: int) -> Optional[Holder]:
    try:
        return Holder(item, n)
    except Bad:
        return None


def build_child(item: object, n: int, other: object) -> Optional[Child]:
    try:
        return Child(item, n, other)
    except Bad:
        return None


def build_trait_child(item: object, n: int) -> Optional[TraitChild]:
    try:
        return TraitChild(item, n)
    except Bad:
        return None


def build_with_del(item: object, log: List[object], n: int) -> Optional[WithDel]:
    try:
        return WithDel(item, log, n)
    except Bad:
        return None


def build_with_default(item: object, n: int) -> Optional[WithDefault]:
    try:
        return WithDefault(item, n)
    except Bad:
        return None


def build_propagating(item: object, n: int) -> Holder:
    return Holder(item, n)
